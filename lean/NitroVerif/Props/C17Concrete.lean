import NitroVerif.Lemmas.DeterminismConcreteTs
import NitroVerif.Lemmas.DeterminismConcreteTsUnique
import NitroVerif.Lemmas.DeterminismConcreteOp
import NitroVerif.Lemmas.DeterminismConcreteDoc
import NitroVerif.Lemmas.DeterminismConcreteDecls
import NitroVerif.Lemmas.DeterminismConcreteTyRel
import NitroVerif.Lemmas.DeterminismConcreteOpDoc
import NitroVerif.Lemmas.DeterminismConcreteResolvers
import NitroVerif.Props.C11
/-!
# C17 (concrete part) — the CONCRETE checker / printer models are independent of the order of definitions

`Props/C17.lean` proves permutation invariance for an abstract checker of the shape "per-definition rules over a
lookup view". Here the same is proved of the concrete executable models that the K streams of C03/C04/C05/C09/C10/C01
compare with the real code:

* `CheckTs.checkSchema`     (`check_type_system_document`, Model/CheckTs.lean + CheckTsCommon.lean)
* `CheckOp.checkOp`         (`check_operation_document`, Model/CheckOp.lean + CheckCommon.lean)
* `SchemaDecls.schemaFile`  (schema declaration file, Model/SchemaDecls.lean)
* `ResolverDecls.resolversFile` (resolvers declaration file; K stream of C10)
* `OpTypes.implTree`/`toTs`/`opDecls` (operation result types, Model/OpTypes.lean; K streams of C01/C02)

Property theorems only; helper lemmas are in `Lemmas/DeterminismConcrete*.lean`.

Hypotheses (`NoDupTypeNames`, `NoDupDirectiveNames`, at most one schema definition, `BuiltinsApart`,
`KeepsDirectiveOrder`, `KeepsImplOrder`, `NoDupOpNames`, `NoDupFragNames`, `KeepsExtOrder`) are stated per theorem and are
not discharged here. A permutation is a permutation of the LIST of definitions, each carrying its recorded positions.
OPEN — carried by K/O only: see the block at the end of `Props/C17.lean` (model = code, the real CLI under permuted
source files, re-positioning of moved definitions, `additional_info` / message text of diagnostics).
-/
namespace NitroVerif.Determinism
open NitroVerif.Gql

/-! ## 1. the type-system checker -/

/-- **The concrete type-system checker is order-independent.** For a (resolved) type-system document whose type
    names are pairwise distinct and whose directive names are pairwise distinct, every permutation of the definitions
    yields the same MULTISET of diagnostics (kind and position), each definition's diagnostics staying in their
    relative order; in particular the verdict is the same. No rule is order-sensitive under these hypotheses: the
    checker reads the rest of the document only through by-name lookups (first-wins `Schema`, last-wins
    `DefinitionMap`) and the number of definitions. -/
theorem C17_checkTs_perm {T T' : TsDoc} (h : T.Perm T') (ndt : NoDupTypeNames T) (ndd : NoDupDirectiveNames T) :
    (CheckTs.checkSchema T).Perm (CheckTs.checkSchema T') ∧
    (CheckTs.checkSchema T).isEmpty = (CheckTs.checkSchema T').isEmpty := by
  have hp : (CheckTs.checkSchema T).Perm (CheckTs.checkSchema T') := checkSchema_perm h ndt ndd
  refine ⟨hp, ?_⟩
  rw [Bool.eq_iff_iff, List.isEmpty_iff, List.isEmpty_iff]
  exact ⟨fun e => by rw [e] at hp; exact hp.symm.eq_nil, fun e => by rw [e] at hp; exact hp.eq_nil⟩

/-- **The VERDICT of the type-system checker does not depend on the order of the definitions — no hypothesis on the
    user's names** (since fix 8cdbacf, `check_unique_names`). For every permutation `T'` of a resolved document `T`:
    `T` is accepted iff `T'` is. If a type name is defined twice (across kinds, or a user type takes the name of a
    built-in type) or a directive name is defined twice by the user, BOTH orders are rejected (`DuplicatedName`, at
    whichever user definition comes later / clashes with the built-in); otherwise all names are distinct and
    `C17_checkTs_perm` applies. The only hypothesis (`BuiltinsApart`, decidable, invariant under permutation) is about
    the part of the document the CLI adds: the built-in-position definitions do not repeat a name among themselves,
    and no user directive definition re-declares a built-in directive — that re-declaration is allowed by the code,
    and with it the statement is false (`C17_checkTs_redeclared_builtin_counterexample`). -/
theorem C17_checkTs_verdict {T T' : TsDoc} (h : T.Perm T') (hb : BuiltinsApart T) :
    CheckTs.checkSchema T = [] ↔ CheckTs.checkSchema T' = [] :=
  ⟨checkSchema_nil_perm h hb, checkSchema_nil_perm h.symm (hb.perm h)⟩

/-- the hypothesis of `C17_checkTs_verdict` holds of documents with repeated user names (both orders rejected) and
    with built-in-position definitions -/
example :
    let T : TsDoc := [.typeDef { kind := .object, name := "A", namePos := { line := 1 } },
                      .typeDef { kind := .input, name := "A", namePos := { line := 2 } },
                      .directiveDef { name := "d", namePos := { line := 3 } },
                      .directiveDef { name := "d", namePos := { line := 4 } },
                      .typeDef { kind := .scalar, name := "Int", namePos := { builtin := true } },
                      .directiveDef { name := "skip", namePos := { builtin := true } }]
    BuiltinsApart T ∧ CheckTs.checkSchema T ≠ [] ∧ CheckTs.checkSchema T.reverse ≠ [] := by
  refine ⟨by decide, by decide, by decide⟩

/-- **Re-declared built-in directives: the verdict depends on whether the built-in definition comes first.**
    `directive @deprecated on OBJECT` (user) next to the built-in `@deprecated on FIELD_DEFINITION | …` and
    `type Q @deprecated { f: Int }`: `check_unique_names` reports nothing in either order (re-declaring a built-in
    directive is allowed); with the user's definition first the `Schema` (first definition wins) has the user's and
    the application at OBJECT is fine, with the built-in first it is `DirectiveLocationNotAllowed`. In the pipeline the
    built-ins are appended after the user's definitions and the resolver keeps directive definitions in order, so
    reordering SOURCE text never produces the second order. -/
theorem C17_checkTs_redeclared_builtin_counterexample :
    ∃ T T' : TsDoc, T.Perm T' ∧ NoDupTypeNames T ∧ CheckTs.checkUniqueNames T = [] ∧ CheckTs.checkUniqueNames T' = [] ∧
      CheckTs.checkSchema T = [] ∧ CheckTs.checkSchema T' = [(.DirectiveLocationNotAllowed, { line := 3, col := 8 })] ∧
      ¬ BuiltinsApart T :=
  ⟨[.directiveDef { name := "deprecated", namePos := { line := 1 }, locations := ["OBJECT"] },
    .directiveDef { name := "deprecated", namePos := { builtin := true }, locations := ["FIELD_DEFINITION"] },
    .typeDef { kind := .object, name := "Q", dirs := [{ name := "deprecated", pos := { line := 3, col := 8 } }] }],
   [.directiveDef { name := "deprecated", namePos := { builtin := true }, locations := ["FIELD_DEFINITION"] },
    .directiveDef { name := "deprecated", namePos := { line := 1 }, locations := ["OBJECT"] },
    .typeDef { kind := .object, name := "Q", dirs := [{ name := "deprecated", pos := { line := 3, col := 8 } }] }],
   List.Perm.swap _ _ _, by unfold NoDupTypeNames; decide, by decide, by decide, by decide, by decide, by decide⟩

/-- …and the diagnostics of each single definition are literally the same list in both orders (so only the
    interleaving of the per-definition groups changes). -/
theorem C17_checkTs_item_perm {T T' : TsDoc} (h : T.Perm T') (ndt : NoDupTypeNames T) (ndd : NoDupDirectiveNames T)
    (x : TsItem) : CheckTs.checkItem T ⟨T⟩ x = CheckTs.checkItem T' ⟨T'⟩ x :=
  congrFun (checkItem_perm h ndt ndd) x

/-- the hypotheses are satisfiable by a document that has diagnostics: `type Q implements Node { id: Missing }`
    next to `interface Node { id: ID }` and a directive definition, in two orders -/
example :
    let node : TypeDef := { kind := .interface, name := "Node", fields := [{ name := "id", ty := .named "ID" {} }] }
    let q : TypeDef := { kind := .object, name := "Q", implements := [("Node", {})],
                         fields := [{ name := "id", ty := .named "Missing" { line := 3 } }] }
    let d : DirectiveDef := { name := "d", locations := ["OBJECT"] }
    let T : TsDoc := [.typeDef node, .typeDef q, .directiveDef d]
    let T' : TsDoc := [.directiveDef d, .typeDef q, .typeDef node]
    T.Perm T' ∧ NoDupTypeNames T ∧ NoDupDirectiveNames T ∧ CheckTs.checkSchema T ≠ [] := by
  refine ⟨?_, by unfold NoDupTypeNames; decide, by unfold NoDupDirectiveNames; decide, by decide⟩
  exact (List.Perm.swap _ _ _).trans ((List.Perm.cons _ (List.Perm.swap _ _ _)).trans (List.Perm.swap _ _ _))

/-- **… and WITH re-declared built-in directives the verdict is the same for every permutation that keeps, for each
    directive name, the relative order of its definitions** (`KeepsDirectiveOrder`; any movement of type and schema
    definitions, of directive definitions of different names, across each other). This is what reordering source
    text does to a schema that re-declares `@deprecated`: the CLI appends the built-ins after all user files and the
    extension resolver emits directive definitions in that order, so the user's definition stays in front. Only
    hypothesis besides: the built-in-position TYPE definitions are pairwise distinct. (Two USER definitions of one
    directive swapped are covered by `C17_checkTs_verdict`: rejected in both orders.) -/
theorem C17_checkTs_verdict_keepsDirectiveOrder {T T' : TsDoc} (h : T.Perm T') (hk : KeepsDirectiveOrder T T')
    (hb : ValidTs.builtinTypeNamesDistinct T = true) :
    CheckTs.checkSchema T = [] ↔ CheckTs.checkSchema T' = [] :=
  ⟨checkSchema_nil_keeps h hk hb, checkSchema_nil_keeps h.symm hk.symm (builtinTypeNamesDistinct_perm h hb)⟩

/-- the hypotheses hold of the re-declaration witness above with its other definitions moved around (accepted) -/
example :
    let u : TsItem := .directiveDef { name := "deprecated", namePos := { line := 1 }, locations := ["OBJECT"] }
    let b : TsItem := .directiveDef { name := "deprecated", namePos := { builtin := true }, locations := ["FIELD_DEFINITION"] }
    let q : TsItem := .typeDef { kind := .object, name := "Q", dirs := [{ name := "deprecated" }] }
    let i : TsItem := .typeDef { kind := .scalar, name := "Int", namePos := { builtin := true } }
    let T : TsDoc := [u, b, q, i]
    let T' : TsDoc := [q, u, i, b]
    T.Perm T' ∧ KeepsDirectiveOrder T T' ∧ ValidTs.builtinTypeNamesDistinct T = true ∧ ¬ BuiltinsApart T ∧
      CheckTs.checkSchema T = [] := by
  refine ⟨?_, fun _ => rfl, by decide, by decide, by decide⟩
  exact ((List.Perm.cons _ (List.Perm.swap _ _ _)).trans (List.Perm.swap _ _ _)).trans
    (List.Perm.cons _ (List.Perm.cons _ (List.Perm.swap _ _ _)))

/-- **Pre-repair witness (directives), the defect fix 8cdbacf repairs.** `resolve_schema_extensions` lets two
    definitions of the same directive through (`dupOriginal? = none`); the `Schema` the checker consults keeps the
    FIRST one, so for the per-definition rules ALONE (`checkSchemaItems` = all that `check_type_system_document` did
    before the fix) swapping them changes the verdict: `directive @d on SCALAR  directive @d on OBJECT  scalar X @d`
    passes, the same document with the two directive definitions swapped gets `DirectiveLocationNotAllowed`.
    (Replayed on the pre-fix CLI: `check` exited 0 for the first order and reported 3:10 "Directive 'd' is not
    allowed for this location" for the second; seeded/C17/prefix-8cdbacf re-creates it.) With `check_unique_names`
    BOTH orders are rejected: `DuplicatedName` at the second definition (`C17_checkTs_verdict`). -/
theorem C17_checkTs_duplicate_directive_prerepair :
    ∃ T T' : TsDoc, T.Perm T' ∧ NoDupTypeNames T ∧ CheckTs.dupOriginal? T = none ∧ CheckTs.dupOriginal? T' = none ∧
      CheckTs.checkSchemaItems T = [] ∧
      CheckTs.checkSchemaItems T' = [(.DirectiveLocationNotAllowed, { line := 3, col := 10 })] ∧
      CheckTs.checkSchema T = [(.DuplicatedName, { line := 2, col := 11 })] ∧
      CheckTs.checkSchema T' = [(.DuplicatedName, { line := 1, col := 11 }),
                                (.DirectiveLocationNotAllowed, { line := 3, col := 10 })] :=
  ⟨[.directiveDef { name := "d", namePos := { line := 1, col := 11 }, locations := ["SCALAR"], pos := { line := 1 } },
    .directiveDef { name := "d", namePos := { line := 2, col := 11 }, locations := ["OBJECT"], pos := { line := 2 } },
    .typeDef { kind := .scalar, name := "X", dirs := [{ name := "d", pos := { line := 3, col := 10 } }] }],
   [.directiveDef { name := "d", namePos := { line := 2, col := 11 }, locations := ["OBJECT"], pos := { line := 2 } },
    .directiveDef { name := "d", namePos := { line := 1, col := 11 }, locations := ["SCALAR"], pos := { line := 1 } },
    .typeDef { kind := .scalar, name := "X", dirs := [{ name := "d", pos := { line := 3, col := 10 } }] }],
   List.Perm.swap _ _ _, by unfold NoDupTypeNames; decide, by decide, by decide, by decide, by decide, by decide,
   by decide⟩

/-- **Pre-repair witness (types) — for the per-definition rules taken in isolation.** Two definitions of DIFFERENT
    kinds may share a name after `resolve_schema_extensions` (`dupOriginal?` keys on (kind, name)); the first one wins
    in the `Schema`: `scalar A  type A { f: B }  scalar B  input I { x: A }` passes `checkSchemaItems`, with the first
    two swapped `I.x` gets `NoOutputType`. (In the pipeline the checker only sees the resolver's output, which lists
    the definitions grouped by kind — scalars before objects — whatever the source order; so THIS dependence could not
    be triggered by reordering source text, unlike the directive one above.) With `check_unique_names` both orders are
    rejected with `DuplicatedName` at the second definition of `A`. -/
theorem C17_checkTs_duplicate_type_prerepair :
    ∃ T T' : TsDoc, T.Perm T' ∧ NoDupDirectiveNames T ∧ CheckTs.dupOriginal? T = none ∧
      CheckTs.dupOriginal? T' = none ∧
      CheckTs.checkSchemaItems T = [] ∧ CheckTs.checkSchemaItems T' = [(.NoOutputType, { line := 4, col := 14 })] ∧
      CheckTs.checkSchema T = [(.DuplicatedName, { line := 2 })] ∧
      CheckTs.checkSchema T' = [(.DuplicatedName, { line := 1 }), (.NoOutputType, { line := 4, col := 14 })] :=
  ⟨[.typeDef { kind := .scalar, name := "A", namePos := { line := 1 } },
    .typeDef { kind := .object, name := "A", namePos := { line := 2 }, fields := [{ name := "f", ty := .named "B" {} }] },
    .typeDef { kind := .scalar, name := "B" },
    .typeDef { kind := .input, name := "I", inputs := [{ name := "x", ty := .named "A" { line := 4, col := 14 } }] }],
   [.typeDef { kind := .object, name := "A", namePos := { line := 2 }, fields := [{ name := "f", ty := .named "B" {} }] },
    .typeDef { kind := .scalar, name := "A", namePos := { line := 1 } },
    .typeDef { kind := .scalar, name := "B" },
    .typeDef { kind := .input, name := "I", inputs := [{ name := "x", ty := .named "A" { line := 4, col := 14 } }] }],
   List.Perm.swap _ _ _, by unfold NoDupDirectiveNames; decide, by decide, by decide, by decide, by decide, by decide,
   by decide⟩

/-! ## 2. the operation checker: reordering the SCHEMA -/

/-- **The concrete operation checker does not see the order of the schema's definitions.** For a resolved schema
    with pairwise distinct type names, pairwise distinct directive names and at most one `schema { … }` definition,
    `check_operation_document` returns literally the same list of diagnostics (same kinds, positions, order) for
    every permutation of the schema's definitions and every executable document `D`. In particular the
    interface-inside-interface applicability test (`type_names.any(...)`: SOME object type implements both) is a set
    question; `possibleTypes`/implementer ORDER never reaches a diagnostic. -/
theorem C17_checkOp_schema_perm {T T' : TsDoc} (h : T.Perm T') (ndt : NoDupTypeNames T) (ndd : NoDupDirectiveNames T)
    (one : (Schema.mk T).schemaDefs.length ≤ 1) (D : Doc) :
    CheckOp.checkOp ⟨T⟩ D = CheckOp.checkOp ⟨T'⟩ D :=
  checkOp_schema_congr (sameSchema_of_perm h ndt ndd one) D

/-- the hypotheses are satisfiable on a case that exercises the interface × interface rule: `... on J` inside an
    `I`-typed selection where only the LATER implementer `B` of `I` implements `J` (accepted in both orders) -/
example :
    let q : TypeDef := { kind := .object, name := "Query", fields := [{ name := "i", ty := .named "I" {} }] }
    let i : TypeDef := { kind := .interface, name := "I" }
    let j : TypeDef := { kind := .interface, name := "J" }
    let a : TypeDef := { kind := .object, name := "A", implements := [("I", {})] }
    let b : TypeDef := { kind := .object, name := "B", implements := [("I", {}), ("J", {})] }
    let T : TsDoc := [.typeDef q, .typeDef i, .typeDef j, .typeDef a, .typeDef b]
    let T' : TsDoc := [.typeDef b, .typeDef q, .typeDef i, .typeDef j, .typeDef a]
    let D : Doc := [.op { kind := .query, sel := [.field none "i" {} [] [] (some
      [.inline (some ("J", {})) [] [.field none "__typename" {} [] [] none] {}])] }]
    NoDupTypeNames T ∧ NoDupDirectiveNames T ∧ (Schema.mk T).schemaDefs.length ≤ 1 ∧ T ≠ T' ∧
      CheckOp.checkOp ⟨T⟩ D = CheckOp.checkOp ⟨T'⟩ D := by
  refine ⟨by unfold NoDupTypeNames; decide, by unfold NoDupDirectiveNames; decide, by decide, ?_, by decide⟩
  intro h
  have := congrArg (fun l => l.head?.map fun | TsItem.typeDef t => t.name | _ => "") h
  simp at this

/-- **"At most one schema definition" is needed** (a second one is rejected by `resolve_schema_extensions`, so this
    is not reachable through the pipeline): the LAST `query:` entry over all schema definitions sets the root type,
    so swapping two schema definitions changes the root type the operation is checked against. -/
theorem C17_checkOp_two_schema_defs_counterexample :
    ∃ (T T' : TsDoc) (D : Doc), T.Perm T' ∧ NoDupTypeNames T ∧ NoDupDirectiveNames T ∧
      CheckOp.checkOp ⟨T⟩ D = [] ∧ CheckOp.checkOp ⟨T'⟩ D = [(.FieldNotFound, { line := 1, col := 3 })] :=
  ⟨[.schemaDef { roots := [(.query, "A", {})] }, .schemaDef { roots := [(.query, "B", {})] },
    .typeDef { kind := .object, name := "A" },
    .typeDef { kind := .object, name := "B", fields := [{ name := "x", ty := .named "X" {} }] },
    .typeDef { kind := .scalar, name := "X" }],
   [.schemaDef { roots := [(.query, "B", {})] }, .schemaDef { roots := [(.query, "A", {})] },
    .typeDef { kind := .object, name := "A" },
    .typeDef { kind := .object, name := "B", fields := [{ name := "x", ty := .named "X" {} }] },
    .typeDef { kind := .scalar, name := "X" }],
   [.op { kind := .query, sel := [.field none "x" { line := 1, col := 3 } [] [] none] }],
   List.Perm.swap _ _ _, by unfold NoDupTypeNames; decide, by unfold NoDupDirectiveNames; decide,
   by decide, by decide⟩

/-! ## 4. the operation checker: reordering the definitions of the executable document -/

/-- **Reordering the definitions of an executable document permutes its diagnostics.** For a document whose
    fragment names are pairwise distinct and whose NAMED operations have pairwise distinct names (any number of
    anonymous operations, any imports), every permutation of the definitions yields the same multiset of diagnostics
    (each definition's diagnostics staying together and in order); fragments are found by name, the "used by an
    operation" test is a set question, and the lone-anonymous-operation rule counts operations. Any schema `S`. -/
theorem C17_checkOp_doc_perm (S : Schema) {D D' : Doc} (h : D.Perm D') (ndo : NoDupOpNames D)
    (ndf : NoDupFragNames D) : (CheckOp.checkOp S D).Perm (CheckOp.checkOp S D') := by
  unfold CheckOp.checkOp
  rw [checkDefs_eq_flatMap S D _ [] D (by simpa using ndo) (by simpa using ndf),
    checkDefs_eq_flatMap S D' _ [] D' (by simpa using ndo.perm h) (by simpa using ndf.perm h),
    (opsOf_perm h).length_eq,
    show (fun d => CheckOp.defHeader (CheckOp.opsOf D').length [] d ++ CheckOp.defBody S D d) =
      (fun d => CheckOp.defHeader (CheckOp.opsOf D').length [] d ++ CheckOp.defBody S D' d) from
      funext fun d => by rw [defBody_doc_congr (sameDoc_of_perm h ndf)]]
  exact h.flatMap_right _

/-- **The verdict of the operation checker never depends on the order of the document's definitions** — no side
    condition: if names repeat, BOTH orders are rejected (the duplicate-name rule fires on whichever comes second);
    otherwise the diagnostics are permuted. -/
theorem C17_checkOp_doc_verdict (S : Schema) {D D' : Doc} (h : D.Perm D') :
    (CheckOp.checkOp S D).isEmpty = (CheckOp.checkOp S D').isEmpty := by
  rw [Bool.eq_iff_iff, List.isEmpty_iff, List.isEmpty_iff]
  by_cases hn : NoDupOpNames D ∧ NoDupFragNames D
  · have hp := C17_checkOp_doc_perm S h hn.1 hn.2
    exact ⟨fun e => by rw [e] at hp; exact hp.symm.eq_nil, fun e => by rw [e] at hp; exact hp.eq_nil⟩
  · have hn' : ¬ (NoDupOpNames D' ∧ NoDupFragNames D') := fun hh => hn ⟨hh.1.perm h.symm, hh.2.perm h.symm⟩
    have e1 : CheckOp.checkOp S D ≠ [] :=
      checkDefs_ne_nil_of_dup S D _ [] D ⟨List.nodup_nil, List.nodup_nil⟩ (by simpa using hn)
    have e2 : CheckOp.checkOp S D' ≠ [] :=
      checkDefs_ne_nil_of_dup S D' _ [] D' ⟨List.nodup_nil, List.nodup_nil⟩ (by simpa using hn')
    exact ⟨fun e => absurd e e1, fun e => absurd e e2⟩

/-- the hypotheses of `C17_checkOp_doc_perm` are satisfiable by a document with an operation that spreads a
    fragment defined AFTER it, a second fragment nobody uses, and diagnostics (no schema at all: unknown types) -/
example :
    let o : ExecDef := .op { kind := .query, name := some ("Q", {}), sel := [.spread "F" {} [] {}] }
    let f : ExecDef := .frag { name := "F", cond := "Query", sel := [.field none "x" {} [] [] none] }
    let g : ExecDef := .frag { name := "G", cond := "Query", sel := [.spread "F" {} [] {}] }
    let D : Doc := [o, f, g]
    let D' : Doc := [g, f, o]
    D.Perm D' ∧ NoDupOpNames D ∧ NoDupFragNames D ∧ CheckOp.checkOp ⟨[]⟩ D ≠ [] := by
  refine ⟨?_, by unfold NoDupOpNames; decide, by unfold NoDupFragNames; decide, by decide⟩
  exact (List.Perm.swap _ _ _).trans ((List.Perm.cons _ (List.Perm.swap _ _ _)).trans (List.Perm.swap _ _ _))

/-- **Distinct names are needed for the multiset statement**: with a repeated fragment name the duplicate-name
    diagnostic is anchored at whichever definition comes second, so the two orders report different positions
    (both are rejected, `C17_checkOp_doc_verdict`). -/
theorem C17_checkOp_doc_duplicate_counterexample :
    ∃ (S : Schema) (D D' : Doc), D.Perm D' ∧ NoDupOpNames D ∧
      ¬ (CheckOp.checkOp S D).Perm (CheckOp.checkOp S D') :=
  ⟨⟨[.typeDef { kind := .object, name := "A" }]⟩,
   [.frag { name := "F", namePos := { line := 1 }, cond := "A", sel := [] },
    .frag { name := "F", namePos := { line := 2 }, cond := "A", sel := [] }],
   [.frag { name := "F", namePos := { line := 2 }, cond := "A", sel := [] },
    .frag { name := "F", namePos := { line := 1 }, cond := "A", sel := [] }],
   List.Perm.swap _ _ _, by unfold NoDupOpNames; decide, by decide⟩

/-! ## 3a. the schema declaration file -/

open NitroVerif.DeterminismDecls in
/-- **The schema declaration file of a reordered schema is the same file up to order.** For a resolved schema with
    pairwise distinct type names and at most one `schema { … }` definition, and any configuration `c`: if the
    printer succeeds on `T` it succeeds on every permutation `T'`, and the two files are `DeclFileEquiv`
    (`Lemmas/DeterminismConcreteDecls.lean`): the same prelude with the `__nitrogql_schema` metadata object up to the
    order of its fields; the same four namespaces in the same order, each consisting of the same per-definition blocks
    (doc comment + alias + `export type {…}`) up to the order of the blocks and — for interface aliases — the order of
    the union members; the same representative blocks up to their order. Local names (`__tmp_X` renaming), scalar
    mappings and every other alias body are literally equal. If the printer fails on `T` (a scalar without a
    TypeScript type) it fails on `T'`. -/
theorem C17_decls_perm {T T' : TsDoc} (c : DeclCfg.Cfg) (h : T.Perm T') (nd : NoDupTypeNames T)
    (one : (Schema.mk T).schemaDefs.length ≤ 1) :
    (∀ f, SchemaDecls.schemaFile c T = .ok f → ∃ f', SchemaDecls.schemaFile c T' = .ok f' ∧ DeclFileEquiv f f') ∧
    (∀ e, SchemaDecls.schemaFile c T = .error e → ∃ e', SchemaDecls.schemaFile c T' = .error e') := by
  by_cases hok : AllOk c T DeclCfg.Target.all
  · obtain ⟨f, f', h1, h2, he⟩ := schemaFile_perm_ok c h nd one hok
    refine ⟨fun g hg => ?_, fun e he' => ?_⟩
    · rw [h1] at hg
      cases hg
      exact ⟨f', h2, he⟩
    · rw [h1] at he'
      cases he'
  · have hok' : ¬ AllOk c T' DeclCfg.Target.all := fun hh => hok fun t ht =>
      okAt_perm c h.symm (nd.perm h) t (hh t ht)
    obtain ⟨e1, h1, _⟩ := schemaFile_err c T hok
    obtain ⟨e2, h2, _⟩ := schemaFile_err c T' hok'
    refine ⟨fun g hg => ?_, fun _ _ => ⟨e2, h2⟩⟩
    rw [h1] at hg
    cases hg

open NitroVerif.DeterminismDecls in
/-- the per-definition content behind `C17_decls_perm`: in every namespace, the block printed for one definition is
    the same in both orders up to the order of the members of an interface's union (`PrintRel`), and the
    representative block is literally the same -/
theorem C17_decls_block_perm {T T' : TsDoc} (c : DeclCfg.Cfg) (h : T.Perm T') (nd : NoDupTypeNames T)
    (t : DeclCfg.Target) (td : TypeDef) :
    PrintRel (SchemaDecls.printType (SchemaDecls.Ctx.new c T t) td)
      (SchemaDecls.printType (SchemaDecls.Ctx.new c T' t) td) ∧
    SchemaDecls.representative (SchemaDecls.Ctx.new c T .operationOutput) td =
      SchemaDecls.representative (SchemaDecls.Ctx.new c T' .operationOutput) td :=
  ⟨printType_perm c h nd t td, representative_perm c h td⟩

/-- the hypotheses of `C17_decls_perm` are satisfiable with a successful print: an interface with two implementers
    (so the union really is reordered) -/
example :
    let n : TypeDef := { kind := .interface, name := "Node" }
    let u : TypeDef := { kind := .object, name := "User", implements := [("Node", {})] }
    let p : TypeDef := { kind := .object, name := "Post", implements := [("Node", {})] }
    let T : TsDoc := [.typeDef n, .typeDef u, .typeDef p]
    let T' : TsDoc := [.typeDef p, .typeDef u, .typeDef n]
    T.Perm T' ∧ NoDupTypeNames T ∧ (Schema.mk T).schemaDefs.length ≤ 1 ∧
      (SchemaDecls.schemaFile {} T).toOption.isSome ∧
      ((Schema.mk T).objectImplementers "Node" ≠ (Schema.mk T').objectImplementers "Node") := by
  refine ⟨?_, by unfold NoDupTypeNames; decide, by decide, by decide, by decide⟩
  exact (List.Perm.swap _ _ _).trans ((List.Perm.cons _ (List.Perm.swap _ _ _)).trans (List.Perm.swap _ _ _))

/-- **Order dependence of the failure message (model).** When two scalars have no TypeScript type, the printer's
    error names the FIRST one in the order of the (resolved) document: `scalar A  scalar B` fails with `A`, the
    swapped document with `B`. Both orders fail (`C17_decls_perm`); only the payload differs. -/
theorem C17_decls_error_order_counterexample :
    ∃ T T' : TsDoc, T.Perm T' ∧ NoDupTypeNames T ∧
      (match SchemaDecls.schemaFile {} T with | .error e => e | .ok _ => "") = "A" ∧
      (match SchemaDecls.schemaFile {} T' with | .error e => e | .ok _ => "") = "B" :=
  ⟨[.typeDef { kind := .scalar, name := "A" }, .typeDef { kind := .scalar, name := "B" }],
   [.typeDef { kind := .scalar, name := "B" }, .typeDef { kind := .scalar, name := "A" }],
   List.Perm.swap _ _ _, by unfold NoDupTypeNames; decide, by decide, by decide⟩

/-! ## 3a'. the resolvers declaration file -/

open NitroVerif.DeterminismResolvers in
/-- **The resolvers declaration file of a reordered schema is the same file up to order** — no side condition at
    all (the printer only walks the definitions and asks for the implementers of an interface). `ResolversFileEquiv`
    (`Lemmas/DeterminismConcreteResolvers.lean`): same header; the same `type X = …` aliases up to their order and, for
    interfaces, the order of the union members; the `Resolvers<Context>` record has the same fields up to their order
    and up to the order of the `__TypeResolver<A | B, Context, "A" | "B">` unions inside; `ResolverOutput`'s bound and
    object list the same names up to order. -/
theorem C17_resolvers_perm {T T' : TsDoc} (c : DeclCfg.Cfg) (h : T.Perm T') :
    ResolversFileEquiv (ResolverDecls.resolversFile c T) (ResolverDecls.resolversFile c T') :=
  resolversFile_perm c h

/-! ## 3b. operation result types -/

open NitroVerif.DeterminismOpTypes NitroVerif.DeterminismRel in
/-- **The selection tree of a reordered schema is the same tree up to the order of branches.** For a resolved schema
    with pairwise distinct type names and directive names, every permutation `T'` of the definitions, every fragment
    table, fuel, parent type and selection set: `get_type_for_selection_set` either panics for both orders or returns
    two trees related by `TreeRel` (`Lemmas/DeterminismConcreteTreeRel.lean`): at every object node, at every depth
    — including the trees produced by `deep_merge` of same-key fields — the branches of one are a permutation of the
    branches of the other, each branch having the same type name, the same variable assignment and the same fields
    in the same order. (Which panic is hit first may differ, since the branches are built in a different order.) -/
theorem C17_implTree_perm {T T' : TsDoc} (h : T.Perm T') (ndt : NoDupTypeNames T) (ndd : NoDupDirectiveNames T)
    (F : OpTypes.Frags) (mfuel fuel : Nat) (parent : GType) (ss : List Selection) :
    ExRel TreeRel (OpTypes.implTree ⟨T⟩ F mfuel fuel parent ss) (OpTypes.implTree ⟨T'⟩ F mfuel fuel parent ss) :=
  (implTree_fieldsFor_rel (schemaRel_of_perm h ndt ndd) F mfuel fuel).1 parent ss

open NitroVerif.DeterminismOpTypes in
/-- **`toTs` turns related trees into the same type up to the order of union members** (`TyRel`: at every union
    reachable through unions, arrays, `__SelectionSet<…>` applications and object types the members are permuted;
    keys, flags and everything else are equal). -/
theorem C17_toTs_rel (ns : String) {t t' : OpTypes.SelTree} (h : TreeRel t t') :
    TyRel (OpTypes.toTs ns t) (OpTypes.toTs ns t') :=
  toTs_rel ns h

open NitroVerif.DeterminismOpTypes NitroVerif.DeterminismDecls in
/-- **The result-type declarations of an operation file do not depend on the order of the schema's definitions**, up
    to the order of union members: for every executable document `D` and printer options `o`, `opDecls` yields the
    same statements in the same order (document order of `D`) with the same names and export flags, and each type is a
    panic in both orders or `TyRel`-related. Hypotheses: distinct type / directive names, at most one schema
    definition (root type names). -/
theorem C17_opTypes_perm {T T' : TsDoc} (h : T.Perm T') (ndt : NoDupTypeNames T) (ndd : NoDupDirectiveNames T)
    (one : (Schema.mk T).schemaDefs.length ≤ 1) (o : OpTypes.Opts) (D : Doc) :
    RelList OpDeclRel (OpTypes.opDecls ⟨T⟩ o D) (OpTypes.opDecls ⟨T'⟩ o D) :=
  opDecls_rel (schemaRel_of_perm h ndt ndd) (fun k => rootName_congr (sameSchema_of_perm h ndt ndd one) k) o D

open NitroVerif.DeterminismOpTypes in
/-- **Permutations that keep the relative order of the implementers of every interface change nothing at all**:
    the selection tree (hence the emitted type) is literally equal. (Moving scalars, enums, input objects, interfaces,
    unions, directive definitions anywhere, and reordering object types that share no interface.) -/
theorem C17_implTree_keepsImplOrder {T T' : TsDoc} (h : T.Perm T') (ndt : NoDupTypeNames T)
    (ndd : NoDupDirectiveNames T) (hk : KeepsImplOrder T T')
    (F : OpTypes.Frags) (mfuel fuel : Nat) (parent : GType) (ss : List Selection) :
    OpTypes.implTree ⟨T⟩ F mfuel fuel parent ss = OpTypes.implTree ⟨T'⟩ F mfuel fuel parent ss :=
  implTree_congr (sameImpl_of_perm h ndt ndd hk) F mfuel fuel parent ss

/-- the schemas and the query of the witness below: `type Query { i: I }  interface I  type A implements I` and
    `type B implements I` placed last / first, and the selection set `{ i { __typename } }` -/
def witnessBase : TsDoc :=
  [.typeDef { kind := .object, name := "Query", fields := [{ name := "i", ty := .named "I" {} }] },
   .typeDef { kind := .interface, name := "I" },
   .typeDef { kind := .object, name := "A", implements := [("I", {})] }]
def witnessB : TsItem := .typeDef { kind := .object, name := "B", implements := [("I", {})] }
def witnessT : TsDoc := witnessBase ++ [witnessB]
def witnessT' : TsDoc := witnessB :: witnessBase
def witnessSel : List Selection := [.field none "i" {} [] [] (some [.field none "__typename" {} [] [] none])]

/-- both trees exist and their emitted types are syntactically different -/
def typesDiffer (a b : Except OpTypes.Panic OpTypes.SelTree) : Bool :=
  match a, b with
  | .ok t, .ok t' => !(OpTypes.toTs "Schema" t == OpTypes.toTs "Schema" t')
  | _, _ => false

/-- **"Up to the order of union members" cannot be dropped**: the hypotheses of `C17_implTree_perm` hold for the
    witness, both orders produce a tree, and the emitted TYPES differ syntactically (the union for `i` lists the
    `A` branch and the `B` branch in the order of the schema's definitions) — the order of the schema's definitions
    leaks into the text of the operation declaration file, not into its meaning. -/
theorem C17_opTypes_order_leaks_into_text :
    witnessT.Perm witnessT' ∧ NoDupTypeNames witnessT ∧ NoDupDirectiveNames witnessT ∧
    typesDiffer
      (OpTypes.implTree ⟨witnessT⟩ (fun _ => none) 8 8 (.nonNull (.named "Query" {})) witnessSel)
      (OpTypes.implTree ⟨witnessT'⟩ (fun _ => none) 8 8 (.nonNull (.named "Query" {})) witnessSel) = true :=
  ⟨List.perm_append_singleton _ _, by unfold NoDupTypeNames; decide, by unfold NoDupDirectiveNames; decide, by decide +kernel⟩

/-- the remaining hypothesis of `C17_opTypes_perm` holds for the witness as well -/
example : (Schema.mk witnessT).schemaDefs.length ≤ 1 := by decide

open NitroVerif.DeterminismOpTypes in
/-- `KeepsImplOrder` is satisfiable by a permutation that is not the identity: moving a scalar from the end to the
    front of the witness schema -/
example :
    let x : TsItem := .typeDef { kind := .scalar, name := "X" }
    (witnessT ++ [x]).Perm (x :: witnessT) ∧ KeepsImplOrder (witnessT ++ [x]) (x :: witnessT) ∧
      NoDupTypeNames (witnessT ++ [x]) := by
  refine ⟨List.perm_append_singleton _ _, fun i => ?_, by unfold NoDupTypeNames; decide⟩
  simp [Schema.objectImplementers, Schema.typeDefs, witnessT, witnessBase, witnessB, List.filter_cons]

open NitroVerif.DeterminismOpTypes in
/-- `TreeRel` relates trees that really differ: two branches swapped -/
example : TreeRel (.object [.mk "A" [] [] [], .mk "B" [] [] []]) (.object [.mk "B" [] [] [], .mk "A" [] [] []]) :=
  treeRel_object.mpr ⟨_, List.Perm.swap _ _ _, branchesRefl _⟩

/-! ## 4b. the operation type printer: reordering the definitions of the executable document -/

/-- **Reordering the definitions of an executable document permutes its result-type declarations and changes none
    of them.** For a document with pairwise distinct fragment names, every permutation of the definitions yields the
    same `type <Name>Result = …` / `export type <fragment> = …` statements — literally the same names, export flags
    and types (or the same panic) — in the order of the definitions. (The fragment table is by name; the fuel is a
    sum over the definitions.) Any schema, any options. -/
theorem C17_opTypes_doc_perm (S : Schema) (o : OpTypes.Opts) {D D' : Doc} (h : D.Perm D') (ndf : NoDupFragNames D) :
    (OpTypes.opDecls S o D).Perm (OpTypes.opDecls S o D') :=
  opDecls_doc_perm S o h ndf

/-- …and per definition the tree is the same -/
theorem C17_resultTree_doc_perm (S : Schema) {D D' : Doc} (h : D.Perm D') (ndf : NoDupFragNames D) (x : ExecDef) :
    OpTypes.resultTree S D x = OpTypes.resultTree S D' x :=
  resultTree_doc_perm S h ndf x

example :
    let o : ExecDef := .op { kind := .query, name := some ("Q", {}), sel := [.spread "F" {} [] {}] }
    let f : ExecDef := .frag { name := "F", cond := "Query", sel := [.field none "x" {} [] [] none] }
    ([o, f] : Doc).Perm [f, o] ∧ NoDupFragNames [o, f] :=
  ⟨List.Perm.swap _ _ _, by unfold NoDupFragNames; decide⟩

/-! ## 5. end to end with the extension resolver (C11) -/

/-- **From source order to verdict.** Let `doc'` be any permutation of the raw schema items `doc` (definitions AND
    extensions, e.g. moved inside or across files) that keeps, per kind and name, the relative order of the
    extensions. If both resolve (`C11_perm`: one does iff the other does) and the resolved schema has distinct type
    and directive names, then the type-system checker reports the same multiset of diagnostics for both, and — with at
    most one schema definition in the resolved schema — the operation checker reports the same list of diagnostics
    for every executable document. -/
theorem C17_pipeline_perm (doc doc' out out' : TsDoc) (hp : doc'.Perm doc) (hk : ExtMerge.KeepsExtOrder doc' doc)
    (h : ExtResolve.resolve doc = .ok out) (h' : ExtResolve.resolve doc' = .ok out')
    (ndt : NoDupTypeNames out) (ndd : NoDupDirectiveNames out) :
    (CheckTs.checkSchema out).Perm (CheckTs.checkSchema out') ∧
    (CheckTs.checkSchema out).isEmpty = (CheckTs.checkSchema out').isEmpty ∧
    ((Schema.mk out).schemaDefs.length ≤ 1 → ∀ D, CheckOp.checkOp ⟨out⟩ D = CheckOp.checkOp ⟨out'⟩ D) := by
  have hperm : out.Perm out' := ((ExtResolve.C11_perm doc doc' hp hk).2 out out' h h').symm
  exact ⟨(C17_checkTs_perm hperm ndt ndd).1, (C17_checkTs_perm hperm ndt ndd).2,
    fun one D => C17_checkOp_schema_perm hperm ndt ndd one D⟩

/-- **From source order to verdict, no hypothesis on the user's names.** With `doc`, `doc'` as above: if both
    resolve and the built-in part of the resolved schema is apart (`BuiltinsApart`), the type-system checker accepts
    both or rejects both. -/
theorem C17_pipeline_verdict (doc doc' out out' : TsDoc) (hp : doc'.Perm doc) (hk : ExtMerge.KeepsExtOrder doc' doc)
    (h : ExtResolve.resolve doc = .ok out) (h' : ExtResolve.resolve doc' = .ok out') (hb : BuiltinsApart out) :
    CheckTs.checkSchema out = [] ↔ CheckTs.checkSchema out' = [] :=
  C17_checkTs_verdict ((ExtResolve.C11_perm doc doc' hp hk).2 out out' h h').symm hb

/-- the hypotheses are satisfiable: C11's sample (an `extend scalar S @d` BEFORE `scalar S`, a directive definition,
    a second scalar) and its reverse -/
example : ∃ out out', ExtResolve.resolve ExtResolve.sampleOk = .ok out ∧
    ExtResolve.resolve ExtResolve.sampleOk.reverse = .ok out' ∧ NoDupTypeNames out ∧ NoDupDirectiveNames out ∧
    ExtResolve.sampleOk.reverse.Perm ExtResolve.sampleOk :=
  ⟨_, _, rfl, rfl, by unfold NoDupTypeNames; decide, by unfold NoDupDirectiveNames; decide, List.reverse_perm _⟩

example : ∃ out, ExtResolve.resolve ExtResolve.sampleOk = .ok out ∧ BuiltinsApart out := ⟨_, rfl, by decide⟩

end NitroVerif.Determinism
