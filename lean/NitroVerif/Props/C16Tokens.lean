import NitroVerif.Props.C16
import NitroVerif.Lemmas.GqlPrintToks
import NitroVerif.Lemmas.GqlPrintParseTsDoc
import NitroVerif.Lemmas.GqlPrintWritten
/-!
# C16 (continued) — print ∘ parse = id at the token level, for whole documents

Property theorems only. Model: `Model/GqlPrint.lean` (`print_graphql`, `print_string`) and the writer machine of
`Model/JsTemplate.lean`. Specification: `Spec/GqlTokens.lean` + `Spec/GqlDocTokens.lean` (canonical token streams of every
definition, the recursive-descent token parser written from the grammar of the GraphQL specification, "positions
erased", "what the grammar can produce") and `Spec/GqlString.lean` (the value of a string token).

 7. `print_tokens_*`  — the significant tokens the printer writes for every TYPE-SYSTEM definition / extension are the
                         canonical token stream (false for a union without members — counterexample kept).
 8. `C16_parse_*`     — the specification's token parser reads the canonical stream of every executable and
                         type-system definition back (parse-back), for whole documents too.
 9. block strings     — `print_string` under the writer's indentation of continuation lines.
10. `C16_roundtrip_tokens_*` — the composition: lexing what the writer wrote (string tokens DECODED from their written,
                         indented literals) and parsing gives the document back, under explicit decidable conditions.
-/
namespace NitroVerif.C16
open NitroVerif.Gql NitroVerif.GqlPrint NitroVerif.GqlTokens NitroVerif.GqlString NitroVerif.JsTemplate NitroVerif.Cook

/-! ## 7. token streams of type-system definitions -/

/-- For EVERY input value definition (argument definitions, input fields): description, name, `:`, type, default
    value, directives — nothing dropped, nothing added. -/
theorem print_tokens_input_value_def (v : InputValueDef) :
    (printInputValueDef v).flatMap lex = inputValueDefToks v := toks_inputValueDef v

/-- For EVERY field definition (description, arguments definition `( … )` iff there is an argument, type, directives). -/
theorem print_tokens_field_def (f : FieldDef) : (printFieldDef f).flatMap lex = fieldDefToks f := toks_fieldDef f

/-- For EVERY enum value definition. -/
theorem print_tokens_enum_value_def (v : EnumValueDef) : (printEnumValueDef v).flatMap lex = enumValueDefToks v :=
  toks_enumValueDef v

/-
FULL STATEMENT (false of the code — `print_tokens_union_counterexample`):

  theorem print_tokens_type_def (t : TypeDef) : (printTypeDef t).flatMap lex = typeDefToks t
  theorem print_tokens_type_ext (t : TypeDef) : (printTypeExt t).flatMap lex = typeExtToks t

The code writes ` =` after the name and directives of EVERY union definition and extension, also when there is no
member type: `union U =`, `extend union U @d =`. The grammar has `UnionMemberTypes? : = |? NamedType …` — no `=` without
a member. (nitrogql's own grammar accepts `union U =` for definitions, not for extensions: the extension half is the
known open finding `extend union U @d =`.)
-/

/-- For EVERY type definition of the six kinds (scalar, object, interface, union, enum, input object) except a union
    without members: the significant tokens printed are the canonical stream — description, keyword, name,
    `implements & A & B`, directives, `{ fields }` / `= | A | B` / `{ values }` / `{ input fields }`, each optional part
    present iff its list is non-empty. -/
theorem print_tokens_type_def_partial (t : TypeDef) (h : unionOK t = true) :
    (printTypeDef t).flatMap lex = typeDefToks t := toks_typeDef t h

/-- The same for EVERY type extension (`extend …`). -/
theorem print_tokens_type_ext_partial (t : TypeDef) (h : unionOK t = true) :
    (printTypeExt t).flatMap lex = typeExtToks t := toks_typeExt t h

example : unionOK { kind := .union, name := "U", members := [("A", {}), ("B", {})] } = true ∧
    unionOK { kind := .object, name := "Q", fields := [{ name := "f", ty := .named "Int" {} }] } = true := by decide

/-- The side condition is necessary: for the union definition without members the code writes `union U =`; the
    canonical stream is `union U`, and the specification's parser rejects what was written. -/
theorem print_tokens_union_counterexample :
    (printTypeDef { kind := .union, name := "U" }).flatMap lex = [.name "union", .name "U", .p "="] ∧
    typeDefToks { kind := .union, name := "U" } = [.name "union", .name "U"] ∧
    parseTsDocument ((printTypeDef { kind := .union, name := "U" }).flatMap lex) = none := by
  refine ⟨by decide, by decide, by decide⟩

/-- For EVERY schema definition (`schema @a @b { query: Q … }`; the code writes the directives without separating
    blanks — layout only). -/
theorem print_tokens_schema_def (s : SchemaDef) : (printSchemaDef s).flatMap lex = schemaDefToks s := toks_schemaDef s

/-- For EVERY schema extension (no `{ }` when there is no root operation type). -/
theorem print_tokens_schema_ext (s : SchemaDef) : (printSchemaExt s).flatMap lex = schemaExtToks s := toks_schemaExt s

/-- For EVERY directive definition (description, `directive @name`, arguments definition, `repeatable`, `on | A | B`). -/
theorem print_tokens_directive_def (d : DirectiveDef) : (printDirectiveDef d).flatMap lex = directiveDefToks d :=
  toks_directiveDef d

/-- For EVERY type-system document (definitions and extensions, in order) none of whose unions is without members:
    what `TypeSystemDocument::print_graphql` writes — the text of the `serverGraphqlOutput` module — has the canonical
    token stream of the document. -/
theorem print_tokens_ts_doc_partial (d : TsDoc) (h : d.all itemUnionOK = true) :
    (printTsDoc d).flatMap lex = tsDocToks d := toks_tsDoc d h

/-- The same for `TypeSystemOrExtensionDocument::print_graphql` (an extra blank line after every item — layout only). -/
theorem print_tokens_ts_ext_doc_partial (d : TsDoc) (h : d.all itemUnionOK = true) :
    (printTsExtDoc d).flatMap lex = tsDocToks d := toks_tsExtDoc d h

/-- For EVERY executable document without `#import` lines (those are comments for GraphQL). -/
theorem print_tokens_doc (d : Doc) (h : noImports d = true) : (printDoc d).flatMap lex = docToks d := toks_doc d h

/-- a type-system document with every kind of item, used below to show that hypotheses are satisfiable -/
def sampleTs : TsDoc := [
  .schemaDef { desc := some "s", dirs := [{ name := "a" }, { name := "b", args := [("x", {}, .int "1" {})] }],
               roots := [(.query, "Q", {}), (.mutation, "M", {})] },
  .typeDef { kind := .object, name := "Q", desc := some "multi\nline", implements := [("A", {}), ("B", {})],
             dirs := [{ name := "d" }],
             fields := [{ desc := some "fd", name := "f",
                          args := [{ name := "a", ty := .nonNull (.list (.named "Int" {}) {}),
                                     default := some (.list [.int "1" {}] {}), dirs := [{ name := "x" }] },
                                   { desc := some "q", name := "b", ty := .named "S" {} }],
                          ty := .named "Int" {},
                          dirs := [{ name := "deprecated", args := [("reason", {}, .str "r" {}), ("b", {}, .enum "E" {})] }] },
                        { name := "g", ty := .named "T" {} }] },
  .typeDef { kind := .scalar, name := "Date" },
  .typeDef { kind := .union, name := "U", members := [("A", {}), ("B", {})] },
  .typeDef { kind := .enum, name := "E", values := [{ name := "A", desc := some "x" }, { name := "B", dirs := [{ name := "d" }] }] },
  .typeDef { kind := .input, name := "I", inputs := [{ name := "A", ty := .named "Int" {}, desc := some "x" },
                                                      { name := "B", ty := .named "Int" {}, default := some (.obj [] {}) }] },
  .typeDef { kind := .interface, name := "If" },
  .directiveDef { name := "dd", desc := some "x", args := [{ name := "A", ty := .named "Int" {} }], repeatable := true,
                  locations := ["OBJECT", "FIELD"] },
  .schemaExt { dirs := [{ name := "x" }] },
  .schemaExt { roots := [(.subscription, "S", {})] },
  .typeExt { kind := .object, name := "Q", implements := [("A", {})] },
  .typeExt { kind := .union, name := "U", members := [("A", {})] },
  .typeExt { kind := .enum, name := "U", dirs := [{ name := "x" }] }]

/-- an executable document with every kind of selection -/
def sampleDoc : Doc := [
  .op { kind := .query, name := some ("N", {}),
        vars := [{ name := "v", ty := .named "Int" {}, default := some (.int "1" {}), dirs := [{ name := "d" }] },
                 { name := "w", ty := .nonNull (.named "Int" {}) }],
        dirs := [{ name := "d" }],
        sel := [.field (some ("a", {})) "b" {} [("x", {}, .var "v" {}), ("y", {}, .str "s\nt" {})] [{ name := "d" }]
                  (some [.field none "c" {} [] [] none, .spread "F" {} [{ name := "d" }] {},
                         .inline (some ("T", {})) [] [.field none "c" {} [] [] none] {},
                         .inline none [{ name := "d" }] [.field none "c" {} [] [] none] {}]),
                .field none "z" {} [] [] none] },
  .frag { name := "F", cond := "T", sel := [.field none "c" {} [] [] none] },
  .op { kind := .mutation, sel := [.field none "c" {} [] [] none] }]

example : sampleTs.all itemUnionOK = true := by decide
example : noImports sampleDoc = true := by decide

/-! ## 8. parse-back: the specification's token parser on canonical streams -/

/-- For EVERY selection the grammar can produce (fields with alias, arguments, directives, nested selection sets;
    fragment spreads not named `on`; inline fragments with and without type condition — arbitrary nesting), followed by
    anything that does not continue it (`Stops`: not `! ( @ : { = & |`): the token parser reads the canonical stream
    back to the selection (positions erased) and consumes exactly its tokens. -/
theorem C16_parse_selection (s : Selection) (hwf : wfSel s = true) (rest : List LTok) (hr : Stops rest) :
    parseSelection (2 * (selectionToks s).length + 2) (selectionToks s ++ rest) = some (eraseSel s, rest) :=
  parse_selection s hwf rest _ hr (Nat.le_refl _)

example : wfSel (.field (some ("a", {})) "b" {} [("x", {}, .var "v" {})] [{ name := "d" }]
    (some [.spread "F" {} [] {}, .inline none [] [.field none "c" {} [] [] none] {}])) = true ∧
    Stops [LTok.name "next"] ∧ Stops [LTok.p "}"] ∧ Stops [] :=
  ⟨by decide, Stops.name _ _, Stops.close_brace _, Stops.nil⟩

/-- For EVERY non-empty selection set `{ … }` and every continuation. -/
theorem C16_parse_selection_set (ss : List Selection) (hne : ss.isEmpty = false) (hwf : wfSels ss = true)
    (rest : List LTok) :
    parseSelSet (2 * (selectionSetToks ss).length + 2) (selectionSetToks ss ++ rest) = some (eraseSels ss, rest) :=
  parse_selSet ss hne hwf rest _ (Nat.le_refl _)

example : [Selection.field none "c" {} [] [] none].isEmpty = false ∧ wfSels [.field none "c" {} [] [] none] = true := by
  decide

/-- For EVERY variable definition `$v : Type = default @dirs` followed by something that does not continue it. -/
theorem C16_parse_var_def (v : VarDef) (hwf : wfVarDef v = true) (rest : List LTok) (hr : Stops rest) :
    parseVarDef (2 * (varDefToks v).length + 2) (varDefToks v ++ rest) = some (eraseVarDef v, rest) :=
  parse_varDef v hwf rest _ hr (Nat.le_refl _)

example : wfVarDef { name := "v", ty := .nonNull (.list (.named "Int" {}) {}), default := some (.list [.int "1" {}] {}), dirs := [{ name := "d", args := [("a", {}, .enum "E" {})] }] } = true ∧
    Stops [LTok.p "$"] ∧ Stops [LTok.p ")"] :=
  ⟨by decide, Stops.dollar _, Stops.close_paren _⟩

/-- For EVERY operation definition the grammar can produce (kind, optional name, variable definitions, directives,
    non-empty selection set) and every continuation. -/
theorem C16_parse_operation (o : OperationDef) (hwf : wfOp o = true) (rest : List LTok) :
    parseExecDef (2 * (operationToks o).length + 2) (operationToks o ++ rest) = some (.op (eraseOp o), rest) :=
  parse_operation o hwf rest _ (Nat.le_refl _)

example : wfOp { kind := .query, name := some ("N", {}), vars := [{ name := "v", ty := .named "Int" {} }], dirs := [{ name := "d" }], sel := [.field none "c" {} [] [] none] } = true := by
  decide

/-- For EVERY fragment definition (not named `on`) and every continuation. -/
theorem C16_parse_fragment (f : FragmentDef) (hwf : wfFrag f = true) (rest : List LTok) :
    parseExecDef (2 * (fragmentToks f).length + 2) (fragmentToks f ++ rest) = some (.frag (eraseFrag f), rest) :=
  parse_fragment f hwf rest _ (Nat.le_refl _)

example : wfFrag { name := "F", cond := "T", sel := [.spread "G" {} [] {}] } = true := by decide

/-- For EVERY executable document of operations and fragments the grammar can produce: parsing its canonical token
    stream gives the document back (positions erased) — the whole input is consumed. -/
theorem C16_parse_exec_document (d : Doc) (hwf : wfDoc d = true) : parseExecDocument (docToks d) = some (eraseDoc d) :=
  parse_execDocument d hwf

example : wfDoc sampleDoc = true := by decide

/-- For EVERY type definition the grammar can produce (components of other kinds empty; enum values not `true` /
    `false` / `null`; derivable types and values), followed by the end of the input, a description or a keyword
    (`ItemFollow`). -/
theorem C16_parse_type_def (t : TypeDef) (hwf : wfTypeDef t = true) (rest : List LTok) (hr : ItemFollow rest) :
    parseTsItem (2 * (typeDefToks t).length + 4) (typeDefToks t ++ rest) = some (.typeDef (eraseTypeDef t), rest) :=
  parse_typeDef t hwf rest _ hr (Nat.le_refl _)

example : wfTypeDef { kind := .enum, name := "E", values := [{ name := "A", desc := some "x" }, { name := "B" }] } = true ∧
    ItemFollow [] ∧ ItemFollow (typeDefToks { kind := .scalar, name := "Date" }) :=
  ⟨by decide, ItemFollow.nil, by simpa [tsItemToks] using tsItemToks_follow (.typeDef { kind := .scalar, name := "Date" }) []⟩

example : ItemFollow [] ∧ ItemFollow (typeDefToks { kind := .scalar, name := "Date" }) :=
  ⟨ItemFollow.nil, by simpa [tsItemToks] using tsItemToks_follow (.typeDef { kind := .scalar, name := "Date" }) []⟩

/-- For EVERY type extension the grammar can produce (no description; extends by something). -/
theorem C16_parse_type_ext (t : TypeDef) (hwf : wfTypeExt t = true) (rest : List LTok) (hr : ItemFollow rest) :
    parseTsItem (2 * (typeExtToks t).length + 4) (typeExtToks t ++ rest) = some (.typeExt (eraseTypeDef t), rest) :=
  parse_typeExt t hwf rest _ hr (Nat.le_refl _)

example : wfTypeExt { kind := .object, name := "Q", implements := [("A", {})] } = true := by decide

/-- For EVERY schema definition with at least one root operation type, and every continuation. -/
theorem C16_parse_schema_def (s : SchemaDef) (hwf : wfSchemaDef s = true) (rest : List LTok) :
    parseTsItem (2 * (schemaDefToks s).length + 4) (schemaDefToks s ++ rest) = some (.schemaDef (eraseSchemaDef s), rest) :=
  parse_schemaDef s hwf rest _ (Nat.le_refl _)

example : wfSchemaDef { desc := some "s", dirs := [{ name := "a" }], roots := [(.query, "Q", {})] } = true := by decide

/-- For EVERY schema extension (directives, or root operation types, or both). -/
theorem C16_parse_schema_ext (s : SchemaDef) (hwf : wfSchemaExt s = true) (rest : List LTok) (hr : ItemFollow rest) :
    parseTsItem (2 * (schemaExtToks s).length + 4) (schemaExtToks s ++ rest) = some (.schemaExt (eraseSchemaDef s), rest) :=
  parse_schemaExt s hwf rest _ hr (Nat.le_refl _)

example : wfSchemaExt { dirs := [{ name := "a" }] } = true ∧ wfSchemaExt { roots := [(.mutation, "M", {})] } = true := by
  decide

/-- For EVERY directive definition with at least one location, all locations being DirectiveLocation names. -/
theorem C16_parse_directive_def (d : DirectiveDef) (hwf : wfDirectiveDef d = true) (rest : List LTok)
    (hr : ItemFollow rest) :
    parseTsItem (2 * (directiveDefToks d).length + 4) (directiveDefToks d ++ rest) =
      some (.directiveDef (eraseDirectiveDef d), rest) :=
  parse_directiveDef d hwf rest _ hr (Nat.le_refl _)

example : wfDirectiveDef { name := "dd", args := [{ name := "a", ty := .named "Int" {} }], repeatable := true, locations := ["OBJECT", "FIELD_DEFINITION"] } = true := by
  decide

/-- For EVERY type-system document (definitions and extensions) the grammar can produce: parsing its canonical token
    stream gives the document back (positions erased). -/
theorem C16_parse_ts_document (d : TsDoc) (hwf : wfTsDoc d = true) : parseTsDocument (tsDocToks d) = some (eraseTsDoc d) :=
  parse_tsDocument d hwf

example : wfTsDoc sampleTs = true := by decide

/-- `wf` is necessary, e.g.: a schema definition without root operation type is printed `schema { }`, which the
    grammar (`{ RootOperationTypeDefinition+ }`) does not derive. -/
theorem C16_parse_ts_document_counterexample :
    parseTsDocument (tsDocToks [.schemaDef {}]) = none := by decide

/-! ## 9. `print_string` under the writer's indentation -/

/-- The writer indents the continuation lines of a block string, and its closing `"""` when the string ends with a
    line feed. For EVERY string the code prints in the block form and EVERY indentation `k`: what the writer leaves in
    the output is exactly one block-string token, and its value is `BlockStringValue` of the string itself — the
    added indentation is common indentation and is removed again (also when every continuation line is blank: those
    lines are then removed as trailing blank lines). So the indentation never changes what the literal denotes. -/
theorem print_block_lexes_indented (s : List Char) (h : useBlock s = true) (k : Nat) :
    decodeStringLiteral (writeChars false { indent := k, flag := false } false (printString s)).1 =
      some (blockStringValue s) :=
  decode_written_block k s h

example : useBlock "a\n  b\n\n c\n".toList = true := by decide

/-- `print_string` as the writer leaves it, with the exact side conditions of its two forms (`strExact`: no double
    quote in the quoted form, `BlockStringValue s = s` in the block form): at EVERY indentation the written literal is
    one string token whose value is the string. -/
theorem print_string_written_exact (s : List Char) (h : strExact s = true) (k : Nat) :
    decodeStringLiteral (writeChars false { indent := k, flag := false } false (printString s)).1 = some s :=
  decode_written k s h

example : strExact "multi\nline \"q\" \\ x".toList = true ∧ strExact "say 'hi' \\ \r there".toList = true := by decide

/-- When the writer's indent flag is set (the literal starts a line), it writes the indentation — white space
    outside the token — and then exactly what it writes without the flag. -/
theorem print_string_written_flag (s : List Char) (k : Nat) :
    (writeChars false { indent := k, flag := true } false (printString s)).1 =
      List.replicate k ' ' ++ (writeChars false { indent := k, flag := false } false (printString s)).1 :=
  written_printString_flag k s

/-- In the text `JustWriter` writes for a token sequence, a string token stands as: pending indentation, the literal
    written at the CURRENT indentation level without flag, then the remaining tokens written at the same level
    (this is what `lexW` decodes). -/
theorem str_token_text (st : WSt) (v : String) (ts : List Tok) :
    ∃ st' : WSt, st'.indent = st.indent ∧
      runOps false st (ops (Tok.str v :: ts)) =
        (if st.flag then List.replicate st.indent ' ' else []) ++
          (writeChars false { indent := st.indent, flag := false } false (printString v.toList)).1 ++
          runOps false st' (ops ts) :=
  runOps_str st v ts

/-! ## 10. the composition: lex what was written, parse, get the document back -/

/-- parse ∘ lex ∘ print = id for executable documents: for EVERY document of operations and fragments the grammar can
    produce, all of whose string values satisfy the side condition of `print_string` (`strsOK`): the tokens a GraphQL
    lexer finds in what the writer wrote (string tokens decoded from their written, indented literals) parse back to
    the document (positions erased). -/
theorem C16_roundtrip_tokens_exec (d : Doc) (hwf : wfDoc d = true) (hs : strsOK (docToks d) = true) :
    (lexW 0 (printDoc d)).bind parseExecDocument = some (eraseDoc d) := by
  have hni : noImports d = true := by
    simp only [noImports, List.all_eq_true]
    intro x hx
    have := List.all_eq_true.mp hwf x hx
    cases x <;> simp_all [wfExecDef]
  have htoks := toks_doc d hni
  rw [lexW_exact _ (tokStrOK_of_strsOK _ (by rw [htoks]; exact hs)) 0, htoks]
  exact parse_execDocument d hwf

example : wfDoc sampleDoc = true ∧ strsOK (docToks sampleDoc) = true := by decide

/-- parse ∘ lex ∘ print = id for type-system documents (the text of the `serverGraphqlOutput` module): for EVERY
    document of definitions and extensions the grammar can produce, in which no union is without members and every
    description and string value satisfies the side condition of `print_string`. -/
theorem C16_roundtrip_tokens_ts (d : TsDoc) (hwf : wfTsDoc d = true) (hu : d.all itemUnionOK = true)
    (hs : strsOK (tsDocToks d) = true) :
    (lexW 0 (printTsDoc d)).bind parseTsDocument = some (eraseTsDoc d) := by
  have htoks := toks_tsDoc d hu
  rw [lexW_exact _ (tokStrOK_of_strsOK _ (by rw [htoks]; exact hs)) 0, htoks]
  exact parse_tsDocument d hwf

/-- the same for `TypeSystemOrExtensionDocument::print_graphql` -/
theorem C16_roundtrip_tokens_tsext (d : TsDoc) (hwf : wfTsDoc d = true) (hu : d.all itemUnionOK = true)
    (hs : strsOK (tsDocToks d) = true) :
    (lexW 0 (printTsExtDoc d)).bind parseTsDocument = some (eraseTsDoc d) := by
  have htoks := toks_tsExtDoc d hu
  rw [lexW_exact _ (tokStrOK_of_strsOK _ (by rw [htoks]; exact hs)) 0, htoks]
  exact parse_tsDocument d hwf

example : wfTsDoc sampleTs = true ∧ sampleTs.all itemUnionOK = true ∧ strsOK (tsDocToks sampleTs) = true := by decide

/-- The string condition is necessary (the two open findings at document level): a description with a double quote
    is not one string token in the output; a description with a leading blank line is read back without it. -/
theorem C16_roundtrip_tokens_counterexample :
    lexW 0 (printTsDoc [.typeDef { kind := .scalar, name := "S", desc := some "a\"b" }]) = none ∧
    lexW 0 (printTsDoc [.typeDef { kind := .scalar, name := "S", desc := some "\na" }]) =
      some [.str "a", .name "scalar", .name "S"] := by
  refine ⟨by decide, by decide⟩

/-- the document `serverGraphqlOutput` prints for the checked document `d`: `@nitrogql_ts_type` stripped, and `@model`
    too when the model plugin is on (specification side: `Strip.stripDirective`) -/
def serverDoc (d : TsDoc) (modelPlugin : Bool) : TsDoc :=
  if modelPlugin then Strip.stripDirective modelName (Strip.stripDirective nitroName d) else Strip.stripDirective nitroName d

/-- All layers together, for the `serverGraphqlOutput` module of EVERY checked document `d` that applies the two
    nitrogql-only directives where the checker allows, and whose stripped form `d' = serverDoc d …` has GraphQL-Name-like
    names, is derivable from the grammar, has no member-less union and only strings for which `print_string` is exact:
    (1) the module text is the wrapper around the template literal of the printed `d'`;
    (2) evaluating the template literal (ECMAScript cooking) gives a line feed and exactly the printed SDL text;
    (3) the token sequence of that text (string tokens decoded from the written literals) parses, with the
        specification's parser, to `d'` — the checked schema without the stripped directives, positions erased. -/
theorem server_module_roundtrip_tokens (d : TsDoc) (modelPlugin : Bool) (h1 : OnlyOnScalars nitroName d)
    (h2 : modelPlugin = true → OnlyOnObjects modelName (Strip.stripDirective nitroName d))
    (hn : ∀ t ∈ printTsDoc (serverDoc d modelPlugin), t.nameOK = true)
    (hwf : wfTsDoc (serverDoc d modelPlugin) = true) (hu : (serverDoc d modelPlugin).all itemUnionOK = true)
    (hs : strsOK (tsDocToks (serverDoc d modelPlugin)) = true) :
    serverGraphqlOutput d modelPlugin = serverModule (ops (printTsDoc (serverDoc d modelPlugin))) ∧
    cook ('\n' :: runOps true {} (ops (printTsDoc (serverDoc d modelPlugin)))) =
      some ('\n' :: text (printTsDoc (serverDoc d modelPlugin))) ∧
    (lexW 0 (printTsDoc (serverDoc d modelPlugin))).bind parseTsDocument = some (eraseTsDoc (serverDoc d modelPlugin)) := by
  refine ⟨?_, server_template_cooks _ hn, C16_roundtrip_tokens_ts _ hwf hu hs⟩
  unfold serverGraphqlOutput serverDoc
  cases modelPlugin with
  | false => simp [strip_exact d h1]
  | true => simp [strip_exact d h1, strip_model_exact _ (h2 rfl)]

/-- a checked document with both nitrogql-only directives, for the satisfiability of the hypotheses -/
def sampleChecked : TsDoc := [
  .typeDef { kind := .scalar, name := "Date", desc := some "a date\nISO", dirs := [{ name := "nitrogql_ts_type", args := [("resolverInput", {}, .str "string" {})] }, { name := "specifiedBy" }] },
  .directiveDef { name := "nitrogql_ts_type", args := [{ name := "resolverInput", ty := .nonNull (.named "String" {}) }], locations := ["SCALAR"] },
  .directiveDef { name := "model", locations := ["OBJECT", "FIELD_DEFINITION"] },
  .typeDef { kind := .object, name := "User", dirs := [{ name := "model" }],
             fields := [{ name := "id", ty := .nonNull (.named "ID" {}), dirs := [{ name := "model" }, { name := "deprecated" }] },
                        { name := "born", ty := .named "Date" {} }] }]

example : (∀ t ∈ printTsDoc (serverDoc sampleChecked true), t.nameOK = true) ∧
    wfTsDoc (serverDoc sampleChecked true) = true ∧ (serverDoc sampleChecked true).all itemUnionOK = true ∧
    strsOK (tsDocToks (serverDoc sampleChecked true)) = true := by decide

example : OnlyOnScalars nitroName sampleChecked := by
  intro i hi
  simp only [sampleChecked, List.mem_cons, List.mem_nil_iff, or_false] at hi
  rcases hi with rfl | rfl | rfl | rfl <;> decide

example : OnlyOnObjects modelName (Strip.stripDirective nitroName sampleChecked) := by
  have e : Strip.stripDirective nitroName sampleChecked = [
      .typeDef { kind := .scalar, name := "Date", desc := some "a date\nISO", dirs := [{ name := "specifiedBy" }] },
      .directiveDef { name := "model", locations := ["OBJECT", "FIELD_DEFINITION"] },
      .typeDef { kind := .object, name := "User", dirs := [{ name := "model" }],
                 fields := [{ name := "id", ty := .nonNull (.named "ID" {}), dirs := [{ name := "model" }, { name := "deprecated" }] },
                            { name := "born", ty := .named "Date" {} }] }] := by rfl
  rw [e]
  intro i hi
  simp only [List.mem_cons, List.mem_nil_iff, or_false] at hi
  rcases hi with rfl | rfl | rfl <;> decide

/-
CONTINUED in `Props/C16Text.lean`: the character-level lexer (`lexW` here takes names, numbers and punctuators as the
printer tokens they are; there the written TEXT is lexed by the lexical grammar of the specification, and the printer
is shown to separate its tokens), and the composition with the template layer; and in `Props/C16Own.lean`: the model of
nitrogql's OWN parser as the reader. The parser of this file is the SPECIFICATION's (`Spec/GqlDocTokens.lean`), not nitrogql's.

OPEN — carried by K/O only: everything outside the hypotheses of the theorems above (`wf…`, `unionOK` / `itemUnionOK`,
`strExact` / `strsOK`, `noImports`, `OnlyOnScalars` / `OnlyOnObjects`, `nameOK`); see the OPEN block of `Props/C16.lean`.
-/

end NitroVerif.C16
