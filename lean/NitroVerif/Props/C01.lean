/-
C01 — generated result types admit every spec-conformant response.

Objects: `Exec` (Spec/Exec.lean: responses of spec execution), `implTree`/`toTs` (Model/OpTypes.lean: the printer),
`Mem` (Lemmas/TsSem.lean over Ts/Sem.lean + Ts/SelSem.lean: the values a TypeScript type admits — trusted reading).

Proved here: the specification-side facts the refinement rests on (`exec_sub_refLocal`, soundness of the executable
decider the O stream uses), the branch-enumeration lemma (`branches_cover`), and the kernel-checked witnesses of
the two defects of the pinned code that made C01 false (`merge_by_typename_counterexample` — §9-a, repaired in
/repo 0bbdfa6 — and `alias_named_typename_counterexample` — §9-c, repaired in 72cec20), each paired with the proof that
the repaired model admits the response.  The full refinement statement is kept visible in the block
"OPEN — carried by K/O only" at the end.
-/
import NitroVerif.Lemmas.OpTypes
import NitroVerif.Lemmas.OpTypesDen
import NitroVerif.Lemmas.TsSemSound
namespace NitroVerif.Props.C01
open NitroVerif.Gql NitroVerif.Ts NitroVerif.OpTypes NitroVerif.OpTypes.W NitroVerif.Exec

/-- Every response of a spec execution under one assignment σ of the Boolean variables is also a response when σ may
    be re-chosen at every selection set (C02's reference set contains C01's). -/
theorem execN_sub_refLocalN (c : Ctx) (σ : Sigma) :
    ∀ n obj ss v, ExecN c σ n obj ss v → RefLocalN c n obj ss v := by
  intro n
  induction n with
  | zero => intro _ _ _ h; exact h
  | succ n ih =>
    intro obj ss v h
    obtain ⟨g, hg, Rb, hR, hs⟩ := h
    exact ⟨σ, g, hg, Rb, fun o s x hx => ih o s x (hR o s x hx), hs⟩

/-- `Exec ⊆ RefLocal` -/
theorem exec_sub_refLocal (c : Ctx) (σ : Sigma) (obj : Name) (ss : List Selection) (v : J)
    (h : Exec c σ obj ss v) : RefLocal c obj ss v := by
  obtain ⟨n, hn⟩ := h
  exact ⟨n, execN_sub_refLocalN c σ n obj ss v hn⟩

/-- The executable decider of the O stream only accepts genuine responses: `execMem … = true → Exec …`. -/
theorem execMem_sound (c : Ctx) (σ : Sigma) :
    ∀ n obj ss v, execMem c σ n obj ss v = true → ExecN c σ n obj ss v := by
  intro n
  induction n with
  | zero => intro _ _ _ h; simp [execMem] at h
  | succ n ih =>
    intro obj ss v h
    simp only [execMem] at h
    split at h
    · rename_i g hg
      exact ⟨g, hg, execMem c σ n, ih, h⟩
    · simp at h

/-- non-vacuity: the witness document `{ a { x } a { y @skip(if: $v) } }` has the response `a: { x: 1 }` for v = true -/
example : Exec W.ctx (sigmaOf [("v", true)]) "Query" W.selA (.obj [("a", .obj [("x", .num)])]) :=
  ⟨3, execMem_sound _ _ 3 _ _ _ (by decide +kernel)⟩

/-- Branch enumeration (`generate_branching_conditions`) covers every pair (possible object type, total assignment of
    the selection set's Boolean variables) and nothing else. -/
theorem branches_cover {S : Schema} {F : Frags} {fuel : Nat} {ss : List Selection} {p : Name}
    {cs : List Cond} {objs : List TypeDef} {vars : List Name}
    (ho : parentObjects S p = .ok objs) (hv : boolVars F fuel ss = .ok vars)
    (hc : branchConds S F fuel ss p = .ok cs) :
    (∀ c ∈ cs, c.obj ∈ objs ∧ c.vars.map Prod.fst = vars) ∧
    (∀ o ∈ objs, ∀ a : List (Name × Bool), a.map Prod.fst = vars → ∃ c ∈ cs, c.obj = o ∧ c.vars = a) := by
  simp only [branchConds, ho, hv, bind, Except.bind] at hc
  cases hc
  constructor
  · intro c hcm
    simp only [List.mem_flatMap, List.mem_map] at hcm
    obtain ⟨o, ho', a, ha, rfl⟩ := hcm
    exact ⟨ho', (assignments_mem vars a).1 ha⟩
  · intro o ho' a ha
    refine ⟨⟨o, a⟩, ?_, rfl, rfl⟩
    simp only [List.mem_flatMap, List.mem_map]
    exact ⟨o, ho', a, (assignments_mem vars a).2 ha, rfl⟩

/-- the hypotheses of `branches_cover` are satisfiable: the witness selection `{ y @skip(if: $v) }` on `A` has the two
    branches (A, v=false), (A, v=true) -/
example : ∃ cs, branchConds W.S W.noFrags 8 W.selYskip "A" = .ok cs ∧ cs.map (·.vars) = [[("v", false)], [("v", true)]] :=
  ⟨_, rfl, rfl⟩

/-- the parent objects of a branch enumeration are the possible runtime types of the parent (object and union
    parents; for an interface both sides list the object types that declare it, in schema order) -/
theorem parentObjects_possibleTypes {S : Schema} {p : Name} {t : TypeDef} {objs : List TypeDef}
    (ht : S.typeDef? p = some t) (hk : t.kind = .object ∨ t.kind = .union)
    (h : parentObjects S p = .ok objs) : objs.map (·.name) = S.possibleTypes p := by
  unfold parentObjects at h
  simp only [ht] at h
  unfold Schema.possibleTypes
  simp only [ht]
  rcases hk with hk | hk
  · simp only [hk] at h ⊢
    cases h; rfl
  · simp only [hk] at h ⊢
    exact mapM_member_names S t.members objs h

/-- the hypotheses are satisfiable: the witness object type `A` -/
example : ∃ objs, parentObjects W.S "A" = .ok objs ∧ objs.map (·.name) = W.S.possibleTypes "A" := ⟨_, rfl, rfl⟩

/-! ### the model's CollectFields tests are the specification's (step (i), local part) -/

/-- `check_skip_directive` under a branch's assignment decides exactly the specification's `@skip`/`@include` test under
    that assignment read as σ — whenever the code does not panic, with no further hypothesis. -/
theorem checkSkip_agrees_with_spec (vars : List (Name × Bool)) (ds : List Directive) (b : Bool)
    (h : checkSkip vars ds = .ok b) : b = !included (sigmaOf vars) ds :=
  checkSkip_spec vars ds b h

/-- `check_fragment_condition` decides exactly DoesFragmentTypeApply (spec §6.3.2) for the branch's object type. -/
theorem fragmentApplies_agrees_with_spec (S : Schema) (obj : TypeDef) (cond : Name) (b : Bool)
    (hobj : S.typeDef? obj.name = some obj) (h : fragmentApplies S obj cond = .ok b) :
    b = fragmentTypeApplies S obj.name cond :=
  fragmentApplies_spec S obj cond b hobj h

/-- the hypotheses are satisfiable: `@skip(if: $v)` under v = true on the witness, and `A` against itself -/
example : checkSkip [("v", true)] [W.skipV] = .ok true ∧
    (W.S.typeDef? "A").isSome = true ∧ ∃ o, W.S.typeDef? "A" = some o ∧ fragmentApplies W.S o "A" = .ok true :=
  ⟨rfl, rfl, _, rfl, rfl⟩

/-! ### the printed type denotes the tree (step (iv) of the refinement) -/

/-- **`toTs` is denotation-preserving.** For a well-formed selection tree (no empty branch list, every branch's type
    declared, aliased keys distinct and different from the unaliased ones) the TypeScript type `treeTs r t nn` admits
    exactly the values `DenTree` describes by recursion on the tree: `null` iff the position is nullable, lists
    element-wise, at an object position a record fitting one branch — for every unaliased field whose key the schema
    declaration declares and every aliased field a fitting value (`k?: never` = absent, `__typename` = the branch's
    type name, other leaves wrapper-exact, object fields recursively) and no other key. -/
theorem toTs_denotation {e : Env} {r : Refs} {orig : Name → Option (List Field)} (h : EnvOk e r orig)
    (t : SelTree) (nn : Bool) (v : J) (hw : WFTree orig t) :
    Mem e v (treeTs r t nn) ↔ DenTree e r orig t nn v :=
  den_tree h t nn v hw

/-- Binding time: resolving the references of the printed type (`globalise`) is the same as printing with resolved
    references — for ALL trees and declaration tables. -/
theorem toTs_closed (d : Decls) (ns : String) (t : SelTree) :
    globalise d [] [] (toTs ns t) = treeTs ((Refs.ofNs ns).close d) t false :=
  glob_tree d (Refs.ofNs ns) t false

/-- **The emitted type, read with the emitted schema declaration file, denotes the tree**: whenever
    `<ns>.__SelectionSet` resolves to a declaration carrying the prelude text, membership in the closed emitted type of
    a well-formed tree is `DenTree` with `keyof Orig` read off the declarations. -/
theorem toTs_denotation_emitted (d : Decls) (ns : String) (path : List String)
    (hsel : globalise d [] [] (.qref [ns, "__SelectionSet"]) = .other "abs" path)
    (hp : SelSem.isSelectionSet d path = true) (t : SelTree) (v : J)
    (hw : WFTree (fun tn => SelSem.origFields d 8 (((Refs.ofNs ns).close d).out tn)) t) :
    Mem { decls := d, appHook := SelSem.hook } v (globalise d [] [] (toTs ns t)) ↔
      DenTree { decls := d, appHook := SelSem.hook } ((Refs.ofNs ns).close d)
        (fun tn => SelSem.origFields d 8 (((Refs.ofNs ns).close d).out tn)) t false v := by
  rw [toTs_closed]
  exact den_tree (envOk_of_hook d ((Refs.ofNs ns).close d) path hsel hp
    (fun n => (globalise_qref_shape d [ns, "__OperationOutput", n]).1)
    (fun n => (globalise_qref_shape d [ns, "__OperationOutput", n]).2)) t false v hw

set_option maxRecDepth 16384 in
/-- the hypotheses are satisfiable: the witness schema declaration file and the tree the repaired model builds -/
example : W.newTree = .ok W.witnessTree ∧
    globalise W.env.decls [] [] (.qref ["Schema", "__SelectionSet"]) = .other "abs" ["Schema", "__SelectionSet"] ∧
    SelSem.isSelectionSet W.env.decls ["Schema", "__SelectionSet"] = true ∧
    WFTree (fun tn => SelSem.origFields W.env.decls 8 (((Refs.ofNs "Schema").close W.env.decls).out tn)) W.witnessTree := by
  refine ⟨rfl, rfl, rfl, ?_⟩
  have h : (SelSem.origFields W.env.decls 8 (((Refs.ofNs "Schema").close W.env.decls).out "A")).isSome = true := rfl
  simp [W.witnessTree, WFTree, WFBranches, WFBranch, WFFields, WFField, h]

/-! ### §9-a: sub-tree branches merged by type name only (pre-repair), and the repaired merge -/

/-- **Counterexample to C01 on the pinned code (§9-a).** For the document `{ a { x } a { y @skip(if: $v) } }` the
    pre-repair merge paired the single branch of `a { x }` with the FIRST branch (v = false) of `a { y @skip }` only, so
    the emitted type of `a` was `__SelectionSet<A, {x, y}, {}> | null`; the response `{ x: 1 }` that every
    spec-conformant server returns for v = true is NOT a member of it. -/
theorem merge_by_typename_counterexample :
    Exec W.ctx (sigmaOf [("v", true)]) "A" (W.selX ++ W.selYskip) respX ∧
    (oldTree.toOption.map fun t => W.close (toTs "Schema" t)) = some oldTy ∧
    ¬ Mem W.env respX oldTy := by
  refine ⟨⟨2, execMem_sound _ _ 2 _ _ _ (by decide +kernel)⟩, oldTree_ty, ?_⟩
  intro h
  simp only [oldTy, selSet, mem_union_iff] at h
  obtain ⟨t, ht, hm⟩ := h
  simp only [List.mem_cons, List.mem_nil_iff, or_false] at ht
  rcases ht with rfl | rfl
  · rw [mem_hook_iff hookXY, mem_obj_iff] at hm
    obtain ⟨kvs, hk, h1, _⟩ := hm
    cases hk
    have hy := h1 ("y", false, false, tStr) (by simp [objXY]) (by simp)
    have hget : J.get [("x", J.num)] "y" = .absent := by rfl
    simp only [tStr, mem_union_iff] at hy
    obtain ⟨t, ht, hm⟩ := hy
    simp only [List.mem_cons, List.mem_nil_iff, or_false] at ht
    rcases ht with rfl | rfl
    · rw [mem_alias_iff bodyString, hget] at hm
      cases hm with
      | prim _ _ h => simp [primMem, J.isStr] at h
    · rw [mem_null_iff, hget] at hm; cases hm
  · rw [mem_null_iff] at hm; cases hm

/-- **The repaired merge (0bbdfa6) admits it**: branches are paired by type AND assignment, the type of `a` gets the
    second branch `{x, y?: never}` and `{ x: 1 }` is a member. -/
theorem merge_repaired_admits :
    (newTree.toOption.map fun t => W.close (toTs "Schema" t)) = some newTy ∧ Mem W.env respX newTy := by
  refine ⟨newTree_ty, ?_⟩
  apply memG_sound 8
  decide +kernel

/-- the whole repaired pipeline on the witness document: the response for v = true is a member of the emitted type -/
theorem merge_repaired_document :
    ∃ t, implTree W.S W.noFrags 16 16 (.nonNull (.named "Query" {})) W.selA = .ok t ∧
      Mem W.env (.obj [("a", respX)]) (W.close (toTs "Schema" t)) := by
  refine ⟨_, rfl, ?_⟩
  apply memG_sound 12
  decide +kernel

/-! ### §9-c: an alias literally named `__typename` on another field (pre-repair `field_to_type`) -/

/-- **Counterexample to C01 on the pinned code (§9-c).** `{ __typename: name }` (`name: String!`): the tree field is the
    leaf `__typename : String!`; the pre-repair printer typed it as the literal `"Query"`, which excludes every real
    response `{ __typename: "<some name>" }`; the repaired printer types it `Schema.__OperationOutput.String`. -/
theorem alias_named_typename_counterexample :
    Exec W.ctx (sigmaOf []) "Query" W.selN (.obj [("__typename", .str "s")]) ∧
    fieldTree (W.S.typeDef? "Query").get! "__typename" "name" false none (fun _ _ => .error .outOfFuel)
      = .ok (.leaf "__typename" (.nonNull (.named "String" {})) false) ∧
    (fieldTsByKey "Schema" "Query" (.leaf "__typename" (.nonNull (.named "String" {})) false)).2.2.2 = .strLit "Query" ∧
    ¬ Mem W.env (.str "s") (.strLit "Query") ∧
    (fieldTs (Refs.ofNs "Schema") "Query" (.leaf "__typename" (.nonNull (.named "String" {})) false)).2.2.2
      = .qref ["Schema", "__OperationOutput", "String"] ∧
    Mem W.env (.str "s") (W.close (.qref ["Schema", "__OperationOutput", "String"])) := by
  refine ⟨⟨2, execMem_sound _ _ 2 _ _ _ (by decide +kernel)⟩, rfl, rfl, ?_, rfl, ?_⟩
  · rw [mem_strLit_iff]; intro h; injection h with h; exact absurd h (by decide)
  · apply memG_sound 4; decide +kernel

/-
OPEN — carried by K/O only (stated at full strength; not proved in budget)

  -- the emitted type denotes exactly RefLocal (C01 ⊆, C02 ⊇), for every valid schema, spec-valid document and
  -- operation/fragment X; `decls S cfg` = the schema declaration file (C10's model), `fuelFor`/`mfuelFor` as in the model
  theorem impl_eq_refLocal (hS : SchemaValid S) (hD : SpecValid S D) (hX : X ∈ D) :
      implTree S (fragsOf D) (mfuelFor D) (fuelFor D) (rootOf X) X.sel = .ok t →
      (Mem (envOf S cfg) v (close (toTs ns t)) ↔ ∃ o ∈ S.possibleTypes (rootOf X).unwrapped, RefLocal c o X.sel v)
  theorem impl_no_panic (hS) (hD) : ∃ t, implTree … = .ok t
  theorem C01_admits_every_response : Exec c σ o X.sel v → Mem … v (close (toTs ns t))
  -- proof plan (DESIGN §4): (i) `fieldsFor` under branch (o, β) lists per response key the fields `collectFields o ss β`
  -- groups (skipped ones as `empty`); (ii) `branches_cover` (proved above) + `parentObjects = possibleTypes`;
  -- (iii) `deepMerge` denotes the merged selection set — TRUE of the repaired merge (pairs by type and assignment),
  -- false of the pinned one (`merge_by_typename_counterexample`); (iv) `toTs` is denotation-preserving.
  -- PROVED of this plan: (iv) completely (`toTs_denotation`, `toTs_closed`, `toTs_denotation_emitted`, leaf part
  -- `leafTs_exact`); of (i) the two local tests (`checkSkip_agrees_with_spec`, `fragmentApplies_agrees_with_spec`);
  -- (ii) `branches_cover`, `parentObjects_possibleTypes`.  STILL OPEN: (i) for whole selection sets (the field lists
  -- of `fieldsFor` vs the groups of `collectFields`, through fragments), (iii) the merge lemma, `impl_no_panic`.
  What carries these statements today: K (model = code, tree against tree on the real emitted text) and O
  (`oracle.c01`: every enumerated Exec response is a member of the REAL emitted type; 0 failures after the repairs).
-/

end NitroVerif.Props.C01
