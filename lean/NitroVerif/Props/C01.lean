/-
C01 — generated result types admit every spec-conformant response.

Objects: `Exec` (Spec/Exec.lean: responses of spec execution), `implTree`/`toTs` (Model/OpTypes.lean: the printer),
`Mem` (Lemmas/TsSem.lean over Ts/Sem.lean + Ts/SelSem.lean: the values a TypeScript type admits — trusted reading).

Proved here: THE REFINEMENT THEOREM `impl_eq_refLocal` (the type emitted for a selection set denotes exactly `RefLocal`;
`C01_admits_every_response` is its ⊆ direction composed with `exec_sub_refLocal`, Props/C02.lean takes the ⊇ direction),
`impl_no_panic`, the decidable sufficient check for the coherence hypothesis (`coherence_check_sufficient`), the
specification-side facts (`exec_sub_refLocal`, soundness of the executable decider the O stream uses), the branch-enumeration
lemma (`branches_cover`), the denotation of the printed type (`toTs_denotation`), and kernel-checked witnesses: the two
defects of the pinned code that made C01 false (`merge_by_typename_counterexample` — §9-a, repaired in /repo 0bbdfa6 — and
`alias_named_typename_counterexample` — §9-c, repaired in 72cec20), each paired with the proof that the repaired model
admits the response, and `alias_equals_key_counterexample` / `alias_equals_key_repaired_admits` (the defect the refinement
proof itself found — an alias equal to the field's own name was typed apart from the unaliased selections of the field —
repaired in /repo dda35cd).  What K/O still carry is listed in the block at the end; the second stage
(`Props/C01Closed.lean`) discharges the hypotheses `Hyp`, the fuel bounds and the decidable checks by composition with
C10 / C03 / C08.
-/
import NitroVerif.Lemmas.OpTypes
import NitroVerif.Lemmas.OpTypesDen
import NitroVerif.Lemmas.TsSemSound
import NitroVerif.Lemmas.OpTypesRefWitness
import NitroVerif.Lemmas.OpTypesRefCex
import NitroVerif.Lemmas.OpTypesRefCheck
import NitroVerif.Lemmas.OpTypesRefNoPanicE
namespace NitroVerif.Props.C01
open NitroVerif.Gql NitroVerif.Ts NitroVerif.OpTypes NitroVerif.OpTypes.W NitroVerif.Exec

/-- Every response of a spec execution under one assignment σ of the Boolean variables is also a response when σ may
    be re-chosen at every selection set (C02's reference set contains C01's). -/
theorem execN_sub_refLocalN (c : Ctx) (σ : Sigma) :
    ∀ n obj ss v, ExecN c σ n obj ss v → RefLocalN c n obj ss v := by
  intro n
  induction n with
  | zero => intro _ _ _ h; exact h
  | succ n ih =>
    intro obj ss v h
    obtain ⟨g, hg, Rb, hR, hs⟩ := h
    exact ⟨σ, g, hg, Rb, fun o s x hx => ih o s x (hR o s x hx), hs⟩

/-- `Exec ⊆ RefLocal` -/
theorem exec_sub_refLocal (c : Ctx) (σ : Sigma) (obj : Name) (ss : List Selection) (v : J)
    (h : Exec c σ obj ss v) : RefLocal c obj ss v := by
  obtain ⟨n, hn⟩ := h
  exact ⟨n, execN_sub_refLocalN c σ n obj ss v hn⟩

/-- The executable decider of the O stream only accepts genuine responses: `execMem … = true → Exec …`. -/
theorem execMem_sound (c : Ctx) (σ : Sigma) :
    ∀ n obj ss v, execMem c σ n obj ss v = true → ExecN c σ n obj ss v := by
  intro n
  induction n with
  | zero => intro _ _ _ h; simp [execMem] at h
  | succ n ih =>
    intro obj ss v h
    simp only [execMem] at h
    split at h
    · rename_i g hg
      exact ⟨g, hg, execMem c σ n, ih, h⟩
    · simp at h

/-- non-vacuity: the witness document `{ a { x } a { y @skip(if: $v) } }` has the response `a: { x: 1 }` for v = true -/
example : Exec W.ctx (sigmaOf [("v", true)]) "Query" W.selA (.obj [("a", .obj [("x", .num)])]) :=
  ⟨3, execMem_sound _ _ 3 _ _ _ (by decide +kernel)⟩

/-- Branch enumeration (`generate_branching_conditions`) covers every pair (possible object type, total assignment of
    the selection set's Boolean variables) and nothing else. -/
theorem branches_cover {S : Schema} {F : Frags} {fuel : Nat} {ss : List Selection} {p : Name}
    {cs : List Cond} {objs : List TypeDef} {vars : List Name}
    (ho : parentObjects S p = .ok objs) (hv : boolVars F fuel ss = .ok vars)
    (hc : branchConds S F fuel ss p = .ok cs) :
    (∀ c ∈ cs, c.obj ∈ objs ∧ c.vars.map Prod.fst = vars) ∧
    (∀ o ∈ objs, ∀ a : List (Name × Bool), a.map Prod.fst = vars → ∃ c ∈ cs, c.obj = o ∧ c.vars = a) := by
  simp only [branchConds, ho, hv, bind, Except.bind] at hc
  cases hc
  constructor
  · intro c hcm
    simp only [List.mem_flatMap, List.mem_map] at hcm
    obtain ⟨o, ho', a, ha, rfl⟩ := hcm
    exact ⟨ho', (assignments_mem vars a).1 ha⟩
  · intro o ho' a ha
    refine ⟨⟨o, a⟩, ?_, rfl, rfl⟩
    simp only [List.mem_flatMap, List.mem_map]
    exact ⟨o, ho', a, (assignments_mem vars a).2 ha, rfl⟩

/-- the hypotheses of `branches_cover` are satisfiable: the witness selection `{ y @skip(if: $v) }` on `A` has the two
    branches (A, v=false), (A, v=true) -/
example : ∃ cs, branchConds W.S W.noFrags 8 W.selYskip "A" = .ok cs ∧ cs.map (·.vars) = [[("v", false)], [("v", true)]] :=
  ⟨_, rfl, rfl⟩

/-- the parent objects of a branch enumeration are the possible runtime types of the parent (object and union
    parents; for an interface both sides list the object types that declare it, in schema order) -/
theorem parentObjects_possibleTypes {S : Schema} {p : Name} {t : TypeDef} {objs : List TypeDef}
    (ht : S.typeDef? p = some t) (hk : t.kind = .object ∨ t.kind = .union)
    (h : parentObjects S p = .ok objs) : objs.map (·.name) = S.possibleTypes p := by
  unfold parentObjects at h
  simp only [ht] at h
  unfold Schema.possibleTypes
  simp only [ht]
  rcases hk with hk | hk
  · simp only [hk] at h ⊢
    cases h; rfl
  · simp only [hk] at h ⊢
    exact mapM_member_names S t.members objs h

/-- the hypotheses are satisfiable: the witness object type `A` -/
example : ∃ objs, parentObjects W.S "A" = .ok objs ∧ objs.map (·.name) = W.S.possibleTypes "A" := ⟨_, rfl, rfl⟩

/-! ### the model's CollectFields tests are the specification's (step (i), local part) -/

/-- `check_skip_directive` under a branch's assignment decides exactly the specification's `@skip`/`@include` test under
    that assignment read as σ — whenever the code does not panic, with no further hypothesis. -/
theorem checkSkip_agrees_with_spec (vars : List (Name × Bool)) (ds : List Directive) (b : Bool)
    (h : checkSkip vars ds = .ok b) : b = !included (sigmaOf vars) ds :=
  checkSkip_spec vars ds b h

/-- `check_fragment_condition` decides exactly DoesFragmentTypeApply (spec §6.3.2) for the branch's object type. -/
theorem fragmentApplies_agrees_with_spec (S : Schema) (obj : TypeDef) (cond : Name) (b : Bool)
    (hobj : S.typeDef? obj.name = some obj) (h : fragmentApplies S obj cond = .ok b) :
    b = fragmentTypeApplies S obj.name cond :=
  fragmentApplies_spec S obj cond b hobj h

/-- the hypotheses are satisfiable: `@skip(if: $v)` under v = true on the witness, and `A` against itself -/
example : checkSkip [("v", true)] [W.skipV] = .ok true ∧
    (W.S.typeDef? "A").isSome = true ∧ ∃ o, W.S.typeDef? "A" = some o ∧ fragmentApplies W.S o "A" = .ok true :=
  ⟨rfl, rfl, _, rfl, rfl⟩

/-! ### the printed type denotes the tree (step (iv) of the refinement) -/

/-- **`toTs` is denotation-preserving.** For a well-formed selection tree (no empty branch list, every branch's type
    declared, aliased keys distinct and different from the unaliased ones) the TypeScript type `treeTs r t nn` admits
    exactly the values `DenTree` describes by recursion on the tree: `null` iff the position is nullable, lists
    element-wise, at an object position a record fitting one branch — for every unaliased field whose key the schema
    declaration declares and every aliased field a fitting value (`k?: never` = absent, `__typename` = the branch's
    type name, other leaves wrapper-exact, object fields recursively) and no other key. -/
theorem toTs_denotation {e : Env} {r : Refs} {orig : Name → Option (List Field)} (h : EnvOk e r orig)
    (t : SelTree) (nn : Bool) (v : J) (hw : WFTree orig t) :
    Mem e v (treeTs r t nn) ↔ DenTree e r orig t nn v :=
  den_tree h t nn v hw

/-- Binding time: resolving the references of the printed type (`globalise`) is the same as printing with resolved
    references — for ALL trees and declaration tables. -/
theorem toTs_closed (d : Decls) (ns : String) (t : SelTree) :
    globalise d [] [] (toTs ns t) = treeTs ((Refs.ofNs ns).close d) t false :=
  glob_tree d (Refs.ofNs ns) t false

/-- **The emitted type, read with the emitted schema declaration file, denotes the tree**: whenever
    `<ns>.__SelectionSet` resolves to a declaration carrying the prelude text, membership in the closed emitted type of
    a well-formed tree is `DenTree` with `keyof Orig` read off the declarations. -/
theorem toTs_denotation_emitted (d : Decls) (ns : String) (path : List String)
    (hsel : globalise d [] [] (.qref [ns, "__SelectionSet"]) = .other "abs" path)
    (hp : SelSem.isSelectionSet d path = true) (t : SelTree) (v : J)
    (hw : WFTree (fun tn => SelSem.origFields d 8 (((Refs.ofNs ns).close d).out tn)) t) :
    Mem { decls := d, appHook := SelSem.hook } v (globalise d [] [] (toTs ns t)) ↔
      DenTree { decls := d, appHook := SelSem.hook } ((Refs.ofNs ns).close d)
        (fun tn => SelSem.origFields d 8 (((Refs.ofNs ns).close d).out tn)) t false v := by
  rw [toTs_closed]
  exact den_tree (envOk_of_hook d ((Refs.ofNs ns).close d) path hsel hp
    (fun n => (globalise_qref_shape d [ns, "__OperationOutput", n]).1)
    (fun n => (globalise_qref_shape d [ns, "__OperationOutput", n]).2)) t false v hw

set_option maxRecDepth 16384 in
/-- the hypotheses are satisfiable: the witness schema declaration file and the tree the repaired model builds -/
example : W.newTree = .ok W.witnessTree ∧
    globalise W.env.decls [] [] (.qref ["Schema", "__SelectionSet"]) = .other "abs" ["Schema", "__SelectionSet"] ∧
    SelSem.isSelectionSet W.env.decls ["Schema", "__SelectionSet"] = true ∧
    WFTree (fun tn => SelSem.origFields W.env.decls 8 (((Refs.ofNs "Schema").close W.env.decls).out tn)) W.witnessTree := by
  refine ⟨rfl, rfl, rfl, ?_⟩
  have h : (SelSem.origFields W.env.decls 8 (((Refs.ofNs "Schema").close W.env.decls).out "A")).isSome = true := rfl
  simp [W.witnessTree, WFTree, WFBranches, WFBranch, WFFields, WFField, h]

/-! ### §9-a: sub-tree branches merged by type name only (pre-repair), and the repaired merge -/

/-- **Counterexample to C01 on the pinned code (§9-a).** For the document `{ a { x } a { y @skip(if: $v) } }` the
    pre-repair merge paired the single branch of `a { x }` with the FIRST branch (v = false) of `a { y @skip }` only, so
    the emitted type of `a` was `__SelectionSet<A, {x, y}, {}> | null`; the response `{ x: 1 }` that every
    spec-conformant server returns for v = true is NOT a member of it. -/
theorem merge_by_typename_counterexample :
    Exec W.ctx (sigmaOf [("v", true)]) "A" (W.selX ++ W.selYskip) respX ∧
    (oldTree.toOption.map fun t => W.close (toTs "Schema" t)) = some oldTy ∧
    ¬ Mem W.env respX oldTy := by
  refine ⟨⟨2, execMem_sound _ _ 2 _ _ _ (by decide +kernel)⟩, oldTree_ty, ?_⟩
  intro h
  simp only [oldTy, selSet, mem_union_iff] at h
  obtain ⟨t, ht, hm⟩ := h
  simp only [List.mem_cons, List.mem_nil_iff, or_false] at ht
  rcases ht with rfl | rfl
  · rw [mem_hook_iff hookXY, mem_obj_iff] at hm
    obtain ⟨kvs, hk, h1, _⟩ := hm
    cases hk
    have hy := h1 ("y", false, false, tStr) (by simp [objXY]) (by simp)
    have hget : J.get [("x", J.num)] "y" = .absent := by rfl
    simp only [tStr, mem_union_iff] at hy
    obtain ⟨t, ht, hm⟩ := hy
    simp only [List.mem_cons, List.mem_nil_iff, or_false] at ht
    rcases ht with rfl | rfl
    · rw [mem_alias_iff bodyString, hget] at hm
      cases hm with
      | prim _ _ h => simp [primMem, J.isStr] at h
    · rw [mem_null_iff, hget] at hm; cases hm
  · rw [mem_null_iff] at hm; cases hm

/-- **The repaired merge (0bbdfa6) admits it**: branches are paired by type AND assignment, the type of `a` gets the
    second branch `{x, y?: never}` and `{ x: 1 }` is a member. -/
theorem merge_repaired_admits :
    (newTree.toOption.map fun t => W.close (toTs "Schema" t)) = some newTy ∧ Mem W.env respX newTy := by
  refine ⟨newTree_ty, ?_⟩
  apply memG_sound 8
  decide +kernel

/-- the whole repaired pipeline on the witness document: the response for v = true is a member of the emitted type -/
theorem merge_repaired_document :
    ∃ t, implTree W.S W.noFrags 16 16 (.nonNull (.named "Query" {})) W.selA = .ok t ∧
      Mem W.env (.obj [("a", respX)]) (W.close (toTs "Schema" t)) := by
  refine ⟨_, rfl, ?_⟩
  apply memG_sound 12
  decide +kernel

/-! ### §9-c: an alias literally named `__typename` on another field (pre-repair `field_to_type`) -/

/-- **Counterexample to C01 on the pinned code (§9-c).** `{ __typename: name }` (`name: String!`): the tree field is the
    leaf `__typename : String!`; the pre-repair printer typed it as the literal `"Query"`, which excludes every real
    response `{ __typename: "<some name>" }`; the repaired printer types it `Schema.__OperationOutput.String`. -/
theorem alias_named_typename_counterexample :
    Exec W.ctx (sigmaOf []) "Query" W.selN (.obj [("__typename", .str "s")]) ∧
    fieldTree (W.S.typeDef? "Query").get! "__typename" "name" false none (fun _ _ => .error .outOfFuel)
      = .ok (.leaf "__typename" (.nonNull (.named "String" {})) false) ∧
    (fieldTsByKey "Schema" "Query" (.leaf "__typename" (.nonNull (.named "String" {})) false)).2.2.2 = .strLit "Query" ∧
    ¬ Mem W.env (.str "s") (.strLit "Query") ∧
    (fieldTs (Refs.ofNs "Schema") "Query" (.leaf "__typename" (.nonNull (.named "String" {})) false)).2.2.2
      = .qref ["Schema", "__OperationOutput", "String"] ∧
    Mem W.env (.str "s") (W.close (.qref ["Schema", "__OperationOutput", "String"])) := by
  refine ⟨⟨2, execMem_sound _ _ 2 _ _ _ (by decide +kernel)⟩, rfl, rfl, ?_, rfl, ?_⟩
  · rw [mem_strLit_iff]; intro h; injection h with h; exact absurd h (by decide)
  · apply memG_sound 4; decide +kernel

/-! ### THE REFINEMENT THEOREM: the emitted type denotes exactly `RefLocal` -/

open NitroVerif.OpTypes.Ref in
/-- **`impl_eq_refLocal`.** Whenever the printer model returns a tree `T` for the selection set `ss` at the GraphQL type
    `ty`, the TypeScript type printed for `T` admits EXACTLY the values CompleteValue allows for `ty` when nested objects
    are responses of `RefLocal` (spec execution with the Boolean variables re-chosen per selection set): `null` iff
    nullable, lists element-wise, and at the object position the `RefLocal` responses of `ss` on some possible runtime
    object type.  Hypotheses (all about the INPUT, none about the model's run):
    `H` — the schema declaration file declares, for every object type, `__typename` and exactly its fields, a leaf type's
    declaration admits exactly the leaf's values and never `null` (C09/C10's subject), `__SelectionSet` has the prelude's
    reading, every composite type has a possible object type; `hnd` — type names are unique; `hC` — the document is
    coherent at every depth (occurrences collected under one response key for one object type agree on field name /
    having a sub-selection — FieldsInSetCanMerge —, a field without sub-selection has a leaf type — Leaf Field Selections);
    `hf` — the fuel of the executable
    specification suffices (`FuelOk`: no fragment cycle within depth `D`, expanded size ≤ `c.fuel`); `hv` — the value has
    no repeated record keys (needed for ⊇ only).  Proof: fields (i) `fieldsFor` lists exactly the collected occurrences,
    (ii) branch cover, (iii) the merge lemma `mergeTrees_rel`, (iv) `toTs_denotation`, by induction on the model's fuel
    and on the tree. -/
theorem impl_eq_refLocal {c : Ctx} {e : Env} {r : Refs} {orig : Name → Option (List Field)} (H : Hyp c e r orig)
    (hnd : TypeNamesNodup c.S) {mfuel fuel D : Nat} {ty : GType} {ss : List Selection} {T : SelTree}
    (h : implTree c.S c.F mfuel fuel ty ss = .ok T) (hC : ∀ d, Coh c d (Sb1 ss) ty.unwrapped)
    (hf : FuelOk c D ss) (v : J) (hv : JWf v) :
    Mem e v (treeTs r T false) ↔ CompP c (RefLocal c) ss ty false v :=
  ⟨(impl_denotes H hnd h hC).2 D hf v hv, (impl_denotes H hnd h hC).1 v⟩

open NitroVerif.OpTypes.Ref in
/-- the refinement theorem at the root of an operation / fragment (`ty` = the non-null root or type-condition type):
    the emitted type admits exactly the `RefLocal` responses of the selection set on the possible object types -/
theorem impl_eq_refLocal_root {c : Ctx} {e : Env} {r : Refs} {orig : Name → Option (List Field)} (H : Hyp c e r orig)
    (hnd : TypeNamesNodup c.S) {mfuel fuel D : Nat} {root : Name} {p : Pos} {ss : List Selection} {T : SelTree}
    (h : implTree c.S c.F mfuel fuel (.nonNull (.named root p)) ss = .ok T) (hC : ∀ d, Coh c d (Sb1 ss) root)
    (hf : FuelOk c D ss) (v : J) (hv : JWf v) :
    Mem e v (treeTs r T false) ↔ ∃ o ∈ c.S.possibleTypes root, RefLocal c o ss v := by
  rw [impl_eq_refLocal H hnd h hC hf v hv]
  exact compP_root (implTree_root_composite h) (fun _ _ _ => refLocal_not_null)

open NitroVerif.OpTypes.Ref in
/-- … and for the type as EMITTED: printed with `NS.…` references and closed against the declaration table `d` of the
    operation file linked with the schema declaration file (`toTs_closed`), read with the real `__SelectionSet` hook -/
theorem impl_eq_refLocal_emitted {c : Ctx} (d : Decls) (ns : String) {orig : Name → Option (List Field)}
    (H : Hyp c { decls := d, appHook := SelSem.hook } ((Refs.ofNs ns).close d) orig)
    (hnd : TypeNamesNodup c.S) {mfuel fuel D : Nat} {root : Name} {p : Pos} {ss : List Selection} {T : SelTree}
    (h : implTree c.S c.F mfuel fuel (.nonNull (.named root p)) ss = .ok T) (hC : ∀ d, Coh c d (Sb1 ss) root)
    (hf : FuelOk c D ss) (v : J) (hv : JWf v) :
    Mem { decls := d, appHook := SelSem.hook } v (globalise d [] [] (toTs ns T)) ↔
      ∃ o ∈ c.S.possibleTypes root, RefLocal c o ss v := by
  rw [toTs_closed]
  exact impl_eq_refLocal_root H hnd h hC hf v hv

open NitroVerif.OpTypes.Ref in
/-- **C01.** Every response of a spec-conformant execution (`Exec`: any σ, any resolver results, any nullable position
    null, any list length) of the selection set on a possible object type of the root is a member of the emitted type.
    (The ⊆ direction: no hypothesis on the specification's fuel or on the value.) -/
theorem C01_admits_every_response {c : Ctx} {e : Env} {r : Refs} {orig : Name → Option (List Field)} (H : Hyp c e r orig)
    (hnd : TypeNamesNodup c.S) {mfuel fuel : Nat} {root : Name} {p : Pos} {ss : List Selection} {T : SelTree}
    (h : implTree c.S c.F mfuel fuel (.nonNull (.named root p)) ss = .ok T) (hC : ∀ d, Coh c d (Sb1 ss) root)
    {σ : Sigma} {o : Name} (ho : o ∈ c.S.possibleTypes root) {v : J} (hx : Exec c σ o ss v) :
    Mem e v (treeTs r T false) := by
  refine (impl_denotes H hnd h hC).1 v ?_
  exact (compP_root (implTree_root_composite h) (fun _ _ _ => refLocal_not_null)).2
    ⟨o, ho, exec_sub_refLocal c σ o ss v hx⟩

set_option maxRecDepth 16384 in
open NitroVerif.OpTypes.Ref in
/-- the hypotheses are satisfiable by a non-trivial input: the witness schema with its declaration file, and the document
    `{ a { x } a { y @skip(if: $v) } }` (two object fields merged under one key, a Boolean variable) — the model returns a
    tree, and the theorem yields membership of the v = true response -/
example : Hyp W.ctx W.env Ref.W.r Ref.W.orig ∧ TypeNamesNodup W.ctx.S ∧
    (∃ T, implTree W.ctx.S W.ctx.F 16 16 (.nonNull (.named "Query" {})) W.selA = .ok T ∧
      Mem W.env (.obj [("a", respX)]) (treeTs Ref.W.r T false)) ∧
    (∀ d, Coh W.ctx d (Sb1 W.selA) "Query") ∧ FuelOk W.ctx 4 W.selA ∧ JWf (.obj [("a", respX)]) := by
  refine ⟨Ref.W.hyp, Ref.W.typeNamesNodup, ⟨_, rfl, ?_⟩, Ref.W.coh_selA, Ref.W.fuelOk_selA, ?_⟩
  · exact C01_admits_every_response Ref.W.hyp Ref.W.typeNamesNodup (mfuel := 16) (fuel := 16) (root := "Query")
      (p := {}) rfl Ref.W.coh_selA
      (σ := sigmaOf [("v", true)]) (o := "Query") (by decide)
      ⟨3, execMem_sound _ _ 3 _ _ _ (by decide +kernel)⟩
  · simp [JWf, JWfFields, respX]

open NitroVerif.OpTypes.Ref in
/-- **The coherence hypothesis is decidable in practice**: the executable check `cohB` (for every possible object type:
    occurrences listed when nothing is skipped agree pairwise per response key on field name / having a sub-selection, fields without sub-selection have leaf types, recursively for the sub-selections grouped by response
    key, down to the depth at which no selection is left) implies `∀ d, Coh c d {ss} n` for selection sets without fragment
    cycles (`fits`).  Together with `FuelOk` (a conjunction of two decidable facts) and `TypeNamesNodup`, all hypotheses of
    `impl_eq_refLocal` about the DOCUMENT are decidable; `Hyp` speaks about the schema declaration file. -/
theorem coherence_check_sufficient (c : Ctx) (D d : Nat) (ss : List Selection) (n : Name)
    (hfit : ss.all (fits c.F D) = true) (h : cohB c.S c.F D d [ss] n = true) : ∀ d', Coh c d' (Sb1 ss) n :=
  coh_of_cohB c D d ss n (fun s hs => List.all_eq_true.1 hfit s hs) h

open NitroVerif.OpTypes.Ref in
/-- the check succeeds on the witness document -/
example : W.selA.all (fits W.ctx.F 4) = true ∧ cohB W.ctx.S W.ctx.F 4 4 [W.selA] "Query" = true := by decide

/-! ### the defect the proof found: an alias equal to the field's own name (pre-repair), and the repaired partition -/

open NitroVerif.OpTypes.Ref in
/-- **Counterexample to C01 on the code before dda35cd** (found by the refinement proof: the invariant needed "occurrences
    under one response key are in one alias group", which the code violated).  The spec-valid document
    `query($v: Boolean!) { a: a @skip(if: $v) { x }  a { y } }`: the pre-repair printer (`implTreeOld`) put EVERY aliased field
    — also `a: a` — into `Others` and the unaliased `a` into `Obj` of one `__SelectionSet`, so the sub-selections were never
    merged.  The emitted type was
    `__SelectionSet<Query, {a: {y}|null}, {a: {x}|null}> | __SelectionSet<Query, {a: {y}|null}, {a?: never}>`; the response
    `{ a: { y: "s" } }` that every spec-conformant server returns for v = true is NOT a member of it (the key `a` is typed
    by an intersection with `never`, resp. with `{x} | null`). -/
theorem alias_equals_key_counterexample :
    Exec W.ctx (sigmaOf [("v", true)]) "Query" Cex.selAA Cex.resp ∧
    ((implTreeOld W.S W.noFrags 16 16 (.nonNull (.named "Query" {})) Cex.selAA).toOption.map
      fun t => W.close (toTs "Schema" t)) = some Cex.ty ∧
    ¬ Mem W.env Cex.resp Cex.ty :=
  ⟨⟨3, execMem_sound _ _ 3 _ _ _ (by decide +kernel)⟩, Cex.tree_ty, Cex.resp_not_mem⟩

open NitroVerif.OpTypes.Ref in
/-- **The repaired partition (dda35cd) admits it**: a field is in the aliased group only if its alias differs from its
    name, so `a: a { x }` and `a { y }` are merged under the key `a`; the emitted type is
    `__SelectionSet<Query, {a: {x, y}|null}, {}> | __SelectionSet<Query, {a: {y}|null}, {}>`, the v = true response is a
    member, and the document passes the coherence check of the refinement theorem (which therefore applies to it). -/
theorem alias_equals_key_repaired_admits :
    ((implTree W.S W.noFrags 16 16 (.nonNull (.named "Query" {})) Cex.selAA).toOption.map
      fun t => W.close (toTs "Schema" t)) = some Cex.tyNew ∧
    Mem W.env Cex.resp Cex.tyNew ∧
    (Cex.selAA.all (fits W.ctx.F 4) = true ∧ cohB W.ctx.S W.ctx.F 4 4 [Cex.selAA] "Query" = true) :=
  ⟨Cex.tree_tyNew, Cex.resp_mem_new, by decide⟩

/-! ### the printer does not panic -/

open NitroVerif.OpTypes.Ref in
/-- **`impl_no_panic`.** The model of `get_type_for_selection_set` returns a tree — no `expect`/`panic!` site is reached
    ("Type system error", "Cannot merge fields of different types", "Cannot merge selection trees of different types")
    and neither fuel of the model runs out — for every selection set that passes these DECIDABLE checks:
    type names unique; `selOkB`: for every possible object type of the parent, every (applicable) selection is well formed
    (`@skip`/`@include` carry an `if` argument, a field exists on the object type or is `__typename`, the type of a field
    with a sub-selection is a composite type with defined members and the sub-selection is valid for its possible object
    types, spreads and type conditions are defined); `fitsS`: no fragment cycle within nesting depth `D`; `cohB`: the
    coherence check (FieldsInSetCanMerge + Leaf Field Selections);
    fuels: `fuel ≥ 2·D + 2`, `mfuel ≥` the expanded size of the selection set and `≥ (K + 1)·(G + 1)` where `D ≤ K` and
    `G` bounds the list/non-null wrapper depth of the schema's field types. -/
theorem impl_no_panic (c : Ctx) (mfuel fuel G K D d : Nat) (ty : GType) (ss : List Selection)
    (hnd : TypeNamesNodup c.S) (hG : fieldDepthB c.S G = true) (hmf : (K + 1) * (G + 1) ≤ mfuel) (hDK : D ≤ K)
    (hfuel : 2 * D + 2 ≤ fuel) (hpar : parentsOkB c.S ty.unwrapped = true)
    (hsel : (c.S.possibleTypes ty.unwrapped).all (fun o => ss.all (selOkB c.S c.F D o)) = true)
    (hfit : ss.all (fitsS c.F D) = true) (hesz : eszL c.F D ss ≤ mfuel)
    (hcoh : cohB c.S c.F D d [ss] ty.unwrapped = true) :
    ∃ T, implTree c.S c.F mfuel fuel ty ss = .ok T := by
  have hfit' : ∀ s ∈ ss, fitsS c.F D s = true := fun s hs => List.all_eq_true.1 hfit s hs
  refine implTree_ok ⟨hnd, fieldDepth_of_check hG, hmf⟩ hDK hfuel hpar ?_ hfit' hesz ?_
  · intro o ho s hs
    exact List.all_eq_true.1 (List.all_eq_true.1 hsel o ho) s hs
  · exact coh_of_cohB c D d ss _ (fun s hs => fitsS_fits D s (hfit' s hs)) hcoh

open NitroVerif.OpTypes.Ref in
/-- the checks succeed on the witness document `{ a { x } a { y @skip(if: $v) } }` (fuels 16/16, `G` = 1, `K` = `D` = 4) -/
example : fieldDepthB W.ctx.S 1 = true ∧ parentsOkB W.ctx.S "Query" = true ∧
    (W.ctx.S.possibleTypes "Query").all (fun o => W.selA.all (selOkB W.ctx.S W.ctx.F 4 o)) = true ∧
    W.selA.all (fitsS W.ctx.F 4) = true ∧ eszL W.ctx.F 4 W.selA ≤ 16 ∧ cohB W.ctx.S W.ctx.F 4 4 [W.selA] "Query" = true := by
  decide

/-
OPEN — carried by K/O only (nothing of the refinement statement itself).  The SECOND STAGE, `Props/C01Closed.lean`,
discharges most of what this block used to list; what is left after it is in the block at the end of that file.

  * that the Lean model IS the code (K: tree against tree on the real emitted text, panics included);
  * that the hand-written reading of the emitted TypeScript (Ts/Sem.lean, Ts/SelSem.lean) is TypeScript's;
  * the hypotheses `Hyp` about the schema declaration file: PROVED for the file the MODEL of the schema printer emits
    (`C01Closed.hyp_of_schemaFile`, from C10's closed forms; side conditions `DocOK`, `CfgOk`), so `C01_end_to_end` has no
    hypothesis about the declaration file; that C10's model is the real schema printer is C10's K stream, and the O stream
    here keeps testing membership against the REAL emitted files;
  * `impl_no_panic` for whole documents with the fuels the model is run with (`fuelFor`, `mfuelFor`): PROVED
    (`C01Closed.resultTree_ok`) for every accepted, coherent document under the explicit wrapper bound
    `(Dn + 1)·(G + 1) ≤ docSize D + 64` — `D ≤ docSize` and the `docSize`-step walk of `get_boolean_variables` are now
    theorems for all documents (`accepted_document_fits_its_size`, `Lemmas/OpTypesClosedBoolVars.lean`); the wrapper bound
    is sufficient, not necessary, and cannot be dropped (`C01Closed.wrapper_bound_witness`: 70 list markers);
    its decidable checks follow from `checkOp S D = []` (`C01Closed.accepted_document_passes_checks`);
  * ⊇ needs its value hypothesis (`C02.repeated_key_counterexample`: a record that lists a key twice); not kernel-checked:
    an interface without implementing object type (its member type `never` is turned into "key absent" by the reading of
    `__SelectionSet`; excluded by `Hyp.inhabited` / `CfgOk.inhabited`) — see design-notes/C01.md "Wave 3".
-/

end NitroVerif.Props.C01
