import NitroVerif.Props.C12Composed
import NitroVerif.Lemmas.JsonTextFrame
import NitroVerif.Lemmas.JsonTextPrintable
import NitroVerif.Lemmas.JsonTextSubset
import NitroVerif.Lemmas.JsonTextFuel
/-!
# C12 at TEXT level: the emitted literal, read as text, is the source operation plus exactly the fragments it needs

Property theorems only. `Props/C12.lean` and `Props/C12Composed.lean` speak about the JSON TREE the printer model builds
(`DocJson.toJson`). What nitrogql emits is TEXT: `print_to_json_string` (json-writer 0.4's compact writers with its escape
table — `Model/PrintMap.lean` `jsonText` / `jsonStr` / `jsonEscChar`, K-compared call by call with the real printers by C06)
written by ONE `writer.write` between `const <Name> = ` and `;` (JavaScript module, bundler loaders:
`operation_js_printer/visitor.rs`) or between `const <Name>: T = ` and ` as unknown as T;` (`.graphql.ts`:
`operation_type_printer/visitor.rs`). So the literal is embedded as a JavaScript OBJECT LITERAL — there is no `JSON.parse('…')`
and no second escaping layer.

Readers (`Spec/JsonText.lean`, written from the standards): `JsonText.parse` = RFC 8259 / ECMA-404 (`JSON.parse`);
`JsonText.JsLit.expr` = the literal subset of ECMA-262's `PrimaryExpression` with ECMAScript's lexical layer, reading the
expression at the head of a text and returning the text behind it. `readText` / `readJsExpr` (`Lemmas/JsonTextFrame.lean`)
compose them with C12's reference `DocumentNode` reader `ReadDoc.readDoc`.

What is ASSUMED about ECMAScript (not provable here, stated once):
  (E1) `JsLit` transcribes ECMA-262 for the subset: §12.2/§12.3 white space and line terminators, §12.9.4 string literals and
       their `SV`, §13.2.4/§13.2.5 array and object initialisers evaluate their elements / `PropertyName : AssignmentExpression`
       pairs in order into elements / own properties, EXCEPT the name `__proto__` (Annex B.3.1), for which the reader answers
       `none`; `C12_text_member_names` shows the printer never writes that name, nor a number, nor a repeated name.
       That the JSON grammar is INCLUDED in this grammar is not assumed: `json_subset_of_ecmascript` proves it for all texts.
  (E2) the engine implements ES2019 or later: U+2028 / U+2029 may stand raw in a string literal. json-writer does not escape
       them; `C12_text_needs_es2019` shows the literal of a document with such a string is NOT an ES2018 expression.
  (E3) TypeScript's `e as unknown as T` erases to `e`.

OPEN — STILL CARRIED BY K/O ONLY: that the real printers write these characters (C06's call-by-call comparison and C12's tree
comparison through serde_json; `JsonText.parse` / `JsLit.expr` are applied to the MODEL's text only, no stream runs them on
real output); the parser's reading of the source text (C07). The lifted theorems keep the hypotheses of the theorems they
lift (`Resolved`, `RootOKp`, `ProjectOk`, distinct fragment names, every reachable spread defined); the module theorems hold
"whenever the printer model returns"; `C12_text_needs_es2019` is one witness (U+2028).
-/
namespace NitroVerif.C12
open NitroVerif NitroVerif.Gql NitroVerif.DocJson NitroVerif.ReadDoc NitroVerif.FragClosure NitroVerif.Composed
open NitroVerif.PrintMap NitroVerif.JsonText
open NitroVerif.Imports (Res DefId Import File FS resolve)
open NitroVerif.Imports.Spec (InRef refImports RootOK)

/-! ## 1. JSON text round trip -/

/-- STRING LEMMA. For EVERY string `s` (quotes, backslashes, `/`, control characters, non-ASCII, astral — any sequence of
    Unicode scalar values) and every text `rest`: reading json-writer's escaped characters of `s`, the closing quotation mark
    and `rest` with the RFC 8259 string scanner gives back exactly `s` and leaves exactly `rest`; the ECMA-262 string-literal
    scanner does the same. Hence `write_string s` is read back as the string `s` by both whole-text readers. -/
theorem json_string_roundtrip (s : String) (rest : List Char) :
    strBody (escChars s.toList ++ '"' :: rest) = some (s.toList, rest) ∧
    JsLit.strBody true '"' (escChars s.toList ++ '"' :: rest) = some (s.toList, rest) ∧
    JsonText.parse (jsonStr s).toList = some (.str s) ∧
    JsLit.expr ((jsonStr s).toList ++ rest) = some (.str s, rest) := by
  refine ⟨strBody_esc _ _, js_strBody_esc _ _, ?_, ?_⟩
  · exact parse_jsonText (.str s) rfl
  · have := value_str jsLit_ok s (fuelFor ((jsonStr s).toList ++ rest) - 1) rest
    rw [jsonStr_toList]
    have e : fuelFor (strChars s ++ rest) = (fuelFor (strChars s ++ rest) - 1) + 1 := by simp [fuelFor]
    rw [jsonStr_toList] at this
    unfold JsLit.expr
    rw [e]
    exact this

/-- every escape class of json-writer's table in one string — `"` `\` `/` BS FF LF CR HT, two other C0 controls (U+0000,
    U+001F), DEL, a non-ASCII letter, U+2028, U+2029, an astral character: the escaped text, and the kernel evaluating both
    scanners on it (`chars t` is `(jsonText t).toList`, `jsonText_toList`; the kernel evaluates lists of characters much
    faster than `String`s) -/
example :
    escChars ['"', '\\', '/', Char.ofNat 8, Char.ofNat 12, '\n', '\r', '\t', Char.ofNat 0, Char.ofNat 31,
      Char.ofNat 127, 'é', Char.ofNat 0x2028, Char.ofNat 0x2029, Char.ofNat 0x1F600, 'a']
      = "\\\"\\\\\\/\\b\\f\\n\\r\\t\\u0000\\u001F\x7fé\u2028\u2029😀a".toList ∧
    strBody ("\\\"\\\\\\/\\b\\f\\n\\r\\t\\u0000\\u001F\x7fé\u2028\u2029😀a\";".toList) =
      some (['"', '\\', '/', Char.ofNat 8, Char.ofNat 12, '\n', '\r', '\t', Char.ofNat 0, Char.ofNat 31,
        Char.ofNat 127, 'é', Char.ofNat 0x2028, Char.ofNat 0x2029, Char.ofNat 0x1F600, 'a'], [';']) ∧
    JsLit.strBody true '"' ("\\\"\\\\\\/\\b\\f\\n\\r\\t\\u0000\\u001F\x7fé\u2028\u2029😀a\";".toList) =
      some (['"', '\\', '/', Char.ofNat 8, Char.ofNat 12, '\n', '\r', '\t', Char.ofNat 0, Char.ofNat 31,
        Char.ofNat 127, 'é', Char.ofNat 0x2028, Char.ofNat 0x2029, Char.ofNat 0x1F600, 'a'], [';']) := by
  refine ⟨?_, ?_, ?_⟩ <;> decide +kernel

/-- the reader is not the writer's inverse by construction: it reads what RFC 8259 allows and the writer never produces
    (lower-case hexadecimal digits, `\u` escapes of printable characters, surrogate pairs, white space), and rejects what
    RFC 8259 forbids (a raw control character, a lone surrogate, an unknown escape, a trailing comma, a leading zero) -/
example :
    (JsonText.parse " [ \"\\u00e9\\uD83D\\uDE00\\u002f\" ,\t1.5e+3 , { \"a\" : null } ]\n".toList).map chars =
      some "[\"é😀\\/\",1.5e+3,{\"a\":null}]".toList ∧
    JsonText.parse ['"', '\n', '"'] = none ∧ JsonText.parse "\"\\uD83D\"".toList = none ∧
    JsonText.parse "\"\\q\"".toList = none ∧ JsonText.parse "[1,]".toList = none ∧ JsonText.parse "01".toList = none := by
  refine ⟨?_, ?_, ?_, ?_, ?_, ?_⟩ <;> decide +kernel

/-- THE READERS' ANSWERS DO NOT DEPEND ON THE FUEL (the readers recurse on explicit fuel to be total). For EVERY text: if some fuel
    makes a reader read a value at the head of the text, every larger fuel and the standard fuel `fuelFor` (what `parse` and
    `JsLit.expr` use) give the same tree and the same rest; so `JsonText.parse s = none` means that NO amount of fuel makes `s`
    a JSON text — the reference readers are the fuel-free relations "this text denotes this tree". -/
theorem json_reader_fuel_independent (s : List Char) (t : Json) (r : List Char) (f : Nat) :
    (value rfc8259 f s = some (t, r) →
      (∀ g, f ≤ g → value rfc8259 g s = some (t, r)) ∧ value rfc8259 (fuelFor s) s = some (t, r)) ∧
    (value JsLit.lex f s = some (t, r) →
      (∀ g, f ≤ g → value JsLit.lex g s = some (t, r)) ∧ JsLit.expr s = some (t, r)) ∧
    (JsonText.parse s = none → value rfc8259 f s = some (t, r) → skipWs rfc8259.ws r ≠ []) := by
  refine ⟨fun h => value_fuelFor rfc8259_consumes h, fun h => value_fuelFor (jsLit_consumes true) h, fun hn h he => ?_⟩
  have := (value_fuelFor rfc8259_consumes h).2
  simp [JsonText.parse, parseWith, this, he] at hn

/-- a text read with little fuel (5 is enough for `[[1],2]`, 4 is not), hence with every larger fuel -/
example : (value rfc8259 5 "[[1],2] x".toList).map (fun p => (chars p.1, p.2)) = some ("[[1],2]".toList, " x".toList) ∧
    value rfc8259 4 "[[1],2] x".toList = none := by
  constructor <;> decide +kernel

/-- JSON TEXT ROUND TRIP. For EVERY JSON tree `t` whose numbers are number tokens of RFC 8259 §6 (`good rfc8259.key t`: the
    only condition; strings and member names are arbitrary, nesting and sizes unbounded, member order and repeated names kept)
    the reference reader reads json-writer's compact text of `t` back as exactly `t`; and read as a prefix of any text that
    cannot continue a number, it stops exactly behind the tree. -/
theorem json_text_roundtrip (t : Json) (h : good rfc8259.key t = true) :
    JsonText.parse (jsonText t).toList = some t ∧
    ∀ rest, Delim rest →
      value rfc8259 (fuelFor ((jsonText t).toList ++ rest)) ((jsonText t).toList ++ rest) = some (t, rest) := by
  refine ⟨parse_jsonText t h, fun rest hd => ?_⟩
  rw [jsonText_toList]
  exact value_chars_fuelFor rfc8259_ok t h rest hd

/-- a tree satisfying the hypothesis: nested arrays and objects, empty ones, a repeated member name, every escape class in a
    member name and in a string, `true false null`, numbers with sign, fraction and exponent -/
example : good rfc8259.key
    (.obj [("a\"\\/\n\u0001é\u2028😀", .arr [.str "\"\\/\u0008\u000c\n\r\t\u0000é\u2029😀", .null, .bool true, .bool false, .obj [], .arr []]),
           ("k", .num "-1.5e+10"), ("k", .num "0"), ("", .arr [.arr [.num "12E-3"]])]) = true := by
  decide +kernel

/-- Why the hypothesis on numbers: `Json.num` keeps a raw text; a raw text that is not a number token is not read back. -/
theorem json_text_roundtrip_needs_number_tokens :
    JsonText.parse (jsonText (.num "01")).toList = none ∧ JsonText.parse (jsonText (.num "")).toList = none ∧
    (JsonText.parse (jsonText (.arr [.num "1,2"])).toList).map chars = some "[1,2]".toList := by
  refine ⟨?_, ?_, ?_⟩ <;> decide +kernel

/-- The document printer writes NO JSON number (graphql-js keeps `IntValue` / `FloatValue` literals as strings), only the
    seventeen member names of `JsonText.vocab` (`__proto__` is not one of them), and never the same name twice in one object —
    for every list of definitions. So the round trip holds unconditionally for its trees, for both readers; and a consumer
    that keeps the LAST occurrence of a repeated name (`JSON.parse`, an object literal) finds under every name what
    `Json.lookup` (first occurrence, used by the reference `DocumentNode` reader) finds. -/
theorem C12_text_member_names (defs : List ExecDef) :
    shape (toJson defs) = true ∧
    good rfc8259.key (toJson defs) = true ∧ good JsLit.lex.key (toJson defs) = true ∧
    "__proto__" ∉ vocab ∧
    ∀ (kvs : List (String × Json)) (k : String), keysOk (kvs.map (·.1)) = true → Json.lookup k kvs = lookupLast k kvs := by
  refine ⟨shape_toJson defs, good_doc_rfc defs, good_doc_js defs, by decide, fun kvs k h => ?_⟩
  simp only [keysOk, Bool.and_eq_true, decide_eq_true_eq] at h
  exact lookup_eq_lookupLast k kvs h.2

/-! ## 2. C12 at text level -/

/-- C12, TEXT LEVEL. For every import-resolved document the parser can produce: parsing the TEXT json-writer writes for it with
    the RFC 8259 reader and reading the result with the independent graphql-js `DocumentNode` reader returns exactly the source
    definitions with positions erased. (`C12_roundtrip` lifted from trees to text.) -/
theorem C12_text_level (defs : List ExecDef) (h : Resolved defs) :
    JsonText.parse (jsonText (toJson defs)).toList = some (toJson defs) ∧
    readText (jsonText (toJson defs)).toList = some (erasePos defs) := by
  refine ⟨parse_doc defs, ?_⟩
  simp [readText, parse_doc, C12_roundtrip defs h]

/-- Runtime document of an OPERATION X of an import-resolved document, as TEXT: the printer's single `write` carries a text
    that, parsed as JSON and read as a `DocumentNode`, is `[X] ++` the definitions of the reference closure of X's spreads
    (each once, first-visit order), positions erased; the same text standing at the head of ANY text that cannot continue a
    number (the `;` of the module, the ` as unknown as` of the `.graphql.ts` file), read as an ECMAScript expression, gives
    the same definitions and leaves exactly that text. (`C12_closure` lifted to text.) -/
theorem C12_text_closure (defs : List ExecDef) (hres : Resolved defs) (o : OperationDef) (ho : ExecDef.op o ∈ defs)
    (hdef : ∀ n, Reach (envOf defs) o.sel n → (getFrag defs n).isSome) :
    ∃ names txt, closure (envOf defs) defs.length o.sel = some names ∧ names.Nodup ∧
      runtimeText defs (.op o) = .ok txt ∧
      readText txt.toList = some (erasePos (.op o :: fragDefs defs names)) ∧
      ∀ rest, Delim rest → readJsExpr (txt.toList ++ rest) = some (erasePos (.op o :: fragDefs defs names), rest) := by
  obtain ⟨names, hc, hnd, hrun, _, _⟩ := C12_closure defs o hdef
  have hread := C12_roundtrip _ (resolved_fragDefs hres (.op o) ho names)
  obtain ⟨h1, h2, h3⟩ := text_lift hrun hread
  exact ⟨names, _, hc, hnd, h1, h2, h3⟩

/-- The same for the runtime document of a FRAGMENT X: `[X] ++` the closure of its spreads minus its own name.
    (`C12_closure_frag` lifted to text.) -/
theorem C12_text_closure_frag (defs : List ExecDef) (hres : Resolved defs) (f : FragmentDef) (hf : ExecDef.frag f ∈ defs)
    (hdef : ∀ n, Reach (envOf defs) f.sel n → (getFrag defs n).isSome) :
    ∃ names txt, closure (envOf defs) defs.length f.sel = some names ∧ names.Nodup ∧
      runtimeText defs (.frag f) = .ok txt ∧
      readText txt.toList = some (erasePos (.frag f :: fragDefs defs (names.filter fun n => n != f.name))) ∧
      ∀ rest, Delim rest →
        readJsExpr (txt.toList ++ rest) = some (erasePos (.frag f :: fragDefs defs (names.filter fun n => n != f.name)), rest) := by
  obtain ⟨names, hc, hnd, hrun, _, _⟩ := C12_closure_frag defs f hdef
  have hread := C12_roundtrip _ (resolved_fragDefs hres (.frag f) hf (names.filter fun n => n != f.name))
  obtain ⟨h1, h2, h3⟩ := text_lift hrun hread
  exact ⟨names, _, hc, hnd, h1, h2, h3⟩

/-- a document satisfying the hypotheses of `C12_text_closure` whose runtime document has a non-empty tail and a string with
    every escape class; the kernel evaluates the whole chain text → JSON → `DocumentNode` on it (`chars (toJson ds)` is the list of
    characters of `runtimeText`'s text, `jsonText_toList`; the definitions read are compared through their own text because
    `ExecDef` has no decidable equality) -/
example :
    let F : FragmentDef := { name := "F", cond := "T", sel := [.field none "c" {} [("s", {}, .str "\"\\/\u0008\u000c\n\r\t\u0001é\u2028😀" {})] [] none] }
    let Q : OperationDef := { kind := .query, name := some ("Q", {}), sel := [.spread "F" {} [] {}] }
    Resolved [.op Q, .frag F] ∧ ExecDef.op Q ∈ [ExecDef.op Q, .frag F] ∧
    (match runtimeDefs [.op Q, .frag F] (.op Q) with
     | .ok ds => (readText (chars (toJson ds))).map fun r => chars (toJson r)
     | .error _ => none) = some (chars (toJson (erasePos [.op Q, .frag F]))) := by
  refine ⟨by decide +kernel, by simp, by decide +kernel⟩

variable {κ ρ : Type} [DecidableEq κ] [DecidableEq ρ]
variable (code : Name → Nat) (res : κ → ρ → κ) (fs : Project κ ρ) (root : κ) (rootFile : SrcFile ρ)

/-- FROM FILES, as text (`C12_from_files` lifted): under its hypotheses the TEXT the printer writes for an operation X of the
    root file, parsed as JSON (or evaluated as the ECMAScript expression at the head of a text that cannot continue a number)
    and read as a `DocumentNode`, is `[X] ++` the definitions of the textbook closure of X's spreads over the REFERENCE import
    set, each once, positions erased. -/
theorem C12_text_from_files (hroot : RootOKp fs root rootFile) (hfiles : ProjectOk fs) (hrootOk : Resolved rootFile.defs)
    {R : List ExecDef} (h : resolveDoc code res fs root rootFile = .ok R) (hu : (fragNamesOf R).Nodup)
    (o : OperationDef) (hX : ExecDef.op o ∈ rootFile.defs)
    (hdef : ∀ n, Reach (envOf (refDoc code res fs root rootFile)) o.sel n →
      (getFrag (refDoc code res fs root rootFile) n).isSome) :
    ∃ names txt,
      closure (envOf (refDoc code res fs root rootFile)) (refDoc code res fs root rootFile).length o.sel = some names ∧
      names.Nodup ∧ (∀ n, n ∈ names ↔ Reach (envOf (refDoc code res fs root rootFile)) o.sel n) ∧
      runtimeText R (.op o) = .ok txt ∧
      readText txt.toList = some (erasePos (.op o :: fragDefs (refDoc code res fs root rootFile) names)) ∧
      ∀ rest, Delim rest →
        readJsExpr (txt.toList ++ rest) = some (erasePos (.op o :: fragDefs (refDoc code res fs root rootFile) names), rest) := by
  obtain ⟨names, hc, hnd, hreach, hrun, hread, _, _⟩ :=
    C12_from_files code res fs root rootFile hroot hfiles hrootOk h hu o hX hdef
  obtain ⟨h1, h2, h3⟩ := text_lift hrun hread
  exact ⟨names, _, hc, hnd, hreach, h1, h2, h3⟩

/-- the same for a FRAGMENT of the root file (`C12_from_files_frag` lifted) -/
theorem C12_text_from_files_frag (hroot : RootOKp fs root rootFile) (hfiles : ProjectOk fs)
    (hrootOk : Resolved rootFile.defs)
    {R : List ExecDef} (h : resolveDoc code res fs root rootFile = .ok R) (hu : (fragNamesOf R).Nodup)
    (f : FragmentDef) (hX : ExecDef.frag f ∈ rootFile.defs)
    (hdef : ∀ n, Reach (envOf (refDoc code res fs root rootFile)) f.sel n →
      (getFrag (refDoc code res fs root rootFile) n).isSome) :
    ∃ names txt,
      closure (envOf (refDoc code res fs root rootFile)) (refDoc code res fs root rootFile).length f.sel = some names ∧
      names.Nodup ∧
      runtimeText R (.frag f) = .ok txt ∧
      readText txt.toList =
        some (erasePos (.frag f :: fragDefs (refDoc code res fs root rootFile) (names.filter fun n => n != f.name))) ∧
      ∀ rest, Delim rest →
        readJsExpr (txt.toList ++ rest) =
          some (erasePos (.frag f :: fragDefs (refDoc code res fs root rootFile) (names.filter fun n => n != f.name)), rest) := by
  obtain ⟨names, hc, hnd, _, hrun, hread, _, _⟩ :=
    C12_from_files_frag code res fs root rootFile hroot hfiles hrootOk h hu f hX hdef
  obtain ⟨h1, h2, h3⟩ := text_lift hrun hread
  exact ⟨names, _, hc, hnd, h1, h2, h3⟩

/-- the hypotheses of `C12_text_from_files` hold of the diamond project of `Props/C12Composed.lean`, so its conclusion does;
    and the kernel evaluates the chain on the text of `Q`'s runtime document: `Q, Y, X1, X0` -/
example : (match runtimeDefs Ex.exR (.op Ex.opQ) with
     | .ok ds => (readText (chars (toJson ds))).map fragNamesOf
     | .error _ => none) = some ["Y", "X1", "X0"] := by
  decide +kernel

/-! ## 3. the embedding: an object literal in a module -/

/-- ECMASCRIPT LITERAL. For every JSON tree `t` whose numbers are number tokens and none of whose member names is
    `__proto__` (`good JsLit.lex.key t`), and every text `rest` that cannot continue a number: the ECMAScript expression reader
    (ES2019 lexical grammar, literal subset) applied to json-writer's text of `t` followed by `rest` evaluates to exactly `t`
    and leaves exactly `rest`. I.e. the compact JSON text IS an ECMAScript literal expression with the same value — under
    (E1), (E2) of the header. -/
theorem js_literal_roundtrip (t : Json) (h : good JsLit.lex.key t = true) (rest : List Char) (hd : Delim rest) :
    JsLit.expr ((jsonText t).toList ++ rest) = some (t, rest) :=
  expr_jsonText t h rest hd

/-- the hypotheses are satisfiable by a tree with every escape class, followed by the `;` of a module -/
example : good JsLit.lex.key
    (.obj [("a\"\\/\n\u0001é\u2028😀", .arr [.str "\"\\/\u0008\u000c\n\r\t\u0000é\u2029😀", .null, .bool true, .obj [], .arr []]),
           ("k", .num "-1.5e+10")]) = true ∧ Delim ";\n\nexport { X as default };\n".toList := by
  exact ⟨by decide +kernel, delim_semicolon _⟩

/-- the side condition on member names is needed: `{"__proto__": …}` as an object LITERAL sets the prototype (Annex B.3.1)
    while `JSON.parse` creates a member — the ECMAScript reader refuses it, the JSON reader reads it -/
example : JsLit.expr (jsonText (.obj [("__proto__", .null)])).toList = none ∧
    (JsonText.parse (jsonText (.obj [("__proto__", .null)])).toList).map chars = some "{\"__proto__\":null}".toList := by
  constructor <;> decide +kernel

/-- JSON ⊂ ECMASCRIPT (ES2019), for ALL texts — not only the writer's. Whenever the RFC 8259 reader reads a value at the head of a
    text as the tree `t` leaving `r` (any fuel), and no member of `t` is named `__proto__`, the ECMAScript literal reader reads
    the same text as the same tree leaving the same `r`; in particular a whole JSON text is an ECMAScript literal expression
    with the same value, followed by nothing but JSON white space. This is the "JSON superset" fact, proved between the two
    transcriptions of `Spec/JsonText.lean` (so what remains assumed under (E1) is that `JsLit` transcribes ECMA-262, not that
    the two grammars are compatible). The two side conditions are sharp: `__proto__` (example above) and ES2019
    (`C12_text_needs_es2019`). -/
theorem json_subset_of_ecmascript (s : List Char) (t : Json) (hp : protoFree t = true) :
    (∀ f r, value rfc8259 f s = some (t, r) → value JsLit.lex f s = some (t, r)) ∧
    (JsonText.parse s = some t → ∃ r, JsLit.expr s = some (t, r) ∧ skipWs rfc8259.ws r = []) := by
  refine ⟨fun f r h => (js_of_rfc_fuel f).1 s t r h hp, fun h => ?_⟩
  simp only [JsonText.parse, parseWith] at h
  cases hv : value rfc8259 (fuelFor s) s with
  | none => simp [hv] at h
  | some p =>
    obtain ⟨t', r⟩ := p
    simp only [hv] at h
    split at h
    · rename_i he
      simp only [Option.some.injEq] at h
      subst h
      exact ⟨r, (js_of_rfc_fuel _).1 s _ r hv hp, by simpa using he⟩
    · cases h

/-- the hypotheses are satisfiable by a text the writer would never produce (white space everywhere, `\u` escapes of
    printable characters, lower-case hexadecimal digits, a surrogate pair, an exponent) -/
example : (JsonText.parse " [ \"\\u00e9\\uD83D\\uDE00\\u002f\" ,\t1.5e+3 , { \"a\" : null } ]\n".toList).map protoFree = some true := by
  decide +kernel

/-- The two readers agree on every document the printer writes: `JSON.parse` of the text and evaluation of the text as an
    ECMAScript literal give the same tree. -/
theorem C12_text_readers_agree (defs : List ExecDef) :
    (JsLit.expr (jsonText (toJson defs)).toList).map (·.1) = JsonText.parse (jsonText (toJson defs)).toList := by
  have := expr_doc defs [] delim_nil
  simp only [List.append_nil] at this
  rw [this, parse_doc]
  rfl

/-- JAVASCRIPT MODULE / LOADER OUTPUT (`operation_js_printer`): the statement of a definition whose runtime document is `ds` is,
    character for character, `[export ]const <Name> = ` followed by the literal followed by `;` and two newlines; what stands
    behind `const <Name> = ` — with whatever follows the statement in the module — is read by the ECMAScript expression reader
    as exactly the tree of `ds`, stopping at the `;`; for a resolved `ds`, read as a `DocumentNode`, it is `ds` with positions
    erased. There is no `JSON.parse` call and no second escaping layer. -/
theorem C12_text_embedded_js (D : Doc) (x : ExecDef) (ds : List ExecDef) (h : runtimeDefs D x = .ok ds)
    (name : String) (i : Nat) (exported : Bool) (after : List Char) :
    (RStmt.text (.jsConst name i exported (runtimeModelText D x))).toList ++ after =
      (jsConstPrefix name exported).toList ++ ((jsonText (toJson ds)).toList ++ ';' :: '\n' :: '\n' :: after) ∧
    JsLit.expr ((jsonText (toJson ds)).toList ++ ';' :: '\n' :: '\n' :: after) =
      some (toJson ds, ';' :: '\n' :: '\n' :: after) ∧
    (Resolved ds →
      readJsExpr ((jsonText (toJson ds)).toList ++ ';' :: '\n' :: '\n' :: after) =
        some (erasePos ds, ';' :: '\n' :: '\n' :: after)) := by
  refine ⟨?_, expr_doc ds _ (delim_semicolon after), fun hr => ?_⟩
  · rw [runtimeModelText_ok h]; exact jsConst_toList _ _ _ _ _
  · simp [readJsExpr, expr_doc ds _ (delim_semicolon after), C12_roundtrip ds hr]

/-- STANDALONE `.graphql.ts` (`operation_type_printer` with `print_values`): the statement is
    `[export ]const <Name>: T = ` literal ` as unknown as T;`; what stands behind ` = ` is read by the ECMAScript expression
    reader as exactly the tree of `ds`, stopping at the space before `as` (under (E3) the assertion does not change the value). -/
theorem C12_text_embedded_ts (D : Doc) (x : ExecDef) (ds : List ExecDef) (h : runtimeDefs D x = .ok ds)
    (name : String) (i : Nat) (exported ambient : Bool) (ty : NitroVerif.Ts.Ty) (after : List Char) :
    (RStmt.text (.const name i exported ambient ty (optValue true D x))).toList ++ after =
      (tsConstPrefix name exported ambient ty).toList ++
        ((jsonText (toJson ds)).toList ++ ' ' :: ((tsConstSuffix ty).toList ++ after)) ∧
    JsLit.expr ((jsonText (toJson ds)).toList ++ ' ' :: ((tsConstSuffix ty).toList ++ after)) =
      some (toJson ds, ' ' :: ((tsConstSuffix ty).toList ++ after)) ∧
    (Resolved ds →
      readJsExpr ((jsonText (toJson ds)).toList ++ ' ' :: ((tsConstSuffix ty).toList ++ after)) =
        some (erasePos ds, ' ' :: ((tsConstSuffix ty).toList ++ after))) := by
  refine ⟨?_, expr_doc ds _ (delim_space _), fun hr => ?_⟩
  · simp only [optValue, if_true]; rw [runtimeModelText_ok h]; exact tsConst_toList _ _ _ _ _ _ _
  · simp [readJsExpr, expr_doc ds _ (delim_space _), C12_roundtrip ds hr]

/-- THE WHOLE JAVASCRIPT MODULE: whenever `print_js_for_operation_document` returns, the concatenated text of its calls is the
    text of the statements `jsStmts` (C06, `opJsOps_text`), and every statement is `export { … as default };` or a constant
    `[export ]const <Name> = <literal>;` whose literal is the text of the runtime document of a definition of the document — to
    which `C12_text_embedded_js` applies. -/
theorem C12_text_module_js {fo : FullOpts} {D : Doc} {docFile : Nat} {ops : List POp} (h : opJsOps fo D docFile = .ok ops) :
    rawText ops = stmtsText (jsStmts fo D docFile (operationCount D) 0 D) ∧
    ∀ s ∈ jsStmts fo D docFile (operationCount D) 0 D, JsStmtOk D D s :=
  ⟨opJsOps_text h, jsStmts_values fo D docFile _ D ops 0 h⟩

/-- THE WHOLE `.graphql.ts` FILE (`print_types_for_operation_document`): whenever the printer returns, the concatenated text of its
    calls is the two import lines followed by the statements `typeStmts` (C06, `opTypeOps_text`), and every statement is a type
    alias, the default export, a constant without a value (`print_values` off: nothing of C12 is emitted) or a constant
    `[export ]const <Name>: T = <literal> as unknown as T;` whose literal is the text of the runtime document of a definition of the
    document — to which `C12_text_embedded_ts` applies. -/
theorem C12_text_module_ts {fo : FullOpts} {S : Schema} {D : Doc} {docFile : Nat} {sps : List Pos} {ops : List POp}
    (h : opTypeOps fo S D docFile sps = .ok ops) :
    rawText ops = opHeaderText fo ++ stmtsText (typeStmts fo S D docFile (operationCount D) 0 D) ∧
    ∀ s ∈ typeStmts fo S D docFile (operationCount D) 0 D, TsStmtOk D D s := by
  refine ⟨opTypeOps_text h, ?_⟩
  unfold opTypeOps at h
  split at h
  · cases h
  · rename_i r hr
    exact typeStmts_values fo S D docFile _ D sps r 0 hr

/-- the hypothesis of `C12_text_module_ts` holds in standalone mode (`print_values`) for `query q { a(s: "<escapes>") }` over
    `type Query { a: Int }` -/
example : ∃ ops, opTypeOps { names := { printValues := true } }
    ⟨[.typeDef { kind := .object, name := "Query", fields := [{ name := "a", ty := .named "Int" {} }] }]⟩
    [.op { kind := .query, name := some ("q", {}),
           sel := [.field none "a" {} [("s", {}, .str "\"\\/\n\u0001\u2028😀" {})] [] none] }] 0 [{}] = .ok ops :=
  ⟨_, rfl⟩

/-- non-vacuity of the module theorems: `print_js_for_operation_document` returns for the module of
    `query Q { ...F }  fragment F on T { c(s: "<every escape class>") }`, and the kernel reads the expression that stands behind
    `const QQuery = ` (the characters of the runtime document's text followed by the rest of the statement and the next one),
    stopping at the `;` -/
example :
    let F : FragmentDef := { name := "F", cond := "T", sel := [.field none "c" {} [("s", {}, .str "\"\\/\u0008\u000c\n\r\t\u0001é\u2028😀" {})] [] none] }
    let Q : OperationDef := { kind := .query, name := some ("Q", {}), sel := [.spread "F" {} [] {}] }
    (opJsOps {} [.op Q, .frag F] 0).toOption.isSome = true ∧
    (match runtimeDefs [.op Q, .frag F] (.op Q) with
     | .ok ds =>
       (readJsExpr (chars (toJson ds) ++ ";\n\nexport { QQuery as default };\n\n".toList)).map fun p =>
         (chars (toJson p.1), p.2)
     | .error _ => none) =
      some (chars (toJson (erasePos [.op Q, .frag F])), ";\n\nexport { QQuery as default };\n\n".toList) := by
  constructor <;> decide +kernel

/-- The literal of every document contains no raw control character — json-writer escapes every C0 control and the structural
    characters are printable — so in particular no line break: the literal stays on the line of its `const` (which the
    harness's line-based extraction relies on), and the indentation `SourceWriter` inserts at line starts never falls inside it
    (which is why `rawText`, the concatenation of the written chunks, is the module text around and inside the literal). -/
theorem C12_text_single_line (defs : List ExecDef) :
    ∀ c ∈ (jsonText (toJson defs)).toList, 32 ≤ c.toNat ∧ c ≠ '\n' ∧ c ≠ '\r' := by
  intro c hc
  rw [jsonText_toList] at hc
  have := chars_printable _ (shape_toJson defs) c hc
  refine ⟨this, ?_, ?_⟩ <;> (intro e; subst e; simp at this)

/-- What (E2) buys. json-writer escapes only `"` `\` `/` and the C0 controls; U+2028 / U+2029 are written raw. A GraphQL string
    may contain them (they are `SourceCharacter`s, not GraphQL line terminators), so the literal of such a document is an
    ECMAScript expression only from ES2019 on ("JSON superset"): the ES2018 lexical grammar rejects it, the ES2019 one and
    RFC 8259 read it. -/
theorem C12_text_needs_es2019 :
    let d : List ExecDef :=
      [.op { kind := .query, sel := [.field none "a" {} [("s", {}, .str (String.ofList [Char.ofNat 0x2028]) {})] [] none] }]
    Resolved d ∧
    value JsLit.lex2018 (fuelFor (jsonText (toJson d)).toList) (jsonText (toJson d)).toList = none ∧
    (JsLit.expr (jsonText (toJson d)).toList).map (·.2) = some [] ∧
    readText (jsonText (toJson d)).toList = some (erasePos d) := by
  refine ⟨by decide +kernel, ?_, ?_, ?_⟩
  · rw [jsonText_toList]; decide +kernel
  · have := expr_doc [.op { kind := .query, sel := [.field none "a" {} [("s", {}, .str (String.ofList [Char.ofNat 0x2028]) {})] [] none] }]
      [] delim_nil
    simp only [List.append_nil] at this
    rw [this]; rfl
  · exact (C12_text_level _ (by decide +kernel)).2

end NitroVerif.C12
