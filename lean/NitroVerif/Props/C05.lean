import NitroVerif.Lemmas.CheckTsValue
import NitroVerif.Lemmas.CheckTsRec
import NitroVerif.Lemmas.CheckTsUnique
import NitroVerif.Lemmas.CheckTsRecSpec
import NitroVerif.Lemmas.CheckTsPreE3584a3
/-!
# C05 — schema `check` verdict is exact on the implemented type-system rules

Property theorems only. Model: `NitroVerif/Model/CheckTs.lean` + `CheckTsCommon.lean` (tied to
`crates/checker/src/type_system_checker/*`, `common.rs`, `types.rs`, `definition_map.rs` by the
correspondence stream of `harness/src/bin/c05.rs`); specification: `NitroVerif/Spec/ValidTs.lean`.

`checkSchema T = []` is "the real check accepts the resolved document `T`" (built-ins are part of `T`).
Each `C05_sound_<rule>` says: an accepted document satisfies the rule as the GraphQL specification states
it. Rules whose statement needs "the type named n" to be unambiguous need `uniqueTypeNames T` (the checker
consults the LAST definition of a name where the schema view has the FIRST; they agree when type names are
unique). Since fix 8cdbacf the checker itself reports a repeated type name (`check_unique_names`, section
"unique names" below), so `uniqueTypeNames T` FOLLOWS from acceptance; what remains as a hypothesis of those rules
is `builtinTypeNamesDistinct T` — the built-in-position definitions, which are data of `T`, do not repeat a name
among themselves (true of the constant list `generate_builtins()`; the checker never reports a clash between two
built-in positions).
-/
namespace NitroVerif.CheckTs
open NitroVerif.Gql NitroVerif.ValidTs

/-! ## the rule predicates -/

def Holds_reservedNames (T : TsDoc) : Prop := reservedNames T = true
def Holds_uniqueFields (T : TsDoc) : Prop := uniqueFields T = true
def Holds_uniqueArgs (T : TsDoc) : Prop := uniqueArgs T = true
def Holds_uniqueEnumValues (T : TsDoc) : Prop := uniqueEnumValues T = true
def Holds_uniqueUnionMembers (T : TsDoc) : Prop := uniqueUnionMembers T = true
def Holds_uniqueTypeDefs (T : TsDoc) : Prop := uniqueTypeDefs T = true
def Holds_knownTypes (T : TsDoc) : Prop := knownTypes T = true
def Holds_outputPositions (T : TsDoc) : Prop := outputPositions T = true
def Holds_inputPositions (T : TsDoc) : Prop := inputPositions T = true
def Holds_implementsInterfaces (T : TsDoc) : Prop := implementsInterfaces T = true
def Holds_noSelfImplements (T : TsDoc) : Prop := noSelfImplements T = true
def Holds_transitiveInterfaces (T : TsDoc) : Prop := transitiveInterfaces T = true
def Holds_ifaceFieldsPresent (T : TsDoc) : Prop := ifaceFieldsPresent T = true
def Holds_ifaceFieldsCovariant (T : TsDoc) : Prop := ifaceFieldsCovariant T = true
def Holds_ifaceFieldArgs (T : TsDoc) : Prop := ifaceFieldArgs T = true
def Holds_unionMembersObjects (T : TsDoc) : Prop := unionMembersObjects T = true
def Holds_directivesDefined (T : TsDoc) : Prop := directivesDefined T = true
def Holds_directivesLocated (T : TsDoc) : Prop := directivesLocated T = true
def Holds_directivesUnique (T : TsDoc) : Prop := directivesUnique T = true
def Holds_directiveArgs (T : TsDoc) : Prop := directiveArgs T = true
def Holds_noRecursiveDirectives (T : TsDoc) : Prop := noRecursiveDirectives T = true
def TsSpecValid (T : TsDoc) : Prop := tsSpecValid T = true

/-- a small valid schema used as the non-vacuity witness of the hypotheses below -/
def sampleSchema : TsDoc :=
  [.typeDef { kind := .scalar, name := "Int" },
   .directiveDef { name := "flag", locations := ["OBJECT", "FIELD_DEFINITION"] },
   .typeDef { kind := .interface, name := "Node", fields := [{ name := "id", ty := .named "Int" {} }] },
   .typeDef { kind := .object, name := "Query", implements := [("Node", {})],
              dirs := [{ name := "flag" }],
              fields := [{ name := "id", ty := .nonNull (.named "Int" {}),
                           args := [{ name := "x", ty := .named "Int" {} }] }] }]

example : checkSchema sampleSchema = [] := by decide
example : tsSpecValid sampleSchema = true := by decide

/-! ## reserved names -/

/-- An accepted document has no type, field, argument, input field, enum value, directive or directive
    argument whose name starts with `__`. -/
theorem C05_sound_reservedNames (T : TsDoc) (h : checkSchema T = []) : Holds_reservedNames T := by
  have hargs : ∀ as, checkArgsDef ⟨T⟩ as = [] → (as.all fun a => !startsWithUU a.name) = true := by
    intro as has
    simp only [List.all_eq_true, Bool.not_eq_true']
    intro a ha
    exact ((checkArgsDef_nil has).1 a ha).1
  simp only [Holds_reservedNames, reservedNames, Bool.and_eq_true, List.all_eq_true, Bool.not_eq_true']
  refine ⟨?_, ?_⟩
  · intro t ht
    refine ⟨⟨⟨(typeDef_parts h ht).1, ?_⟩, ?_⟩, ?_⟩
    · intro f hf
      have := (fieldsOfT_facts h ht).1 f hf
      refine ⟨this.1, ?_⟩
      have := hargs f.args this.2.2.2
      simpa only [List.all_eq_true, Bool.not_eq_true'] using this
    · intro v hv; exact ((valuesOfT_facts h ht).1 v hv).1
    · intro f hf; exact ((inputsOfT_facts h ht).1 f hf).1
  · intro d hd
    have := directiveDef_parts h hd
    refine ⟨this.2.1, ?_⟩
    have := hargs d.args this.2.2
    simpa only [List.all_eq_true, Bool.not_eq_true'] using this

/-! ## duplicates -/

/-- An accepted document has no object / interface type with two fields of one name and no input object
    with two input fields of one name. -/
theorem C05_sound_uniqueFields (T : TsDoc) (h : checkSchema T = []) : Holds_uniqueFields T := by
  simp only [Holds_uniqueFields, uniqueFields, List.all_eq_true, Bool.and_eq_true]
  intro t ht
  exact ⟨(fieldsOfT_facts h ht).2, (inputsOfT_facts h ht).2⟩

/-- In an accepted document no field and no directive definition has two arguments of one name. -/
theorem C05_sound_uniqueArgs (T : TsDoc) (h : checkSchema T = []) : Holds_uniqueArgs T := by
  simp only [Holds_uniqueArgs, uniqueArgs, List.all_eq_true]
  intro as has
  exact (checkArgsDef_nil (argLists_facts h has)).2

/-- In an accepted document no enum type has two values of one name. -/
theorem C05_sound_uniqueEnumValues (T : TsDoc) (h : checkSchema T = []) : Holds_uniqueEnumValues T := by
  simp only [Holds_uniqueEnumValues, uniqueEnumValues, List.all_eq_true]
  intro t ht
  exact (valuesOfT_facts h ht).2

/-- In an accepted document no union type lists a member twice. -/
theorem C05_sound_uniqueUnionMembers (T : TsDoc) (h : checkSchema T = []) : Holds_uniqueUnionMembers T := by
  simp only [Holds_uniqueUnionMembers, uniqueUnionMembers, List.all_eq_true]
  intro t ht
  exact (membersOfT_facts h ht).2

/-- If the extension resolver raises no `DuplicateOriginal` on the (unresolved) document, then no two type
    definitions of the same kind have the same name and there is at most one schema definition. -/
theorem C05_sound_uniqueTypeDefs (T : TsDoc) (h : dupOriginal? T = none) : Holds_uniqueTypeDefs T := by
  obtain ⟨_, h2, _, h4⟩ := dupOriginalAux_none T [] h
  simp only [Holds_uniqueTypeDefs, uniqueTypeDefs, Bool.and_eq_true, decide_eq_true_eq]
  exact ⟨h2, h4⟩

example : dupOriginal? sampleSchema = none := by decide

/-! ## unique names (`check_unique_names`, fix 8cdbacf) -/

/-- **Type names are unique across kinds.** In an accepted document (1) no two type definitions written by the
    user — of whatever kinds: `type A {…}  input A {…}` — share a name, (2) no user type definition takes the
    name of a built-in-position type definition (`enum Int {…}` next to the built-in scalar `Int`), and hence
    (3) when the built-in-position definitions do not repeat a name among themselves, ALL type names of the document
    are pairwise distinct (`uniqueTypeNames`, the specification's §3.3 rule). -/
theorem C05_unique_type_names (T : TsDoc) (h : checkSchema T = []) :
    userTypeNamesUnique T = true ∧ builtinTypeNamesNotTaken T = true ∧
    (builtinTypeNamesDistinct T = true → uniqueTypeNames T = true) := by
  obtain ⟨h1, h2⟩ := typeIdentsOk_of_accepted h
  exact ⟨(noDup_iff_nodup _).mpr h1, all_of_disjoint h2, uniqueTypeNames_of_accepted h⟩

/-- a document with built-in-position scalars, a user type and a re-declared built-in directive: accepted, the
    side conditions used below hold -/
def sampleWithBuiltins : TsDoc :=
  [.directiveDef { name := "deprecated", locations := ["FIELD_DEFINITION"] },
   .typeDef { kind := .object, name := "Query", fields := [{ name := "a", ty := .named "Int" {}, dirs := [{ name := "deprecated" }] }] },
   .typeDef { kind := .scalar, name := "Int", namePos := { builtin := true } },
   .typeDef { kind := .scalar, name := "String", namePos := { builtin := true } },
   .directiveDef { name := "deprecated", namePos := { builtin := true }, locations := ["FIELD_DEFINITION", "ENUM_VALUE"] }]

example : checkSchema sampleWithBuiltins = [] ∧ builtinTypeNamesDistinct sampleWithBuiltins = true ∧
    builtinDirectivesLast sampleWithBuiltins = true ∧ uniqueTypeNames sampleWithBuiltins = true := by decide

/-- **The user's directive names are unique** — in an accepted document in which no built-in-position directive
    definition precedes a user definition of the same directive (`builtinDirectivesLast`: the CLI appends the
    built-ins after the user's definitions and the extension resolver keeps directive definitions in order).
    Re-declaring a built-in directive is allowed by the code and is not excluded here. -/
theorem C05_unique_directive_names_partial (T : TsDoc) (h : checkSchema T = [])
    (hl : builtinDirectivesLast T = true) : userDirectiveNamesUnique T = true :=
  userDirectiveNamesUnique_of_accepted h hl

/-- … and with built-in directives that are pairwise distinct and not re-declared, ALL directive names are pairwise
    distinct (`uniqueDirectiveNames`, the specification's §3.13 rule). -/
theorem C05_unique_directive_names_all (T : TsDoc) (h : checkSchema T = [])
    (hb : builtinDirectiveNamesDistinct T = true) (hr : builtinDirectivesNotRedeclared T = true) :
    uniqueDirectiveNames T = true :=
  uniqueDirectiveNames_of_accepted h hb hr

example : builtinDirectiveNamesDistinct sampleSchema = true ∧ builtinDirectivesNotRedeclared sampleSchema = true ∧
    builtinDirectiveNamesDistinct sampleWithBuiltins = true ∧ builtinDirectivesNotRedeclared sampleWithBuiltins = false := by
  decide

/-- The full statement `checkSchema T = [] → userDirectiveNamesUnique T` is FALSE of the code (as a function of an
    arbitrary document): `check_unique_names` compares a definition with the FIRST earlier identifier of its name
    only, and a (built-in, user) pair of directives is not reported — so behind a built-in-position `@d` two user
    definitions of `@d` pass. Not reachable through the CLI (built-ins come last). -/
theorem C05_unique_directive_names_counterexample :
    let T : TsDoc := [.directiveDef { name := "d", namePos := { builtin := true }, locations := ["OBJECT"] },
                      .directiveDef { name := "d", namePos := { line := 1 }, locations := ["OBJECT"] },
                      .directiveDef { name := "d", namePos := { line := 2 }, locations := ["OBJECT"] }]
    checkSchema T = [] ∧ userDirectiveNamesUnique T = false ∧ builtinDirectivesLast T = false := by decide

/-- **`check_unique_names` is exact on the user's side** (completeness of the new rule alone): if the user's type
    names are pairwise distinct and none is the name of a built-in-position type, and the user's directive names are
    pairwise distinct, `check_unique_names` reports nothing — whatever the built-ins are; in particular a user
    re-declaration of a built-in directive gets no diagnostic. -/
theorem C05_unique_names_complete (T : TsDoc) (h1 : userTypeNamesUnique T = true)
    (h2 : builtinTypeNamesNotTaken T = true) (h3 : userDirectiveNamesUnique T = true) : checkUniqueNames T = [] :=
  checkUniqueNames_nil_of_user h1 h2 h3

example : userTypeNamesUnique sampleWithBuiltins = true ∧ builtinTypeNamesNotTaken sampleWithBuiltins = true ∧
    userDirectiveNamesUnique sampleWithBuiltins = true := by decide

/-- the three fault classes are reported, at the user's identifier: the later of two user types of different kinds;
    the user type that takes a built-in scalar's name, whether it comes before or after the built-in; the later of
    two user directives -/
theorem C05_duplicate_names_reported :
    checkUniqueNames [.typeDef { kind := .object, name := "A", namePos := { line := 1 } },
                      .typeDef { kind := .input, name := "A", namePos := { line := 2 } }] =
      [(.DuplicatedName, { line := 2 })] ∧
    checkUniqueNames [.typeDef { kind := .enum, name := "Int", namePos := { line := 1 } },
                      .typeDef { kind := .scalar, name := "Int", namePos := { builtin := true } }] =
      [(.DuplicatedName, { line := 1 })] ∧
    checkUniqueNames [.typeDef { kind := .scalar, name := "Int", namePos := { builtin := true } },
                      .typeDef { kind := .enum, name := "Int", namePos := { line := 1 } }] =
      [(.DuplicatedName, { line := 1 })] ∧
    checkUniqueNames [.directiveDef { name := "d", namePos := { line := 1 } },
                      .directiveDef { name := "d", namePos := { line := 2 } }] =
      [(.DuplicatedName, { line := 2 })] := by decide

/-! ## input / output positions -/

/-- In an accepted document no field of an object or interface type has an input object type. -/
theorem C05_sound_outputPositions (T : TsDoc) (h : checkSchema T = []) : Holds_outputPositions T := by
  simp only [Holds_outputPositions, outputPositions, List.all_eq_true]
  intro t ht f hf
  obtain ⟨k, hk, ho⟩ := outputFieldType_nil ((fieldsOfT_facts h ht).1 f hf).2.2.1
  rw [hk]
  cases k <;> first | rfl | (exact absurd ho (by decide))

/-- In an accepted document every argument (of a field or of a directive) and every input-object field
    has a scalar, enum or input object type. -/
theorem C05_sound_inputPositions (T : TsDoc) (h : checkSchema T = []) : Holds_inputPositions T := by
  simp only [Holds_inputPositions, inputPositions, List.all_eq_true]
  intro v hv
  obtain ⟨k, hk, ho⟩ := inputValueType_nil (inputValues_facts h hv)
  rw [hk]
  cases k <;> first | rfl | (exact absurd ho (by decide))

/-! ## unknown types -/

/-- In an accepted document every type named inside a type or directive definition (field, argument and
    input-field types, implemented interfaces, union members) is defined. -/
theorem C05_sound_knownTypeRefs (T : TsDoc) (h : checkSchema T = []) : knownTypeRefs T = true := by
  simp only [knownTypeRefs, Bool.and_eq_true, List.all_eq_true]
  refine ⟨?_, ?_⟩
  · intro t ht
    refine ⟨⟨?_, ?_⟩, ?_⟩
    · intro f hf
      obtain ⟨k, hk, _⟩ := outputFieldType_nil ((fieldsOfT_facts h ht).1 f hf).2.2.1
      exact known_of_kindOf hk
    · intro i hi
      obtain ⟨_, idef, hl, _, _⟩ := implementsOfT_facts h ht i hi
      exact known_of_lastTypeDef hl
    · intro m hm
      obtain ⟨d, hl, _⟩ := (membersOfT_facts h ht).1 m hm
      exact known_of_lastTypeDef hl
  · intro v hv
    obtain ⟨k, hk, _⟩ := inputValueType_nil (inputValues_facts h hv)
    exact known_of_kindOf hk

/-- The rule "every referenced type is defined" for an accepted document, under the side condition that
    the root operation types named by `schema { … }` are defined (the checker does not look at them:
    `C05_sound_knownTypes_counterexample`, open finding `sound:unknown-types@root-operation-type`). -/
theorem C05_sound_knownTypes_partial (T : TsDoc) (h : checkSchema T = []) (hr : knownRootTypes T = true) :
    Holds_knownTypes T := by
  simp only [Holds_knownTypes, knownTypes, Bool.and_eq_true]
  exact ⟨C05_sound_knownTypeRefs T h, hr⟩

example : checkSchema sampleSchema = [] ∧ knownRootTypes sampleSchema = true := by decide

/-- `schema { query: Query subscription: Nope }` with `Nope` undefined is accepted. -/
def unknownRootSchema : TsDoc :=
  [.typeDef { kind := .scalar, name := "Int" },
   .schemaDef { roots := [(.query, "Query", {}), (.subscription, "Nope", {})] },
   .typeDef { kind := .object, name := "Query", fields := [{ name := "a", ty := .named "Int" {} }] }]

/-- The full statement `checkSchema T = [] → Holds_knownTypes T` is FALSE of the code. -/
theorem C05_sound_knownTypes_counterexample :
    checkSchema unknownRootSchema = [] ∧ ¬ Holds_knownTypes unknownRootSchema := by
  unfold Holds_knownTypes; decide

/-! ## `implements` -/

/-- In an accepted document no interface lists itself among the interfaces it implements. -/
theorem C05_sound_noSelfImplements (T : TsDoc) (h : checkSchema T = []) : Holds_noSelfImplements T := by
  simp only [Holds_noSelfImplements, noSelfImplements, List.all_eq_true, Bool.or_eq_true, bne_iff_ne, ne_eq]
  intro t ht
  by_cases hk : t.kind = .interface
  · right
    intro i hi
    have hi' : i ∈ implementsOfT t := by simp [implementsOfT, isObjOrIface, hk, hi]
    exact fun hc => (implementsOfT_facts h ht i hi').1 hk hc.symm
  · left; exact hk

/-- In an accepted document (built-in-position type definitions pairwise distinct), everything a type says it implements is an
    interface type. -/
theorem C05_sound_implementsInterfaces (T : TsDoc) (hb : builtinTypeNamesDistinct T = true)
    (h : checkSchema T = []) : Holds_implementsInterfaces T := by
  have hu := uniqueTypeNames_of_accepted h hb
  simp only [Holds_implementsInterfaces, implementsInterfaces, List.all_eq_true]
  intro t ht i hi
  obtain ⟨_, idef, hl, hk, _⟩ := implementsOfT_facts h ht i hi
  rw [lastTypeDef_eq_typeDef hu] at hl
  rw [kindOf_of_typeDef hl, hk]
  rfl

/-- In an accepted document (built-in-position type definitions pairwise distinct), every member of a union is an object type. -/
theorem C05_sound_unionMembersObjects (T : TsDoc) (hb : builtinTypeNamesDistinct T = true)
    (h : checkSchema T = []) : Holds_unionMembersObjects T := by
  have hu := uniqueTypeNames_of_accepted h hb
  simp only [Holds_unionMembersObjects, unionMembersObjects, List.all_eq_true]
  intro t ht m hm
  obtain ⟨d, hl, hk⟩ := (membersOfT_facts h ht).1 m hm
  rw [lastTypeDef_eq_typeDef hu] at hl
  rw [kindOf_of_typeDef hl, hk]
  rfl

example : builtinTypeNamesDistinct sampleSchema = true ∧ checkSchema sampleSchema = [] ∧
    builtinTypeNamesDistinct sampleWithBuiltins = true ∧ checkSchema sampleWithBuiltins = [] := by decide

/-- In an accepted document (built-in-position type definitions pairwise distinct), a type that implements an interface also declares
    every interface that interface implements. -/
theorem C05_sound_transitiveInterfaces (T : TsDoc) (hb : builtinTypeNamesDistinct T = true)
    (h : checkSchema T = []) : Holds_transitiveInterfaces T := by
  have hu := uniqueTypeNames_of_accepted h hb
  simp only [Holds_transitiveInterfaces, transitiveInterfaces, List.all_eq_true]
  intro t ht idef hidef j hj
  obtain ⟨hobj, _, _, hv⟩ := implementedIfaces_facts hu h ht idef hidef
  have := (checkValidImpl_nil hv).1 j hj
  simpa [implementsOfT, hobj] using this

/-! ## interface fields -/

/-- In an accepted document (built-in-position type definitions pairwise distinct), a type has a field for every field of every
    interface it implements. -/
theorem C05_sound_ifaceFieldsPresent (T : TsDoc) (hb : builtinTypeNamesDistinct T = true)
    (h : checkSchema T = []) : Holds_ifaceFieldsPresent T := by
  have hu := uniqueTypeNames_of_accepted h hb
  simp only [Holds_ifaceFieldsPresent, ifaceFieldsPresent, List.all_eq_true]
  intro t ht idef hidef impF hF
  obtain ⟨hobj, _, _, hv⟩ := implementedIfaces_facts hu h ht idef hidef
  obtain ⟨f, hfind, _⟩ := (checkValidImpl_nil hv).2 impF hF
  simp only [fieldsOfT, hobj, if_true, List.any_eq_true]
  exact ⟨f, List.mem_of_find?_eq_some hfind, by simpa using List.find?_some hfind⟩

/-- the pairs (field, interface field) the spec compares are the ones the checker compared -/
theorem implPairs_facts (T : TsDoc) (hu : uniqueTypeNames T = true) (h : checkSchema T = [])
    {t : TypeDef} (ht : t ∈ ValidTs.typeDefs T) :
    ∀ p ∈ implPairs ⟨T⟩ t, p.1 ∈ fieldsOfT t ∧
      (∃ idef ∈ ValidTs.typeDefs T, p.2 ∈ fieldsOfT idef) ∧
      (∀ ia ∈ p.2.args, ∃ fa, p.1.args.find? (·.name == ia.name) = some fa ∧ sameType fa.ty ia.ty = true) ∧
      (∀ fa ∈ p.1.args, p.2.args.any (·.name == fa.name) = true ∨ requiredArg fa = false) ∧
      isSubtype ⟨T⟩ p.1.ty p.2.ty ≠ some false := by
  intro p hp
  simp only [implPairs, List.mem_flatMap, List.mem_filterMap, Option.map_eq_some_iff] at hp
  obtain ⟨idef, hidef, impF, hF, f, hfind, rfl⟩ := hp
  obtain ⟨hobj, hmem, hkind, hv⟩ := implementedIfaces_facts hu h ht idef hidef
  obtain ⟨f', hfind', h1, h2, h3⟩ := (checkValidImpl_nil hv).2 impF hF
  simp only [fieldsOfT, hobj, if_true] at hfind
  rw [hfind] at hfind'
  cases hfind'
  refine ⟨?_, ⟨idef, hmem, ?_⟩, h1, h2, h3⟩
  · simp only [fieldsOfT, hobj, if_true]
    exact List.mem_of_find?_eq_some hfind
  · simp [fieldsOfT, isObjOrIface, hkind, hF]

/-- In an accepted document (built-in-position type definitions pairwise distinct), the field implementing an interface field accepts
    every argument of the interface field with the same type, and its additional arguments are not
    required. -/
theorem C05_sound_ifaceFieldArgs (T : TsDoc) (hb : builtinTypeNamesDistinct T = true)
    (h : checkSchema T = []) : Holds_ifaceFieldArgs T := by
  have hu := uniqueTypeNames_of_accepted h hb
  simp only [Holds_ifaceFieldArgs, ifaceFieldArgs, List.all_eq_true, Bool.and_eq_true, Bool.or_eq_true,
    Bool.not_eq_true']
  intro t ht p hp
  obtain ⟨_, _, h1, h2, _⟩ := implPairs_facts T hu h ht p hp
  refine ⟨?_, h2⟩
  intro ia hia
  obtain ⟨fa, hfa, hs⟩ := h1 ia hia
  rw [hfa]; exact hs

/-- `is_subtype` is the spec's covariance (IsValidImplementationFieldType, with IsSubType): for two types
    whose innermost names are defined, in a schema where `implements` lists only name defined interface
    types, the model of `is_subtype` returns exactly the spec's verdict. -/
theorem isSubtype_iff (S : Schema) (hI : ImplementsOk S) (a b : GType)
    (ha : known S a.unwrapped = true) (hb : known S b.unwrapped = true) :
    isSubtype S a b = some (validImplFieldType S a b) :=
  isSubtype_spec hI a b ha hb

example : ImplementsOk ⟨sampleSchema⟩ ∧ known ⟨sampleSchema⟩ "Query" = true :=
  ⟨implementsOk_of_accepted (by decide) (by decide), by decide⟩

/-- In an accepted document (built-in-position type definitions pairwise distinct), the type of a field implementing an interface field
    is equal to or a sub-type of (covariant with) the interface field's type. -/
theorem C05_sound_ifaceFieldsCovariant (T : TsDoc) (hb : builtinTypeNamesDistinct T = true)
    (h : checkSchema T = []) : Holds_ifaceFieldsCovariant T := by
  have hu := uniqueTypeNames_of_accepted h hb
  simp only [Holds_ifaceFieldsCovariant, ifaceFieldsCovariant, List.all_eq_true]
  intro t ht p hp
  obtain ⟨hf, ⟨idef, hidef, hF⟩, _, _, hsub⟩ := implPairs_facts T hu h ht p hp
  have hk1 : known ⟨T⟩ p.1.ty.unwrapped = true := by
    obtain ⟨k, hk, _⟩ := outputFieldType_nil ((fieldsOfT_facts h ht).1 p.1 hf).2.2.1
    exact known_of_kindOf hk
  have hk2 : known ⟨T⟩ p.2.ty.unwrapped = true := by
    obtain ⟨k, hk, _⟩ := outputFieldType_nil ((fieldsOfT_facts h hidef).1 p.2 hF).2.2.1
    exact known_of_kindOf hk
  have := isSubtype_iff ⟨T⟩ (implementsOk_of_accepted hu h) p.1.ty p.2.ty hk1 hk2
  rw [this] at hsub
  cases hv : validImplFieldType ⟨T⟩ p.1.ty p.2.ty with
  | true => rfl
  | false => rw [hv] at hsub; exact absurd rfl hsub

/-! ## directive applications -/

/-- what acceptance says about every directive application at every type-system location -/
theorem directive_application_facts (T : TsDoc) (h : checkSchema T = []) :
    ∀ s ∈ dirSites T, ∀ d ∈ s.2, ∃ df, (Schema.mk T).directiveDef? d.name = some df ∧
      df.locations.contains s.1 = true ∧ checkArguments ⟨T⟩ d.pos d.args df.args = [] ∧
      (df.repeatable = true ∨ (s.2.filter (·.name == d.name)).length ≤ 1) := by
  intro s hs d hd
  have := dirSites_facts h s hs
  obtain ⟨df, h1, h2, h3, h4⟩ := checkDirectivesAux_nil s.2 [] this d hd
  exact ⟨df, h1, h2, h3, h4.imp id (·.2)⟩

/-- In an accepted document every applied directive is defined. -/
theorem C05_sound_directivesDefined (T : TsDoc) (h : checkSchema T = []) : Holds_directivesDefined T := by
  simp only [Holds_directivesDefined, directivesDefined, List.all_eq_true]
  intro s hs d hd
  obtain ⟨df, h1, _⟩ := directive_application_facts T h s hs d hd
  rw [h1]; rfl

/-- In an accepted document every directive is applied at a location its definition allows (all eleven
    type-system locations, including arguments of directive definitions). -/
theorem C05_sound_directivesLocated (T : TsDoc) (h : checkSchema T = []) : Holds_directivesLocated T := by
  simp only [Holds_directivesLocated, directivesLocated, List.all_eq_true]
  intro s hs d hd
  obtain ⟨df, h1, h2, _⟩ := directive_application_facts T h s hs d hd
  rw [h1]; exact h2

/-- In an accepted document a directive that is not `repeatable` is applied at most once per location. -/
theorem C05_sound_directivesUnique (T : TsDoc) (h : checkSchema T = []) : Holds_directivesUnique T := by
  simp only [Holds_directivesUnique, directivesUnique, List.all_eq_true]
  intro s hs d hd
  obtain ⟨df, h1, _, _, h4⟩ := directive_application_facts T h s hs d hd
  rw [h1]
  rcases h4 with hr | hc
  · simp [hr]
  · simp [hc]

/-- input object types of an accepted document have distinct field names -/
theorem inputsNodup_of_accepted (T : TsDoc) (h : checkSchema T = []) : InputsNodup ⟨T⟩ := by
  intro n td htd hk
  have hmem := (typeDef_mem htd).1
  have := (inputsOfT_facts h hmem).2
  have hin : inputsOfT td = td.inputs := by simp [inputsOfT, hk]
  rw [hin] at this
  exact (noDup_iff_nodup _).mp this

/-- In an accepted document no directive application gives an argument twice (§5.4.2). -/
theorem C05_sound_directiveArgNamesUnique (T : TsDoc) (h : checkSchema T = []) :
    directiveArgNamesUnique T = true := by
  simp only [directiveArgNamesUnique, List.all_eq_true]
  intro s hs d hd
  obtain ⟨df, hdf, _, hargs, _⟩ := directive_application_facts T h s hs d hd
  have hdfmem : df ∈ ValidTs.directiveDefs T := by
    unfold Schema.directiveDef? at hdf
    exact List.mem_of_find?_eq_some hdf
  have hnd : (df.args.map (·.name)).Nodup :=
    (noDup_iff_nodup _).mp (checkArgsDef_nil (directiveDef_parts h hdfmem).2.2).2
  exact (noDup_iff_nodup _).mpr (checkArguments_nil hnd hargs).2.2

/-- In an accepted document every directive application uses only arguments its definition declares, gives
    every required argument, and gives each argument a constant of the right type (spec input coercion:
    null only for nullable types, Int for Float / ID, one item for a list, enum members, input objects with
    only declared fields, none twice, all required ones). -/
theorem C05_sound_directiveArgs (T : TsDoc) (h : checkSchema T = []) : Holds_directiveArgs T := by
  simp only [Holds_directiveArgs, directiveArgs, List.all_eq_true]
  intro s hs d hd
  obtain ⟨df, hdf, _, hargs, _⟩ := directive_application_facts T h s hs d hd
  rw [hdf]
  dsimp only
  have hdfmem : df ∈ ValidTs.directiveDefs T := by
    unfold Schema.directiveDef? at hdf
    exact List.mem_of_find?_eq_some hdf
  have hnd : (df.args.map (·.name)).Nodup :=
    (noDup_iff_nodup _).mp (checkArgsDef_nil (directiveDef_parts h hdfmem).2.2).2
  obtain ⟨h1, h2, hkeys⟩ := checkArguments_nil hnd hargs
  simp only [directiveArgsOk, Bool.and_eq_true, List.all_eq_true, Bool.or_eq_true, Bool.not_eq_true']
  refine ⟨?_, fun ad had => (h1 ad had).1⟩
  intro a ha
  obtain ⟨ad, had, hname⟩ := h2 a ha
  have hfind := find?_key_of_nodup (fun (x : InputValueDef) => x.name) df.args hnd ad had
  simp only [hname] at hfind
  rw [hfind]
  dsimp only
  have hfa := find?_key_of_nodup (fun (x : Arg) => x.1) d.args hkeys a ha
  rw [← hname] at hfa
  have := (h1 ad had).2 a hfa
  exact checkValue_sound (inputsNodup_of_accepted T h) _ _ (Nat.le_refl _) _ this

/-- `directive @d(a: Int) on OBJECT   type Query @d(a: 1, a: "x") { f: Int }` -/
def duplicateArgSchema : TsDoc :=
  [.typeDef { kind := .scalar, name := "Int" },
   .directiveDef { name := "d", args := [{ name := "a", ty := .named "Int" {} }], locations := ["OBJECT"] },
   .typeDef { kind := .object, name := "Query",
              dirs := [{ name := "d", args := [("a", {}, .int "1" {}), ("a", { line := 1 }, .str "x" {})] }],
              fields := [{ name := "f", ty := .named "Int" {} }] }]

/-- a repeated argument is reported (since the repair a341d33; before it, the ill-typed second value was
    accepted unseen) -/
theorem C05_duplicate_argument_reported :
    checkSchema duplicateArgSchema = [(.DuplicatedName, { line := 1 })] := by decide

/-! ### Int arguments of directive applications are 32-bit values (spec §3.5.1; fix e3584a3) -/

/-- In an accepted document an integer literal given (at the top level of the argument value) for a directive argument
    whose innermost named type is `Int` denotes a value in `[-2^31, 2^31)` (spec §3.5.1 "Input Coercion" of `Int`; the
    checker tests `parse::<i32>` since fix e3584a3). Nested positions (list items, input-object fields) are covered by
    `C05_sound_directiveArgs`, whose `valueOk` recurses with the same leaf test. -/
theorem C05_directive_int_args_in_range (T : TsDoc) (h : checkSchema T = []) :
    ∀ s ∈ dirSites T, ∀ d ∈ s.2, ∀ df, (Schema.mk T).directiveDef? d.name = some df →
      ∀ a ∈ d.args, ∀ ad, df.args.find? (·.name == a.1) = some ad → ad.ty.unwrapped = "Int" →
        ∀ t p, a.2.2 = .int t p →
          ∃ i : Int, SpecInt.intValue? t.toList = some i ∧ -2147483648 ≤ i ∧ i ≤ 2147483647 := by
  intro s hs d hd df hdf a ha ad had hty t p hv
  have H := C05_sound_directiveArgs T h
  simp only [Holds_directiveArgs, directiveArgs, List.all_eq_true] at H
  have := H s hs d hd
  rw [hdf] at this
  simp only [directiveArgsOk, Bool.and_eq_true, List.all_eq_true] at this
  have hva := this.1 a ha
  rw [had, hv] at hva
  simp only [valueOk, leafOk, hty] at hva
  have hr : SpecInt.intTextInRange t = true := by
    cases ht : (Schema.mk T).typeDef? "Int" with
    | none => simp [ht] at hva
    | some td =>
      simp only [ht] at hva
      cases hk : td.kind <;> simp [hk, scalarLeafOk] at hva
      exact hva
  exact (IntLit.intLiteralFitsI32_iff t).mp (by rw [IntLit.intLiteralFitsI32_eq]; exact hr)

/-- `directive @d(n: Int, l: [Int], fl: Float, id: ID) on OBJECT   type Query @d(n: <n>, l: [<l>], fl: 4294967296, id: 12345678901234567890) { f: Int }`
    (the literal for `n` at line 1, column 5; the one inside `l` at line 2, column 7) -/
def intRangeSchema (n l : String) : TsDoc :=
  [.typeDef { kind := .scalar, name := "Int" }, .typeDef { kind := .scalar, name := "Float" },
   .typeDef { kind := .scalar, name := "ID" },
   .directiveDef { name := "d", locations := ["OBJECT"],
                   args := [{ name := "n", ty := .named "Int" {} }, { name := "l", ty := .list (.named "Int" {}) {} },
                            { name := "fl", ty := .named "Float" {} }, { name := "id", ty := .named "ID" {} }] },
   .typeDef { kind := .object, name := "Query",
              dirs := [{ name := "d", args := [("n", {}, .int n { line := 1, col := 5 }),
                                               ("l", {}, .list [.int l { line := 2, col := 7 }] {}),
                                               ("fl", {}, .int "4294967296" {}), ("id", {}, .int "12345678901234567890" {})] }],
              fields := [{ name := "f", ty := .named "Int" {} }] }]

/-- non-vacuity of `C05_directive_int_args_in_range`: an accepted schema with the boundary values at Int positions and
    integers beyond 32 bits at Float / ID positions -/
example : checkSchema (intRangeSchema "2147483647" "-2147483648") = [] ∧
    directiveArgs (intRangeSchema "2147483647" "-2147483648") = true := by decide +kernel

/-- an out-of-range Int argument of a directive application is reported (`TypeMismatch` at the literal), at the top
    level of the argument and inside a list; the specification's rule agrees -/
theorem C05_int_range_reported :
    checkSchema (intRangeSchema "4294967296" "0") = [(.TypeMismatch, { line := 1, col := 5 })] ∧
    checkSchema (intRangeSchema "-0" "-2147483649") = [(.TypeMismatch, { line := 2, col := 7 })] ∧
    checkSchema (intRangeSchema "2147483648" "0") = [(.TypeMismatch, { line := 1, col := 5 })] ∧
    directiveArgs (intRangeSchema "4294967296" "0") = false ∧ directiveArgs (intRangeSchema "-0" "-2147483649") = false := by
  decide +kernel

/-- PRE-REPAIR witness (before fix e3584a3): the checker as it was (`PreE3584a3.CheckTs.checkSchema`, Int arm
    `matches!(value, IntValue(_) | NullValue(_))`) accepted `@d(n: 4294967296)` with `n: Int` although the
    specification's rule for directive arguments (`directiveArgs`: values coercible to the argument's type, §3.5.1) is
    violated — `accepted → Holds_directiveArgs` was FALSE of that code against the specification as it is now written. -/
theorem C05_int_range_prerepair_witness :
    PreE3584a3.CheckTs.checkSchema (intRangeSchema "4294967296" "0") = [] ∧
    PreE3584a3.CheckTs.checkSchema (intRangeSchema "-0" "-2147483649") = [] ∧
    ¬ Holds_directiveArgs (intRangeSchema "4294967296" "0") ∧ ¬ Holds_directiveArgs (intRangeSchema "-0" "-2147483649") := by
  unfold Holds_directiveArgs; decide +kernel

/-! ## recursive directive definitions -/

/-- `directive @r(x: In) on INPUT_FIELD_DEFINITION  input In { n: In2 }  input In2 { a: Int @r }` -/
def nestedRecursionSchema : TsDoc :=
  [.typeDef { kind := .scalar, name := "Int" },
   .directiveDef { name := "r", args := [{ name := "x", ty := .named "In" {} }],
                   locations := ["INPUT_FIELD_DEFINITION"] },
   .typeDef { kind := .input, name := "In", inputs := [{ name := "n", ty := .named "In2" {} }] },
   .typeDef { kind := .input, name := "In2",
              inputs := [{ name := "a", ty := .named "Int" {}, dirs := [{ name := "r" }] }] }]

/-- PRE-REPAIR witness (before fix 2e4a65e): the statement `accepted → Holds_noRecursiveDirectives` was FALSE of the
    code. `checkSchemaOldRec` is the checker with `directives_in_type` as it was (only the directives inside the
    argument's OWN type were followed): it accepts the schema above, in which `@r` references itself through the
    input fields of its argument's type (former open finding
    `sound:directive-recursion@through-nested-input-field`). -/
theorem C05_sound_noRecursiveDirectives_prerepair_witness :
    checkSchemaOldRec nestedRecursionSchema = [] ∧ ¬ Holds_noRecursiveDirectives nestedRecursionSchema := by
  unfold Holds_noRecursiveDirectives; decide

/-- … and the repaired checker (fix 2e4a65e: `directives_in_type` follows the types of input-object fields
    transitively) reports it, at the directive definition. -/
theorem C05_nested_recursion_reported :
    checkSchema nestedRecursionSchema = [(.RecursingDirective, {})] := by decide

/-- A directive definition that applies itself to one of its own arguments is reported
    (the simplest instance of the recursion rule). -/
theorem C05_directive_self_reference_reported :
    checkSchema
      [.typeDef { kind := .scalar, name := "Int" },
       .directiveDef { name := "r", args := [{ name := "x", ty := .named "Int" {}, dirs := [{ name := "r" }] }],
                       locations := ["ARGUMENT_DEFINITION"] }] =
      [(.RecursingDirective, {})] := by decide

/-- What `directives_in_type` returns since fix 2e4a65e, for the definition `t` the checker's hash map holds for the
    type of an argument: exactly the directives applied inside `t` (type level, fields, enum values, input fields —
    `directivesInTypeOld`, all the function returned before the fix) and inside every type reached from `t` by following
    the types of input-object fields any number of steps (`InReach`). The `seen_types` set makes every input object
    contribute once; it never cuts off a type that is reached. -/
theorem C05_directivesInType_exact (T : TsDoc) (t : TypeDef) (hc : TCanonical T t) (d : Directive) :
    d ∈ directivesInType T t ↔
      ∃ m u, InReach T t.name m ∧ lastTypeDef? T m = some u ∧ d ∈ directivesInTypeOld u :=
  mem_directivesInType_iff T t hc d

example : TCanonical nestedRecursionSchema { kind := .input, name := "In", inputs := [{ name := "n", ty := .named "In2" {} }] } :=
  tcanonical_of_lookup (n := "In") (by rfl)

/-- The walk through nested input objects never exhausts the `|T| + 1` nesting levels of fuel of its model: run with
    any fuel `n ≥ |T| + 1` and ANY behaviour `Z` of the out-of-fuel branch it returns what `directivesInType` returns
    (every nested call that does not return at once has put a new input-object name of the document into
    `seen_types`). -/
theorem C05_directivesInType_fuel (T : TsDoc) (Z : TypeDef → List Name → List Directive × List Name)
    (n : Nat) (hn : T.length + 1 ≤ n) (t : TypeDef) (hc : TCanonical T t) :
    (ditWalkX T Z n t []).1 = directivesInType T t :=
  directivesInType_fuel T Z n hn t hc

/-- `check_directive_recursion` is exact on the graph it explores. The graph (`succNames`, on directive
    names): `a → b` when `@b` is applied to an argument of the definition of `@a`, or anywhere inside the
    definition of the TYPE of such an argument (type-level, its fields, enum values or input fields) or — since fix
    2e4a65e — inside the definition of a type reached from it through the types of input-object fields, transitively
    (`C05_directivesInType_exact`). `RecursingDirective` is reported for `d` exactly when `d` reaches itself along at
    least one edge; the search never runs out of its `|T| + 2` rounds of fuel. Stated for the definition the checker's
    hash map holds for its name … -/
theorem directiveRec_iff_canonical (T : TsDoc) (d : DirectiveDef) (hc : Canonical T d) :
    checkDirectiveRecursion T d ≠ [] ↔ Reaches T d.name d.name :=
  checkDirectiveRecursion_iff T d hc

/-- … which is every directive definition of a document with unique directive names. -/
theorem directiveRec_iff (T : TsDoc) (d : DirectiveDef) (hd : d ∈ ValidTs.directiveDefs T)
    (hu : uniqueDirectiveNames T = true) :
    checkDirectiveRecursion T d ≠ [] ↔ Reaches T d.name d.name :=
  checkDirectiveRecursion_iff T d (canonical_of_unique hu hd)

example : uniqueDirectiveNames nestedRecursionSchema = true ∧
    (nestedRecursionSchema.filterMap fun | .directiveDef d => some d.name | _ => none) = ["r"] := by decide

/-- The recursion rule is EXACT (since fix 2e4a65e). On a document with unique type and directive names whose
    arguments and input fields have input types (the specification's `inputPositions` rule; an accepted document has
    all three — `C05_sound_noRecursiveDirectives`), `RecursingDirective` is reported for the directive definition `d`
    if and only if `d` transitively references itself in the reference graph of the SPECIFICATION (`refs`: a directive
    definition references the directives applied to its arguments and the types of its arguments; a type references the
    directives applied inside it and the types of its input fields). -/
theorem C05_recursion_exact (T : TsDoc) (hut : uniqueTypeNames T = true) (hud : uniqueDirectiveNames T = true)
    (hin : inputPositions T = true) (d : DirectiveDef) (hd : d ∈ ValidTs.directiveDefs T) :
    checkDirectiveRecursion T d ≠ [] ↔ SpecReaches ⟨T⟩ (.dir d.name) (.dir d.name) :=
  (directiveRec_iff T d hd hud).trans (reaches_iff_specReaches hut hud hin hd)

example : uniqueTypeNames nestedRecursionSchema = true ∧ uniqueDirectiveNames nestedRecursionSchema = true ∧
    inputPositions nestedRecursionSchema = true := by decide

/-- `directive @r(x: Obj) on ARGUMENT_DEFINITION   type Obj { f(a: Int @r): Int }` -/
def objectArgRecursionSchema : TsDoc :=
  [.typeDef { kind := .scalar, name := "Int" },
   .directiveDef { name := "r", args := [{ name := "x", ty := .named "Obj" {} }],
                   locations := ["ARGUMENT_DEFINITION"] },
   .typeDef { kind := .object, name := "Obj",
              fields := [{ name := "f", ty := .named "Int" {},
                           args := [{ name := "a", ty := .named "Int" {}, dirs := [{ name := "r" }] }] }] }]

/-- Why `C05_recursion_exact` needs `inputPositions`: when an OBJECT type stands in argument position, the
    specification's graph also counts the directives on the arguments of its fields, which `directives_in_type` does
    not collect — the recursion rule is violated, `RecursingDirective` is not reported. The document is rejected all
    the same (`NoOutputType` for the argument), so soundness of the verdict is not affected
    (`C05_sound_noRecursiveDirectives`). -/
theorem C05_recursion_exact_needs_inputPositions :
    uniqueTypeNames objectArgRecursionSchema = true ∧ uniqueDirectiveNames objectArgRecursionSchema = true ∧
    inputPositions objectArgRecursionSchema = false ∧ noRecursiveDirectives objectArgRecursionSchema = false ∧
    checkSchema objectArgRecursionSchema = [(.NoOutputType, {})] := by decide

/-- In an accepted document (built-in-position directive definitions pairwise distinct and not re-declared, so
    that directive names are unique: `C05_unique_directive_names_all`) no directive definition reaches itself in the
    reference graph the code explores (which, since fix 2e4a65e, follows the types of input-object fields
    transitively). -/
theorem C05_sound_noRecursiveDirectives_partial (T : TsDoc) (hb : builtinDirectiveNamesDistinct T = true)
    (hr : builtinDirectivesNotRedeclared T = true)
    (h : checkSchema T = []) : ∀ d ∈ ValidTs.directiveDefs T, ¬ Reaches T d.name d.name := by
  have hu := uniqueDirectiveNames_of_accepted h hb hr
  intro d hd hreach
  have := (directiveDef_parts h hd).1
  exact (directiveRec_iff T d hd hu).mpr hreach this

example : builtinDirectiveNamesDistinct sampleSchema = true ∧ builtinDirectivesNotRedeclared sampleSchema = true ∧
    checkSchema sampleSchema = [] := by decide

/-- SOUNDNESS of the recursion rule, full statement (since fix 2e4a65e): an accepted document — its built-in-position
    type and directive definitions pairwise distinct and no built-in directive re-declared, so that names are unique
    (`C05_unique_type_names`, `C05_unique_directive_names_all`) — satisfies the specification's rule "a directive
    definition must not reference itself directly or indirectly", both as the relation `NoSpecRecursion` and as the
    executable closure the oracle stream evaluates (`noRecursiveDirectives`). -/
theorem C05_sound_noRecursiveDirectives (T : TsDoc) (hbt : builtinTypeNamesDistinct T = true)
    (hb : builtinDirectiveNamesDistinct T = true) (hr : builtinDirectivesNotRedeclared T = true)
    (h : checkSchema T = []) : NoSpecRecursion T ∧ Holds_noRecursiveDirectives T := by
  have hud := uniqueDirectiveNames_of_accepted h hb hr
  have hut := (C05_unique_type_names T h).2.2 hbt
  have hin : inputPositions T = true := C05_sound_inputPositions T h
  have hrel : NoSpecRecursion T := by
    intro d hd hreach
    exact (C05_recursion_exact T hut hud hin d hd).mpr hreach (directiveDef_parts h hd).1
  exact ⟨hrel, exec_of_noSpecRecursion hrel⟩

example : builtinTypeNamesDistinct sampleSchema = true ∧ builtinDirectiveNamesDistinct sampleSchema = true ∧
    builtinDirectivesNotRedeclared sampleSchema = true ∧ checkSchema sampleSchema = [] := by decide

/-
Status of the C05 statement. Completeness (`C05_complete : TsSpecValid T → checkSchema T = []`, no side condition) is in
Props/C05Complete.lean. Soundness is proved rule by rule; every rule has a theorem, but several theorems carry
hypotheses that are NOT discharged anywhere in Lean:

* `builtinTypeNamesDistinct T` — `C05_sound_implementsInterfaces`, `_unionMembersObjects`, `_transitiveInterfaces`,
  `_ifaceFieldsPresent`, `_ifaceFieldsCovariant`, `_ifaceFieldArgs`, third part of `C05_unique_type_names`,
  `C05_sound_noRecursiveDirectives`. A fact about the constant list `generate_builtins()` (by reading; not proved about
  that list, not evaluated by the harness).
* `builtinDirectiveNamesDistinct T` (same kind of fact) and `builtinDirectivesNotRedeclared T` — `C05_unique_directive_names_all`,
  `C05_sound_noRecursiveDirectives_partial`, `C05_sound_noRecursiveDirectives`. The second is a property of the USER's
  document that the code does not enforce (`sampleWithBuiltins` is accepted and re-declares `@deprecated`;
  `C05_unique_names_complete`). So the recursion clause is proved "in full" only in the sense that the conclusion is the
  specification's rule (no longer the code's own graph); for documents that re-declare a built-in directive it is OPEN, as
  is `uniqueDirectiveNames` (violated there by construction: the specification's rule counts the built-ins). What holds
  for every document is `directiveRec_iff_canonical`.
* `builtinDirectivesLast T` — `C05_unique_directive_names_partial` (false without it: `C05_unique_directive_names_counterexample`).
* `dupOriginal? T = none` (on the unresolved document) — `C05_sound_uniqueTypeDefs`; it does not follow from
  `checkSchema T = []`, and no theorem states the converse (`uniqueTypeDefs T → dupOriginal? T = none`).
* `uniqueTypeNames`, `uniqueDirectiveNames`, `inputPositions` — `C05_recursion_exact` (the last one shown necessary by
  `C05_recursion_exact_needs_inputPositions`); `Canonical` / `TCanonical` — `directiveRec_iff_canonical`,
  `C05_directivesInType_exact`, `C05_directivesInType_fuel`.

One clause of the statement is FALSE of the code and therefore proved only in restricted form:
* `checkSchema T = [] → Holds_knownTypes T`: counterexample `C05_sound_knownTypes_counterexample` (root
  operation types; open finding); what holds is `C05_sound_knownTypes_partial` (hypothesis `knownRootTypes T`).
The recursion clause `checkSchema T = [] → Holds_noRecursiveDirectives T` was the second one until fix 2e4a65e
(`C05_sound_noRecursiveDirectives_prerepair_witness`); since the fix it is proved under the three built-in side
conditions above (`C05_sound_noRecursiveDirectives`), and the rule is exact (`C05_recursion_exact`). The executable
closure of the specification and its relational form are proved equivalent (`noRecursiveDirectives_iff`,
Lemmas/ValidTsClosure.lean).

OPEN — carried by K/O only:
* that `checkSchema` / `dupOriginal?` (hand-written models, incl. `intLiteralFitsI32` for `parse::<i32>` and the
  hand-written `ErrKind`) compute what the Rust code computes — K stream of harness/src/bin/c05.rs;
* that `Spec/ValidTs.lean` says what the GraphQL specification says — trusted transcription, exercised by the O stream;
* the specification-level recursion rule for accepted documents that re-declare a built-in directive (K only; the
  specification's `uniqueDirectiveNames` is violated by such a document, the user-side statement is
  `C05_unique_directive_names_partial`), and the no-false-alarm direction for them (O mode `valid-redeclare`;
  `C05_complete` does not cover it because `TsSpecValid` contains `uniqueDirectiveNames`);
* the parser and the merging part of `resolve_schema_extensions` (not modelled; the theorems speak of the resolved document).
-/

end NitroVerif.CheckTs
