import NitroVerif.Lemmas.ParseDocSelMain
/-!
# C07 — render ∘ parse for selections, selection sets, … up to whole documents

Property theorems only. Model as in `Props/C07.lean`: the GENERATED grammar run by the generic PEG interpreter, the builders
of `Model/Build.lean`. Texts: every token of a construct is followed by the trivia `τ` assigns to the offset where the token
ends (`DocParse.tk`; `τ : offset ↦ trivia`, every value of `τ` is `Ws`: spaces, tabs, line terminators, commas, BOM, `# …`
comments); where two tokens could otherwise run together (between two selections, after a keyword that is followed by a
name, …) an empty gap is replaced by one space (`gapS true`). A construct is rendered with a flag `sep`: "the gap after
its LAST token is made non-empty" (chosen by whatever contains the construct).

Because pest's optional trailing items (`Arguments?`, `Directives?`, `SelectionSet?`) are tried AFTER the implicit skip, the
END of a pair is not a function of the construct alone (it may include the trivia that follows); the theorems therefore say
where the rule call ends only up to `≤` (the builders never read those ends), and give every START position exactly:
`wpSel`, `wpSels`, … are the constructs with each `Pos` replaced by the line/column of the first character of the
corresponding token in the input.
-/
namespace NitroVerif.C07
open NitroVerif.Peg NitroVerif.Build NitroVerif.Gen NitroVerif.Gql NitroVerif.ValueParse NitroVerif.TypeParse
open NitroVerif.DocParse

/-- `render_parse_selection` (Field with alias / arguments / directives / nested selection set, FragmentSpread,
    InlineFragment): wherever the rendering of a well-formed selection `s` — any nesting depth, any trivia `τ` at every gap —
    occurs in an input, followed by a token that begins with none of `(`, `@`, `{`, `:` (and not with a name character unless
    the rendering ends with a non-empty gap), the GENERATED grammar's `Selection` rule succeeds there with one pair, ends at
    or before the end of the rendering, and the builder's per-selection function (`selFn`: what `build_selection_set` maps
    over the children of a selection set, i.e. `build_field` / `build_fragment_spread` / `build_inline_fragment`) returns
    `s` with the true position of every token; parser depth bound linear in the text, builder depth bound = text length. -/
theorem render_parse_selection (τ : Trivia) (hτ : ∀ q, Ws (τ q)) (s : Selection) (hwf : WFSel s) (sep : Bool)
    (inp : List Char) (off : Nat) (X : List Char) (h : inp.drop off = rSel τ sep off s ++ X)
    (hX : HeadNot (fun d => trivia d ∨ selBad d) X) (hglue : sep = false → HeadNot nameCont X) (fuel bfuel : Nat)
    (hf : B (rSel τ sep off s).length + 40 ≤ fuel) (hb : (rSel τ sep off s).length ≤ bfuel) :
    ∃ e pair, Peg.run gList fuel R.Selection inp off .nonAtomic = some (e, [pair]) ∧
      e ≤ off + (rSel τ sep off s).length ∧
      selFn (Ctx.spec inp) bfuel pair = .ok (wpSel τ inp sep off s) := by
  obtain ⟨pr, hr, _, hbld⟩ := sel_all τ hτ s.size s (Nat.le_refl _) hwf sep off (hasAt_of_drop h) (nxt_of_drop h hX hglue)
  obtain ⟨e, hrun, hle⟩ := run_of_runsK hr (fuel := fuel) (by omega)
  exact ⟨e, pr, hrun, hle, hbld bfuel hb⟩

/-- `render_parse_selection_set`: wherever the rendering `{ selections }` of a non-empty list of well-formed selections
    occurs in an input (followed by a token, i.e. not by further trivia), the `SelectionSet` rule succeeds with one pair and
    `build_selection_set` returns the selections with the true position of every token. -/
theorem render_parse_selection_set (τ : Trivia) (hτ : ∀ q, Ws (τ q)) (ss : List Selection) (hne : ss ≠ [])
    (hwf : WFSels ss) (sep : Bool) (inp : List Char) (off : Nat) (X : List Char)
    (h : inp.drop off = rSelSet τ sep off ss ++ X) (hX : HeadNot trivia X) (fuel bfuel : Nat)
    (hf : B (rSelSet τ sep off ss).length + 5 ≤ fuel) (hb : (rSelSet τ sep off ss).length ≤ bfuel) :
    ∃ e pair, Peg.run gList fuel R.SelectionSet inp off .nonAtomic = some (e, [pair]) ∧
      e ≤ off + (rSelSet τ sep off ss).length ∧
      buildSelectionSet (Ctx.spec inp) bfuel pair = .ok (wpSels τ inp (off + (tk τ false off ['{']).length) ss) := by
  have ht : Tok (At inp (off + (rSelSet τ sep off ss).length)) := by
    simp only [Tok, At]; rw [drop_after h]; exact hX
  obtain ⟨pr, hr, _, hbld⟩ := selSet_all τ hτ ss hne hwf sep off (hasAt_of_drop h) ht
  obtain ⟨e, hrun, hle⟩ := run_of_runsK hr (fuel := fuel) (by omega)
  exact ⟨e, pr, hrun, hle, hbld bfuel hb⟩

/-- the hypotheses are satisfiable: `{ a: b(x: 1) @d { c } ...F ... on T { e } }` is a rendering (canonical trivia) -/
example : rSelSet (fun _ => []) false 0 [.field (some ("a", {})) "b" {} [("x", {}, .int "1" {})] [{ name := "d" }]
      (some [.field none "c" {} [] [] none]), .spread "F" {} [] {}, .inline (some ("T", {})) [] [.field none "e" {} [] [] none] {}] =
    "{a:b(x:1)@d{c} ...F ...on T{e}}".toList := by decide

end NitroVerif.C07
