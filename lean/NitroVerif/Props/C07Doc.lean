import NitroVerif.Lemmas.ParseDocErase
import NitroVerif.Lemmas.ParseDocTsErase
import NitroVerif.Lemmas.ParseMoreDoc
import NitroVerif.Lemmas.ParseMoreIface
/-!
# C07 — render ∘ parse for selections, selection sets, … up to whole documents

Property theorems only. Model as in `Props/C07.lean`: the GENERATED grammar run by the generic PEG interpreter, the builders
of `Model/Build.lean`. Texts: every token of a construct is followed by the trivia `τ` assigns to the offset where the token
ends (`DocParse.tk`; `τ : offset ↦ trivia`, every value of `τ` is `Ws`: spaces, tabs, line terminators, commas, BOM, `# …`
comments); where two tokens could otherwise run together (between two selections, after a keyword that is followed by a
name, …) an empty gap is replaced by one space (`gapS true`). A construct is rendered with a flag `sep`: "the gap after
its LAST token is made non-empty" (chosen by whatever contains the construct).

Because pest's optional trailing items (`Arguments?`, `Directives?`, `SelectionSet?`) are tried AFTER the implicit skip, the
END of a pair is not a function of the construct alone (it may include the trivia that follows); the theorems therefore say
where the rule call ends only up to `≤` (the builders never read those ends), and give every START position exactly:
`wpSel`, `wpSels`, … are the constructs with each `Pos` replaced by the line/column of the first character of the
corresponding token in the input.

Third stage (at the end of each section): executable documents WITH `#import` statements and an optional final comment that
is not terminated by a line break (`parse_render_operation_document_full`; `render_parse_import_statement`,
`skip_over_final_comment`), type-system documents WITH the bare `interface I` forms
(`parse_render_type_system_document_full`). `Ws` (Lemmas/ParseComment.lean) contains every comment that is visibly not an
import statement, also those whose text begins with `import`.
-/
namespace NitroVerif.C07
open NitroVerif.Peg NitroVerif.Build NitroVerif.Gen NitroVerif.Gql NitroVerif.ValueParse NitroVerif.TypeParse
open NitroVerif.DocParse

/-- `render_parse_selection` (Field with alias / arguments / directives / nested selection set, FragmentSpread,
    InlineFragment): wherever the rendering of a well-formed selection `s` — any nesting depth, any trivia `τ` at every gap —
    occurs in an input, followed by a token that begins with none of `(`, `@`, `{`, `:` (and not with a name character unless
    the rendering ends with a non-empty gap), the GENERATED grammar's `Selection` rule succeeds there with one pair, ends at
    or before the end of the rendering, and the builder's per-selection function (`selFn`: what `build_selection_set` maps
    over the children of a selection set, i.e. `build_field` / `build_fragment_spread` / `build_inline_fragment`) returns
    `s` with the true position of every token; parser depth bound linear in the text, builder depth bound = text length. -/
theorem render_parse_selection (τ : Trivia) (hτ : ∀ q, Ws (τ q)) (s : Selection) (hwf : WFSel s) (sep : Bool)
    (inp : List Char) (off : Nat) (X : List Char) (h : inp.drop off = rSel τ sep off s ++ X)
    (hX : HeadNot (fun d => trivia d ∨ selBad d) X) (hglue : sep = false → HeadNot nameCont X) (fuel bfuel : Nat)
    (hf : B (rSel τ sep off s).length + 40 ≤ fuel) (hb : (rSel τ sep off s).length ≤ bfuel) :
    ∃ e pair, Peg.run gList fuel R.Selection inp off .nonAtomic = some (e, [pair]) ∧
      e ≤ off + (rSel τ sep off s).length ∧
      selFn (Ctx.spec inp) bfuel pair = .ok (wpSel τ inp sep off s) := by
  obtain ⟨pr, hr, _, hbld⟩ := sel_all τ hτ s.size s (Nat.le_refl _) hwf sep off (hasAt_of_drop h) (nxt_of_drop h hX hglue)
  obtain ⟨e, hrun, hle⟩ := run_of_runsK hr (fuel := fuel) (by omega)
  exact ⟨e, pr, hrun, hle, hbld bfuel hb⟩

/-- `render_parse_selection_set`: wherever the rendering `{ selections }` of a non-empty list of well-formed selections
    occurs in an input (followed by a token, i.e. not by further trivia), the `SelectionSet` rule succeeds with one pair and
    `build_selection_set` returns the selections with the true position of every token. -/
theorem render_parse_selection_set (τ : Trivia) (hτ : ∀ q, Ws (τ q)) (ss : List Selection) (hne : ss ≠ [])
    (hwf : WFSels ss) (sep : Bool) (inp : List Char) (off : Nat) (X : List Char)
    (h : inp.drop off = rSelSet τ sep off ss ++ X) (hX : HeadNot trivia X) (fuel bfuel : Nat)
    (hf : B (rSelSet τ sep off ss).length + 5 ≤ fuel) (hb : (rSelSet τ sep off ss).length ≤ bfuel) :
    ∃ e pair, Peg.run gList fuel R.SelectionSet inp off .nonAtomic = some (e, [pair]) ∧
      e ≤ off + (rSelSet τ sep off ss).length ∧
      buildSelectionSet (Ctx.spec inp) bfuel pair = .ok (wpSels τ inp (off + (tk τ false off ['{']).length) ss) := by
  have ht : Tok (At inp (off + (rSelSet τ sep off ss).length)) := by
    simp only [Tok, At]; rw [drop_after h]; exact hX
  obtain ⟨pr, hr, _, hbld⟩ := selSet_all τ hτ ss hne hwf sep off (hasAt_of_drop h) ht
  obtain ⟨e, hrun, hle⟩ := run_of_runsK hr (fuel := fuel) (by omega)
  exact ⟨e, pr, hrun, hle, hbld bfuel hb⟩

/-- the hypotheses are satisfiable: `{ a: b(x: 1) @d { c } ...F ... on T { e } }` is a rendering (canonical trivia) -/
example : rSelSet (fun _ => []) false 0 [.field (some ("a", {})) "b" {} [("x", {}, .int "1" {})] [{ name := "d" }]
      (some [.field none "c" {} [] [] none]), .spread "F" {} [] {}, .inline (some ("T", {})) [] [.field none "e" {} [] [] none] {}] =
    "{a:b(x:1)@d{c} ...F ...on T{e}}".toList := by decide


/-! ### types with trivia, variable definitions, operations, fragments -/

/-- `render_parse_type_trivia`: `render_parse_type` with ARBITRARY trivia between the tokens of a type (`[ Int ! ] !`):
    wherever the rendering of a well-formed type occurs in an input, followed by a token that does not begin with `!`, the
    `Type` rule succeeds with one pair and `build_type` returns the type with the true position of every name and `[`. -/
theorem render_parse_type_trivia (τ : Trivia) (hτ : ∀ q, Ws (τ q)) (t : GType) (hwf : WF t) (sep : Bool)
    (inp : List Char) (off : Nat) (X : List Char) (h : inp.drop off = rType τ sep off t ++ X)
    (hX : HeadNot (fun d => trivia d ∨ d = '!') X) (hglue : sep = false → HeadNot nameCont X) (fuel bfuel : Nat)
    (hf : B (rType τ sep off t).length + 20 ≤ fuel) (hb : (rType τ sep off t).length + 1 ≤ bfuel) :
    ∃ e pair, Peg.run gList fuel R.«Type» inp off .nonAtomic = some (e, [pair]) ∧
      e ≤ off + (rType τ sep off t).length ∧ buildType (Ctx.spec inp) bfuel pair = .ok (wpType τ inp off t) := by
  obtain ⟨pr, hr, _, hbld⟩ := (type_all τ hτ t hwf).2 sep off (· = '!') rfl (hasAt_of_drop h) (nxt_of_drop h hX hglue)
  obtain ⟨e, hrun, hle⟩ := run_of_runsK hr (fuel := fuel) (by omega)
  exact ⟨e, pr, hrun, hle, hbld bfuel hb⟩

/-- `render_parse_variable_definition`: `$name: Type = default @directives` with arbitrary trivia after every token;
    what follows must begin with none of `!`, `=`, `@`, `(`, `.`, `"` (in a `VariablesDefinition`: `$` or `)`). -/
theorem render_parse_variable_definition (τ : Trivia) (hτ : ∀ q, Ws (τ q)) (v : VarDef) (hwf : WFVarDef v) (sep : Bool)
    (inp : List Char) (off : Nat) (X : List Char) (h : inp.drop off = rVarDef τ sep off v ++ X)
    (hX : HeadNot (fun d => trivia d ∨ varBad d) X) (hglue : sep = false → HeadNot nameCont X) (fuel bfuel : Nat)
    (hf : B (rVarDef τ sep off v).length + 30 ≤ fuel) (hb : (rVarDef τ sep off v).length ≤ bfuel) :
    ∃ e pair, Peg.run gList fuel R.VariableDefinition inp off .nonAtomic = some (e, [pair]) ∧
      e ≤ off + (rVarDef τ sep off v).length ∧
      buildVariableDefinition (Ctx.spec inp) bfuel pair = .ok (wpVarDef τ inp sep off v) := by
  obtain ⟨pr, hr, _, hbld⟩ := varDefT τ hτ v hwf (hasAt_of_drop h) (nxt_of_drop h hX hglue)
  obtain ⟨e, hrun, hle⟩ := run_of_runsK hr (fuel := fuel) (by omega)
  exact ⟨e, pr, hrun, hle, hbld bfuel hb⟩

/-- `render_parse_executable_definition` (OperationDefinition — with its keyword, name, variable definitions, directives,
    or as the `{ … }` shorthand when `sh off` says so and the operation is a plain anonymous query — and
    FragmentDefinition): wherever the rendering of a well-formed definition occurs in an input, followed by a token, the
    `ExecutableDefinition` rule succeeds with one pair on which `build_executable_definition` returns the definition with
    the true position of every token. (`WFDef` excludes `#import` statements; they are `render_parse_import_statement` and
    `parse_render_operation_document_full` below.) -/
theorem render_parse_executable_definition (τ : Trivia) (hτ : ∀ q, Ws (τ q)) (sh : Nat → Bool) (d : ExecDef)
    (hwf : WFDef d) (sep : Bool) (inp : List Char) (off : Nat) (X : List Char)
    (h : inp.drop off = rDef τ sh sep off d ++ X) (hX : HeadNot trivia X) (fuel bfuel : Nat)
    (hf : B (rDef τ sh sep off d).length + 40 ≤ fuel) (hb : (rDef τ sh sep off d).length ≤ bfuel) :
    ∃ e pair, Peg.run gList fuel R.ExecutableDefinition inp off .nonAtomic = some (e, [pair]) ∧
      e ≤ off + (rDef τ sh sep off d).length ∧
      buildExecutableDefinition (Ctx.spec inp) bfuel pair = .ok (wpDef τ inp sh sep off d) := by
  have ht : Tok (At inp (off + (rDef τ sh sep off d).length)) := by
    simp only [Tok, At]; rw [drop_after h]; exact hX
  obtain ⟨pr, hr, _, hbld⟩ := defT τ hτ sh d hwf sep off (hasAt_of_drop h) ht
  obtain ⟨e, hrun, hle⟩ := run_of_runsK hr (fuel := fuel) (by omega)
  exact ⟨e, pr, hrun, hle, hbld bfuel hb⟩

/-- **`parse_render_operation_document`**: for EVERY non-empty list `doc` of well-formed operations and fragments, every
    trivia assignment `τ` (arbitrary whitespace, commas, BOM, comments at the start of the text and after every token) and
    every choice `sh` of where the `{ … }` shorthand is used, the model of `parse_operation_document` — the generated grammar's
    `ExecutableDocument` rule with the model's own depth bounds, `validate_unicode_escapes`, `build_operation_document` —
    applied to the rendering returns exactly the document, every position being the line/column of the first character of
    the corresponding token (`wpDoc`). -/
theorem parse_render_operation_document (τ : Trivia) (hτ : ∀ q, Ws (τ q)) (sh : Nat → Bool) (doc : List ExecDef)
    (hne : doc ≠ []) (hwf : ∀ d ∈ doc, WFDef d) :
    parseOp (rDoc τ sh doc) = .ok (wpDoc τ sh (rDoc τ sh doc) doc) :=
  parseOp_rDoc τ hτ sh doc hne hwf

/-- … in the terms of the property: `parseModel (render A τ) = A` — the document returned differs from `doc` only in
    positions (`ReadDoc.erasePos`: every `Pos` of every node erased), and the positions are the true ones (above). -/
theorem parse_render_operation_document_erase (τ : Trivia) (hτ : ∀ q, Ws (τ q)) (sh : Nat → Bool) (doc : List ExecDef)
    (hne : doc ≠ []) (hwf : ∀ d ∈ doc, WFDef d) :
    ∃ A, parseOp (rDoc τ sh doc) = .ok A ∧ ReadDoc.erasePos A = ReadDoc.erasePos doc :=
  ⟨_, parseOp_rDoc τ hτ sh doc hne hwf, erase_wpDoc τ sh _ doc⟩

/-- the hypotheses are satisfiable: a query with a variable, a fragment, and the shorthand, in canonical trivia -/
example : rDoc (fun _ => []) (fun _ => true)
    [.op { kind := .query, name := some ("Q", {}), vars := [{ name := "v", ty := .nonNull (.named "Int" {}), default := some (.int "1" {}) }],
           sel := [.field none "a" {} [("x", {}, .var "v" {})] [] none] },
     .frag { name := "F", cond := "T", sel := [.field none "b" {} [] [] none] },
     .op { kind := .query, sel := [.spread "F" {} [] {}] }] =
    "query Q($v:Int!=1){a(x:$v)}fragment F on T{b}{...F}".toList := by decide

/-! ### executable documents with `#import` statements and a final unterminated comment (third stage) -/

/-- `render_parse_import_statement`: wherever the rendering `#` spaces `import` gap targets `from` gap "path" gap of a
    well-formed import statement (`WFImp`: at least one target, each `*` or a valid name other than `from`; `sp off` spaces
    after the `#`; arbitrary trivia `τ` after every token, a non-empty gap after `import` and after every name) occurs in an
    input, followed by a token that does not begin with `"`:
    * the `ExecutableDefinition` rule — `OperationDefinition` and `FragmentDefinition` are tried first and fail — succeeds
      with one pair on which `build_executable_definition` returns the import definition: the targets with the true
      position of every name, the path, the position of the `#`;
    * the `COMMENT` rule FAILS there, i.e. the implicit skip stops in front of the statement instead of swallowing the line
      as a comment: `COMMENT`'s negative lookahead `!ext_ImportStatementContent` finds the whole statement (the run proved
      outside lookahead is transferred under the lookahead, `Peg.RunsRule.look`). -/
theorem render_parse_import_statement (τ : Trivia) (hτ : ∀ q, Ws (τ q)) (sp : Nat → Nat) (i : ImportDef) (hwf : WFImp i)
    (sep : Bool) (inp : List Char) (off : Nat) (X : List Char) (h : inp.drop off = rImp τ sp sep off i ++ X)
    (hX : HeadNot (fun d => trivia d ∨ d = '"') X) (fuel bfuel : Nat)
    (hf : B (rImp τ sp sep off i).length + 60 ≤ fuel) (hb : (rImp τ sp sep off i).length ≤ bfuel) :
    (∃ e pair, Peg.run gList fuel R.ExecutableDefinition inp off .nonAtomic = some (e, [pair]) ∧
      e ≤ off + (rImp τ sp sep off i).length ∧
      buildExecutableDefinition (Ctx.spec inp) bfuel pair = .ok (.imp (wpImp τ sp inp off i))) ∧
    Peg.run gList fuel R.COMMENT inp off .nonAtomic = none := by
  have hd : inp.drop (off + (rImp τ sp sep off i).length) = X := drop_after h
  have ht : Tok (At inp (off + (rImp τ sp sep off i).length)) := by
    simp only [Tok, At]; rw [hd]; exact headNot_mono (fun _ h => Or.inl h) hX
  obtain ⟨⟨pr, hr, _, hbld⟩, hcm⟩ := impT τ hτ sp i hwf (hasAt_of_drop h) (tail_of_tok ht)
    (by rw [hd]; exact headNot_mono (fun _ h => Or.inr h) hX)
  obtain ⟨e, hrun, hle⟩ := run_of_runsK hr (fuel := fuel) (by omega)
  refine ⟨⟨e, pr, hrun, hle, hbld bfuel hb⟩, ?_⟩
  obtain ⟨tr', h'⟩ := hcm {}
  have := h' fuel (by omega)
  simp only [At] at this
  unfold Peg.run
  rw [this]

/-- the hypotheses are satisfiable: `#import A, * from "./f.graphql"` (one space after `import`, a comma after `A`) -/
example : rImp (fun q => if q = 9 then [','] else []) (fun _ => 0) false 0
      { targets := [some ("A", {}), none], path := "./f.graphql" } = "#import A,*from\"./f.graphql\"".toList := by decide

/-- `skip_over_final_comment` (repaired grammar: `COMMENT = "#" … (NEWLINE | EOI)`): the implicit skip of a non-atomic rule,
    started in front of ARBITRARY trivia `t` (`Ws`) that is followed by a final comment `#text` WITHOUT line terminator at the
    very end of the input (`EofComment`: no line break in the text, visibly not an import statement), consumes all of it and
    ends at the end of the input — for every depth bound linear in the text. -/
theorem skip_over_final_comment (t : List Char) (hws : Ws t) (body : List Char) (hb : EofComment body) (p : Nat)
    (fuel : Nat) (hf : t.length + body.length + 120 ≤ fuel) (tr : Tr) :
    ∃ tr', doSkip gList fuel true .nonAtomic .none tr ⟨p, t ++ '#' :: body⟩ =
      (tr', .ok ⟨p + t.length + 1 + body.length, []⟩ []) := by
  let inp := List.replicate p 'x' ++ (t ++ '#' :: body)
  have hdrop : inp.drop p = t ++ '#' :: body := by simp [inp]
  have hg : HasAt inp p t := ⟨'#' :: body, hdrop⟩
  have hE : inp.drop (p + t.length) = '#' :: body := by rw [← List.drop_drop, hdrop]; simp
  have hT := tail_of_eofComment hE hb
  have hs := hT.skip hg hws rfl
  obtain ⟨tr', h'⟩ := hs tr
  refine ⟨tr', ?_⟩
  have := h' fuel (by omega)
  have hend : inp.drop (p + t.length + 1 + body.length) = [] := by
    have : inp.drop (p + t.length + ('#' :: body).length) = [] := by rw [← List.drop_drop, hE]; simp
    have e : p + t.length + 1 + body.length = p + t.length + ('#' :: body).length := by simp; omega
    rw [e]; exact this
  simpa [At, hdrop, hend] using this

/-- **`parse_render_operation_document_full`**: `parse_render_operation_document` with the remaining side conditions on the
    SHAPE of the document removed — for EVERY non-empty list `doc` of well-formed operations, fragments AND `#import`
    statements, in any order (`WFDefF`), every trivia assignment `τ` (`Ws`: whitespace, commas, BOM and comments — now
    including comments whose text begins with `import` without being an import statement, `NotImportHead`), every choice
    `sh` of the `{ … }` shorthand, every number `sp` of spaces after the `#` of an import statement, and optionally a FINAL
    comment `#text` that is not terminated by a line break (`eof`; `EofComment`): the model of `parse_operation_document`
    applied to the rendering returns exactly the document — import statements parse to the import definitions — every
    position being the line/column of the first character of the corresponding token (`wpDocF`). The implicit skip stops
    in front of every import statement (`render_parse_import_statement`) and runs over the final comment to the end of
    the input (repaired grammar: `NEWLINE | EOI`). -/
theorem parse_render_operation_document_full (τ : Trivia) (hτ : ∀ q, Ws (τ q)) (sh : Nat → Bool) (sp : Nat → Nat)
    (doc : List ExecDef) (hne : doc ≠ []) (hwf : ∀ d ∈ doc, WFDefF d) (eof : Option (List Char))
    (heof : ∀ b ∈ eof, EofComment b) :
    parseOp (rDocF τ sh sp doc eof) = .ok (wpDocF τ sh sp (rDocF τ sh sp doc eof) doc) :=
  parseOp_rDocF τ hτ sh sp doc hne hwf eof heof

/-- … in the terms of the property: the document returned differs from `doc` only in positions -/
theorem parse_render_operation_document_full_erase (τ : Trivia) (hτ : ∀ q, Ws (τ q)) (sh : Nat → Bool) (sp : Nat → Nat)
    (doc : List ExecDef) (hne : doc ≠ []) (hwf : ∀ d ∈ doc, WFDefF d) (eof : Option (List Char))
    (heof : ∀ b ∈ eof, EofComment b) :
    ∃ A, parseOp (rDocF τ sh sp doc eof) = .ok A ∧ ReadDoc.erasePos A = ReadDoc.erasePos doc :=
  ⟨_, parseOp_rDocF τ hτ sh sp doc hne hwf eof heof, erase_wpDocF τ sh sp _ doc⟩

/-- the hypotheses are satisfiable: an import first, one between two definitions, a final comment without line break -/
example : rDocF (fun _ => []) (fun _ => true) (fun _ => 1)
    [.imp { targets := [some ("F", {})], path := "f" },
     .op { kind := .query, sel := [.spread "F" {} [] {}] },
     .imp { targets := [none], path := "g" },
     .frag { name := "G", cond := "T", sel := [.field none "b" {} [] [] none] }] (some " done".toList) =
    "# import F from\"f\"{...F}# import *from\"g\"fragment G on T{b}# done".toList := by decide

/-- … and comments that begin with `import` without being import statements are trivia now (`Ws`): `#important`, `# import: …` -/
example : Ws "#important\n".toList ∧ Ws "#  import: see below\n  ".toList ∧ EofComment " imports are resolved".toList := by
  have nl : ∀ (b : List Char), (∀ x ∈ b, x ≠ '\n' ∧ x ≠ '\r') → NotImportHead (b.dropWhile (· = ' ')) → ∀ (w : List Char),
      WsRun w → Ws ('#' :: (b ++ (['\n'] ++ (w ++ [])))) := fun b h1 h2 w hw =>
    ⟨[], _, rfl, (fun _ h => by cases h), Cms.cons ⟨h1, h2, Or.inl rfl⟩ hw (fun h => by cases h) Cms.nil⟩
  have hsp : WsRun "  ".toList := by
    intro x hx
    have : x = ' ' := by
      have e : "  ".toList = [' ', ' '] := by decide
      rw [e] at hx
      simp only [List.mem_cons, List.not_mem_nil, or_false] at hx
      rcases hx with rfl | rfl <;> rfl
    subst this; decide
  refine ⟨?_, ?_, ?_⟩
  · exact nl "important".toList (by decide) (Or.inr (Or.inl ⟨'a', "nt".toList, by decide, by decide⟩)) []
      (fun _ h => by cases h)
  · exact nl "  import: see below".toList (by decide)
      (Or.inr (Or.inr ⟨[], ':', " see below".toList, by decide, (fun _ h => by cases h), (fun _ => by decide), by decide,
        by decide, by decide, by decide⟩)) "  ".toList hsp
  · exact ⟨by decide, Or.inr (Or.inl ⟨'s', " are resolved".toList, by decide, by decide⟩)⟩

/-! ### type-system definitions and documents

Descriptions are rendered as ordinary (non-block) string values; `implements` lists and union member lists without the
optional leading `&` / `|`. -/

/-- `render_parse_input_value_definition`: `"description" name: Type = default @directives` (an argument definition or an
    input field) with arbitrary trivia after every token; what follows must begin with none of `!`, `=`, `@`, `(` (and, when
    the rendering does not end with a non-empty gap, neither with `.` nor `"`). -/
theorem render_parse_input_value_definition (τ : Trivia) (hτ : ∀ q, Ws (τ q)) (v : InputValueDef) (hwf : WFIVD v)
    (sep : Bool) (inp : List Char) (off : Nat) (X : List Char) (h : inp.drop off = rIVD τ sep off v ++ X)
    (hX : HeadNot (fun d => trivia d ∨ ivdBad sep d) X) (hglue : sep = false → HeadNot nameCont X) (fuel bfuel : Nat)
    (hf : B (rIVD τ sep off v).length + 30 ≤ fuel) (hb : (rIVD τ sep off v).length ≤ bfuel) :
    ∃ e pair, Peg.run gList fuel R.InputValueDefinition inp off .nonAtomic = some (e, [pair]) ∧
      e ≤ off + (rIVD τ sep off v).length ∧
      buildInputValueDefinition (Ctx.spec inp) bfuel pair = .ok (wpIVD τ inp sep off v) := by
  obtain ⟨pr, hr, _, hbld⟩ := ivdT τ hτ v hwf (hasAt_of_drop h) (nxt_of_drop h hX hglue)
  obtain ⟨e, hrun, hle⟩ := run_of_runsK hr (fuel := fuel) (by omega)
  exact ⟨e, pr, hrun, hle, hbld bfuel hb⟩

/-- `render_parse_field_definition`: `"description" name(argument definitions): Type @directives`; `fieldDefFn` is what
    `build_fields_definition` maps over the children of a `FieldsDefinition`. -/
theorem render_parse_field_definition (τ : Trivia) (hτ : ∀ q, Ws (τ q)) (f : FieldDef) (hwf : WFFieldDef f)
    (sep : Bool) (inp : List Char) (off : Nat) (X : List Char) (h : inp.drop off = rFieldDef τ sep off f ++ X)
    (hX : HeadNot (fun d => trivia d ∨ fdBad d) X) (hglue : sep = false → HeadNot nameCont X) (fuel bfuel : Nat)
    (hf : B (rFieldDef τ sep off f).length + 30 ≤ fuel) (hb : (rFieldDef τ sep off f).length ≤ bfuel) :
    ∃ e pair, Peg.run gList fuel R.FieldDefinition inp off .nonAtomic = some (e, [pair]) ∧
      e ≤ off + (rFieldDef τ sep off f).length ∧
      fieldDefFn (Ctx.spec inp) bfuel pair = .ok (wpFieldDef τ inp sep off f) := by
  obtain ⟨pr, hr, _, hbld⟩ := fieldDefT τ hτ f hwf (hasAt_of_drop h) (nxt_of_drop h hX hglue)
  obtain ⟨e, hrun, hle⟩ := run_of_runsK hr (fuel := fuel) (by omega)
  exact ⟨e, pr, hrun, hle, hbld bfuel hb⟩

/-- `render_parse_enum_value_definition`: `"description" VALUE @directives` (the value's name is none of `true`, `false`,
    `null`). -/
theorem render_parse_enum_value_definition (τ : Trivia) (hτ : ∀ q, Ws (τ q)) (v : EnumValueDef) (hwf : WFEnumVal v)
    (sep : Bool) (inp : List Char) (off : Nat) (X : List Char) (h : inp.drop off = rEnumVal τ sep off v ++ X)
    (hX : HeadNot (fun d => trivia d ∨ evBad d) X) (hglue : sep = false → HeadNot nameCont X) (fuel bfuel : Nat)
    (hf : B (rEnumVal τ sep off v).length + 30 ≤ fuel) (hb : (rEnumVal τ sep off v).length ≤ bfuel) :
    ∃ e pair, Peg.run gList fuel R.EnumValueDefinition inp off .nonAtomic = some (e, [pair]) ∧
      e ≤ off + (rEnumVal τ sep off v).length ∧
      buildEnumValueDefinition (Ctx.spec inp) bfuel pair = .ok (wpEnumVal τ inp sep off v) := by
  obtain ⟨pr, hr, _, hbld⟩ := enumValDefT τ hτ v hwf (hasAt_of_drop h) (nxt_of_drop h hX hglue)
  obtain ⟨e, hrun, hle⟩ := run_of_runsK hr (fuel := fuel) (by omega)
  exact ⟨e, pr, hrun, hle, hbld bfuel hb⟩

/-- `render_parse_type_system_definition`: wherever the rendering of a well-formed item of a type-system document —
    SchemaDefinition, the six TypeDefinitions, DirectiveDefinition, SchemaExtension, the six TypeExtensions, each with
    description / directives / all its optional parts (`WFTsItem`: valid names, well-formed components, and the emptiness
    conditions without which the GRAMMAR has no alternative, e.g. an object type without fields needs a directive) — occurs
    in an input, followed by a token that begins with none of `@ ( { & | =` (and not with a name character unless the
    rendering ends with a non-empty gap), the `TypeSystemDefinitionOrExtension` rule succeeds with one pair — every
    EARLIER alternative of the grammar's ordered choices is shown to fail — on which
    `build_type_system_definition_or_extension` returns the item with the true position of every token. -/
theorem render_parse_type_system_definition (τ : Trivia) (hτ : ∀ q, Ws (τ q)) (it : TsItem) (hwf : WFTsItem it)
    (sep : Bool) (inp : List Char) (off : Nat) (X : List Char) (h : inp.drop off = rTsItem τ sep off it ++ X)
    (hX : HeadNot (fun d => trivia d ∨ tdBad d) X) (hglue : sep = false → HeadNot nameCont X) (fuel bfuel : Nat)
    (hf : B (rTsItem τ sep off it).length + 130 ≤ fuel) (hb : (rTsItem τ sep off it).length ≤ bfuel) :
    ∃ e pair, Peg.run gList fuel R.TypeSystemDefinitionOrExtension inp off .nonAtomic = some (e, [pair]) ∧
      e ≤ off + (rTsItem τ sep off it).length ∧
      buildTypeSystemDefinitionOrExtension (Ctx.spec inp) bfuel pair = .ok (wpTsItem τ inp sep off it) := by
  obtain ⟨pr, hr, _, hbld⟩ := tsItemT τ hτ it hwf sep off (hasAt_of_drop h) (nxt_of_drop h hX hglue)
  obtain ⟨e, hrun, hle⟩ := run_of_runsK hr (fuel := fuel) (by omega)
  exact ⟨e, pr, hrun, hle, hbld bfuel hb⟩

/-- **`parse_render_type_system_document`**: for EVERY non-empty list `doc` of well-formed type-system items (`WFTsItem`:
    schema definition, type definitions, directive definitions, schema extensions, type extensions)
    and every trivia assignment `τ` (arbitrary whitespace, commas, BOM, comments at the start of the text and after every
    token), the model of `parse_type_system_document` — the generated grammar's `TypeSystemExtensionDocument` rule with the
    model's own depth bounds, `validate_unicode_escapes`, `build_type_system_document` — applied to the rendering returns
    exactly the document, every position being the line/column of the first character of the corresponding token
    (`wpTsDoc`). -/
theorem parse_render_type_system_document (τ : Trivia) (hτ : ∀ q, Ws (τ q)) (doc : List TsItem) (hne : doc ≠ [])
    (hwf : ∀ d ∈ doc, WFTsItem d) :
    parseTs (rTsDoc τ doc) = .ok (wpTsDoc τ (rTsDoc τ doc) doc) :=
  parseTs_rTsDoc τ hτ doc hne hwf

/-- … in the terms of the property: the document returned differs from `doc` only in positions (`GqlTokens.eraseTsDoc`),
    provided every item of `doc` carries only what its rendering shows (`NormalItem`: a type definition or extension only
    the components of its kind — a scalar has no fields, … —, an extension no description). -/
theorem parse_render_type_system_document_erase (τ : Trivia) (hτ : ∀ q, Ws (τ q)) (doc : List TsItem) (hne : doc ≠ [])
    (hwf : ∀ d ∈ doc, WFTsItem d) (hn : ∀ d ∈ doc, NormalItem d) :
    ∃ A, parseTs (rTsDoc τ doc) = .ok A ∧ GqlTokens.eraseTsDoc A = GqlTokens.eraseTsDoc doc :=
  ⟨_, parseTs_rTsDoc τ hτ doc hne hwf, tsErase_wpTsDoc τ _ doc hn⟩

/-- **`parse_render_type_system_document_full`**: `parse_render_type_system_document` without the one side condition that was
    a limit of the proof and not of the grammar — the bare `interface I` / `extend interface I` (no interfaces, no
    directives, no fields; `BareIface`) is a well-formed item too (`WFTsItemF`), wherever it stands, also directly in front
    of an item that begins with the letter `i` (`interface J`, `input X`): `ImplementsInterfaces?` after the name is shown
    to fail because the text that follows does not begin with the WORD `implements` (every item of a type-system document
    begins with a description or with one of the nine keywords scalar, type, interface, union, enum, input, schema,
    directive, extend). -/
theorem parse_render_type_system_document_full (τ : Trivia) (hτ : ∀ q, Ws (τ q)) (doc : List TsItem) (hne : doc ≠ [])
    (hwf : ∀ d ∈ doc, WFTsItemF d) :
    parseTs (rTsDoc τ doc) = .ok (wpTsDoc τ (rTsDoc τ doc) doc) :=
  parseTs_rTsDocF τ hτ doc hne hwf

/-- … in the terms of the property: the document returned differs from `doc` only in positions -/
theorem parse_render_type_system_document_full_erase (τ : Trivia) (hτ : ∀ q, Ws (τ q)) (doc : List TsItem) (hne : doc ≠ [])
    (hwf : ∀ d ∈ doc, WFTsItemF d) (hn : ∀ d ∈ doc, NormalItem d) :
    ∃ A, parseTs (rTsDoc τ doc) = .ok A ∧ GqlTokens.eraseTsDoc A = GqlTokens.eraseTsDoc doc :=
  ⟨_, parseTs_rTsDocF τ hτ doc hne hwf, tsErase_wpTsDoc τ _ doc hn⟩

/-- the hypotheses are satisfiable: bare interface forms in front of `interface`, `input` and at the end -/
example : rTsDoc (fun _ => [])
    [.typeDef { kind := .interface, name := "I" }, .typeDef { kind := .interface, name := "J" },
     .typeDef { kind := .input, name := "X" }, .typeExt { kind := .interface, name := "I" }] =
    "interface I interface J input X extend interface I".toList := by decide

example : BareIface (.typeDef { kind := .interface, name := "I" }) := by
  refine ⟨rfl, ?_, rfl, rfl, rfl⟩
  show validName "I".toList
  have : "I".toList = ['I'] := by decide
  rw [this]; exact ⟨by decide, fun x hx => by cases hx⟩

/-- the hypotheses are satisfiable: one type definition of each kind, in canonical trivia -/
example : rTsDoc (fun _ => [])
    [.typeDef { kind := .scalar, name := "S", dirs := [{ name := "d" }] },
     .typeDef { kind := .object, desc := some "doc", name := "T", implements := [("I", {}), ("J", {})],
                fields := [{ name := "f", args := [{ name := "x", ty := .named "Int" {}, default := some (.int "1" {}) }],
                             ty := .nonNull (.named "S" {}) }] },
     .typeDef { kind := .interface, name := "I", fields := [{ name := "g", ty := .list (.named "T" {}) {} }] },
     .typeDef { kind := .union, name := "U", members := [("T", {}), ("V", {})] },
     .typeDef { kind := .enum, name := "E", values := [{ name := "A" }, { name := "B", dirs := [{ name := "d" }] }] },
     .typeDef { kind := .input, name := "In", inputs := [{ name := "y", ty := .named "E" {} }] }] =
    "scalar S@d \"doc\"type T implements I&J{f(x:Int=1):S!} interface I{g:[T]} union U=T|V enum E{A B@d} input In{y:E}".toList := by
  decide

/-- … a schema definition and a directive definition -/
example : rTsDoc (fun _ => [])
    [.schemaDef { roots := [(.query, "Q", {}), (.mutation, "M", {})] },
     .directiveDef { desc := some "d", name := "d", args := [{ name := "x", ty := .named "Int" {} }], repeatable := true,
                     locations := ["FIELD", "ENUM_VALUE"] }] =
    "schema{query:Q mutation:M} \"d\"directive@d(x:Int)repeatable on FIELD|ENUM_VALUE".toList := by
  decide

/-- … a schema extension and three type extensions -/
example : rTsDoc (fun _ => [])
    [.schemaExt { dirs := [{ name := "d" }] },
     .typeExt { kind := .object, name := "T", implements := [("K", {})] },
     .typeExt { kind := .union, name := "U", dirs := [{ name := "d" }] },
     .typeExt { kind := .enum, name := "E", values := [{ name := "C" }] }] =
    "extend schema@d extend type T implements K extend union U@d extend enum E{C}".toList := by
  decide

/-- … and these items are well-formed (`WFTsItem` is decidable on concrete items up to the `validName` conjuncts; shown
    here for the directive locations: each of the 19 words of the grammar is taken by the `DirectiveLocation` rule) -/
example : ∀ w ∈ locWords, (locKind w).isSome = true := fun w hw => (locWords_ok w hw).2

end NitroVerif.C07
