import NitroVerif.Lemmas.AstSchema
import NitroVerif.Lemmas.SchemaIR
import NitroVerif.Model.CliSchema
import NitroVerif.Spec.IntrospectSpec
/-!
# C15 — introspection JSON and SDL descriptions of a schema give the same results

Property theorems only. Models: `Model/Introspect.lean` (introspection.rs), `Model/AstSchema.lean`
(ast_to_type_system.rs, type_system_to_ast.rs), `Model/CliSchema.lean` (the two routes of crates/cli), tied to the
code by `harness/src/bin/c15.rs`. Specification: `Spec/IntrospectSpec.lean`.
`≃` (`SchemaIR.Equiv`) is defined in `Model/SchemaIR.lean`.
-/
namespace NitroVerif.C15
open NitroVerif NitroVerif.SchemaIR NitroVerif.AstSchema

/-- `≃` is reflexive -/
theorem equiv_refl (a : Schema) : a ≃ a := Equiv.refl a
/-- `≃` is symmetric -/
theorem equiv_symm {a b : Schema} (h : a ≃ b) : b ≃ a := h.symm
/-- `≃` is transitive -/
theorem equiv_trans {a b c : Schema} (h₁ : a ≃ b) (h₂ : b ≃ c) : a ≃ c := h₁.trans h₂

/-- `≃` is exactly "the lookup interface (type by name, directive by name, root type of an operation kind, is-implementer)
    answers the same after erasing descriptions, deprecation reasons and default-value texts" -/
theorem equiv_is_lookup_equality (a b : Schema) : a ≃ b ↔ lookupOf a = lookupOf b := equiv_iff_lookup a b

/-- Any checker that reads the schema only through the lookup interface returns the same diagnostics for two `≃`
    schemas — in particular it accepts (`= []`) the same operation documents. -/
theorem C15_check_eq {Doc Err : Type} (checkOp : Lookup → Doc → List Err) {s₁ s₂ : Schema} (h : s₁ ≃ s₂) (D : Doc) :
    checkOp (lookupOf s₁) D = checkOp (lookupOf s₂) D := by
  rw [(equiv_iff_lookup s₁ s₂).1 h]

/-- consequence for the verdict -/
theorem C15_check_verdict_eq {Doc Err : Type} (checkOp : Lookup → Doc → List Err) {s₁ s₂ : Schema} (h : s₁ ≃ s₂)
    (D : Doc) : checkOp (lookupOf s₁) D = [] ↔ checkOp (lookupOf s₂) D = [] := by
  rw [C15_check_eq checkOp h D]

/-- Any declaration generator (schema, resolver or operation types) that reads the schema only through the lookup
    interface emits, for every alias name `a`, the same declaration for two `≃` schemas. -/
theorem C15_types_eq {Cfg Doc Decl : Type} (decls : Cfg → Lookup → Doc → String → Option Decl) {s₁ s₂ : Schema}
    (h : s₁ ≃ s₂) (c : Cfg) (D : Doc) (a : String) : decls c (lookupOf s₁) D a = decls c (lookupOf s₂) D a := by
  rw [(equiv_iff_lookup s₁ s₂).1 h]

/-- `ast_to_type_system ∘ type_system_to_ast` keeps a well-formed schema up to `≃`, EXCEPT that the directive
    definitions are gone (`type_system_to_ast` emits none) and the root-types node is no longer a parsed position.
    (What `≃` already ignores and the round trip also loses: deprecations, default-value literals — replaced by
    `null` —, positions.) -/
theorem C15_ast_roundtrip (s : Schema) (h : WellFormed s) :
    astToSchema (schemaToAst s) ≃ { s with directives := [], explicitRoots := false } := by
  rw [astToSchema_schemaToAst]
  have hn : (s.types.map fun t => convTypeDef (unconvTypeDef t)).map (·.name) = s.types.map (·.name) := by
    simp [List.map_map, Function.comp_def, name_roundtrip]
  rw [extendTypes_nil_nodup _ (by rw [hn]; exact h.nodup)]
  have htypes : ∀ n, viewType
      { desc := s.desc, roots := s.roots, explicitRoots := false, directives := [],
        types := s.types.map fun t => convTypeDef (unconvTypeDef t) } n
      = viewType { s with directives := [], explicitRoots := false } n := by
    intro n
    simp only [viewType, Schema.typeDef?]
    split
    · rfl
    · rw [List.find?_map]
      simp only [Function.comp_def, name_roundtrip, Option.map_map]
      cases hf : s.types.find? (fun t => t.name == n) with
      | none => rfl
      | some t =>
        have ht : t ∈ s.types := List.mem_of_find?_eq_some hf
        simp [eraseType_roundtrip, h.clean t ht]
  refine ⟨htypes, fun n => ?_, fun k => ?_, fun i o => ?_⟩
  · simp [viewDirective, Schema.directiveDef?]
  · have hv := funext htypes
    simp only [viewRoot, Schema.rootName, Schema.rootsDeclared, hv]
    rfl
  · simp only [implementsB, Schema.objectImplementers]
    congr 1
    rw [List.filter_map, List.map_map]
    simp only [Function.comp_def, name_roundtrip, kind_roundtrip]
    congr 1
    apply List.filter_congr
    intro t _
    by_cases hk : t.kind = .object
    · simp [hk, interfaces_roundtrip t hk]
    · have hb : (t.kind == IKind.object) = false := by simpa using hk
      simp [hb]

/-- the hypothesis of `C15_ast_roundtrip` is satisfiable by a non-trivial schema -/
example : WellFormed
    { types := [{ kind := .object, name := "Query", fields := [{ name := "a", ty := .named "Int", deprecation := some "x" }] },
                { kind := .scalar, name := "Int" }],
      roots := { query := some "Query" } } :=
  ⟨by decide, by decide⟩

end NitroVerif.C15
