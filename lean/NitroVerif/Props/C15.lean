import NitroVerif.Lemmas.AstSchema
import NitroVerif.Lemmas.SchemaIR
import NitroVerif.Lemmas.Introspect
import NitroVerif.Lemmas.Routes
import NitroVerif.Model.CliSchema
import NitroVerif.Spec.IntrospectSpec
/-!
# C15 — introspection JSON and SDL descriptions of a schema give the same results

Property theorems only. Models: `Model/Introspect.lean` (introspection.rs), `Model/AstSchema.lean`
(ast_to_type_system.rs, type_system_to_ast.rs), `Model/CliSchema.lean` (the two routes of crates/cli), tied to the
code by `harness/src/bin/c15.rs`. Specification: `Spec/IntrospectSpec.lean`.
`≃` (`SchemaIR.Equiv`) is defined in `Model/SchemaIR.lean`.
-/
namespace NitroVerif.C15
open NitroVerif NitroVerif.SchemaIR NitroVerif.AstSchema

/-- `≃` is reflexive -/
theorem equiv_refl (a : Schema) : a ≃ a := Equiv.refl a
/-- `≃` is symmetric -/
theorem equiv_symm {a b : Schema} (h : a ≃ b) : b ≃ a := h.symm
/-- `≃` is transitive -/
theorem equiv_trans {a b c : Schema} (h₁ : a ≃ b) (h₂ : b ≃ c) : a ≃ c := h₁.trans h₂

/-- `≃` is exactly "the lookup interface (type by name, directive by name, root type of an operation kind, is-implementer)
    answers the same after erasing descriptions, deprecation reasons and default-value texts" -/
theorem equiv_is_lookup_equality (a b : Schema) : a ≃ b ↔ lookupOf a = lookupOf b := equiv_iff_lookup a b

/-- Any checker that reads the schema only through the lookup interface returns the same diagnostics for two `≃`
    schemas — in particular it accepts (`= []`) the same operation documents. -/
theorem C15_check_eq {Doc Err : Type} (checkOp : Lookup → Doc → List Err) {s₁ s₂ : Schema} (h : s₁ ≃ s₂) (D : Doc) :
    checkOp (lookupOf s₁) D = checkOp (lookupOf s₂) D := by
  rw [(equiv_iff_lookup s₁ s₂).1 h]

/-- consequence for the verdict -/
theorem C15_check_verdict_eq {Doc Err : Type} (checkOp : Lookup → Doc → List Err) {s₁ s₂ : Schema} (h : s₁ ≃ s₂)
    (D : Doc) : checkOp (lookupOf s₁) D = [] ↔ checkOp (lookupOf s₂) D = [] := by
  rw [C15_check_eq checkOp h D]

/-- Any declaration generator (schema, resolver or operation types) that reads the schema only through the lookup
    interface emits, for every alias name `a`, the same declaration for two `≃` schemas. -/
theorem C15_types_eq {Cfg Doc Decl : Type} (decls : Cfg → Lookup → Doc → String → Option Decl) {s₁ s₂ : Schema}
    (h : s₁ ≃ s₂) (c : Cfg) (D : Doc) (a : String) : decls c (lookupOf s₁) D a = decls c (lookupOf s₂) D a := by
  rw [(equiv_iff_lookup s₁ s₂).1 h]

/-- `ast_to_type_system ∘ type_system_to_ast` keeps a well-formed schema up to `≃`, EXCEPT that the directive
    definitions are gone (`type_system_to_ast` emits none) and the root-types node is no longer a parsed position.
    (What `≃` already ignores and the round trip also loses: deprecations, default-value literals — replaced by
    `null` —, positions.) -/
theorem C15_ast_roundtrip (s : Schema) (h : WellFormed s) :
    astToSchema (schemaToAst s) ≃ { s with directives := [], explicitRoots := false } := by
  rw [astToSchema_schemaToAst]
  have hn : (s.types.map fun t => convTypeDef (unconvTypeDef t)).map (·.name) = s.types.map (·.name) := by
    simp [List.map_map, Function.comp_def, name_roundtrip]
  rw [extendTypes_nil_nodup _ (by rw [hn]; exact h.nodup)]
  have htypes : ∀ n, viewType
      { desc := s.desc, roots := s.roots, explicitRoots := false, directives := [],
        types := s.types.map fun t => convTypeDef (unconvTypeDef t) } n
      = viewType { s with directives := [], explicitRoots := false } n := by
    intro n
    simp only [viewType, Schema.typeDef?]
    split
    · rfl
    · rw [List.find?_map]
      simp only [Function.comp_def, name_roundtrip, Option.map_map]
      cases hf : s.types.find? (fun t => t.name == n) with
      | none => rfl
      | some t =>
        have ht : t ∈ s.types := List.mem_of_find?_eq_some hf
        simp [eraseType_roundtrip, h.clean t ht]
  refine ⟨htypes, fun n => ?_, fun k => ?_, fun i o => ?_⟩
  · simp [viewDirective, Schema.directiveDef?]
  · have hv := funext htypes
    simp only [viewRoot, Schema.rootName, Schema.rootsDeclared, hv]
    rfl
  · simp only [implementsB, Schema.objectImplementers]
    congr 1
    rw [List.filter_map, List.map_map]
    simp only [Function.comp_def, name_roundtrip, kind_roundtrip]
    congr 1
    apply List.filter_congr
    intro t _
    by_cases hk : t.kind = .object
    · simp [hk, interfaces_roundtrip t hk]
    · have hb : (t.kind == IKind.object) = false := by simpa using hk
      simp [hb]

/-- the hypothesis of `C15_ast_roundtrip` is satisfiable by a non-trivial schema -/
example : WellFormed
    { types := [{ kind := .object, name := "Query", fields := [{ name := "a", ty := .named "Int", deprecation := some "x" }] },
                { kind := .scalar, name := "Int" }],
      roots := { query := some "Query" } } :=
  ⟨by decide, by decide⟩

/-- The reader inverts the specification's renderer: for EVERY schema value with a query root (arbitrary names,
    descriptions, nesting depth of list / non-null types, arguments, deprecations, directive definitions), reading its
    introspection result (spec §4 encoding, every optional key present) succeeds and returns `Introspect.readBack s` —
    the schema itself with the components outside a definition's kind emptied (`cleanType`), the first definition of a
    repeated type / directive name kept and the position bit `explicitRoots` false (`= s` up to that bit when `s` is
    well-formed with distinct directive names: `C15_reader_identity`): no field, argument, interface, enum value, input
    field, `ofType` level, `isDeprecated`/`deprecationReason`, `isRepeatable`, default-value string or root name is lost
    or invented.  Nothing is stated about JSON that is not such a rendering (K only). -/
theorem C15_reader_inverts_renderer (s : Schema) (url : String → Option String) (q : String)
    (hq : s.roots.query = some q) :
    Introspect.fromIntrospection (IntrospectSpec.encode s url) = .ok (Introspect.readBack s) :=
  Introspect.fromIntrospection_encode s url q hq

/-- … in particular on the introspection result of a type-system document `M` whose query root exists -/
theorem C15_schema_eq_reader (M : Gql.TsDoc) (q : String) (hq : (IntrospectSpec.specRoots M).query = some q) :
    Introspect.fromIntrospection (IntrospectSpec.introspectSpec M) = .ok (Introspect.readBack (IntrospectSpec.specSchema M)) :=
  Introspect.fromIntrospection_encode _ _ q hq

/-- the hypothesis is satisfiable: a document with a `Query` object type and no schema definition -/
example : (IntrospectSpec.specRoots
    [.typeDef { kind := .object, name := "Query", fields := [{ name := "a", ty := .named "Int" {} }] }]).query = some "Query" := by
  decide

/-- On a well-formed schema value the reader returns it unchanged up to the position bit. -/
theorem C15_reader_identity (s : Schema) (url : String → Option String) (q : String) (hq : s.roots.query = some q)
    (h : WellFormed s) (hd : (s.directives.map (·.name)).Nodup) :
    Introspect.fromIntrospection (IntrospectSpec.encode s url) = .ok { s with explicitRoots := false } := by
  rw [C15_reader_inverts_renderer s url q hq]
  have hc : s.types.map cleanType = s.types := by
    conv => rhs; rw [← List.map_id s.types]
    exact List.map_congr_left fun t ht => by simpa using h.clean t ht
  simp only [Introspect.readBack, hc, extendTypes_nil_nodup _ h.nodup, extendDirectives_nil_nodup _ hd]

/-- Root operation types that an introspection result declares are not replaced by the default names: with
    `mutationType: null` a mutation has NO root type even if a type named `Mutation` exists (repaired behaviour;
    `fix: root operation types declared by an introspection result are explicit`). -/
theorem C15_declared_roots_no_default (s : Schema) (h : s.roots.query.isSome = true) (k : OpK) :
    s.rootName k = s.roots.get k := by
  simp [Schema.rootName, Schema.rootsDeclared, h]

/-- After the repair of `extend_loaded_schema`, every built-in scalar is defined on the JSON route, whether or not the
    introspection result lists it. -/
theorem C15_builtin_scalars_defined (s : Schema) (n : String) (hn : n ∈ ["Int", "Float", "String", "Boolean", "ID"]) :
    ((CliSchema.addBuiltinScalars s).typeDef? n).isSome = true := by
  have key : ∀ (l acc : List ITypeDef), (∃ t ∈ acc ++ l, t.name = n) →
      ((extendTypes acc l).find? (·.name == n)).isSome = true := by
    intro l
    induction l with
    | nil =>
      intro acc ⟨t, ht, hname⟩
      simp only [extendTypes, List.find?_isSome]
      exact ⟨t, by simpa using ht, by simp [hname]⟩
    | cons x r ih =>
      intro acc ⟨t, ht, hname⟩
      simp only [extendTypes]
      apply ih
      split
      · rename_i hany
        rcases List.mem_append.mp ht with ha | hx
        · exact ⟨t, by simp [ha], hname⟩
        · rcases List.mem_cons.mp hx with rfl | hr
          · obtain ⟨u, hu, hun⟩ := List.any_eq_true.mp hany
            exact ⟨u, by simp [hu], by simpa [hname] using hun⟩
          · exact ⟨t, by simp [hr], hname⟩
      · exact ⟨t, by simpa using ht, hname⟩
  simp only [CliSchema.addBuiltinScalars, Schema.typeDef?]
  apply key
  refine ⟨{ kind := .scalar, name := n }, ?_, rfl⟩
  simp only [CliSchema.builtinScalarDefs, List.mem_append, List.mem_map]
  exact Or.inr ⟨n, hn, rfl⟩

/-- The executable check the driver uses (`equivB`: compares the lookups on the names occurring in either schema)
    decides `≃`. -/
theorem equivB_iff (a b : Schema) : equivB a b = true ↔ a ≃ b := SchemaIR.equivB_iff a b

/-! ### the two routes, lookup by lookup (`Routes.jsonSide M` = the JSON route's schema for `introspectSpec M`) -/

/-- `typeDef?`: for every name that does not start with `__`, both routes find a definition or both find none, of the
    same kind, with the same fields (names, types, arguments with their types and "has a default"), enum values, input
    fields, union members and interface list — up to descriptions / deprecation reasons / default texts. No hypothesis
    on `M`. -/
theorem C15_schema_eq_typeDef (M : Gql.TsDoc) (n : String) (hn : isIntrospectionName n = false) :
    ((Routes.jsonSide M).typeDef? n).map eraseType = ((CliSchema.routeSdl M).typeDef? n).map eraseType := by
  have := Routes.viewType_routes M n
  simpa [viewType, hn] using this

/-- `fieldsOf` (fields with their arguments) of a type name, on both routes -/
theorem C15_schema_eq_fieldsOf (M : Gql.TsDoc) (n : String) (hn : isIntrospectionName n = false) :
    ((Routes.jsonSide M).fieldsOf n).map eraseField = ((CliSchema.routeSdl M).fieldsOf n).map eraseField := by
  have h := C15_schema_eq_typeDef M n hn
  simp only [Schema.fieldsOf]
  cases hj : (Routes.jsonSide M).typeDef? n <;> cases hs : (CliSchema.routeSdl M).typeDef? n <;>
    simp [hj, hs] at h ⊢
  exact congrArg ITypeDef.fields h

/-- enum values and input fields of a type name, on both routes -/
theorem C15_schema_eq_members_inputs (M : Gql.TsDoc) (n : String) (hn : isIntrospectionName n = false) :
    ((Routes.jsonSide M).typeDef? n).map (fun t => (t.members.map eraseMember, t.inputs.map eraseIV))
      = ((CliSchema.routeSdl M).typeDef? n).map (fun t => (t.members.map eraseMember, t.inputs.map eraseIV)) := by
  have h := C15_schema_eq_typeDef M n hn
  cases hj : (Routes.jsonSide M).typeDef? n <;> cases hs : (CliSchema.routeSdl M).typeDef? n <;>
    simp [hj, hs] at h ⊢
  exact ⟨congrArg ITypeDef.members h, congrArg ITypeDef.inputs h⟩

/-- implementers of an interface: the same list, in the same order, when type names are distinct -/
theorem C15_schema_eq_implementers (M : Gql.TsDoc) (h : ((IntrospectSpec.userTypes M).map (·.name)).Nodup) (i : String) :
    (Routes.jsonSide M).objectImplementers i = (CliSchema.routeSdl M).objectImplementers i :=
  Routes.objectImplementers_routes M h i

/-- `possibleTypes` of a composite type name, on both routes -/
theorem C15_schema_eq_possibleTypes (M : Gql.TsDoc) (h : ((IntrospectSpec.userTypes M).map (·.name)).Nodup) (n : String)
    (hn : isIntrospectionName n = false) :
    (Routes.jsonSide M).possibleTypes n = (CliSchema.routeSdl M).possibleTypes n := by
  have ht := C15_schema_eq_typeDef M n hn
  simp only [Schema.possibleTypes, C15_schema_eq_implementers M h]
  cases hj : (Routes.jsonSide M).typeDef? n <;> cases hs : (CliSchema.routeSdl M).typeDef? n <;>
    simp [hj, hs] at ht ⊢
  rename_i a b
  have hk0 : (eraseType a).kind = (eraseType b).kind := congrArg ITypeDef.kind ht
  have hn0 : (eraseType a).name = (eraseType b).name := congrArg ITypeDef.name ht
  have hp0 : (eraseType a).possible = (eraseType b).possible := congrArg ITypeDef.possible ht
  have hk : a.kind = b.kind := hk0
  have hname : a.name = b.name := hn0
  have hp : a.possible = b.possible := hp0
  rw [hk, hname, hp]

/-- `directiveDef?`: the same definition (locations, arguments, repeatability) on both routes for every directive name
    except the nitrogql-only `@nitrogql_ts_type`, provided `M` does not redefine a built-in directive -/
theorem C15_schema_eq_directiveDef (M : Gql.TsDoc)
    (hd : ∀ d ∈ IntrospectSpec.userDirectives M, d.name ∉ Routes.builtinDirectiveNames) (n : String) :
    viewDirective (Routes.jsonSide M) n = viewDirective (CliSchema.routeSdl M) n :=
  Routes.viewDirective_routes M hd n

/-- `rootName`: an operation kind is checked against the same root type definition on both routes, or rejected on both -/
theorem C15_schema_eq_rootName (M : Gql.TsDoc) (h : Routes.ValidResolved M) (k : OpK) :
    viewRoot (Routes.jsonSide M) k = viewRoot (CliSchema.routeSdl M) k :=
  (Routes.routes_equiv M h).roots k

/-- **The whole JSON route equals the SDL route on the lookup interface.** For every valid resolved type-system
    document `M`: reading the spec's introspection result of `M` the way the CLI does (reader + the five built-in
    scalars) succeeds, and the schema obtained is `≃` the schema the CLI builds from the SDL (`M` + built-ins through
    `ast_to_type_system`). -/
theorem C15_schema_eq (M : Gql.TsDoc) (h : Routes.ValidResolved M) :
    ∃ s, CliSchema.routeJson (IntrospectSpec.introspectSpec M) = .ok s ∧ s ≃ CliSchema.routeSdl M := by
  obtain ⟨q, hq⟩ := Option.isSome_iff_exists.mp h.query
  exact ⟨Routes.jsonSide M, Routes.routeJson_spec M q hq, Routes.routes_equiv M h⟩

/-- the hypotheses are satisfiable by a non-trivial document: explicit schema definition without mutation, a decoy
    type `Mutation`, an interface chain, a union, an enum with a deprecated value, an input object, a custom directive -/
example : Routes.ValidResolved
    [ .schemaDef { roots := [(.query, "Q", {})] },
      .typeDef { kind := .interface, name := "Node", fields := [{ name := "id", ty := .nonNull (.named "ID" {}) }] },
      .typeDef { kind := .interface, name := "Ent", implements := [("Node", {})],
                 fields := [{ name := "id", ty := .nonNull (.named "ID" {}) }] },
      .typeDef { kind := .object, name := "U", implements := [("Ent", {}), ("Node", {})],
                 fields := [{ name := "id", ty := .nonNull (.named "ID" {}) }] },
      .typeDef { kind := .object, name := "Q",
                 fields := [{ name := "n", ty := .named "Node" {},
                              args := [{ name := "f", ty := .named "In" {}, default := some (.null {}) }] }] },
      .typeDef { kind := .object, name := "Mutation", fields := [{ name := "x", ty := .named "Int" {} }] },
      .typeDef { kind := .union, name := "S", members := [("U", {}), ("Q", {})] },
      .typeDef { kind := .enum, name := "E", values := [{ name := "A", dirs := [{ name := "deprecated" }] }, { name := "B" }] },
      .typeDef { kind := .input, name := "In", inputs := [{ name := "e", ty := .list (.named "E" {}) {} }] },
      .directiveDef { name := "tag", repeatable := true, locations := ["FIELD"] } ] :=
  ⟨by decide, by decide, by decide, by decide, by decide⟩

/-- **Corollary (check).** Any checker that reads the schema only through the lookup interface returns the same
    diagnostics — hence the same verdict — for every operation document on the two routes of a valid `M`. -/
theorem C15_routes_agree_check {Doc Err : Type} (checkOp : Lookup → Doc → List Err) (M : Gql.TsDoc)
    (h : Routes.ValidResolved M) :
    ∃ s, CliSchema.routeJson (IntrospectSpec.introspectSpec M) = .ok s ∧
      ∀ D, checkOp (lookupOf s) D = checkOp (lookupOf (CliSchema.routeSdl M)) D := by
  obtain ⟨s, hs, he⟩ := C15_schema_eq M h
  exact ⟨s, hs, fun D => C15_check_eq checkOp he D⟩

/-- **Corollary (generate).** Any declaration generator that reads the schema only through the lookup interface emits the
    same declaration for every alias name, configuration and operation document on the two routes of a valid `M`. -/
theorem C15_routes_agree_types {Cfg Doc Decl : Type} (decls : Cfg → Lookup → Doc → String → Option Decl) (M : Gql.TsDoc)
    (h : Routes.ValidResolved M) :
    ∃ s, CliSchema.routeJson (IntrospectSpec.introspectSpec M) = .ok s ∧
      ∀ c D a, decls c (lookupOf s) D a = decls c (lookupOf (CliSchema.routeSdl M)) D a := by
  obtain ⟨s, hs, he⟩ := C15_schema_eq M h
  exact ⟨s, hs, fun c D a => C15_types_eq decls he c D a⟩

/-- `C15_routes_agree`: both corollaries together -/
theorem C15_routes_agree {Cfg Doc Err Decl : Type} (checkOp : Lookup → Doc → List Err)
    (decls : Cfg → Lookup → Doc → String → Option Decl) (M : Gql.TsDoc) (h : Routes.ValidResolved M) :
    ∃ s, CliSchema.routeJson (IntrospectSpec.introspectSpec M) = .ok s ∧
      (∀ D, checkOp (lookupOf s) D = [] ↔ checkOp (lookupOf (CliSchema.routeSdl M)) D = []) ∧
      (∀ c D a, decls c (lookupOf s) D a = decls c (lookupOf (CliSchema.routeSdl M)) D a) := by
  obtain ⟨s, hs, he⟩ := C15_schema_eq M h
  exact ⟨s, hs, fun D => C15_check_verdict_eq checkOp he D, fun c D a => C15_types_eq decls he c D a⟩

/-!
## Wave 3 — the concrete consumers: see `Props/C15Concrete.lean` and `Props/C15Resolvers.lean`

`C15_check_eq` / `C15_check_verdict_eq` / `C15_types_eq` / `C15_routes_agree` / `_check` / `_types` above keep the checker
and the generator ABSTRACT (any function `Lookup → …`).  Their hypothesis ("reads the schema only through the lookup
interface") is PROVED for the executable models of the real consumers, which read a schema through the document view
`Gql.Schema`, and the route equality is stated for them directly (`Props/C15Concrete.lean`):
`C15_lookups_factor` (every lookup of the operation checker model is a function of `lookupOf`),
`C15_checkOp_routes_eq` / `_verdict` / `_eq_partial` (operation checker `CheckOp.checkOp`: same diagnostics on the two
routes, for `ValidParsed M` and `docOk D`, modulo `normRoot`), `C15_implTree_routes_eq` / `C15_opDecls_routes_eq`
(operation type printer `OpTypes`: same trees up to leaf positions, equal declarations), `C15_schemaDecls_routes_eq` /
`_same_aliases` / `_namespace_eq` / `_representative_eq` (schema declaration printer `SchemaDecls`, under `DeclsOk`: equal
statements per alias), and the SDL half against the specification (`C15_sdl_route_is_spec`).  The documented exemptions
and the conditions `docOk`, closed references, `ScalarsConfigured` are each shown necessary by a kernel-checked witness
(`…_counterexample`); the conditions of `ValidResolved`, the parsed position, "no `__*` root / type names" and
`UserNotBuiltin` are hypotheses that are NOT shown necessary.

Also theorems (`Props/C15Resolvers.lean`; `ValidParsed M`, `UserNotBuiltin M`): the resolvers file and the whole-file
statements of the schema declaration file. Resolvers file (C10's model `ResolverDecls.resolversFile`): per field the same
`__Resolver<Parent, Args, Context, Result>`, per definition the same alias and `Resolvers<Context>` entry — EQUAL, incl.
the member order of `__resolveType` unions (`C15_resolvers_field_eq`, `_definition_eq`); both files in closed form over
the same pieces (`C15_resolvers_routes_eq`: the JSON route's file = the SDL route's + a fixed `__*` block + the
built-in scalar aliases split into referenced / unreferenced), `_routes_perm`, `_routes_agree` (with the reader),
witnesses for the extras, the order and the lost metadata. Schema declaration file: declaration order of both files in
closed form (`C15_schemaFile_routes_eq`, under `DeclsOk` and "the SDL route produces the file"; same blocks of `M` in the
same order; they differ by the position of the built-in scalars and the inserted `__*` blocks —
`C15_resolvers_definitions_order`), the `__nitrogql_schema` object (`C15_schemaMetadata_routes`: same keys and types;
written order on the SDL route, query/mutation/subscription on the JSON route; needs `RootKindsDistinct`, "each operation
kind once", which the checker model does not enforce: `C15_schemaMetadata_duplicate_root_counterexample`), every JSDoc
comment in text order (`C15_schemaDocs_routes_eq`: the JSON route's are the SDL route's without `@deprecated`;
`C15_schemaDocs_deprecation_witness`).  The closed forms take the SDL route's document as `M ++ builtins`; the pipeline's
regrouping of it by `resolve_schema_extensions` is a permutation, and for EVERY permutation the two files are equivalent
up to order (`C15_sdl_route_any_order`, via `C17_resolvers_perm` / `C17_decls_perm`).

## OPEN — carried by K/O only

* That the MODELS `CheckOp` / `OpTypes` / `SchemaDecls` / `ResolverDecls` are the real `check_operation_document` /
  printers is the K evidence of C03/C04, C01/C02 and C10 (on SDL inputs only); on the JSON route C15's own O stream
  compares the real CLI on the two routes.  In particular `CheckOp.checkOperation` tests "the schema definition has a
  parsed position" where the real code (since 4dcb71b) tests "parsed position OR some root type is set"; the two coincide
  on parsed documents, and `Bridge.ofIR` (not literally `type_system_to_ast`) marks the schema definition of a schema
  VALUE as parsed exactly when root types are declared (`Bridge.sees_ofIR`).
* Argument-description JSDoc inside the resolvers file (the model is the print→parse normal form, comments dropped),
  diagnostic MESSAGE texts (the checker model yields kind + position), exit codes and the set of files written: O only.
* WHICH permutation `resolve_schema_extensions` applies to the SDL route's definitions is C11's model (every permutation
  is covered by `C15_sdl_route_any_order`).
* The reader model `Introspect.fromIntrospection` on JSON that is NOT `IntrospectSpec.encode` of a schema value with a
  query root (optional keys absent, other key orders, unknown / repeated keys, omitted built-in scalars or `__*` types,
  damaged JSON), and the JSON text → tree step: no theorem; K streams `read`, `read-damaged`,
  `route-json-omitted-builtins`, `route-json-order-cli`.
* That a document accepted by the type-system checker satisfies `ValidResolved` / `ValidParsed` / `UserNotBuiltin` /
  `RootKindsDistinct`: not derived anywhere (hypotheses; `RootKindsDistinct` is in fact not enforced by the checker model).
* Diagnostics of documents outside the exemptions (`docOk`) and of schemas with unresolved references
  (`TypeSystemError` positions point into the schema source on the SDL route only — witness
  `C15_checkOp_unresolved_reference_counterexample`): the routes really differ there.

`routeSdl M = astToSchema (M ++ builtins)` places the built-ins after `M`, as `extend_loaded_schema` does; the real
pipeline then regroups the definitions in `resolve_schema_extensions` (C11). `≃` does not depend on that order; the K
stream `route-sdl` compares modulo it.
-/

end NitroVerif.C15
