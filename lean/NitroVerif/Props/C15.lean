import NitroVerif.Lemmas.AstSchema
import NitroVerif.Lemmas.SchemaIR
import NitroVerif.Lemmas.Introspect
import NitroVerif.Model.CliSchema
import NitroVerif.Spec.IntrospectSpec
/-!
# C15 — introspection JSON and SDL descriptions of a schema give the same results

Property theorems only. Models: `Model/Introspect.lean` (introspection.rs), `Model/AstSchema.lean`
(ast_to_type_system.rs, type_system_to_ast.rs), `Model/CliSchema.lean` (the two routes of crates/cli), tied to the
code by `harness/src/bin/c15.rs`. Specification: `Spec/IntrospectSpec.lean`.
`≃` (`SchemaIR.Equiv`) is defined in `Model/SchemaIR.lean`.
-/
namespace NitroVerif.C15
open NitroVerif NitroVerif.SchemaIR NitroVerif.AstSchema

/-- `≃` is reflexive -/
theorem equiv_refl (a : Schema) : a ≃ a := Equiv.refl a
/-- `≃` is symmetric -/
theorem equiv_symm {a b : Schema} (h : a ≃ b) : b ≃ a := h.symm
/-- `≃` is transitive -/
theorem equiv_trans {a b c : Schema} (h₁ : a ≃ b) (h₂ : b ≃ c) : a ≃ c := h₁.trans h₂

/-- `≃` is exactly "the lookup interface (type by name, directive by name, root type of an operation kind, is-implementer)
    answers the same after erasing descriptions, deprecation reasons and default-value texts" -/
theorem equiv_is_lookup_equality (a b : Schema) : a ≃ b ↔ lookupOf a = lookupOf b := equiv_iff_lookup a b

/-- Any checker that reads the schema only through the lookup interface returns the same diagnostics for two `≃`
    schemas — in particular it accepts (`= []`) the same operation documents. -/
theorem C15_check_eq {Doc Err : Type} (checkOp : Lookup → Doc → List Err) {s₁ s₂ : Schema} (h : s₁ ≃ s₂) (D : Doc) :
    checkOp (lookupOf s₁) D = checkOp (lookupOf s₂) D := by
  rw [(equiv_iff_lookup s₁ s₂).1 h]

/-- consequence for the verdict -/
theorem C15_check_verdict_eq {Doc Err : Type} (checkOp : Lookup → Doc → List Err) {s₁ s₂ : Schema} (h : s₁ ≃ s₂)
    (D : Doc) : checkOp (lookupOf s₁) D = [] ↔ checkOp (lookupOf s₂) D = [] := by
  rw [C15_check_eq checkOp h D]

/-- Any declaration generator (schema, resolver or operation types) that reads the schema only through the lookup
    interface emits, for every alias name `a`, the same declaration for two `≃` schemas. -/
theorem C15_types_eq {Cfg Doc Decl : Type} (decls : Cfg → Lookup → Doc → String → Option Decl) {s₁ s₂ : Schema}
    (h : s₁ ≃ s₂) (c : Cfg) (D : Doc) (a : String) : decls c (lookupOf s₁) D a = decls c (lookupOf s₂) D a := by
  rw [(equiv_iff_lookup s₁ s₂).1 h]

/-- `ast_to_type_system ∘ type_system_to_ast` keeps a well-formed schema up to `≃`, EXCEPT that the directive
    definitions are gone (`type_system_to_ast` emits none) and the root-types node is no longer a parsed position.
    (What `≃` already ignores and the round trip also loses: deprecations, default-value literals — replaced by
    `null` —, positions.) -/
theorem C15_ast_roundtrip (s : Schema) (h : WellFormed s) :
    astToSchema (schemaToAst s) ≃ { s with directives := [], explicitRoots := false } := by
  rw [astToSchema_schemaToAst]
  have hn : (s.types.map fun t => convTypeDef (unconvTypeDef t)).map (·.name) = s.types.map (·.name) := by
    simp [List.map_map, Function.comp_def, name_roundtrip]
  rw [extendTypes_nil_nodup _ (by rw [hn]; exact h.nodup)]
  have htypes : ∀ n, viewType
      { desc := s.desc, roots := s.roots, explicitRoots := false, directives := [],
        types := s.types.map fun t => convTypeDef (unconvTypeDef t) } n
      = viewType { s with directives := [], explicitRoots := false } n := by
    intro n
    simp only [viewType, Schema.typeDef?]
    split
    · rfl
    · rw [List.find?_map]
      simp only [Function.comp_def, name_roundtrip, Option.map_map]
      cases hf : s.types.find? (fun t => t.name == n) with
      | none => rfl
      | some t =>
        have ht : t ∈ s.types := List.mem_of_find?_eq_some hf
        simp [eraseType_roundtrip, h.clean t ht]
  refine ⟨htypes, fun n => ?_, fun k => ?_, fun i o => ?_⟩
  · simp [viewDirective, Schema.directiveDef?]
  · have hv := funext htypes
    simp only [viewRoot, Schema.rootName, Schema.rootsDeclared, hv]
    rfl
  · simp only [implementsB, Schema.objectImplementers]
    congr 1
    rw [List.filter_map, List.map_map]
    simp only [Function.comp_def, name_roundtrip, kind_roundtrip]
    congr 1
    apply List.filter_congr
    intro t _
    by_cases hk : t.kind = .object
    · simp [hk, interfaces_roundtrip t hk]
    · have hb : (t.kind == IKind.object) = false := by simpa using hk
      simp [hb]

/-- the hypothesis of `C15_ast_roundtrip` is satisfiable by a non-trivial schema -/
example : WellFormed
    { types := [{ kind := .object, name := "Query", fields := [{ name := "a", ty := .named "Int", deprecation := some "x" }] },
                { kind := .scalar, name := "Int" }],
      roots := { query := some "Query" } } :=
  ⟨by decide, by decide⟩

/-- what the reader keeps of a schema value rendered as an introspection result: everything, with the components
    outside a definition's kind emptied (`possibleTypes` of an interface is not read), first definition of a
    repeated name kept, root-types node at a built-in position -/
def readBack (s : Schema) : Schema :=
  { desc := s.desc, roots := s.roots, explicitRoots := false,
    types := extendTypes [] (s.types.map cleanType), directives := extendDirectives [] s.directives }

/-- The reader inverts the specification's renderer: for EVERY schema value with a query root (arbitrary names,
    descriptions, nesting depth of list / non-null types, arguments, deprecations, directive definitions), reading its
    introspection result (spec §4 encoding, every optional key present) succeeds and returns the schema itself — no
    field, argument, interface, enum value, input field, `ofType` level, `isDeprecated`/`deprecationReason`,
    `isRepeatable`, default-value string or root name is lost or invented. -/
theorem C15_reader_inverts_renderer (s : Schema) (url : String → Option String) (q : String)
    (hq : s.roots.query = some q) :
    Introspect.fromIntrospection (IntrospectSpec.encode s url) = .ok (readBack s) :=
  Introspect.fromIntrospection_encode s url q hq

/-- … in particular on the introspection result of a type-system document `M` whose query root exists -/
theorem C15_schema_eq_reader (M : Gql.TsDoc) (q : String) (hq : (IntrospectSpec.specRoots M).query = some q) :
    Introspect.fromIntrospection (IntrospectSpec.introspectSpec M) = .ok (readBack (IntrospectSpec.specSchema M)) :=
  Introspect.fromIntrospection_encode _ _ q hq

/-- the hypothesis is satisfiable: a document with a `Query` object type and no schema definition -/
example : (IntrospectSpec.specRoots
    [.typeDef { kind := .object, name := "Query", fields := [{ name := "a", ty := .named "Int" {} }] }]).query = some "Query" := by
  decide

/-- On a well-formed schema value the reader returns it unchanged up to the position bit. -/
theorem C15_reader_identity (s : Schema) (url : String → Option String) (q : String) (hq : s.roots.query = some q)
    (h : WellFormed s) (hd : (s.directives.map (·.name)).Nodup) :
    Introspect.fromIntrospection (IntrospectSpec.encode s url) = .ok { s with explicitRoots := false } := by
  rw [C15_reader_inverts_renderer s url q hq]
  have hc : s.types.map cleanType = s.types := by
    conv => rhs; rw [← List.map_id s.types]
    exact List.map_congr_left fun t ht => by simpa using h.clean t ht
  simp only [readBack, hc, extendTypes_nil_nodup _ h.nodup, extendDirectives_nil_nodup _ hd]

/-- Root operation types that an introspection result declares are not replaced by the default names: with
    `mutationType: null` a mutation has NO root type even if a type named `Mutation` exists (repaired behaviour;
    `fix: root operation types declared by an introspection result are explicit`). -/
theorem C15_declared_roots_no_default (s : Schema) (h : s.roots.query.isSome = true) (k : OpK) :
    s.rootName k = s.roots.get k := by
  simp [Schema.rootName, Schema.rootsDeclared, h]

/-- After the repair of `extend_loaded_schema`, every built-in scalar is defined on the JSON route, whether or not the
    introspection result lists it. -/
theorem C15_builtin_scalars_defined (s : Schema) (n : String) (hn : n ∈ ["Int", "Float", "String", "Boolean", "ID"]) :
    ((CliSchema.addBuiltinScalars s).typeDef? n).isSome = true := by
  have key : ∀ (l acc : List ITypeDef), (∃ t ∈ acc ++ l, t.name = n) →
      ((extendTypes acc l).find? (·.name == n)).isSome = true := by
    intro l
    induction l with
    | nil =>
      intro acc ⟨t, ht, hname⟩
      simp only [extendTypes, List.find?_isSome]
      exact ⟨t, by simpa using ht, by simp [hname]⟩
    | cons x r ih =>
      intro acc ⟨t, ht, hname⟩
      simp only [extendTypes]
      apply ih
      split
      · rename_i hany
        rcases List.mem_append.mp ht with ha | hx
        · exact ⟨t, by simp [ha], hname⟩
        · rcases List.mem_cons.mp hx with rfl | hr
          · obtain ⟨u, hu, hun⟩ := List.any_eq_true.mp hany
            exact ⟨u, by simp [hu], by simpa [hname] using hun⟩
          · exact ⟨t, by simp [hr], hname⟩
      · exact ⟨t, by simpa using ht, hname⟩
  simp only [CliSchema.addBuiltinScalars, Schema.typeDef?]
  apply key
  refine ⟨{ kind := .scalar, name := n }, ?_, rfl⟩
  simp only [CliSchema.builtinScalarDefs, List.mem_append, List.mem_map]
  exact Or.inr ⟨n, hn, rfl⟩

/-!
## OPEN — carried by K/O only

```
theorem C15_schema_eq (M : Gql.TsDoc) (h : ValidResolved M) :
    ∃ s, CliSchema.routeJson (IntrospectSpec.introspectSpec M) = .ok s ∧ s ≃ CliSchema.routeSdl M
```
(`ValidResolved M`: distinct type and directive names, none `__`-prefixed or equal to a built-in's, at most one schema
definition — parsed, listing `query` — or else an object type `Query`.)
Proved above: `routeJson (introspectSpec M) = ok (addBuiltinScalars (readBack (specSchema M)))`
(`C15_schema_eq_reader`), i.e. the JSON half is an identity. NOT proved: the remaining comparison of two pure
functions of `M`, `addBuiltinScalars (readBack (specSchema M)) ≃ astToSchema (M ++ builtins)` (first-definition-wins
lookup through `extendTypes` on both sides, referenced-built-in filter, `__*` names invisible to `viewType`, root
names). It is EVALUATED by the driver (`(equiv (route.json …) (route.sdl …))`, `equivB`) on every generated schema
of every run (failure signature `model-routes-not-equivalent:*`), and the real CLI routes are compared on the same
cases (O).

```
theorem equivB_iff (a b : Schema) : equivB a b = true ↔ a ≃ b
```
The executable check used by the driver looks only at names occurring in either schema; its equivalence with `≃`
(other names look up `none` on both sides) is not proved.

That the REAL checker / printers read the schema only through `lookupOf` (the hypothesis under which `C15_check_eq` and
`C15_types_eq` apply to them: descriptions, deprecation reasons and default-value texts reach JSDoc only; the order of
definitions reaches declaration and union-member order only) is carried by O: same verdicts, diagnostics and
per-alias declarations from two real CLI projects that differ in the schema file only.
-/

end NitroVerif.C15
