/-
C09 — Variables types admit only coercible inputs and every explicit one.

Theorems about the model `Model/VarTypes.lean` (+ `Model/DeclCfg.lean` for the scalar table), tied to
`get_type_for_variable_definitions` / `ScalarTypeConfig::get_type` by the K stream of `harness/src/bin/c09.rs`,
under the TypeScript-subset semantics (`Mem`; trusted base). As in C10, the references `Schema.__OperationInput.N`
are interpreted by an arbitrary leaf interpretation: `hL : Mem e v (L n) ↔ R n v` says that the reference to the
named input type `n` denotes the set `R n` (delivered by C10's alias exactness for the input namespace + name
resolution — discharged in the closed forms at the end of this file). `R` = canonical explicit values of the named type;
`RC ⊇ R` = values the server's coercion accepts.
-/
import NitroVerif.Model.VarTypes
import NitroVerif.Props.C10
import NitroVerif.Props.C10Closed
import NitroVerif.Lemmas.DeclsClosedCoerce
import NitroVerif.Lemmas.DeclsClosedInduct
namespace NitroVerif.Props.C09
open NitroVerif.Gql NitroVerif.Ts NitroVerif.DeclCfg NitroVerif.SchemaDecls NitroVerif.RefTypes NitroVerif.VarTypes
open NitroVerif.Props.C10 NitroVerif.Coerce

variable {e : Env}

/-- `get_type` is the documented table: a single text serves all four targets; `send` is what the program SENDS
    (operation input, resolver output), `receive` what it RECEIVES (operation output, resolver input); a separate
    configuration is read component-wise. In particular operation INPUT positions use the send / operationInput text. -/
theorem scalar_target_table (t send receive ro ri oo oi : String) :
    (ScalarCfg.single t).getType .operationInput = t ∧ (ScalarCfg.single t).getType .operationOutput = t ∧
    (ScalarCfg.single t).getType .resolverInput = t ∧ (ScalarCfg.single t).getType .resolverOutput = t ∧
    (ScalarCfg.sendReceive send receive).getType .operationInput = send ∧
    (ScalarCfg.sendReceive send receive).getType .operationOutput = receive ∧
    (ScalarCfg.sendReceive send receive).getType .resolverInput = receive ∧
    (ScalarCfg.sendReceive send receive).getType .resolverOutput = send ∧
    (ScalarCfg.separate ro ri oo oi).getType .operationInput = oi ∧
    (ScalarCfg.separate ro ri oo oi).getType .operationOutput = oo ∧
    (ScalarCfg.separate ro ri oo oi).getType .resolverInput = ri ∧
    (ScalarCfg.separate ro ri oo oi).getType .resolverOutput = ro :=
  ⟨rfl, rfl, rfl, rfl, rfl, rfl, rfl, rfl, rfl, rfl, rfl, rfl⟩

/-! The propositions of the specification — `ExplicitP R opt vars v` (the canonical explicit assignments, omission of
nullable variables iff `opt`, over leaf sets `R`), `CoerceP RC ty v` (spec input coercion of a present value, permissive:
a bare item is accepted for a list) and `CoercibleP RC vars v` (CoerceVariableValues succeeds) — are defined in
`Lemmas/DeclsClosedCoerce.lean` (namespace `NitroVerif.Coerce`), next to their connection with the executable
specification `Spec/Coerce.lean`. -/

/-- EXACTNESS of the Variables type: it admits exactly the canonical explicit assignments. -/
theorem vars_exact (L : Name → Ty) (R : Name → J → Prop) (hL : ∀ n v, Mem e v (L n) ↔ R n v)
    (opt : Bool) (vars : List VarDef) (v : J) :
    Mem e v (varsTsL L opt vars) ↔ ExplicitP R opt vars v := by
  have hf : ∀ (d : VarDef) (x : J),
      (¬ ((varFieldL L opt d).2.2.1 = true ∧ x = .absent) → Mem e x (varFieldL L opt d).2.2.2) ↔
        (((!d.ty.isNonNull && opt) = true ∧ x = .absent) ∨ Conf R d.ty x) := by
    intro d x
    simp only [varFieldL]
    exact optField_exact L R hL false _ d.ty (by cases h : d.ty.isNonNull <;> simp_all) x
  simp only [varsTsL, ExplicitP, mem_obj_iff, RecordP, RecordSpec]
  constructor
  · rintro ⟨kvs, rfl, h1, h2⟩
    refine ⟨kvs, rfl, ?_, ?_⟩
    · intro f hf'
      obtain ⟨g, hg, rfl⟩ := List.mem_map.1 hf'
      exact (hf g _).1 (h1 (varFieldL L opt g) (List.mem_map.2 ⟨g, hg, rfl⟩))
    · intro kv hkv
      rcases h2 kv hkv with h | ⟨f, hf', hk⟩
      · exact Or.inl h
      · obtain ⟨g, hg, rfl⟩ := List.mem_map.1 hf'
        exact Or.inr ⟨_, List.mem_map.2 ⟨g, hg, rfl⟩, hk⟩
  · rintro ⟨kvs, rfl, h1, h2⟩
    refine ⟨kvs, rfl, ?_, ?_⟩
    · intro f hf'
      obtain ⟨g, hg, rfl⟩ := List.mem_map.1 hf'
      exact (hf g _).2 (h1 (g.name, !g.ty.isNonNull && opt, Conf R g.ty) (List.mem_map.2 ⟨g, hg, rfl⟩))
    · intro kv hkv
      rcases h2 kv hkv with h | ⟨f, hf', hk⟩
      · exact Or.inl h
      · obtain ⟨g, hg, rfl⟩ := List.mem_map.1 hf'
        exact Or.inr ⟨_, List.mem_map.2 ⟨g, hg, rfl⟩, hk⟩

/-- COMPLETENESS: every assignment that gives each variable (and, through `R`, each input field) explicitly with a
    canonical coercible value — omitting nullable ones only if the option is on — is admitted by `<Op>Variables`. -/
theorem C09_complete (L : Name → Ty) (R : Name → J → Prop) (hL : ∀ n v, Mem e v (L n) ↔ R n v)
    (opt : Bool) (vars : List VarDef) (v : J) (h : ExplicitP R opt vars v) :
    Mem e v (varsTsL L opt vars) :=
  (vars_exact L R hL opt vars v).2 h

/-- a canonical conforming present value is accepted by input coercion -/
theorem conf_coercible (R RC : Name → J → Prop) (hsub : ∀ n v, R n v → RC n v) (hnull : ∀ n, ¬ R n .null) :
    ∀ (ty : GType) (v : J), Conf R ty v → CoerceP RC ty v :=
  conf_coerceP R RC hsub hnull

theorem confCore_not_absent (R : Name → J → Prop) (habs : ∀ n, ¬ R n .absent) :
    ∀ ty, ¬ ConfCore R ty .absent :=
  confCore_absent R habs

/-- SOUNDNESS: any object admitted by `<Op>Variables` supplies, for each declared variable, a value the server's
    variable coercion accepts (leaf sets: canonical values `R` are coercible, `R ⊆ RC`; no named input type's
    canonical set contains `null` or `undefined`). -/
theorem C09_sound (L : Name → Ty) (R RC : Name → J → Prop) (hL : ∀ n v, Mem e v (L n) ↔ R n v)
    (hsub : ∀ n v, R n v → RC n v) (hnull : ∀ n, ¬ R n .null) (habs : ∀ n, ¬ R n .absent)
    (opt : Bool) (vars : List VarDef) (v : J) (h : Mem e v (varsTsL L opt vars)) :
    CoercibleP RC vars v := by
  obtain ⟨kvs, rfl, h1, _⟩ := (vars_exact L R hL opt vars _).1 h
  refine ⟨kvs, rfl, ?_⟩
  intro d hd
  rcases h1 (d.name, !d.ty.isNonNull && opt, Conf R d.ty) (List.mem_map.2 ⟨d, hd, rfl⟩) with ⟨ho, hx⟩ | hc
  · left
    refine ⟨hx, Or.inr ?_⟩
    cases hnn : d.ty.isNonNull <;> simp_all
  · right
    refine ⟨?_, conf_coercible R RC hsub hnull _ _ hc⟩
    intro hx
    simp only at hc hx
    rw [hx] at hc
    rcases hc with ⟨_, h⟩ | h
    · cases h
    · exact confCore_not_absent R habs _ h

/-- REQUIRED: a non-null variable (with or without default) is a required key and is never `null`. -/
theorem C09_required (L : Name → Ty) (R : Name → J → Prop) (hL : ∀ n v, Mem e v (L n) ↔ R n v)
    (hnull : ∀ n, ¬ R n .null) (habs : ∀ n, ¬ R n .absent)
    (opt : Bool) (vars : List VarDef) (kvs : List (String × J)) (h : Mem e (.obj kvs) (varsTsL L opt vars))
    (d : VarDef) (hd : d ∈ vars) (hnn : d.ty.isNonNull = true) :
    J.get kvs d.name ≠ .absent ∧ J.get kvs d.name ≠ .null := by
  obtain ⟨kvs', hk, h1, _⟩ := (vars_exact L R hL opt vars _).1 h
  cases hk
  rcases h1 (d.name, !d.ty.isNonNull && opt, Conf R d.ty) (List.mem_map.2 ⟨d, hd, rfl⟩) with ⟨ho, _⟩ | hc
  · simp [hnn] at ho
  · simp only at hc
    rcases hc with ⟨h, _⟩ | hc
    · simp [hnn] at h
    · refine ⟨fun hx => confCore_not_absent R habs _ (hx ▸ hc), fun hx => ?_⟩
      have := (conf_coercible R R (fun _ _ h => h) hnull d.ty _ (Or.inr hc))
      cases hty : d.ty with
      | named n p => simp [hty, GType.isNonNull] at hnn
      | list t p => simp [hty, GType.isNonNull] at hnn
      | nonNull t => rw [hty] at this; exact this.1 hx

/-- OPTIONAL IFF: for a NULLABLE variable, omitting the key is admitted exactly when `allowUndefinedAsOptionalInput`
    is on (field-level statement; `opt` is the option). -/
theorem C09_optional_iff (L : Name → Ty) (R : Name → J → Prop) (hL : ∀ n v, Mem e v (L n) ↔ R n v)
    (habs : ∀ n, ¬ R n .absent) (opt : Bool) (d : VarDef) (hnn : d.ty.isNonNull = false) :
    (¬ ((varFieldL L opt d).2.2.1 = true ∧ J.absent = .absent) → Mem e .absent (varFieldL L opt d).2.2.2) ↔ opt = true := by
  have key := optField_exact L R hL false (!d.ty.isNonNull && opt) d.ty (by simp [hnn]) .absent
  change (¬ ((!d.ty.isNonNull && opt) = true ∧ J.absent = .absent) →
    Mem e .absent (optFieldTy L false (!d.ty.isNonNull && opt) d.ty)) ↔ opt = true
  rw [key]
  constructor
  · rintro (⟨ho, _⟩ | hc)
    · simpa [hnn] using ho
    · rcases hc with ⟨_, h⟩ | h
      · cases h
      · exact absurd h (confCore_not_absent R habs _)
  · intro ho; left; simp [hnn, ho]

/-- non-vacuity: with the option on, `{}` is an explicit assignment for one nullable variable and is admitted;
    the leaf interpretation used here is the one unresolved references have (atoms) -/
example : Mem Env.empty (.obj []) (varsTsL (fun n => .ref n) true [{ name := "a", ty := .named "Int" {} }]) :=
  C09_complete (e := Env.empty) (fun n => .ref n) (fun n v => v = .atom n) (fun _ _ => mem_unresolved_ref_iff) true _ _
    ⟨[], rfl, by simp [RecordSpec, J.get, GType.isNonNull]⟩


/-! ### the executable specification and the propositions are the same sets -/

/-- CONNECTION, explicit side: `Spec/Coerce.lean`'s executable `Explicit` (∃ fuel, `explicitVars`) — what the O stream
    evaluates — is exactly `ExplicitP` with `Ref_OperationInput` at the leaves and the configuration's option. -/
theorem C09_explicit_spec_iff (c : Cfg) (s : Schema) (vars : List VarDef) (v : J) :
    Coerce.Explicit c s vars v ↔ ExplicitP (Ref c s .operationInput) c.optionalInput vars v :=
  explicit_iff c s vars v

/-- CONNECTION, coercion side, wrapper level: some fuel makes the executable `coerceVal` accept `v` at a type position
    iff `CoerceP` holds (null / array of coercible items / bare item for a list / non-null), the NAMED types being read by
    `coerceVal` itself (`CoerceNamed c s n v` = `v` is not null and `coerceVal` accepts it at `n`). -/
theorem C09_coerceVal_spec_iff (c : Cfg) (s : Schema) (ty : GType) (v : J) :
    (∃ k, coerceVal c s k ty v = true) ↔ CoerceP (CoerceNamed c s) ty v :=
  coerceVal_iff c s ty v

/-- CONNECTION, coercion side: `Spec/Coerce.lean`'s executable `Coercible` (∃ fuel, `coercibleVars`) is exactly
    `CoercibleP` over `CoerceNamed`. -/
theorem C09_coercible_spec_iff (c : Cfg) (s : Schema) (vars : List VarDef) (v : J) :
    Coerce.Coercible c s vars v ↔ CoercibleP (CoerceNamed c s) vars v :=
  coercible_iff c s vars v

/-- `CoerceNamed`, kind by kind (GraphQL spec §3 "Input Coercion" of each kind), with `CoerceP` over `CoerceNamed` itself at
    the fields — the executable `coerceVal` at a named type is exactly:
    a SCALAR accepts the non-null, present values of its configured INPUT text (read globally);
    an ENUM the names of its values;
    an INPUT OBJECT the records without unknown keys in which every missing field is nullable or has a default and every
    present field is coercible;
    object / interface / union types and undefined names accept nothing. -/
theorem C09_coerceNamed_kinds (c : Cfg) (s : Schema) (n : Name) (v : J) :
    (s.typeDef? n = none → ¬ CoerceNamed c s n v) ∧
    (∀ td, s.typeDef? n = some td →
      (td.kind = .scalar → (CoerceNamed c s n v ↔ v ≠ .null ∧ v ≠ .absent ∧
        ∃ sc, scalarType? c s.items n = some sc ∧ Mem Env.empty v (c.parseOf (sc.getType .operationInput)))) ∧
      (td.kind = .enum → (CoerceNamed c s n v ↔ ∃ x ∈ td.values, v = .str x.name)) ∧
      (td.kind = .input → (CoerceNamed c s n v ↔ ∃ kvs, v = .obj kvs ∧
        (∀ kv ∈ kvs, kv.2 = .absent ∨ ∃ f ∈ td.inputs, f.name = kv.1) ∧
        ∀ f ∈ td.inputs,
          (J.get kvs f.name = .absent ∧ (f.default.isSome = true ∨ f.ty.isNonNull = false)) ∨
          (J.get kvs f.name ≠ .absent ∧ CoerceP (CoerceNamed c s) f.ty (J.get kvs f.name)))) ∧
      (td.kind = .object ∨ td.kind = .interface ∨ td.kind = .union → ¬ CoerceNamed c s n v)) :=
  ⟨fun h => coerceNamed_unknown c s h, fun _ h =>
    ⟨fun hk => coerceNamed_scalar c s h hk, fun hk => coerceNamed_enum c s h hk, fun hk => coerceNamed_input c s h hk,
      fun hk => coerceNamed_output c s h hk⟩⟩

/-- the two executable specifications fit together: every canonical value of a named input type is coercible and is
    neither `null` nor `undefined`, provided no configured scalar INPUT text admits `null` / `undefined` -/
theorem C09_canonical_coercible (c : Cfg) (s : Schema) (hs : ScalarsStrict c s) (n : Name) (v : J)
    (h : Ref c s .operationInput n v) : CoerceNamed c s n v ∧ v ≠ .null ∧ v ≠ .absent := by
  refine ⟨ref_coerceNamed c s hs n v h, ?_, ?_⟩
  · rintro rfl; exact ref_not_null c s hs n h
  · rintro rfl; exact ref_not_absent c s hs n h

/-- `Explicit ⊆ Coercible` on the executable specifications themselves (all variable definitions, all values) -/
theorem C09_explicit_coercible (c : Cfg) (s : Schema) (hs : ScalarsStrict c s) (vars : List VarDef) (v : J)
    (h : Coerce.Explicit c s vars v) : Coerce.Coercible c s vars v :=
  explicit_coercible c s hs vars v h

/-- the side condition holds for the built-in scalars (texts `number`, `string`, `boolean`, `string | number`) -/
example : ¬ Mem Env.empty .null (.union [.prim "string", .prim "number"]) ∧
    ¬ Mem Env.empty .absent (.union [.prim "string", .prim "number"]) := by
  constructor <;>
  · intro h
    obtain ⟨t, ht, hm⟩ := mem_union_iff.1 h
    simp only [List.mem_cons, List.mem_nil_iff, or_false] at ht
    rcases ht with rfl | rfl <;>
      (rw [mem_prim_iff (by simp [Ty.isOpaque])] at hm; simp [primMem, J.isStr, J.isNum] at hm)

/-! ### closed forms on the operation file linked with the generated schema file

`op` is any FLAT TypeScript file (no namespace statement) whose only star import is `import type * as Schema from m`
and whose first top-level declaration of `name` (= `<Op>Variables`) is `type <Op>Variables = varsTs c vars` — the shape
of the operation declaration files the printer emits (imports, type aliases, `declare const`, `export`); the schema
file `F` the model emits is supplied as module `m`. `hvars`: the operation was accepted — every variable's named type
is a defined scalar / enum / input object. -/

section closed
variable (c : Cfg) (doc : TsDoc) (F : File) (hF : schemaFile c doc = .ok F) (ok : DocOK c doc)
variable (op : File) (m name : String) (ex : Bool) (vars : List VarDef)
variable (hflat : op.all (fun s => !s.isNamespace) = true) (himp : starImports op = [(m, schemaNs)])
variable (hdecl : (Stmt.declsList [] op).find? (isDeclAt [] name) = some ⟨[], name, ex, [], varsTs c vars⟩)
variable (hvars : ∀ d ∈ vars, ∃ td ∈ typeDefsOf doc, td.name = d.ty.unwrapped ∧ kindFits td.kind .operationInput = true)

include hF ok hflat himp in
/-- the reference `Schema.__OperationInput.T` written in the operation file denotes exactly `Ref_OperationInput(T)`
    (C10's closed form, through the module link and the qualified route) -/
theorem C09_input_ref_exact (td : TypeDef) (hm : td ∈ typeDefsOf doc)
    (hfit : kindFits td.kind .operationInput = true) (v : J) :
    Mem (Env.ofFiles op [(m, F)]) v (globalise (Decls.ofFiles op [(m, F)]) [] [] (varLeaf td.name))
      ↔ Ref c ⟨doc⟩ .operationInput td.name v := by
  have H : Hosted (Env.ofFiles op [(m, F)]).decls [schemaNs] F := hosted_ofFiles op m schemaNs F hflat himp
  obtain ⟨ty, hb⟩ := fits_body hF .operationInput hm hfit
  have hq := hosted_qualified_outer hF ok H .operationInput (sc := []) (A := schemaNs)
    (ofFiles_resolveNs op m schemaNs F himp) hm hb
  have hg : globalise (Decls.ofFiles op [(m, F)]) [] [] (varLeaf td.name)
      = absRef c doc [schemaNs] .operationInput td.name := by
    simp only [varLeaf, globalise, List.contains_nil, Bool.false_eq_true, if_false]
    rw [show (Decls.ofFiles op [(m, F)]) = (Env.ofFiles op [(m, F)]).decls from rfl, hq]
    rfl
  rw [hg]
  exact hosted_alias_exact hF ok H .operationInput (fun _ _ _ => rfl) hm hfit v

include hF ok hflat himp hdecl hvars in
/-- EXACTNESS, CLOSED FORM: in the operation file linked with the generated schema file, the type `<Op>Variables`
    admits exactly the explicit canonical assignments of the executable specification (`Spec/Coerce.lean`). -/
theorem C09_vars_exact_closed (v : J) :
    Mem (Env.ofFiles op [(m, F)]) v (globalise (Decls.ofFiles op [(m, F)]) [] [] (.ref name))
      ↔ Coerce.Explicit c ⟨doc⟩ vars v := by
  have hfl := ofFiles_findLocal_top op m schemaNs F himp hdecl
  have hres := resolveRef_of_findLocal hfl
  have hg : globalise (Decls.ofFiles op [(m, F)]) [] [] (.ref name) = .other "abs" [name] := by
    simp only [globalise, List.contains_nil, Bool.false_eq_true, if_false, hres]
    rfl
  have hbody : (Env.ofFiles op [(m, F)]).decls.body? [name]
      = some ([], globalise (Decls.ofFiles op [(m, F)]) [] [] (varsTs c vars)) := by
    have : (Env.ofFiles op [(m, F)]).decls = Decls.ofFiles op [(m, F)] := rfl
    simp [Decls.body?, this, hfl]
  rw [hg, mem_alias_iff hbody, varsTs, globalise_varsTsL,
    vars_exact _ (fun n x => Mem (Env.ofFiles op [(m, F)]) x (globalise (Decls.ofFiles op [(m, F)]) [] [] (varLeaf n)))
      (fun _ _ => Iff.rfl),
    C09_explicit_spec_iff]
  have key : ∀ kvs, ∀ d ∈ vars,
      (Conf (fun n x => Mem (Env.ofFiles op [(m, F)]) x (globalise (Decls.ofFiles op [(m, F)]) [] [] (varLeaf n))) d.ty
          (J.get kvs d.name) ↔ Conf (Ref c ⟨doc⟩ .operationInput) d.ty (J.get kvs d.name)) := by
    intro kvs d hd
    apply conf_congr
    intro y _
    obtain ⟨td, hm, hn, hfit⟩ := hvars d hd
    rw [← hn]
    exact C09_input_ref_exact c doc F hF ok op m hflat himp td hm hfit y
  unfold ExplicitP
  constructor
  · rintro ⟨kvs, rfl, hr⟩
    exact ⟨kvs, rfl, (recordSpec_congr_get [] vars (fun d => d.name) (fun d => !d.ty.isNonNull && c.optionalInput)
      _ _ kvs (key kvs)).1 hr⟩
  · rintro ⟨kvs, rfl, hr⟩
    exact ⟨kvs, rfl, (recordSpec_congr_get [] vars (fun d => d.name) (fun d => !d.ty.isNonNull && c.optionalInput)
      _ _ kvs (key kvs)).2 hr⟩

include hF ok hflat himp hdecl hvars in
/-- COMPLETENESS, CLOSED FORM: every explicit canonical assignment (executable specification) is admitted by
    `<Op>Variables` in the operation file linked with the generated schema file. -/
theorem C09_complete_closed (v : J) (h : Coerce.Explicit c ⟨doc⟩ vars v) :
    Mem (Env.ofFiles op [(m, F)]) v (globalise (Decls.ofFiles op [(m, F)]) [] [] (.ref name)) :=
  (C09_vars_exact_closed c doc F hF ok op m name ex vars hflat himp hdecl hvars v).2 h

include hF ok hflat himp hdecl hvars in
/-- SOUNDNESS, CLOSED FORM: every value admitted by `<Op>Variables` in the operation file linked with the generated
    schema file is accepted by the server's variable coercion (executable specification `Coercible`), provided no
    configured scalar input text admits `null` / `undefined`. -/
theorem C09_sound_closed (hs : ScalarsStrict c ⟨doc⟩) (v : J)
    (h : Mem (Env.ofFiles op [(m, F)]) v (globalise (Decls.ofFiles op [(m, F)]) [] [] (.ref name))) :
    Coerce.Coercible c ⟨doc⟩ vars v :=
  explicit_coercible c ⟨doc⟩ hs vars v
    ((C09_vars_exact_closed c doc F hF ok op m name ex vars hflat himp hdecl hvars v).1 h)

include hF ok hflat himp hdecl hvars in
/-- REQUIRED, CLOSED FORM: in an admitted record a NON-NULL variable (with or without default) is present and not `null`. -/
theorem C09_required_closed (hs : ScalarsStrict c ⟨doc⟩) (kvs : List (String × J))
    (h : Mem (Env.ofFiles op [(m, F)]) (.obj kvs) (globalise (Decls.ofFiles op [(m, F)]) [] [] (.ref name)))
    (d : VarDef) (hd : d ∈ vars) (hnn : d.ty.isNonNull = true) :
    J.get kvs d.name ≠ .absent ∧ J.get kvs d.name ≠ .null :=
  explicitP_required _ (ref_not_null c ⟨doc⟩ hs) (ref_not_absent c ⟨doc⟩ hs) c.optionalInput vars kvs
    ((C09_explicit_spec_iff c ⟨doc⟩ vars _).1
      ((C09_vars_exact_closed c doc F hF ok op m name ex vars hflat himp hdecl hvars _).1 h)) d hd hnn

include hF ok hflat himp hdecl hvars in
/-- OPTIONAL IFF, CLOSED FORM: an admitted record may omit a variable only if the variable is nullable AND
    `allowUndefinedAsOptionalInput` is on; conversely, with the option on and every variable nullable, `{}` is admitted. -/
theorem C09_optional_iff_closed (hs : ScalarsStrict c ⟨doc⟩) :
    (∀ kvs, Mem (Env.ofFiles op [(m, F)]) (.obj kvs) (globalise (Decls.ofFiles op [(m, F)]) [] [] (.ref name)) →
      ∀ d ∈ vars, J.get kvs d.name = .absent → c.optionalInput = true ∧ d.ty.isNonNull = false) ∧
    (c.optionalInput = true → (∀ d ∈ vars, d.ty.isNonNull = false) →
      Mem (Env.ofFiles op [(m, F)]) (.obj []) (globalise (Decls.ofFiles op [(m, F)]) [] [] (.ref name))) := by
  constructor
  · intro kvs h d hd hx
    exact explicitP_omitted _ (ref_not_absent c ⟨doc⟩ hs) c.optionalInput vars kvs
      ((C09_explicit_spec_iff c ⟨doc⟩ vars _).1
        ((C09_vars_exact_closed c doc F hF ok op m name ex vars hflat himp hdecl hvars _).1 h)) d hd hx
  · intro ho hall
    apply (C09_vars_exact_closed c doc F hF ok op m name ex vars hflat himp hdecl hvars _).2
    apply (C09_explicit_spec_iff c ⟨doc⟩ vars _).2
    rw [ho]
    exact explicitP_empty _ vars hall

end closed

/-- non-vacuity of the closed forms: the example schema of C10 (`exCfg`, `exDoc`, `exFile`), an operation file of the
    printed shape with `query Q($a: [In!], $c: Color!)`, and the empty-record / explicit assignment -/
def exVars : List VarDef :=
  [{ name := "a", ty := .list (.nonNull (.named "In" {})) {} }, { name := "c", ty := .nonNull (.named "Color" {}) }]

def exOp : File :=
  [.import "@graphql-typed-document-node/core" true (.named [("TypedDocumentNode", "TypedDocumentNode")]),
   .import "./schema" true (.star schemaNs),
   .type false "QResult" [] (.obj []),
   .type false "QVariables" [] (varsTs exCfg exVars),
   .const true true "Q" (some (.app (.ref "TypedDocumentNode") [.ref "QResult", .ref "QVariables"])) none,
   .exportDefault "Q"]

theorem exScalars :
    scalarTypes exCfg exDoc = [("Int", .single "number"), ("Date", .sendReceive "Date | string" "string")] := by
  decide

/-- non-vacuity of `ScalarsStrict`: it holds for the example configuration (input texts `number`, `Date | string`) -/
theorem exCfg_strict : ScalarsStrict exCfg ⟨exDoc⟩ := by
  intro n sc h
  simp only [scalarType?, exScalars] at h
  have hprim : ∀ (p : String) (v : J), (Ty.prim p).isOpaque Env.empty = false → primMem p v = false →
      ¬ Mem Env.empty v (.prim p) := fun p v ho hp hm => by
    rw [mem_prim_iff ho, hp] at hm; cases hm
  by_cases h1 : n = "Int"
  · subst h1
    simp at h; subst h
    have : exCfg.parseOf ((ScalarCfg.single "number").getType .operationInput) = .prim "number" := by
      simp [Cfg.parseOf, exCfg, builtinParses, ScalarCfg.getType]
    rw [this]
    exact ⟨hprim _ _ (by simp [Ty.isOpaque]) rfl, hprim _ _ (by simp [Ty.isOpaque]) rfl⟩
  · by_cases h2 : n = "Date"
    · subst h2
      simp at h; subst h
      have : exCfg.parseOf ((ScalarCfg.sendReceive "Date | string" "string").getType .operationInput)
          = .union [.ref "Date", .prim "string"] := by
        simp [Cfg.parseOf, exCfg, ScalarCfg.getType]
      rw [this]
      constructor <;>
      · intro hm
        obtain ⟨t, ht, hm⟩ := mem_union_iff.1 hm
        simp only [List.mem_cons, List.mem_nil_iff, or_false] at ht
        rcases ht with rfl | rfl
        · have := mem_unresolved_ref_iff.1 hm; cases this
        · exact hprim _ _ (by simp [Ty.isOpaque]) rfl hm
    · have e1 : ("Int" == n) = false := by simpa using Ne.symm h1
      have e2 : ("Date" == n) = false := by simpa using Ne.symm h2
      simp [List.find?, e1, e2] at h

example : ∀ v, Mem (Env.ofFiles exOp [("./schema", exFile)]) v
      (globalise (Decls.ofFiles exOp [("./schema", exFile)]) [] [] (.ref "QVariables")) → Coerce.Coercible exCfg ⟨exDoc⟩ exVars v :=
  C09_sound_closed exCfg exDoc exFile exFile_ok exDoc_ok exOp "./schema" "QVariables" false exVars
    (by decide) (by decide) (by simp [exOp, Stmt.declsList, Stmt.decls, isDeclAt]) (by decide) exCfg_strict

example : ∀ v, Mem (Env.ofFiles exOp [("./schema", exFile)]) v
      (globalise (Decls.ofFiles exOp [("./schema", exFile)]) [] [] (.ref "QVariables"))
    ↔ Coerce.Explicit exCfg ⟨exDoc⟩ exVars v :=
  C09_vars_exact_closed exCfg exDoc exFile exFile_ok exDoc_ok exOp "./schema" "QVariables" false exVars
    (by decide) (by decide) (by simp [exOp, Stmt.declsList, Stmt.decls, isDeclAt]) (by decide)

/-! ### OPEN — carried by K/O only

PROVED since: the closed forms on the operation file linked with the generated schema file (`C09_vars_exact_closed`,
`C09_sound_closed`, `C09_complete_closed`, `C09_required_closed`, `C09_optional_iff_closed`, leaf `C09_input_ref_exact` =
C10's closed form through the module link), and the connection of `Spec/Coerce.lean`'s fuel-indexed executables with the
propositions (`C09_explicit_spec_iff`, `C09_coercible_spec_iff`, `C09_coerceVal_spec_iff`, `C09_coerceNamed_kinds`,
`C09_canonical_coercible`, `C09_explicit_coercible`).

Still open:
* the operation declaration FILE is not modelled as a whole (only the `<Op>Variables` alias, `Model/VarTypes.lean`); the
  closed forms take its shape as hypotheses — flat, one star import `Schema`, first declaration of `<Op>Variables` is the
  model's type. K compares the first top-level alias of that name in the real parsed file with the model's type; flatness
  and the single star import are not checked by any stream (O evaluates membership on the real parsed file as it is).
* the closed forms speak of the MODEL's schema file (`schemaFile c doc = .ok F`); the real schema file is tied to it by K
  only (`namespace __OperationInput`, scalar table). O evaluates the executables at the driver's fixed fuel, the theorems
  say "some fuel".
* `hvars` (every variable's named type is a defined scalar / enum / input object) is what `check_operation` guarantees
  (C05); not re-derived here.
* The side condition `ScalarsStrict` (no configured scalar input text admits null / undefined) excludes scalar input
  texts such as `unknown`; the harness puts operations that reach such a scalar outside the O domain. `DocOK` as in C10
  (incl. the open finding on `__tmp_` / generated identifiers inside scalar texts).
-/

end NitroVerif.Props.C09
