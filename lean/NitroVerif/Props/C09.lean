/-
C09 — Variables types admit only coercible inputs and every explicit one.

Theorems about the model `Model/VarTypes.lean` (+ `Model/DeclCfg.lean` for the scalar table), tied to
`get_type_for_variable_definitions` / `ScalarTypeConfig::get_type` by the K stream of `harness/src/bin/c09.rs`,
under the TypeScript-subset semantics (`Mem`; trusted base). As in C10, the references `Schema.__OperationInput.N`
are interpreted by an arbitrary leaf interpretation: `hL : Mem e v (L n) ↔ R n v` says that the reference to the
named input type `n` denotes the set `R n` (delivered by C10's alias exactness for the input namespace + name
resolution). `R` = canonical explicit values of the named type; `RC ⊇ R` = values the server's coercion accepts.
-/
import NitroVerif.Model.VarTypes
import NitroVerif.Props.C10
namespace NitroVerif.Props.C09
open NitroVerif.Gql NitroVerif.Ts NitroVerif.DeclCfg NitroVerif.SchemaDecls NitroVerif.RefTypes NitroVerif.VarTypes
open NitroVerif.Props.C10

variable {e : Env}

/-- `get_type` is the documented table: a single text serves all four targets; `send` is what the program SENDS
    (operation input, resolver output), `receive` what it RECEIVES (operation output, resolver input); a separate
    configuration is read component-wise. In particular operation INPUT positions use the send / operationInput text. -/
theorem scalar_target_table (t send receive ro ri oo oi : String) :
    (ScalarCfg.single t).getType .operationInput = t ∧ (ScalarCfg.single t).getType .operationOutput = t ∧
    (ScalarCfg.single t).getType .resolverInput = t ∧ (ScalarCfg.single t).getType .resolverOutput = t ∧
    (ScalarCfg.sendReceive send receive).getType .operationInput = send ∧
    (ScalarCfg.sendReceive send receive).getType .operationOutput = receive ∧
    (ScalarCfg.sendReceive send receive).getType .resolverInput = receive ∧
    (ScalarCfg.sendReceive send receive).getType .resolverOutput = send ∧
    (ScalarCfg.separate ro ri oo oi).getType .operationInput = oi ∧
    (ScalarCfg.separate ro ri oo oi).getType .operationOutput = oo ∧
    (ScalarCfg.separate ro ri oo oi).getType .resolverInput = ri ∧
    (ScalarCfg.separate ro ri oo oi).getType .resolverOutput = ro :=
  ⟨rfl, rfl, rfl, rfl, rfl, rfl, rfl, rfl, rfl, rfl, rfl, rfl⟩

/-- the canonical explicit assignments for `vars` (omission of nullable variables iff `opt`), over leaf sets `R` -/
def ExplicitP (R : Name → J → Prop) (opt : Bool) (vars : List VarDef) (v : J) : Prop :=
  ∃ kvs, v = .obj kvs ∧
    RecordSpec (vars.map fun d => (d.name, !d.ty.isNonNull && opt, Conf R d.ty)) kvs

/-- spec input coercion of a PRESENT value (permissive: a bare item is accepted for a list), over leaf sets `RC` -/
def CoerceP (RC : Name → J → Prop) : GType → J → Prop
  | .named n _, v => v = .null ∨ RC n v
  | .list t _, v => v = .null ∨ (∃ xs, v = .arr xs ∧ ∀ x ∈ xs, CoerceP RC t x) ∨ ((∀ xs, v ≠ .arr xs) ∧ CoerceP RC t v)
  | .nonNull t, v => v ≠ .null ∧ CoerceP RC t v

/-- CoerceVariableValues succeeds on the record -/
def CoercibleP (RC : Name → J → Prop) (vars : List VarDef) (v : J) : Prop :=
  ∃ kvs, v = .obj kvs ∧ ∀ d ∈ vars,
    (J.get kvs d.name = .absent ∧ (d.default.isSome = true ∨ d.ty.isNonNull = false)) ∨
    (J.get kvs d.name ≠ .absent ∧ CoerceP RC d.ty (J.get kvs d.name))

/-- EXACTNESS of the Variables type: it admits exactly the canonical explicit assignments. -/
theorem vars_exact (L : Name → Ty) (R : Name → J → Prop) (hL : ∀ n v, Mem e v (L n) ↔ R n v)
    (opt : Bool) (vars : List VarDef) (v : J) :
    Mem e v (varsTsL L opt vars) ↔ ExplicitP R opt vars v := by
  have hf : ∀ (d : VarDef) (x : J),
      (¬ ((varFieldL L opt d).2.2.1 = true ∧ x = .absent) → Mem e x (varFieldL L opt d).2.2.2) ↔
        (((!d.ty.isNonNull && opt) = true ∧ x = .absent) ∨ Conf R d.ty x) := by
    intro d x
    simp only [varFieldL]
    exact optField_exact L R hL false _ d.ty (by cases h : d.ty.isNonNull <;> simp_all) x
  simp only [varsTsL, ExplicitP, mem_obj_iff, RecordP, RecordSpec]
  constructor
  · rintro ⟨kvs, rfl, h1, h2⟩
    refine ⟨kvs, rfl, ?_, ?_⟩
    · intro f hf'
      obtain ⟨g, hg, rfl⟩ := List.mem_map.1 hf'
      exact (hf g _).1 (h1 (varFieldL L opt g) (List.mem_map.2 ⟨g, hg, rfl⟩))
    · intro kv hkv
      rcases h2 kv hkv with h | ⟨f, hf', hk⟩
      · exact Or.inl h
      · obtain ⟨g, hg, rfl⟩ := List.mem_map.1 hf'
        exact Or.inr ⟨_, List.mem_map.2 ⟨g, hg, rfl⟩, hk⟩
  · rintro ⟨kvs, rfl, h1, h2⟩
    refine ⟨kvs, rfl, ?_, ?_⟩
    · intro f hf'
      obtain ⟨g, hg, rfl⟩ := List.mem_map.1 hf'
      exact (hf g _).2 (h1 (g.name, !g.ty.isNonNull && opt, Conf R g.ty) (List.mem_map.2 ⟨g, hg, rfl⟩))
    · intro kv hkv
      rcases h2 kv hkv with h | ⟨f, hf', hk⟩
      · exact Or.inl h
      · obtain ⟨g, hg, rfl⟩ := List.mem_map.1 hf'
        exact Or.inr ⟨_, List.mem_map.2 ⟨g, hg, rfl⟩, hk⟩

/-- COMPLETENESS: every assignment that gives each variable (and, through `R`, each input field) explicitly with a
    canonical coercible value — omitting nullable ones only if the option is on — is admitted by `<Op>Variables`. -/
theorem C09_complete (L : Name → Ty) (R : Name → J → Prop) (hL : ∀ n v, Mem e v (L n) ↔ R n v)
    (opt : Bool) (vars : List VarDef) (v : J) (h : ExplicitP R opt vars v) :
    Mem e v (varsTsL L opt vars) :=
  (vars_exact L R hL opt vars v).2 h

/-- a canonical conforming present value is accepted by input coercion -/
theorem conf_coercible (R RC : Name → J → Prop) (hsub : ∀ n v, R n v → RC n v) (hnull : ∀ n, ¬ R n .null) :
    ∀ (ty : GType) (v : J), Conf R ty v → CoerceP RC ty v := by
  have core : ∀ (ty : GType) (v : J), ConfCore R ty v → v ≠ .null ∧
      (ty.isNonNull = false → CoerceP RC ty v) ∧ (∀ t, ty = .nonNull t → CoerceP RC t v) := by
    intro ty
    induction ty with
    | named n p =>
      intro v h
      refine ⟨fun hv => hnull n (hv ▸ h), fun _ => Or.inr (hsub n v h), fun t ht => by cases ht⟩
    | list t p ih =>
      rintro v ⟨xs, rfl, hx⟩
      refine ⟨by simp, fun _ => Or.inr (Or.inl ⟨xs, rfl, ?_⟩), fun t' ht => by cases ht⟩
      intro x hxs
      rcases hx x hxs with ⟨hnn, rfl⟩ | hc
      · cases t with
        | named n p => exact Or.inl rfl
        | list t' p => exact Or.inl rfl
        | nonNull t' => simp [GType.isNonNull] at hnn
      · have := ih x hc
        cases t with
        | named n p => exact this.2.1 rfl
        | list t' p => exact this.2.1 rfl
        | nonNull t' => exact ⟨this.1, this.2.2 t' rfl⟩
    | nonNull t ih =>
      intro v h
      have := ih v h
      refine ⟨this.1, fun hnn => by simp [GType.isNonNull] at hnn, ?_⟩
      intro t' ht; cases ht
      cases t with
      | named n p => exact this.2.1 rfl
      | list t' p => exact this.2.1 rfl
      | nonNull t' => exact ⟨this.1, this.2.2 t' rfl⟩
  intro ty v h
  rcases h with ⟨hnn, rfl⟩ | hc
  · cases ty with
    | named n p => exact Or.inl rfl
    | list t p => exact Or.inl rfl
    | nonNull t => simp [GType.isNonNull] at hnn
  · have := core ty v hc
    cases ty with
    | named n p => exact this.2.1 rfl
    | list t p => exact this.2.1 rfl
    | nonNull t => exact ⟨this.1, this.2.2 t rfl⟩

theorem confCore_not_absent (R : Name → J → Prop) (habs : ∀ n, ¬ R n .absent) :
    ∀ ty, ¬ ConfCore R ty .absent := by
  intro ty
  induction ty with
  | named n p => exact habs n
  | list t p _ => rintro ⟨xs, h, _⟩; cases h
  | nonNull t ih => exact ih

/-- SOUNDNESS: any object admitted by `<Op>Variables` supplies, for each declared variable, a value the server's
    variable coercion accepts (leaf sets: canonical values `R` are coercible, `R ⊆ RC`; no named input type's
    canonical set contains `null` or `undefined`). -/
theorem C09_sound (L : Name → Ty) (R RC : Name → J → Prop) (hL : ∀ n v, Mem e v (L n) ↔ R n v)
    (hsub : ∀ n v, R n v → RC n v) (hnull : ∀ n, ¬ R n .null) (habs : ∀ n, ¬ R n .absent)
    (opt : Bool) (vars : List VarDef) (v : J) (h : Mem e v (varsTsL L opt vars)) :
    CoercibleP RC vars v := by
  obtain ⟨kvs, rfl, h1, _⟩ := (vars_exact L R hL opt vars _).1 h
  refine ⟨kvs, rfl, ?_⟩
  intro d hd
  rcases h1 (d.name, !d.ty.isNonNull && opt, Conf R d.ty) (List.mem_map.2 ⟨d, hd, rfl⟩) with ⟨ho, hx⟩ | hc
  · left
    refine ⟨hx, Or.inr ?_⟩
    cases hnn : d.ty.isNonNull <;> simp_all
  · right
    refine ⟨?_, conf_coercible R RC hsub hnull _ _ hc⟩
    intro hx
    simp only at hc hx
    rw [hx] at hc
    rcases hc with ⟨_, h⟩ | h
    · cases h
    · exact confCore_not_absent R habs _ h

/-- REQUIRED: a non-null variable (with or without default) is a required key and is never `null`. -/
theorem C09_required (L : Name → Ty) (R : Name → J → Prop) (hL : ∀ n v, Mem e v (L n) ↔ R n v)
    (hnull : ∀ n, ¬ R n .null) (habs : ∀ n, ¬ R n .absent)
    (opt : Bool) (vars : List VarDef) (kvs : List (String × J)) (h : Mem e (.obj kvs) (varsTsL L opt vars))
    (d : VarDef) (hd : d ∈ vars) (hnn : d.ty.isNonNull = true) :
    J.get kvs d.name ≠ .absent ∧ J.get kvs d.name ≠ .null := by
  obtain ⟨kvs', hk, h1, _⟩ := (vars_exact L R hL opt vars _).1 h
  cases hk
  rcases h1 (d.name, !d.ty.isNonNull && opt, Conf R d.ty) (List.mem_map.2 ⟨d, hd, rfl⟩) with ⟨ho, _⟩ | hc
  · simp [hnn] at ho
  · simp only at hc
    rcases hc with ⟨h, _⟩ | hc
    · simp [hnn] at h
    · refine ⟨fun hx => confCore_not_absent R habs _ (hx ▸ hc), fun hx => ?_⟩
      have := (conf_coercible R R (fun _ _ h => h) hnull d.ty _ (Or.inr hc))
      cases hty : d.ty with
      | named n p => simp [hty, GType.isNonNull] at hnn
      | list t p => simp [hty, GType.isNonNull] at hnn
      | nonNull t => rw [hty] at this; exact this.1 hx

/-- OPTIONAL IFF: for a NULLABLE variable, omitting the key is admitted exactly when `allowUndefinedAsOptionalInput`
    is on (field-level statement; `opt` is the option). -/
theorem C09_optional_iff (L : Name → Ty) (R : Name → J → Prop) (hL : ∀ n v, Mem e v (L n) ↔ R n v)
    (habs : ∀ n, ¬ R n .absent) (opt : Bool) (d : VarDef) (hnn : d.ty.isNonNull = false) :
    (¬ ((varFieldL L opt d).2.2.1 = true ∧ J.absent = .absent) → Mem e .absent (varFieldL L opt d).2.2.2) ↔ opt = true := by
  have key := optField_exact L R hL false (!d.ty.isNonNull && opt) d.ty (by simp [hnn]) .absent
  change (¬ ((!d.ty.isNonNull && opt) = true ∧ J.absent = .absent) →
    Mem e .absent (optFieldTy L false (!d.ty.isNonNull && opt) d.ty)) ↔ opt = true
  rw [key]
  constructor
  · rintro (⟨ho, _⟩ | hc)
    · simpa [hnn] using ho
    · rcases hc with ⟨_, h⟩ | h
      · cases h
      · exact absurd h (confCore_not_absent R habs _)
  · intro ho; left; simp [hnn, ho]

/-- non-vacuity: with the option on, `{}` is an explicit assignment for one nullable variable and is admitted;
    the leaf interpretation used here is the one unresolved references have (atoms) -/
example : Mem Env.empty (.obj []) (varsTsL (fun n => .ref n) true [{ name := "a", ty := .named "Int" {} }]) :=
  C09_complete (e := Env.empty) (fun n => .ref n) (fun n v => v = .atom n) (fun _ _ => mem_unresolved_ref_iff) true _ _
    ⟨[], rfl, by simp [RecordSpec, J.get, GType.isNonNull]⟩


/-! ### OPEN — carried by K/O only

* The closed forms `Mem (Env.ofFiles opFile [(m, schemaFile c S)]) v (ref "<Op>Variables") → Coercible c S vars v` and
  `Explicit c S vars v → Mem …`, i.e. the instantiation of the leaf interpretation `L n = globalise … (qref [Schema,
  __OperationInput, n])`, `R n = Ref c S .operationInput n` (C10's exactness for the input namespace through the
  module link) and of `RC` with the executable `Coerce.coerceVal`. The O stream evaluates exactly these closed forms
  on the REAL operation file linked with the REAL schema file.
* `Spec/Coerce.lean`'s fuel-indexed executable `coercibleVars` / `explicitVars` versus the propositions `CoercibleP` /
  `ExplicitP` used here (same clauses; not connected by a theorem).
* The side conditions `hnull` / `habs` (no canonical set of a named input type contains null / undefined) exclude
  scalar input texts such as `unknown`; the harness puts operations that reach such a scalar outside the O domain.
-/

end NitroVerif.Props.C09
