import NitroVerif.Props.C12
import NitroVerif.Props.C13
import NitroVerif.Props.C20
import NitroVerif.Lemmas.DocJsonComposed
import NitroVerif.Lemmas.DocJsonComposedChecked
import NitroVerif.Lemmas.DocJsonComposedPaths
/-!
# C12 composed with C13 (and C20): runtime documents FROM FILES

Property theorems only.  `Props/C12.lean` starts from an already import-resolved document; here the statements start
from a finite set of FILES (`Composed.Project`: resolved path ↦ parsed file with real `Gql.ExecDef` definitions and
merged `#import` lines), a root file and ANY path resolver `res`:

  `resolveDoc code res fs root rootFile` = `resolve_operation_imports` at document level — `Imports.resolve`
      (C13's model) run on the abstraction of the files, the (file, index) pairs it returns turned back into
      definitions and appended to the root's own definitions (as the code appends them);
  `refDoc code res fs root rootFile`     = the root's definitions followed by the definitions of the REFERENCE import
      set (`Spec/Imports.lean refImports`, declaratively `InRef`): what the specification says must be in scope.

`code : Name → Nat` is the `Nat`-coding of fragment names the import model works with (DESIGN §2.4); the theorems hold
for every coding; for an injective one — `Composed.nameCode`, `C12_name_coding_injective`, used in the examples —
`#import A from …` selects exactly the fragments named `A`.

Name clashes: the printers' `fragments` map is collected in document order and imported definitions come AFTER the
root's own, so an imported fragment SHADOWS a local one of the same name (`C12_from_files_clash`); the statements that
compare with the reference therefore carry the side condition "fragment names of the resolved document are pairwise
distinct", which is what the checker enforces (`DuplicateFragmentName`; `C12_from_files_checked` discharges it).

Hypotheses that stay hypotheses: `RootOKp` (the project does not know the root's path or maps it to the root file),
`ProjectOk` (every file is `Resolved`), `Resolved rootFile.defs`; in `C12_from_files(_frag)` also "fragment names of `R`
pairwise distinct" and "every transitively spread name is defined" — `C12_from_files_checked` derives these two, for
OPERATIONS of the root file, from `checkOp S R = []` of the checker MODEL (`Model/CheckOp.lean`) for a schema with
`NoReservedFields` (no declared field `__typename`); the `_missing` theorems need `NoReservedFields` for the checker verdict;
`C13_with_paths` needs `RootOK`, `C13_literal_of_relative_path` needs `AbsNoClimb` of both paths.

OPEN — carried by K/O only: `materialise` and `findUndefined` (`Lemmas/DocJsonComposed.lean`) are hand transcriptions of
the loop appending the imported definitions and of the loader's `find_undefined_fragment_spread`; their two ends are
K-tied by C12 (printer) and C13 (resolver). That the real checker is `checkOp` is C03/C08's K. The text level is
`Props/C12Text.lean`.
-/
namespace NitroVerif.C12
open NitroVerif NitroVerif.Gql NitroVerif.DocJson NitroVerif.ReadDoc NitroVerif.FragClosure NitroVerif.Composed
open NitroVerif.Imports (Res DefId Import File FS resolve)
open NitroVerif.Imports.Spec (InRef refImports RootOK)

variable {κ ρ : Type} [DecidableEq κ] [DecidableEq ρ]
variable (code : Name → Nat) (res : κ → ρ → κ) (fs : Project κ ρ) (root : κ) (rootFile : SrcFile ρ)

/-- Runtime document of an OPERATION defined in the root file, from files.  If import resolution succeeds with
    document `R` whose fragment names are pairwise distinct, and every fragment transitively spread from the operation
    is defined among the root's fragments and the reference import set, then the printer emits for the operation the
    document `[X] ++ tail` where `tail` lists the definitions of the textbook closure of X's spreads computed over the
    REFERENCE document, in first-visit order, each fragment exactly once; the independent graphql-js reader reads the
    emitted JSON back as exactly these definitions (positions erased); and a definition is in the tail iff it is a
    fragment transitively spread from X that is a local fragment of the root file or a member of the reference
    import set. -/
theorem C12_from_files (hroot : RootOKp fs root rootFile) (hfiles : ProjectOk fs) (hrootOk : Resolved rootFile.defs)
    {R : List ExecDef} (h : resolveDoc code res fs root rootFile = .ok R) (hu : (fragNamesOf R).Nodup)
    (o : OperationDef) (hX : ExecDef.op o ∈ rootFile.defs)
    (hdef : ∀ n, Reach (envOf (refDoc code res fs root rootFile)) o.sel n →
      (getFrag (refDoc code res fs root rootFile) n).isSome) :
    ∃ names, closure (envOf (refDoc code res fs root rootFile)) (refDoc code res fs root rootFile).length o.sel = some names ∧
      names.Nodup ∧
      (∀ n, n ∈ names ↔ Reach (envOf (refDoc code res fs root rootFile)) o.sel n) ∧
      runtimeDefs R (.op o) = .ok (.op o :: fragDefs (refDoc code res fs root rootFile) names) ∧
      readDoc (toJson (.op o :: fragDefs (refDoc code res fs root rootFile) names)) =
        some (erasePos (.op o :: fragDefs (refDoc code res fs root rootFile) names)) ∧
      fragNamesOf (fragDefs (refDoc code res fs root rootFile) names) = names ∧
      (∀ d, d ∈ fragDefs (refDoc code res fs root rootFile) names ↔
        ∃ g, d = .frag g ∧ Reach (envOf (refDoc code res fs root rootFile)) o.sel g.name ∧
          (ExecDef.frag g ∈ rootFile.defs ∨
            ∃ x, InRef res (absFS code fs) root (absFile code rootFile) x ∧ defAt fs x = some (.frag g))) := by
  obtain ⟨hu', _, _, hrt⟩ := resolveDoc_ref code res fs root rootFile hroot h hu
  obtain ⟨names, hc, hnd, hrun, _, _⟩ := C12_closure (refDoc code res fs root rootFile) o hdef
  obtain ⟨_, hreach⟩ := closure_good _ _ _ _ hc
  have hall : ∀ n ∈ names, (getFrag (refDoc code res fs root rootFile) n).isSome = true :=
    fun n hn => hdef n ((hreach n).mp hn)
  have hXref : ExecDef.op o ∈ refDoc code res fs root rootFile :=
    (mem_refDoc code res fs root rootFile _).mpr (Or.inl hX)
  refine ⟨names, hc, hnd, hreach, by rw [hrt]; exact hrun, ?_, fragNamesOf_fragDefs _ _ hall, ?_⟩
  · exact C12_roundtrip _ (resolved_fragDefs (resolved_refDoc code res fs root rootFile hrootOk hfiles) _ hXref names)
  · intro d
    rw [mem_fragDefs]
    constructor
    · rintro ⟨n, g, hn, hg, rfl⟩
      obtain ⟨hm, rfl⟩ := (getFrag_eq_some_iff _ hu' n g).mp hg
      exact ⟨g, rfl, (hreach _).mp hn, (mem_refDoc code res fs root rootFile _).mp hm⟩
    · rintro ⟨g, rfl, hr, hm⟩
      exact ⟨g.name, g, (hreach _).mpr hr,
        (getFrag_eq_some_iff _ hu' g.name g).mpr ⟨(mem_refDoc code res fs root rootFile _).mpr hm, rfl⟩, rfl⟩

/-- The same for a FRAGMENT defined in the root file: `[X] ++` the closure of its spreads over the reference document
    minus its own name (a fragment reachable from itself is not repeated), each fragment once, read back exactly. -/
theorem C12_from_files_frag (hroot : RootOKp fs root rootFile) (hfiles : ProjectOk fs) (hrootOk : Resolved rootFile.defs)
    {R : List ExecDef} (h : resolveDoc code res fs root rootFile = .ok R) (hu : (fragNamesOf R).Nodup)
    (f : FragmentDef) (hX : ExecDef.frag f ∈ rootFile.defs)
    (hdef : ∀ n, Reach (envOf (refDoc code res fs root rootFile)) f.sel n →
      (getFrag (refDoc code res fs root rootFile) n).isSome) :
    ∃ names, closure (envOf (refDoc code res fs root rootFile)) (refDoc code res fs root rootFile).length f.sel = some names ∧
      names.Nodup ∧
      (∀ n, n ∈ names ↔ Reach (envOf (refDoc code res fs root rootFile)) f.sel n) ∧
      runtimeDefs R (.frag f) =
        .ok (.frag f :: fragDefs (refDoc code res fs root rootFile) (names.filter fun n => n != f.name)) ∧
      readDoc (toJson (.frag f :: fragDefs (refDoc code res fs root rootFile) (names.filter fun n => n != f.name))) =
        some (erasePos (.frag f :: fragDefs (refDoc code res fs root rootFile) (names.filter fun n => n != f.name))) ∧
      fragNamesOf (fragDefs (refDoc code res fs root rootFile) (names.filter fun n => n != f.name)) =
        names.filter (fun n => n != f.name) ∧
      (∀ d, d ∈ fragDefs (refDoc code res fs root rootFile) (names.filter fun n => n != f.name) ↔
        ∃ g, d = .frag g ∧ Reach (envOf (refDoc code res fs root rootFile)) f.sel g.name ∧ g.name ≠ f.name ∧
          (ExecDef.frag g ∈ rootFile.defs ∨
            ∃ x, InRef res (absFS code fs) root (absFile code rootFile) x ∧ defAt fs x = some (.frag g))) := by
  obtain ⟨hu', _, _, hrt⟩ := resolveDoc_ref code res fs root rootFile hroot h hu
  obtain ⟨names, hc, hnd, hrun, _, _⟩ := C12_closure_frag (refDoc code res fs root rootFile) f hdef
  obtain ⟨_, hreach⟩ := closure_good _ _ _ _ hc
  have hall : ∀ n ∈ names.filter (fun n => n != f.name), (getFrag (refDoc code res fs root rootFile) n).isSome = true :=
    fun n hn => hdef n ((hreach n).mp (List.mem_filter.mp hn).1)
  have hXref : ExecDef.frag f ∈ refDoc code res fs root rootFile :=
    (mem_refDoc code res fs root rootFile _).mpr (Or.inl hX)
  refine ⟨names, hc, hnd, hreach, by rw [hrt]; exact hrun, ?_, fragNamesOf_fragDefs _ _ hall, ?_⟩
  · exact C12_roundtrip _ (resolved_fragDefs (resolved_refDoc code res fs root rootFile hrootOk hfiles) _ hXref _)
  · intro d
    rw [mem_fragDefs]
    constructor
    · rintro ⟨n, g, hn, hg, rfl⟩
      obtain ⟨hm, rfl⟩ := (getFrag_eq_some_iff _ hu' n g).mp hg
      obtain ⟨hn1, hn2⟩ := List.mem_filter.mp hn
      exact ⟨g, rfl, (hreach _).mp hn1, by simpa using hn2, (mem_refDoc code res fs root rootFile _).mp hm⟩
    · rintro ⟨g, rfl, hr, hne, hm⟩
      exact ⟨g.name, g, List.mem_filter.mpr ⟨(hreach _).mpr hr, by simpa using hne⟩,
        (getFrag_eq_some_iff _ hu' g.name g).mpr ⟨(mem_refDoc code res fs root rootFile _).mpr hm, rfl⟩, rfl⟩

/-- When a fragment transitively spread from an operation of the root file is NOT brought in — no fragment of the
    root file and no member of the reference import set carries its name — there are exactly two outcomes, and both
    are the documented ones: the printer hits `expect("fragment not found")` on a reachable undefined name (never a
    wrong document, never non-termination), and the resolved document has a written spread of an undefined name, so the
    loader's own check (`find_undefined_fragment_spread`, fix 08fd7e5) answers an error and the operation checker
    reports a diagnostic (rule 5.5.2.1, `UnknownFragment`) for every schema. -/
theorem C12_from_files_missing (hroot : RootOKp fs root rootFile)
    {R : List ExecDef} (h : resolveDoc code res fs root rootFile = .ok R)
    (o : OperationDef) (hX : ExecDef.op o ∈ rootFile.defs) {n : Name} (hr : Reach (envOf R) o.sel n)
    (hloc : ∀ f, ExecDef.frag f ∈ rootFile.defs → f.name ≠ n)
    (himp : ∀ x f, InRef res (absFS code fs) root (absFile code rootFile) x → defAt fs x = some (.frag f) → f.name ≠ n) :
    (∃ m, runtimeDefs R (.op o) = .error (.fragmentNotFound m) ∧ Reach (envOf R) o.sel m ∧ getFrag R m = none) ∧
    (∃ m, findUndefined R = some m) ∧ ¬ SpreadsDefined R ∧
    ∀ S, CheckOp.NoReservedFields S → CheckOp.checkOp S R ≠ [] := by
  have hnone : getFrag R n = none := by
    apply getFrag_none
    rw [mem_fragNamesOf]
    rintro ⟨f, hf, hn⟩
    rcases (mem_resolveDoc code res fs root rootFile hroot h _).mp hf with hl | ⟨x, hx, hd⟩
    · exact hloc f hl hn
    · exact himp x f hx hd hn
  have hXR : ExecDef.op o ∈ R := root_mem_resolveDoc code res fs root rootFile h hX
  have hns : ¬ SpreadsDefined R := not_spreadsDefined_of_reach (x := .op o) hXR hr hnone
  refine ⟨?_, ?_, hns, fun S hS hc => hns (spreadsDefined_of_checked hS hc)⟩
  · obtain ⟨names, hn⟩ := fragmentNames_total R o.sel
    have hc := hn
    rw [fragmentNames_eq_closure] at hc
    obtain ⟨_, hreach⟩ := closure_good _ _ _ _ hc
    simp only [runtimeDefs, opNames, hn, withNames]
    cases hl : lookupAll R names with
    | ok ds =>
      have := (lookupAll_ok_inv R names ds hl).1 n ((hreach n).mpr hr)
      rw [hnone] at this; cases this
    | error e =>
      obtain ⟨m, hm, hg, rfl⟩ := lookupAll_error R names e hl
      exact ⟨m, rfl, (hreach m).mp hm, hg⟩
  · cases hf : findUndefined R with
    | some m => exact ⟨m, rfl⟩
    | none => exact absurd ((findUndefined_none_iff R).mp hf) hns


/-- The same for a FRAGMENT `X` of the root file: if a fragment transitively spread from `X` is carried neither by a
    fragment of the root file nor by a member of the reference import set, printing `X`'s runtime document hits
    `expect("fragment not found")` on a reachable undefined name, and the document has a written spread of an undefined
    name (loader error / checker diagnostic 5.5.2.1). -/
theorem C12_from_files_missing_frag (hroot : RootOKp fs root rootFile)
    {R : List ExecDef} (h : resolveDoc code res fs root rootFile = .ok R)
    (f : FragmentDef) (hX : ExecDef.frag f ∈ rootFile.defs) {n : Name} (hr : Reach (envOf R) f.sel n)
    (hloc : ∀ g, ExecDef.frag g ∈ rootFile.defs → g.name ≠ n)
    (himp : ∀ x g, InRef res (absFS code fs) root (absFile code rootFile) x → defAt fs x = some (.frag g) → g.name ≠ n) :
    (∃ m, runtimeDefs R (.frag f) = .error (.fragmentNotFound m) ∧ Reach (envOf R) f.sel m ∧ getFrag R m = none) ∧
    (∃ m, findUndefined R = some m) ∧ ¬ SpreadsDefined R ∧
    ∀ S, CheckOp.NoReservedFields S → CheckOp.checkOp S R ≠ [] := by
  have hnone : getFrag R n = none := by
    apply getFrag_none
    rw [mem_fragNamesOf]
    rintro ⟨g, hg, hn⟩
    rcases (mem_resolveDoc code res fs root rootFile hroot h _).mp hg with hl | ⟨x, hx, hd⟩
    · exact hloc g hl hn
    · exact himp x g hx hd hn
  have hXR : ExecDef.frag f ∈ R := root_mem_resolveDoc code res fs root rootFile h hX
  have hns : ¬ SpreadsDefined R := not_spreadsDefined_of_reach (x := .frag f) hXR hr hnone
  refine ⟨?_, ?_, hns, fun S hS hc => hns (spreadsDefined_of_checked hS hc)⟩
  · obtain ⟨names, hn⟩ := fragmentNames_total R f.sel
    have hc := hn
    rw [fragmentNames_eq_closure] at hc
    obtain ⟨_, hreach⟩ := closure_good _ _ _ _ hc
    have hne : n ≠ f.name := by
      intro he
      have := (getFrag_isSome_iff R f.name).mpr ((mem_fragNamesOf R f.name).mpr ⟨f, hXR, rfl⟩)
      rw [← he, hnone] at this; cases this
    simp only [runtimeDefs, fragNames, hn, Option.map_some, withNames]
    cases hl : lookupAll R (names.filter fun n => n != f.name) with
    | ok ds =>
      have := (lookupAll_ok_inv R _ ds hl).1 n (List.mem_filter.mpr ⟨(hreach n).mpr hr, by simpa using hne⟩)
      rw [hnone] at this; cases this
    | error e =>
      obtain ⟨m, hm, hg, rfl⟩ := lookupAll_error R _ e hl
      exact ⟨m, rfl, (hreach m).mp (List.mem_filter.mp hm).1, hg⟩
  · cases hf : findUndefined R with
    | some m => exact ⟨m, rfl⟩
    | none => exact absurd ((findUndefined_none_iff R).mp hf) hns

/-- For documents the operation checker accepts (the CLI's pipeline: parse, resolve imports, check, print) both side
    conditions are discharged: the resolved document has pairwise distinct fragment names and every spread is
    defined, so for EVERY operation of the root file the runtime document is produced and is `[X] ++` the reference
    closure, each fragment once, read back exactly. -/
theorem C12_from_files_checked (hroot : RootOKp fs root rootFile) (hfiles : ProjectOk fs) (hrootOk : Resolved rootFile.defs)
    {R : List ExecDef} (h : resolveDoc code res fs root rootFile = .ok R)
    (S : Schema) (hS : CheckOp.NoReservedFields S) (hc : CheckOp.checkOp S R = [])
    (o : OperationDef) (hX : ExecDef.op o ∈ rootFile.defs) :
    ∃ names, closure (envOf (refDoc code res fs root rootFile)) (refDoc code res fs root rootFile).length o.sel = some names ∧
      names.Nodup ∧
      (∀ n, n ∈ names ↔ Reach (envOf (refDoc code res fs root rootFile)) o.sel n) ∧
      runtimeDefs R (.op o) = .ok (.op o :: fragDefs (refDoc code res fs root rootFile) names) ∧
      readDoc (toJson (.op o :: fragDefs (refDoc code res fs root rootFile) names)) =
        some (erasePos (.op o :: fragDefs (refDoc code res fs root rootFile) names)) ∧
      fragNamesOf (fragDefs (refDoc code res fs root rootFile) names) = names := by
  have hu := nodup_of_checked hc
  have hs := spreadsDefined_of_checked hS hc
  obtain ⟨_, _, hg, _⟩ := resolveDoc_ref code res fs root rootFile hroot h hu
  have henv : envOf R = envOf (refDoc code res fs root rootFile) := by
    funext n; simp only [envOf, envOfGet, hg]
  have hdef : ∀ n, Reach (envOf (refDoc code res fs root rootFile)) o.sel n →
      (getFrag (refDoc code res fs root rootFile) n).isSome := by
    intro n hr
    rw [← henv] at hr
    rw [← hg]
    exact reach_defined hs hr ⟨.op o, root_mem_resolveDoc code res fs root rootFile h hX, rfl⟩
  obtain ⟨names, h1, h2, h3, h4, h5, h6, _⟩ :=
    C12_from_files code res fs root rootFile hroot hfiles hrootOk h hu o hX hdef
  exact ⟨names, h1, h2, h3, h4, h5, h6⟩

/-- Name clashes between local and imported fragments.  The printers' `fragments` map is a `HashMap` collected from
    the resolved document in order, and `resolve_operation_imports` appends the imported definitions AFTER the root's
    own: for every name the LAST definition wins, i.e. an imported fragment shadows a local fragment of the same
    name in every runtime document of the module; only names no imported fragment carries fall back to the root's own
    definition.  Such a document has a repeated fragment name, so the operation checker rejects it
    (`DuplicateFragmentName`) for every schema — the loader, which does not run the checker, prints it. -/
theorem C12_from_files_clash {R : List ExecDef} (h : resolveDoc code res fs root rootFile = .ok R) :
    ∃ out, resolve res (absFS code fs) root (absFile code rootFile) = .ok out ∧
      R = rootFile.defs ++ materialise fs out ∧
      (∀ n, getFrag R n = match getFrag (materialise fs out) n with
        | some g => some g
        | none => getFrag rootFile.defs n) ∧
      (∀ n, n ∈ fragNamesOf rootFile.defs → n ∈ fragNamesOf (materialise fs out) →
        ¬ (fragNamesOf R).Nodup ∧ ∀ S, CheckOp.checkOp S R ≠ []) := by
  obtain ⟨out, ho, rfl⟩ := resolveDoc_ok code res fs root rootFile h
  refine ⟨out, ho, rfl, fun n => getFrag_append _ _ n, ?_⟩
  intro n h1 h2
  have hnd : ¬ (fragNamesOf (rootFile.defs ++ materialise fs out)).Nodup := by
    rw [fragNamesOf_append]
    intro hnd
    exact (List.nodup_append.mp hnd).2.2 n h1 n h2 rfl
  exact ⟨hnd, fun S hc => hnd (nodup_of_checked hc)⟩


/-- The runtime documents do not depend on the ORDER of `#import` lines.  Permuting the import lines of any of the
    files (root included) permutes the tail of the resolved document (`C13_order_indep`), an error is reported for one
    input iff for the other, and — with pairwise distinct fragment names — the printer emits, for every definition,
    literally the same runtime document from both. -/
theorem C12_from_files_order_indep {fs' : Project κ ρ} {rootFile' : SrcFile ρ}
    (hfs : ProjPerm fs fs') (hrd : rootFile.defs = rootFile'.defs) (hri : rootFile.imports.Perm rootFile'.imports)
    (hroot : RootOKp fs root rootFile) (hroot' : RootOKp fs' root rootFile') :
    match resolveDoc code res fs root rootFile, resolveDoc code res fs' root rootFile' with
    | .ok R, .ok R' => R.Perm R' ∧ ((fragNamesOf R).Nodup → ∀ x, runtimeDefs R x = runtimeDefs R' x)
    | .err _, .err _ => True
    | _, _ => False := by
  have h13 := Imports.C13_order_indep res (absFS code fs) root (absFile code rootFile)
    (fs' := absFS code fs') (rootFile' := absFile code rootFile') (hfs.abs code)
    ⟨by simp [absFile, hrd], hri⟩ (rootOK_abs code fs root rootFile hroot) (rootOK_abs code fs' root rootFile' hroot')
  unfold resolveDoc
  cases h1 : resolve res (absFS code fs) root (absFile code rootFile) with
  | outOfFuel => exact absurd h1 (Imports.C13_terminates _ _ _ _)
  | err e =>
    cases h2 : resolve res (absFS code fs') root (absFile code rootFile') with
    | outOfFuel => exact absurd h2 (Imports.C13_terminates _ _ _ _)
    | err e' => trivial
    | ok out' => rw [h1, h2] at h13; exact h13
  | ok out =>
    cases h2 : resolve res (absFS code fs') root (absFile code rootFile') with
    | outOfFuel => exact absurd h2 (Imports.C13_terminates _ _ _ _)
    | err e' => rw [h1, h2] at h13; exact h13
    | ok out' =>
      rw [h1, h2] at h13
      have hp : (rootFile.defs ++ materialise fs out).Perm (rootFile'.defs ++ materialise fs' out') := by
        rw [hrd, hfs.materialise out]
        exact (List.Perm.refl _).append (materialise_perm fs' h13)
      exact ⟨hp, fun hu x => runtimeDefs_perm hp hu x⟩

/-- There is an injective coding of names (`nameCode`: base-1114113 reading of the characters), so the `Nat`-coded import
    model loses nothing: with it an import line requests a fragment iff it names it. -/
theorem C12_name_coding_injective (a b : Name) (h : nameCode a = nameCode b) : a = b := nameCode_inj h

/-! ### the instance the code runs: paths as component lists (C20), literals resolved by `resolve_relative_path` -/

open NitroVerif.Imports in
/-- C13 with the C20 path model (`pathRes doc literal = resolve_relative_path(doc, literal)`).  On success:
    (a) the appended definitions are exactly the reference set, each once, a file being identified by its RESOLVED
        path;
    (b) every imported file is known under a normalised path (`normalize_path` is idempotent on it);
    (c) two import lines — of the same or of different reachable files — whose literals resolve to the same
        normalised path denote the same file: a fragment of that file requested by either of them is appended exactly
        once (and literals resolving to different paths are different keys of the resolver's map). -/
theorem C13_with_paths (fs : FS Paths.P String) (root : Paths.P) (rootFile : File String)
    (hroot : RootOK fs root rootFile) {out : List (DefId Paths.P)}
    (h : resolve pathRes fs root rootFile = .ok out) :
    ((∀ x, x ∈ out ↔ InRef pathRes fs root rootFile x) ∧ out.Nodup) ∧
    (∀ x ∈ out, Paths.normalize x.1 = x.1) ∧
    (∀ (q q' : Paths.P) (imp imp' : Import String) (ds : List Def) (i n : Nat),
      Spec.Reach pathRes fs root rootFile q → Spec.Reach pathRes fs root rootFile q' →
      imp ∈ Spec.importsOf fs root rootFile q → imp' ∈ Spec.importsOf fs root rootFile q' →
      pathRes q imp.rel = pathRes q' imp'.rel →
      Spec.defsAt fs (pathRes q imp.rel) = some ds → ds[i]? = some (Def.frag n) →
      (Spec.Requests imp.targets n ∨ Spec.Requests imp'.targets n) →
      (pathRes q imp.rel, i) ∉ rootIds root rootFile →
      out.count (pathRes q imp.rel, i) = 1) := by
  obtain ⟨hm, hn⟩ := C13_result pathRes fs root rootFile hroot h
  refine ⟨⟨hm, hn⟩, ?_, ?_⟩
  · intro x hx
    obtain ⟨⟨q, imp, _, _, _, _, hq, _⟩, _⟩ := (hm x).mp hx
    rw [← hq]
    exact Paths.normalize_idem_all _
  · intro q q' imp imp' ds i n hq hq' hi hi' he hds hdi hreq hnot
    rw [hn.count, if_pos]
    rw [hm]
    rcases hreq with hreq | hreq
    · exact ⟨⟨q, imp, ds, n, hq, hi, rfl, hds, hdi, hreq⟩, hnot⟩
    · exact ⟨⟨q', imp', ds, n, hq', hi', he.symm, hds, hdi, hreq⟩, hnot⟩

open NitroVerif.Imports in
/-- Respelled literals are identified: `resolve_relative_path(doc, literal)` applies the literal's components, one
    `normalize_path` step each, to the normalised directory of the importing file; so two literals whose component
    lists move every directory to the same place (`SameTarget`) resolve to the same path from every file — in
    particular a `.` segment and an `x/..` detour anywhere in the literal change nothing. -/
theorem C13_respelled (doc : Paths.P) :
    (∀ r r' : String, Paths.SameTarget (Paths.components r) (Paths.components r') → pathRes doc r = pathRes doc r') ∧
    (∀ pre post : Paths.P, Paths.resolve doc (pre ++ .cur :: post) = Paths.resolve doc (pre ++ post)) ∧
    (∀ (pre post : Paths.P) (x : String),
      Paths.resolve doc (pre ++ .normal x :: .parent :: post) = Paths.resolve doc (pre ++ post)) ∧
    (∀ rel, Paths.normalize (Paths.resolve doc rel) = Paths.resolve doc rel) :=
  ⟨fun _ _ h => Paths.resolve_sameTarget h doc,
   fun pre post => Paths.resolve_sameTarget (Paths.sameTarget_cur pre post) doc,
   fun pre post x => Paths.resolve_sameTarget (Paths.sameTarget_updown pre post x) doc,
   fun _ => Paths.normalize_idem_all _⟩


open NitroVerif.Imports in
/-- Literals written by nitrogql itself: the text `relative_path(from, to)` returns for two absolute non-climbing
    paths, used as an import literal in the file `from`, denotes exactly the file `normalize_path(to)` — and that key
    reads back unchanged (C20's `text_resolve_relative` through `pathRes`). -/
theorem C13_literal_of_relative_path (a b : String)
    (ha : Paths.AbsNoClimb (Paths.components a)) (hb : Paths.AbsNoClimb (Paths.components b)) :
    ∃ r, Paths.relative (Paths.components a) (Paths.components b) = some r ∧
      pathRes (Paths.components a) (Paths.render r) = Paths.normalize (Paths.components b) ∧
      Paths.components (Paths.render (Paths.normalize (Paths.components b))) = Paths.normalize (Paths.components b) := by
  obtain ⟨r, h1, _, h3, h4⟩ := Paths.text_resolve_relative a b ha hb
  exact ⟨r, h1, h3, h4⟩

/-- the hypotheses are satisfiable: `/p/sub/y.graphql` → `/p/x.graphql` -/
example : Paths.AbsNoClimb (Paths.components "/p/sub/y.graphql") ∧ Paths.AbsNoClimb (Paths.components "/p/x.graphql") :=
  ⟨⟨_, rfl, by decide⟩, ⟨_, rfl, by decide⟩⟩

open NitroVerif.Imports in
/-- text level: `./a/../f.graphql`, `f.graphql`, `.//f.graphql` and `a/./../f.graphql` are one file, whoever imports -/
example (doc : Paths.P) :
    pathRes doc "./a/../f.graphql" = pathRes doc "f.graphql" ∧
    pathRes doc ".//f.graphql" = pathRes doc "f.graphql" ∧
    pathRes doc "a/./../f.graphql" = pathRes doc "f.graphql" := by
  have c1 : Paths.components "./a/../f.graphql" = [.cur, .normal "a", .parent, .normal "f.graphql"] := by decide
  have c2 : Paths.components "f.graphql" = [.normal "f.graphql"] := by decide
  have c3 : Paths.components ".//f.graphql" = [.cur, .normal "f.graphql"] := by decide
  have c4 : Paths.components "a/./../f.graphql" = [.normal "a", .parent, .normal "f.graphql"] := by decide
  refine ⟨?_, ?_, ?_⟩
  · simp only [pathRes, c1, c2]
    exact ((C13_respelled doc).2.1 [] _).trans ((C13_respelled doc).2.2.1 [] _ "a")
  · simp only [pathRes, c3, c2]
    exact (C13_respelled doc).2.1 [] _
  · simp only [pathRes, c4, c2]
    exact (C13_respelled doc).2.2.1 [] _ "a"


/-! ### non-vacuity: a 3-file project with a diamond import

`/p/main.graphql` (`query Q { ...Y ...X0 }`) imports `Y` from `./sub/y.graphql` and `X0` from `x.graphql`;
`/p/sub/y.graphql` (`fragment Y { c ...X1 }`) imports `X1` from `../sub/../x.graphql` — the same file `/p/x.graphql`
under another spelling; `/p/x.graphql` defines `X0` and `X1`; `main` also defines `fragment L { d ...Y }`.  The code appends `X0, X1, Y` (post-order of the
traversal), the reference set lists `Y, X0, X1`, and the runtime document of `Q` is `Q, Y, X1, X0`. -/
namespace Ex
open NitroVerif.Imports

/-- the injective coding `nameCode` (`nameCode_inj`): an import line selects exactly the fragments it names -/
abbrev exCode : Name → Nat := nameCode

def pMain : Paths.P := Paths.components "/p/main.graphql"
def pX : Paths.P := Paths.components "/p/x.graphql"
def pY : Paths.P := Paths.components "/p/sub/y.graphql"

def fld (n : Name) : Selection := .field none n {} [] [] none
def spr (n : Name) : Selection := .spread n {} [] {}
def fragX0 : FragmentDef := { name := "X0", cond := "Query", sel := [fld "a"] }
def fragX1 : FragmentDef := { name := "X1", cond := "Query", sel := [fld "b"] }
def fragY : FragmentDef := { name := "Y", cond := "Query", sel := [fld "c", spr "X1"] }
def opQ : OperationDef := { kind := .query, name := some ("Q", {}), sel := [spr "Y", spr "X0"] }
/-- a fragment of the root file that spreads an imported fragment -/
def fragL : FragmentDef := { name := "L", cond := "Query", sel := [fld "d", spr "Y"] }

def mainFile : SrcFile String :=
  ⟨[⟨"./sub/y.graphql", 0, .specific [⟨exCode "Y", 0, 0⟩]⟩, ⟨"x.graphql", 1, .specific [⟨exCode "X0", 1, 0⟩]⟩], [.op opQ, .frag fragL]⟩
def xFile : SrcFile String := ⟨[], [.frag fragX0, .frag fragX1]⟩
def yFile : SrcFile String := ⟨[⟨"../sub/../x.graphql", 0, .specific [⟨exCode "X1", 0, 0⟩]⟩], [.frag fragY]⟩
def proj : Project Paths.P String := [(pMain, mainFile), (pX, xFile), (pY, yFile)]

/-- the document the code builds -/
def exR : List ExecDef := [.op opQ, .frag fragL, .frag fragX0, .frag fragX1, .frag fragY]

theorem ex_resolve :
    resolve pathRes (absFS exCode proj) pMain (absFile exCode mainFile) = .ok [(pX, 0), (pX, 1), (pY, 0)] := by
  decide

theorem ex_resolveDoc : resolveDoc exCode pathRes proj pMain mainFile = .ok exR := by
  unfold resolveDoc
  rw [ex_resolve]
  rfl

/-- the reference set comes in another order: the tail of the code's document is a genuine rearrangement -/
theorem ex_ref :
    Spec.refImports pathRes (absFS exCode proj) pMain (absFile exCode mainFile) = [(pY, 0), (pX, 0), (pX, 1)] := by
  decide

theorem ex_refDoc : refDoc exCode pathRes proj pMain mainFile = [.op opQ, .frag fragL, .frag fragY, .frag fragX0, .frag fragX1] := by
  unfold refDoc
  rw [ex_ref]
  rfl

theorem ex_rootOK : RootOKp proj pMain mainFile := by
  intro f hf
  have h3 : some f = some mainFile := hf.symm.trans rfl
  injection h3

theorem ex_projOk : ProjectOk proj := by
  apply projectOk_of_forall
  intro e he
  simp only [proj, List.mem_cons, List.not_mem_nil, or_false] at he
  rcases he with rfl | rfl | rfl <;> decide

/-- all hypotheses of `C12_from_files` hold of the diamond project, so its conclusion does -/
example : ∃ names, closure (envOf (refDoc exCode pathRes proj pMain mainFile)) (refDoc exCode pathRes proj pMain mainFile).length opQ.sel = some names ∧
    names.Nodup ∧ runtimeDefs exR (.op opQ) = .ok (.op opQ :: fragDefs (refDoc exCode pathRes proj pMain mainFile) names) ∧
    fragNamesOf (fragDefs (refDoc exCode pathRes proj pMain mainFile) names) = names := by
  have hs : SpreadsDefined (refDoc exCode pathRes proj pMain mainFile) := by rw [ex_refDoc]; decide
  obtain ⟨names, h1, h2, _, h4, _, h6, _⟩ :=
    C12_from_files exCode pathRes proj pMain mainFile ex_rootOK ex_projOk (by decide) ex_resolveDoc (by decide) opQ
      (by simp [mainFile])
      (fun n hr => reach_defined hs hr ⟨.op opQ, by rw [ex_refDoc]; simp, rfl⟩)
  exact ⟨names, h1, h2, h4, h6⟩

/-- … and concretely: `Q` is followed by `Y, X1, X0` (first-visit order of the closure), each once -/
example : (match runtimeDefs exR (.op opQ) with | .ok ds => fragNamesOf ds | .error _ => []) = ["Y", "X1", "X0"] := by
  decide

/-- the hypotheses of `C12_from_files_frag` hold for the root file's fragment `L` (it spreads the imported `Y`, which
    spreads `X1` of the diamond's shared file): its runtime document is `L, Y, X1` -/
example : ∃ names : List Name, runtimeDefs exR (.frag fragL) =
      .ok (.frag fragL :: fragDefs (refDoc exCode pathRes proj pMain mainFile) (names.filter fun n => n != fragL.name)) ∧
    fragNamesOf (fragDefs (refDoc exCode pathRes proj pMain mainFile) (names.filter fun n => n != fragL.name)) =
      names.filter (fun n => n != fragL.name) := by
  have hs : SpreadsDefined (refDoc exCode pathRes proj pMain mainFile) := by rw [ex_refDoc]; decide
  obtain ⟨names, _, _, _, h4, _, h6, _⟩ :=
    C12_from_files_frag exCode pathRes proj pMain mainFile ex_rootOK ex_projOk (by decide) ex_resolveDoc (by decide) fragL
      (by simp [mainFile])
      (fun n hr => reach_defined hs hr ⟨.frag fragL, by rw [ex_refDoc]; simp, rfl⟩)
  exact ⟨names, h4, h6⟩

example : (match runtimeDefs exR (.frag fragL) with | .ok ds => fragNamesOf ds | .error _ => []) = ["L", "Y", "X1"] := by
  decide

/-- the two spellings of `/p/x.graphql` (from `main` and from `sub/y`) resolve to the same normalised path: the
    diamond closes, and `C13_with_paths` applies to the project -/
example : pathRes pMain "x.graphql" = pathRes pY "../sub/../x.graphql" ∧ pathRes pMain "x.graphql" = pX ∧
    Spec.RootOK (absFS exCode proj) pMain (absFile exCode mainFile) :=
  ⟨by decide, by decide, rootOK_abs exCode proj pMain mainFile ex_rootOK⟩

/-- `C13_with_paths` applied to the project: `X1` of `/p/x.graphql` — requested only through `sub/y`'s respelled
    literal, while `main` reaches the same file as `x.graphql` — is appended exactly once, under the normalised key -/
example : ([(pX, 0), (pX, 1), (pY, 0)] : List (DefId Paths.P)).count (pX, 1) = 1 ∧ Paths.normalize pX = pX := by
  obtain ⟨_, hnorm, hcount⟩ := C13_with_paths (absFS exCode proj) pMain (absFile exCode mainFile)
    (rootOK_abs exCode proj pMain mainFile ex_rootOK) ex_resolve
  refine ⟨?_, hnorm (pX, 1) (by simp)⟩
  have hY : Spec.Reach pathRes (absFS exCode proj) pMain (absFile exCode mainFile) pY := by
    have := Spec.Reach.step (res := pathRes) (fs := absFS exCode proj) (root := pMain)
      (rootFile := absFile exCode mainFile) (q := pMain) (imp := ⟨"./sub/y.graphql", 0, .specific [⟨exCode "Y", 0, 0⟩]⟩)
      Spec.Reach.root (by decide) (by decide)
    have e : pathRes pMain "./sub/y.graphql" = pY := by decide
    rw [← e]; exact this
  have := hcount pY pMain ⟨"../sub/../x.graphql", 0, .specific [⟨exCode "X1", 0, 0⟩]⟩
    ⟨"x.graphql", 1, .specific [⟨exCode "X0", 1, 0⟩]⟩ [.frag (exCode "X0"), .frag (exCode "X1")] 1 (exCode "X1")
    hY Spec.Reach.root (by decide) (by decide) (by decide) (by decide) (by decide) (Or.inl (by decide)) (by decide)
  have e : pathRes pY "../sub/../x.graphql" = pX := by decide
  rw [e] at this
  exact this


/-- non-vacuity of `C12_from_files_order_indep`: `main` with its two import lines swapped -/
example : ProjPerm proj [(pMain, ⟨mainFile.imports.reverse, mainFile.defs⟩), (pX, xFile), (pY, yFile)] ∧
    mainFile.imports.Perm mainFile.imports.reverse ∧
    RootOKp [(pMain, ⟨mainFile.imports.reverse, mainFile.defs⟩), (pX, xFile), (pY, yFile)] pMain
      ⟨mainFile.imports.reverse, mainFile.defs⟩ := by
  refine ⟨ProjPerm.cons rfl (List.reverse_perm _).symm (ProjPerm.cons rfl (List.Perm.refl _)
    (ProjPerm.cons rfl (List.Perm.refl _) ProjPerm.nil)), (List.reverse_perm _).symm, ?_⟩
  intro f hf
  have h3 : some f = some (⟨mainFile.imports.reverse, mainFile.defs⟩ : SrcFile String) := hf.symm.trans rfl
  injection h3

/-! `C12_from_files_missing`: `main2` also spreads `Z`, which nothing defines or imports -/

def opQ2 : OperationDef := { kind := .query, name := some ("Q", {}), sel := [spr "Y", spr "Z"] }
def fragLZ : FragmentDef := { name := "LZ", cond := "Query", sel := [fld "d", spr "Z"] }
def mainFile2 : SrcFile String := ⟨mainFile.imports, [.op opQ2, .frag fragLZ]⟩
/-- the document the code builds for `main2` -/
def exR2 : List ExecDef := [.op opQ2, .frag fragLZ, .frag fragX0, .frag fragX1, .frag fragY]
def proj2 : Project Paths.P String := [(pMain, mainFile2), (pX, xFile), (pY, yFile)]

theorem ex2_resolveDoc :
    resolveDoc exCode pathRes proj2 pMain mainFile2 = .ok exR2 := by
  have : resolve pathRes (absFS exCode proj2) pMain (absFile exCode mainFile2) = .ok [(pX, 0), (pX, 1), (pY, 0)] := by decide
  unfold resolveDoc
  rw [this]
  rfl

/-- the hypotheses of `C12_from_files_missing` and `C12_from_files_missing_frag` are satisfiable -/
example : RootOKp proj2 pMain mainFile2 ∧
    Reach (envOf exR2) opQ2.sel "Z" ∧ Reach (envOf exR2) fragLZ.sel "Z" ∧
    (∀ f, ExecDef.frag f ∈ mainFile2.defs → f.name ≠ "Z") ∧
    (∀ x f, Spec.InRef pathRes (absFS exCode proj2) pMain (absFile exCode mainFile2) x →
      defAt proj2 x = some (.frag f) → f.name ≠ "Z") := by
  refine ⟨?_, Reach.direct (by decide), Reach.direct (by decide), ?_, ?_⟩
  · intro f hf
    have h3 : some f = some mainFile2 := hf.symm.trans rfl
    injection h3
  · intro f hf
    simp only [mainFile2, List.mem_cons, List.not_mem_nil, or_false, reduceCtorEq, false_or, ExecDef.frag.injEq] at hf
    subst hf; decide
  · intro x f hx hd
    have hr : Spec.refImports pathRes (absFS exCode proj2) pMain (absFile exCode mainFile2) = [(pY, 0), (pX, 0), (pX, 1)] := by
      decide
    have hm := (mem_refImports pathRes _ pMain _ x).mpr hx
    rw [hr] at hm
    simp only [List.mem_cons, List.not_mem_nil, or_false] at hm
    rcases hm with rfl | rfl | rfl
    · have : defAt proj2 (pY, 0) = some (.frag fragY) := rfl
      rw [this] at hd; injection hd with hd; injection hd with hd; subst hd; decide
    · have : defAt proj2 (pX, 0) = some (.frag fragX0) := rfl
      rw [this] at hd; injection hd with hd; injection hd with hd; subst hd; decide
    · have : defAt proj2 (pX, 1) = some (.frag fragX1) := rfl
      rw [this] at hd; injection hd with hd; injection hd with hd; subst hd; decide

/-- a schema for the examples: `type Query { a b c d local: Int }` -/
def exS : Schema := ⟨[
  .typeDef { kind := .scalar, name := "Int" },
  .typeDef { kind := .object, name := "Query",
             fields := [{ name := "a", ty := .named "Int" {} }, { name := "b", ty := .named "Int" {} },
                        { name := "c", ty := .named "Int" {} }, { name := "d", ty := .named "Int" {} },
                        { name := "local", ty := .named "Int" {} }] }]⟩

/-- the hypotheses of `C12_from_files_checked` hold of the diamond project: the operation checker accepts the resolved
    document; and it rejects the document with the undefined spread (`UnknownFragment`, twice: in `Q` and in `LZ`) -/
example : CheckOp.NoReservedFields exS ∧ CheckOp.checkOp exS exR = [] ∧
    (CheckOp.checkOp exS exR2).map (·.1) = [.UnknownFragment, .UnknownFragment] := by
  refine ⟨?_, ?_, ?_⟩
  · show Valid.noReservedFieldsB exS = true; decide
  · decide
  · decide

/-! `C12_from_files_clash`: `main3` defines its own `X0` AND imports `X0` from `x.graphql` -/

def fragX0local : FragmentDef := { name := "X0", cond := "Query", sel := [fld "local"] }
def opQ3 : OperationDef := { kind := .query, name := some ("Q", {}), sel := [spr "X0"] }
def mainFile3 : SrcFile String := ⟨[⟨"x.graphql", 0, .specific [⟨exCode "X0", 0, 0⟩]⟩], [.op opQ3, .frag fragX0local]⟩
def proj3 : Project Paths.P String := [(pMain, mainFile3), (pX, xFile)]

/-- the imported `X0` (selecting `a`) is what the runtime document of `Q` embeds — not the local `X0` (selecting
    `local`) that the module exports under that name; the checker rejects the document (`DuplicateFragmentName`) -/
theorem C12_from_files_clash_witness :
    resolveDoc exCode pathRes proj3 pMain mainFile3 = .ok [.op opQ3, .frag fragX0local, .frag fragX0] ∧
    runtimeDefs [.op opQ3, .frag fragX0local, .frag fragX0] (.op opQ3) = .ok [.op opQ3, .frag fragX0] ∧
    runtimeDefs [.op opQ3, .frag fragX0local, .frag fragX0] (.frag fragX0local) = .ok [.frag fragX0local] ∧
    ¬ (fragNamesOf [.op opQ3, .frag fragX0local, .frag fragX0]).Nodup ∧
    (CheckOp.checkOp exS [.op opQ3, .frag fragX0local, .frag fragX0]).map (·.1) = [.DuplicateFragmentName] := by
  have : resolve pathRes (absFS exCode proj3) pMain (absFile exCode mainFile3) = .ok [(pX, 0)] := by decide
  refine ⟨?_, rfl, rfl, by decide, by decide⟩
  unfold resolveDoc
  rw [this]
  rfl

end Ex

end NitroVerif.C12
