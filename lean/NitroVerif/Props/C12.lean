import NitroVerif.Lemmas.DocJson
import NitroVerif.Lemmas.FragClosure
/-!
# C12 — runtime documents are the source operation plus exactly the fragments it needs

Property theorems only.
Models: `Model/DocJson.lean` (`json_printer/to_json.rs`, `helpers.rs`) and `Model/FragClosure.lean`
(`utils.rs fragment_names_in_selection_set`, `operation_js_printer/printers.rs`, the `fragments` map of
`operation_base_printer/mod.rs`), tied to the code by `harness/src/bin/c12.rs`.
Specification: `Spec/ReadDoc.lean` — the independent reader `readDoc` of graphql-js `DocumentNode` JSON, the
textbook depth-first `closure` over the spread graph, and the inductive relation `Reach` ("transitively spread from").

`Resolved defs` = what the parser + import resolver can produce: operations and fragments only, no empty selection set.
`envOf defs` = name ↦ body of the fragment definition of that name (`getFrag_unique`: THE definition when names are unique).

FROM FILES (second stage, `Props/C12Composed.lean`): the theorems below start from an already import-resolved document;
`C12_from_files*` compose them with C13's import resolver (`Model/Imports.lean`) and state the same for a finite set of
files, a root file and any path resolver — runtime document = `[X] ++` the reference closure over the REFERENCE import
set (`Spec/Imports.lean`), the two outcomes when a reachable fragment is not brought in, and how a name clash between
a local and an imported fragment behaves (the imported one shadows; the checker rejects).
TEXT LEVEL (third stage, `Props/C12Text.lean`): the theorems here are about the JSON TREE; what is emitted is the TEXT
json-writer writes for it, embedded as an object literal behind `const <Name> = ` (JavaScript module, loaders) or
`const <Name>: T = ` (`.graphql.ts`). `C12_text_*` lift the statements to that text with two reference readers written
from the standards (`Spec/JsonText.lean`: RFC 8259 `JSON.parse`; the literal subset of ECMA-262 expressions): every string
is read back (`json_string_roundtrip`), every tree is (`json_text_roundtrip`, `js_literal_roundtrip`), and text → JSON →
`DocumentNode` gives `[X] ++ closure`, positions erased (`C12_text_level`, `C12_text_closure*`, `C12_text_from_files*`),
also in place inside the module text (`C12_text_embedded_js/_ts`, `C12_text_module_js/_ts`).
OPEN — STILL CARRIED BY K/O ONLY: that the models are the code (`harness/src/bin/c12.rs`: JSON trees of three real output
paths and of interleaved loader sessions against `toJson`); that the real printers write the characters the text model
(`PrintMap.jsonText`, the statements of `Lemmas/PrintMapBodyFile.lean`) says — C06's call-by-call comparison and this
property's tree comparison through serde_json (the readers of `Spec/JsonText.lean` are never run on real output); that an
ECMAScript engine reads a literal as `Spec/JsonText.lean JsLit` transcribes ECMA-262 (ES2019+); the parser's reading of the
source text (C07) and that its output is `Resolved`; the glue of the second stage (`materialise`, `findUndefined`: hand
transcriptions) and the operation-checker model `CheckOp.checkOp` its theorems refer to (tied to the code by C03/C08's K).
`C12_panic_only_on_undefined` is stated for operations; for a fragment `C12_terminates` excludes `outOfFuel`, which leaves
`fragmentNotFound` as the only error, and `C12_from_files_missing_frag` shows the reachable undefined name in its setting.
-/
namespace NitroVerif.C12
open NitroVerif NitroVerif.Gql NitroVerif.DocJson NitroVerif.ReadDoc NitroVerif.FragClosure

/-- Reading the emitted JSON back with the independent graphql-js reader gives exactly the source definitions with
    positions erased: operation type, name, variable definitions (type, default value, directives), directives and the
    whole selection tree (aliases, arguments, values of every kind verbatim, nested lists/objects, directives on
    fields / spreads / inline fragments, type conditions) survive, for every document the parser can produce. -/
theorem C12_roundtrip (defs : List ExecDef) (h : Resolved defs) :
    readDoc (toJson defs) = some (erasePos defs) :=
  readDoc_toJson defs h

/-- the hypothesis of `C12_roundtrip` is satisfiable by a non-trivial document -/
example : Resolved
    [.op { kind := .query, name := some ("Q", {}),
           vars := [{ name := "v", ty := .nonNull (.list (.named "Int" {}) {}), default := some (.list [.int "1" {}] {}),
                      dirs := [{ name := "d", args := [("x", {}, .obj [("k", {}, .str "s" {})] {})] }] }],
           dirs := [{ name := "live" }],
           sel := [.field (some ("z", {})) "a" {} [("x", {}, .var "v" {})] [] (some [.spread "F" {} [] {}]),
                   .inline (some ("T", {})) [] [.field none "b" {} [] [] none] {}] },
     .frag { name := "F", cond := "T", sel := [.field none "c" {} [] [] none] }] := by
  decide

/-- Why `Resolved` asks for non-empty selection sets: `write_selection_set` prints nothing for an empty selection
    list, so a field with an EMPTY selection set (not producible by the grammar) prints like a leaf field. -/
theorem C12_roundtrip_needs_nonempty :
    toJson [.op { kind := .query, sel := [.field none "a" {} [] [] (some [])] }] =
    toJson [.op { kind := .query, sel := [.field none "a" {} [] [] none] }] := by
  rfl

/-- The fragment names the code appends to a runtime document are the reference closure of the spreads of the
    definition's selection set, in first-visit order (model = textbook depth-first search over the spread graph). -/
theorem C12_closure_names (defs : List ExecDef) (ss : List Selection) :
    fragmentNames defs ss = closure (envOf defs) defs.length ss :=
  fragmentNames_eq_closure defs ss

/-- The collection terminates on every fragment graph, cyclic ones included: the depth bound the model supplies
    (number of definitions + 1; measure = defined names not yet seen) is never exhausted, so the runtime document of
    every definition is either produced or the code panics on an undefined fragment name — never "out of fuel". -/
theorem C12_terminates (defs : List ExecDef) (x : ExecDef) :
    (∀ ss, ∃ ns, fragmentNames defs ss = some ns) ∧ runtimeDefs defs x ≠ .error .outOfFuel := by
  refine ⟨fragmentNames_total defs, ?_⟩
  cases x with
  | op o =>
    obtain ⟨ns, h⟩ := fragmentNames_total defs o.sel
    simp only [runtimeDefs, opNames, h, withNames]
    cases hl : lookupAll defs ns with
    | ok fs => simp
    | error e =>
      obtain ⟨n, _, _, rfl⟩ := lookupAll_error defs ns e hl
      simp
  | frag f =>
    obtain ⟨ns, h⟩ := fragmentNames_total defs f.sel
    simp only [runtimeDefs, fragNames, h, Option.map_some, withNames]
    cases hl : lookupAll defs (ns.filter fun n => n != f.name) with
    | ok fs => simp
    | error e =>
      obtain ⟨n, _, _, rfl⟩ := lookupAll_error defs _ e hl
      simp
  | imp i => simp [runtimeDefs]

/-- a cyclic fragment graph (A spreads B, B spreads A, A also spreads itself): the collection still terminates,
    with each name once -/
example :
    fragmentNames
      [.op { kind := .query, sel := [.spread "A" {} [] {}] },
       .frag { name := "A", cond := "T", sel := [.spread "B" {} [] {}, .spread "A" {} [] {}] },
       .frag { name := "B", cond := "T", sel := [.field none "x" {} [] [] (some [.spread "A" {} [] {}])] }]
      [.spread "A" {} [] {}] = some ["A", "B"] := by
  decide

/-- Runtime document of an operation: the operation itself followed by the definitions of the reference closure of
    its spreads, each exactly once (no duplicate names), and the operation does not occur again in the tail —
    whenever every transitively spread fragment is defined (which the checker guarantees for accepted documents). -/
theorem C12_closure (defs : List ExecDef) (o : OperationDef)
    (hdef : ∀ n, Reach (envOf defs) o.sel n → (getFrag defs n).isSome) :
    ∃ names, closure (envOf defs) defs.length o.sel = some names ∧ names.Nodup ∧
      runtimeDefs defs (.op o) = .ok (.op o :: fragDefs defs names) ∧
      (fragDefs defs names).length = names.length ∧ ExecDef.op o ∉ fragDefs defs names := by
  obtain ⟨names, h⟩ := fragmentNames_total defs o.sel
  have hc := h
  rw [fragmentNames_eq_closure] at hc
  obtain ⟨hnd, hreach⟩ := closure_good _ _ _ _ hc
  have hall : ∀ n ∈ names, (getFrag defs n).isSome := fun n hn => hdef n ((hreach n).mp hn)
  refine ⟨names, hc, hnd, ?_, ?_, ?_⟩
  · simp [runtimeDefs, opNames, h, withNames, lookupAll_ok defs names hall]
  · have hall' := hall
    clear hreach hnd hc h
    induction names with
    | nil => rfl
    | cons n r ih =>
      have hn := hall' n (by simp)
      cases hg : getFrag defs n with
      | none => simp [hg] at hn
      | some f =>
        have := ih (fun m hm => hall' m (by simp [hm])) (fun m hm => hall' m (by simp [hm]))
        simp only [fragDefs] at this
        simp [fragDefs, hg, this]
  · intro hmem
    obtain ⟨n, g, _, _, he⟩ := (mem_fragDefs defs names _).mp hmem
    cases he

/-- a document satisfying the hypothesis of `C12_closure`, with a non-empty closure -/
example : ∀ n, Reach
    (envOf [.op { kind := .query, sel := [.spread "A" {} [] {}] }, .frag { name := "A", cond := "T", sel := [.field none "x" {} [] [] none] }])
    [.spread "A" {} [] {}] n →
    (getFrag [.op { kind := .query, sel := [.spread "A" {} [] {}] }, .frag { name := "A", cond := "T", sel := [.field none "x" {} [] [] none] }] n).isSome := by
  intro n h
  have hc : closure (envOf [.op { kind := .query, sel := [.spread "A" {} [] {}] }, .frag { name := "A", cond := "T", sel := [.field none "x" {} [] [] none] }]) 2
      [.spread "A" {} [] {}] = some ["A"] := by decide
  have := ((closure_good _ _ _ _ hc).2 n).mpr h
  simp only [List.mem_singleton] at this
  subst this
  decide

/-- Runtime document of a fragment: the fragment itself followed by the definitions of the reference closure of its
    spreads minus its own name (a fragment that is reachable from itself is not repeated), each exactly once; no
    definition of the tail has the fragment's own name. -/
theorem C12_closure_frag (defs : List ExecDef) (f : FragmentDef)
    (hdef : ∀ n, Reach (envOf defs) f.sel n → (getFrag defs n).isSome) :
    ∃ names, closure (envOf defs) defs.length f.sel = some names ∧ names.Nodup ∧
      runtimeDefs defs (.frag f) = .ok (.frag f :: fragDefs defs (names.filter fun n => n != f.name)) ∧
      (names.filter fun n => n != f.name).Nodup ∧
      ∀ g, ExecDef.frag g ∈ fragDefs defs (names.filter fun n => n != f.name) → g.name ≠ f.name := by
  obtain ⟨names, h⟩ := fragmentNames_total defs f.sel
  have hc := h
  rw [fragmentNames_eq_closure] at hc
  obtain ⟨hnd, hreach⟩ := closure_good _ _ _ _ hc
  have hall : ∀ n ∈ names.filter (fun n => n != f.name), (getFrag defs n).isSome :=
    fun n hn => hdef n ((hreach n).mp (List.mem_filter.mp hn).1)
  refine ⟨names, hc, hnd, ?_, hnd.filter _, ?_⟩
  · simp [runtimeDefs, fragNames, h, withNames, lookupAll_ok defs _ hall]
  · intro g hg
    obtain ⟨n, g', hn, hget, he⟩ := (mem_fragDefs defs _ _).mp hg
    cases he
    have := (getFrag_some defs n g hget).1
    have hne := (List.mem_filter.mp hn).2
    rw [this]
    simpa using hne

/-- Completeness and minimality, stated on the emitted definitions: whenever the code produces a runtime document for
    an operation, it is the operation followed by fragment definitions such that a definition is in the tail iff it
    is THE definition of a name transitively spread from the operation (through fields, inline fragments and other
    fragments) — every needed fragment is included, nothing unreachable is, no name twice. -/
theorem C12_closure_complete (defs : List ExecDef) (o : OperationDef) (ds : List ExecDef)
    (h : runtimeDefs defs (.op o) = .ok ds) :
    ∃ names, ds = .op o :: fragDefs defs names ∧ names.Nodup ∧
      (∀ n, n ∈ names ↔ Reach (envOf defs) o.sel n) ∧
      (∀ d, d ∈ fragDefs defs names ↔ ∃ n g, Reach (envOf defs) o.sel n ∧ getFrag defs n = some g ∧ d = .frag g) := by
  obtain ⟨names, hn⟩ := fragmentNames_total defs o.sel
  have hc := hn
  rw [fragmentNames_eq_closure] at hc
  obtain ⟨hnd, hreach⟩ := closure_good _ _ _ _ hc
  simp only [runtimeDefs, opNames, hn, withNames] at h
  cases hl : lookupAll defs names with
  | error e => simp [hl] at h
  | ok fs =>
    simp only [hl, Except.ok.injEq] at h
    obtain ⟨_, hfs⟩ := lookupAll_ok_inv defs names fs hl
    subst hfs
    refine ⟨names, h.symm, hnd, hreach, fun d => ?_⟩
    rw [mem_fragDefs]
    constructor
    · rintro ⟨n, g, hn', hg, rfl⟩; exact ⟨n, g, (hreach n).mp hn', hg, rfl⟩
    · rintro ⟨n, g, hr, hg, rfl⟩; exact ⟨n, g, (hreach n).mpr hr, hg, rfl⟩

/-- The same for the runtime document of a fragment (its own name excluded). -/
theorem C12_closure_complete_frag (defs : List ExecDef) (f : FragmentDef) (ds : List ExecDef)
    (h : runtimeDefs defs (.frag f) = .ok ds) :
    ∃ names, ds = .frag f :: fragDefs defs names ∧ names.Nodup ∧
      (∀ n, n ∈ names ↔ (Reach (envOf defs) f.sel n ∧ n ≠ f.name)) := by
  obtain ⟨names, hn⟩ := fragmentNames_total defs f.sel
  have hc := hn
  rw [fragmentNames_eq_closure] at hc
  obtain ⟨hnd, hreach⟩ := closure_good _ _ _ _ hc
  simp only [runtimeDefs, fragNames, hn, Option.map_some, withNames] at h
  cases hl : lookupAll defs (names.filter fun n => n != f.name) with
  | error e => simp [hl] at h
  | ok fs =>
    simp only [hl, Except.ok.injEq] at h
    obtain ⟨_, hfs⟩ := lookupAll_ok_inv defs _ fs hl
    subst hfs
    refine ⟨_, h.symm, hnd.filter _, fun n => ?_⟩
    simp only [List.mem_filter, hreach, bne_iff_ne, ne_eq]

/-- The only way the code fails to produce a runtime document: a transitively spread name has no definition
    (`expect("fragment not found")`); accepted documents have none. -/
theorem C12_panic_only_on_undefined (defs : List ExecDef) (o : OperationDef) (e : RtErr)
    (h : runtimeDefs defs (.op o) = .error e) :
    ∃ n, e = .fragmentNotFound n ∧ Reach (envOf defs) o.sel n ∧ getFrag defs n = none := by
  obtain ⟨names, hn⟩ := fragmentNames_total defs o.sel
  have hc := hn
  rw [fragmentNames_eq_closure] at hc
  obtain ⟨_, hreach⟩ := closure_good _ _ _ _ hc
  simp only [runtimeDefs, opNames, hn, withNames] at h
  cases hl : lookupAll defs names with
  | ok fs => simp [hl] at h
  | error e' =>
    simp only [hl, Except.error.injEq] at h
    subst h
    obtain ⟨n, hm, hg, he⟩ := lookupAll_error defs names e' hl
    exact ⟨n, he, (hreach n).mp hm, hg⟩

/-- When fragment names are unique (accepted documents), the environment maps a name to THE fragment definition of that
    name in the document — local or imported. -/
theorem C12_env_is_the_definition (defs : List ExecDef) (hu : (fragNamesOf defs).Nodup) (f : FragmentDef)
    (hf : ExecDef.frag f ∈ defs) : getFrag defs f.name = some f ∧ envOf defs f.name = some f.sel := by
  have := getFrag_unique defs hu f hf
  exact ⟨this, by simp [envOf, envOfGet, this]⟩

end NitroVerif.C12
