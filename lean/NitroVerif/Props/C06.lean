import NitroVerif.Lemmas.SourceMap
/-!
# C06 — emitted source maps are valid and point at the defining GraphQL tokens

Property theorems only. Model: `NitroVerif/Model/SourceMap.lean` (tied to `crates/sourcemap-writer`
and to `FileMap` in `crates/cli/src/generate.rs` by the correspondence check `harness/src/bin/c06.rs`).
Reference decoder: `NitroVerif/Spec/SourceMap.lean` (Source Map v3 / ECMA-426, independent of the model).

Integer ranges. The model's VLQ encoder works on unbounded `Int`; the Rust `base64_vlq` takes an
`isize` and uses `unsigned_abs`, so it computes the same digits for EVERY `isize`, `isize::MIN`
included (|isize::MIN| = 2^63 fits `usize`) — `vlq_roundtrip` therefore covers the real code on
the whole of [-2^63, 2^63). The harness runs the real function at all ±2^k, ±2^k±1 (k ≤ 62),
`isize::MIN`, `isize::MIN+1`, `isize::MAX`. Deltas are computed by the Rust code as
`(a as isize) - (b as isize)`: `toIsize` models the cast exactly; the subtraction is exact in the
model and panics in a debug build when it leaves the `isize` range (`addEntry?`, compared in K).
All theorems below are about the decoded values `toIsize field`, so they hold with no range
hypothesis; for fields < 2^63 (every real file) `toIsize` is the identity (`toIsize_small`).

The printers' CALL SITES (which node a `write_for` passes, with which text) are modelled in `Model/PrintMap.lean` and proved
in `Props/C06Sites.lean` (whole call sequence of the schema and resolver type printers, mapped calls of the two operation
printers; composed there with `named_segment_text` / `writer_mappings_decode` of this file).

OPEN — carried by K/O only (no theorem): original positions are at token starts IN THE SOURCE TEXT (the AST positions are
taken as given here; checked on the real output against the real input files — and violated when an astral character precedes
the token on its line, known finding `e2e:original-column-counts-code-points`, still open); the resolver printer's plugins (see the OPEN
block of `Props/C06Sites.lean`; the bodies of the operation printers are modelled and proved in `Props/C06Bodies.lean`);
the exact amount of indentation the writer inserts (modelled in `run`, compared by K `ops`; no theorem states the column of
a line's first token — see the OPEN block of `Props/C06Bodies.lean`); the schema-file mapper of `FileMap`
(`fileIndicesSchema`: modelled, compared by K `e2e:sources-list`; `file_remap_in_range` is about the operation mapper);
the JSON rendering of the map and the relative paths in `sources` (comment at the end of this file).
Every writer theorem below takes the existence of the run (`run … = some st`, i.e. no panic) as a hypothesis; for printer call
sequences it is discharged by `printer_calls_do_not_panic` (`Props/C06Sites.lean`) under `FilesInMapper`.
-/
namespace NitroVerif.SourceMap
open NitroVerif.SourceMapSpec (b64Val vlqDecode decodeMappings Segment strictSegments strictGo)

/-! ## base64 / VLQ -/

/-- The extracted `BASE64_CHARS` table is the RFC 4648 alphabet (in order), has 64 distinct
    entries, and the specification's character→value function inverts it on every digit. -/
theorem base64_table :
    base64Chars = "ABCDEFGHIJKLMNOPQRSTUVWXYZabcdefghijklmnopqrstuvwxyz0123456789+/".toList ∧
    base64Chars.length = 64 ∧ base64Chars.Nodup ∧
    (∀ d, d < 64 → b64Val (b64Char d) = some d) ∧
    (∀ d, d < 64 → b64Char d ≠ ';' ∧ b64Char d ≠ ',') := by
  refine ⟨by decide, by decide, by decide, fun d h => (b64_table d h).1, fun d h => (b64_table d h).2⟩

/-- For ALL integers n (no range): the reference VLQ decoder reads the encoder's digits for n back
    as n and leaves whatever follows untouched. -/
theorem vlq_roundtrip (n : Int) (rest : List Nat) :
    vlqDecode (vlqEncode n ++ rest) = some (n, rest) :=
  vlqDecode_encode n rest

/-- Every digit the encoder emits is a base64 digit value (< 64, so `BASE64_CHARS[d]` never
    panics); the continuation bit (32) is set on all digits but the last and clear on the last. -/
theorem vlq_wellformed (n : Int) :
    ∃ init last, vlqEncode n = init ++ [last] ∧ last < 32 ∧ ∀ d ∈ init, 32 ≤ d ∧ d < 64 := by
  unfold vlqEncode
  simp only
  by_cases h16 : n.natAbs < 16
  · simp only [h16, if_true]
    exact ⟨[], (if n < 0 then 1 else 0) + 2 * n.natAbs, by simp, by split <;> omega, by simp⟩
  · simp only [h16, if_false]
    obtain ⟨init, last, e, hl, hi⟩ := vlqRest_shape (n.natAbs / 16) (by omega)
    refine ⟨_ :: init, last, by rw [e]; rfl, hl, ?_⟩
    intro d hd
    simp only [List.mem_cons] at hd
    rcases hd with rfl | hd
    · split <;> omega
    · exact hi d hd

/-- `as isize` is the identity on every value below 2^63 (all real line/column/index values) -/
theorem toIsize_small (n : Nat) (h : n < 2 ^ 63) : toIsize n = (n : Int) := by
  unfold toIsize
  have h1 : n % 2 ^ 64 = n := Nat.mod_eq_of_lt (by omega)
  simp [h1, h]

/-- `usize::MAX as isize = -1`: how an unmapped file index becomes source index −1 -/
theorem toIsize_usizeMax : toIsize usizeMax = -1 := by decide

/-! ## mappings -/

/-- entries grouped by generated line: one list of segments per line 0 … last line -/
def groupByLine (es : List Entry) : List (List Segment) := groupFrom 0 [] es

/-- For ANY sequence of entries whose generated line never decreases (what `SourceWriter` produces,
    see `writer_mappings_decode`), the reference decoder reads the text `MappingWriter` produced back
    as exactly these entries (each field `as isize`), grouped by generated line: relative fields,
    per-line reset of the generated column, 4- and 5-field segments, runs of `;` for skipped lines. -/
theorem mappings_roundtrip (es : List Entry) (h : Mono 0 es) :
    decodeMappings (encodeAll es) = some (groupByLine es) := by
  unfold encodeAll decodeMappings groupByLine
  rw [foldl_addEntry_buf]
  simp only [MState.init, List.nil_append]
  exact decodeGo_encodeFrom es MState.init _ [] [] _ [] h (closeSeg_nil _ _) syncO_init rfl

/-- what "grouped by line" means: reading the decoded lines in order, with their line numbers,
    gives back the entry sequence itself — nothing lost, nothing invented, order kept -/
theorem mappings_roundtrip_flat (es : List Entry) (h : Mono 0 es) :
    (decodeMappings (encodeAll es)).map (flattenFrom 0) = some (es.map fun e => (e.genLine, segOf e)) := by
  rw [mappings_roundtrip es h]
  simp [groupByLine, flatten_groupFrom es 0 [] h]

/-- The emitted text contains an empty segment (a `,` with nothing before it) exactly when the very
    first entry is on generated line 0: `add_entry` writes `,` before every entry that does not start
    a new line, the first one included. ECMA-426's decoding algorithm skips empty segments (so does
    `decodeMappings`, and `mappings_roundtrip` holds regardless); a strict reader of "1, 4 or 5
    fields" would not. Unreachable from the CLI (line 0 of every generated file is an unmapped
    header line; the harness counts it on every emitted map) — recorded as a note, not a violation. -/
theorem mappings_strict_iff (e : Entry) (es : List Entry) (h : Mono 0 (e :: es)) :
    strictSegments (encodeAll (e :: es)) = true ↔ e.genLine ≠ 0 := by
  unfold encodeAll strictSegments
  rw [foldl_addEntry_buf]
  simp only [MState.init, List.nil_append, encodeFrom, emit_eq]
  obtain ⟨_, hm'⟩ := h
  have hdig := flatMap_vlq_digits (fieldsOf ⟨[], 0, 0, 0, 0, 0, 0, []⟩ e)
  have hnn := fields_digits_ne_nil ⟨[], 0, 0, 0, 0, 0, 0, []⟩ e
  by_cases h0 : e.genLine = 0
  · have hb : ((0 : Nat) != e.genLine) = false := by simp [h0]
    simp [h0, strictGo]
  · have hb : ((0 : Nat) != e.genLine) = true := by simp only [bne_iff_ne, ne_eq]; omega
    obtain ⟨k, hk⟩ : ∃ k, e.genLine - 0 = k + 1 := ⟨e.genLine - 1, by omega⟩
    have hne : ¬ ((';' : Char) = ',') := by decide
    simp only [hb, hk, if_true, List.append_nil, List.replicate_succ, List.cons_append, List.append_assoc]
    simp only [strictGo, hne, if_false, if_true]
    rw [strictGo_semis, strictGo_digits _ hdig hnn]
    simp only [h0, ne_eq, not_false_eq_true, iff_true]
    exact strictGo_encodeFrom es _ _ hm'


/-- non-vacuity: a monotone sequence with a skipped line, a name, and the `usize::MAX` file index -/
example : Mono 0 [⟨0, 4, 1, 2, 0, some 0⟩, ⟨0, 9, 1, 3, 0, none⟩, ⟨3, 0, 7, 0, usizeMax, some 1⟩] := by
  simp [Mono]

/-- The monotonicity hypothesis cannot be dropped from the model either: the Rust code computes
    `generated_line - last_generated_line` in `usize` and panics when the line decreases. -/
theorem mappings_decreasing_line_panics :
    addEntry? (addEntry MState.init ⟨2, 0, 0, 0, 0, none⟩) ⟨1, 0, 0, 0, 0, none⟩ = none := by
  decide

/-! ## names -/

/-- Whatever the cache does (any policy that never invents an entry — LRU eviction, no eviction,
    evict everything): the index `map_name` returns is inside the names table and the table holds
    the requested name there; the table only grows at the end, so this stays true for ever. -/
theorem names_sound (p : Policy) (hp : p.Sound) (st : NState) (name : List Char) (hinv : NInv st) :
    let r := mapName p st name
    r.2 < r.1.names.length ∧ r.1.names[r.2]? = some name ∧ NInv r.1 ∧ ∃ suf, r.1.names = st.names ++ suf := by
  obtain ⟨h1, h2, h3⟩ := mapName_spec p hp st name hinv
  refine ⟨?_, h2, h1, h3⟩
  have := h2
  rw [List.getElem?_eq_some_iff] at this
  exact this.1

/-- the same for a whole run from the empty mapper: the i-th returned index points at the i-th
    requested name in the FINAL names table -/
theorem names_sound_run (p : Policy) (hp : p.Sound) (ns : List (List Char)) :
    let r := mapNames p NState.init ns
    r.2.length = ns.length ∧ ∀ x ∈ ns.zip r.2, r.1.names[x.2]? = some x.1 := by
  have h0 : NInv NState.init := by intro x hx; cases hx
  obtain ⟨_, _, h3, h4⟩ := mapNames_spec p hp ns NState.init h0
  exact ⟨h3, h4⟩

/-- the hypotheses are met by the cache the code uses (capacity-10 LRU) -/
example : Policy.Sound lruPolicy := lruPolicy_sound

/-! ## writer -/

/-- After ANY sequence of operations (write / write_for / indent / dedent / set mapper) that does
    not panic, the writer's (current_line, current_column) is exactly the cursor of the emitted
    buffer — number of '\n', UTF-16 units since the last one — and an indentation is only ever
    pending at column 0 (the buffer then ends with '\n' or is empty: the pending-indent rule). -/
theorem writer_cursor (p : Policy) (ops : List Op) (st : WState) (h : run p WState.init ops = some st) :
    cursorOf st.buf = (st.line, st.col) ∧ (st.pending = true → st.col = 0) :=
  winv_run p ops _ _ winv_init h

/-- Every entry the writer recorded has as generated position the cursor of a prefix of the final
    buffer (so every segment lies inside the generated text), and generated lines never decrease. -/
theorem writer_segments_inside (p : Policy) (ops : List Op) (st : WState) (h : run p WState.init ops = some st) :
    Mono 0 st.mapping.log ∧
    ∀ e ∈ st.mapping.log, ∃ pre suf, st.buf = pre ++ suf ∧ cursorOf pre = (e.genLine, e.genCol) := by
  obtain ⟨_, hb, _, hd⟩ := wminv_run p ops _ _ wminv_init winv_init h
  exact ⟨hb, hd⟩

/-- The `mappings` text of ANY writer run decodes (reference decoder) to exactly the entries the
    writer recorded, grouped by generated line. -/
theorem writer_mappings_decode (p : Policy) (ops : List Op) (st : WState) (h : run p WState.init ops = some st) :
    decodeMappings st.mapping.buf = some (groupByLine st.mapping.log) := by
  obtain ⟨ha, hb, _, _⟩ := wminv_run p ops _ _ wminv_init winv_init h
  have := mappings_roundtrip st.mapping.log hb
  unfold encodeAll at this
  rw [← ha] at this
  exact this

/-- `write_for chunk node` for a named, non-builtin node and a chunk without line break, in any
    state reached by a run: exactly two entries are recorded, (g₁, o, name) and (g₂, o + utf16(name));
    the generated text between g₁ and g₂ is the chunk (g₁ is the cursor just before it — after a
    pending indentation, which consists of spaces only — g₂ the cursor just after it), both on one
    line; the name index points at the node's name; the closing entry carries no name. -/
theorem named_segment_text (p : Policy) (hp : p.Sound) (ops : List Op) (st st' : WState)
    (chunk nm : List Char) (node : Node)
    (h : run p WState.init ops = some st)
    (hb : node.builtin = false) (hname : node.name = some nm) (hnl : '\n' ∉ chunk)
    (hr : writeFor p st chunk node = some st') (hn : NInv st.names) :
    ∃ (fileIndex idx l c : Nat) (pre ind : List Char),
      st'.mapping.log = st.mapping.log ++
        [⟨l, c, node.line, node.col, fileIndex, some idx⟩,
         ⟨l, c + utf16Len chunk, node.line, node.col + utf16Len nm, fileIndex, none⟩] ∧
      st'.buf = pre ++ chunk ∧ pre = st.buf ++ ind ∧ (∀ x ∈ ind, x = ' ') ∧
      cursorOf pre = (l, c) ∧ cursorOf st'.buf = (l, c + utf16Len chunk) ∧
      st'.names.names[idx]? = some nm := by
  have hw := winv_run p ops _ _ winv_init h
  obtain ⟨fi, pre, ind, l, c, h1, h2, h3, h4, h5, h6, h7⟩ := writeFor_named p st st' chunk nm node hw hb hname hnl hr
  refine ⟨fi, _, l, c, pre, ind, h1, h2, h3, h4, h5, h6, ?_⟩
  rw [h7]
  exact (mapName_spec p hp st.names nm hn).2.1

/-- The generated position of an UNNAMED node's segment is the cursor before a pending indentation
    is flushed (DESIGN §9-ao): first on an indented line it is column 0, not the chunk start.
    Harmless for C06 (the segment is still inside the text and ordered); kept as a kernel-checked fact. -/
theorem unnamed_segment_before_indent :
    (run lruPolicy WState.init
      [.indent, .write ['x', '\n'], .writeFor ['y'] ⟨1, 2, 0, false, none⟩]).map
      (fun st => (st.buf, st.mapping.log)) =
    some (['x', '\n', ' ', ' ', 'y'], [⟨1, 0, 1, 2, 0, none⟩]) := by
  decide

/-! ## FileMap: file-store index → `sources` index (cli/src/generate.rs) -/

/-- For the declaration file of an operation document, with `nSchema` schema files followed by
    `nOps` operation files in the file store and `used` = the operation files the document's
    definitions come from (its own file and the files of `#import`ed fragments): EVERY position in a
    schema file or in one of these files is mapped to an index that is not the `usize::MAX` marker,
    lies inside `sources`, and `sources` holds exactly that file there. (Repaired behaviour, commit
    777cac3; `sources[i]` is then rendered relative to the map by `relative_path` — C20.) -/
theorem file_remap_in_range (nSchema nOps : Nat) (used : List Nat) (f : Nat)
    (hf : f < nSchema + nOps) (hk : keptFile nSchema used f) (hsmall : 2 * nSchema + nOps < usizeMax) :
    ∃ i, (fileIndicesOp nSchema nOps used)[f]? = some i ∧ i ≠ usizeMax ∧
      (sourceFiles (fileIndicesOp nSchema nOps used))[i]? = some f := by
  have := fileIndicesOpGo_spec nSchema used (nSchema + nOps) 0 nSchema []
    (by split <;> simp_all) (fun _ => rfl) (by omega) (by omega) f (by omega) (by omega) hk
  simpa [fileIndicesOp, sourceFiles] using this

/-- non-vacuity: 2 schema files, 3 operation files, the document is file 4 and imports from file 2 -/
example : keptFile 2 [2, 4] 4 ∧ keptFile 2 [2, 4] 2 ∧ keptFile 2 [2, 4] 1 ∧
    fileIndicesOp 2 3 [2, 4] = [0, 1, 2, usizeMax, 3] ∧ sourceFiles (fileIndicesOp 2 3 [2, 4]) = [0, 1, 2, 4] :=
  ⟨Or.inr (by decide), Or.inr (by decide), Or.inl (by decide), by decide, by decide⟩

/-- The pinned behaviour before the repair (DESIGN §9-s), kept as a kernel-checked counterexample:
    with one schema file and the operation files 1 (the document) and 2 (an imported fragment's
    file), a position in file 2 was mapped to `usize::MAX`, which `add_entry` writes as source index −1. -/
theorem file_remap_imported_counterexample :
    (fileIndicesOpOld 1 2 1)[2]? = some usizeMax ∧ toIsize usizeMax = -1 ∧
    sourceFiles (fileIndicesOpOld 1 2 1) = [0, 1] := by
  decide

/-
`sources_resolve` (DESIGN §4-C06): `print_source_map_json` writes
`sources[i] = relative_path(generated file, source file i)` and the map lies in the generated file's
directory, so resolving the entry against that directory gives the source file's normalised location.
This is literally C20's `Paths.resolve_relative` (for all absolute, non-climbing paths) and is NOT
restated here: importing `Props/C20` would couple the two properties' builds (a thorough run of one
deletes and rebuilds the other's object files while it is being audited). On the real code the clause is
checked by O: every `sources` entry of every emitted map is resolved against the file system.
-/

end NitroVerif.SourceMap
