import NitroVerif.Props.C05
import NitroVerif.Lemmas.CheckTsAssemble
import NitroVerif.Lemmas.ValidTsClosure
/-!
# C05, completeness direction: a document that is valid under the rules of `Spec/ValidTs.lean` gets no
diagnostic from (the model of) `check_type_system_document`

Family by family ("this kind of diagnostic is never pushed"), then `C05_complete`.
-/
namespace NitroVerif.CheckTs
open NitroVerif.Gql NitroVerif.ValidTs

/-! ## UnknownType / NoInputType / NoOutputType at type positions -/

/-- With all referenced types defined and only input types in input positions, no argument (of a field or a
    directive definition) and no input-object field gets `UnknownType` or `NoOutputType`. -/
theorem C05_complete_inputValueTypes (T : TsDoc) (hk : knownTypeRefs T = true) (hi : inputPositions T = true) :
    ∀ v ∈ inputValues T, ∃ k, (Schema.mk T).kindOf? v.ty.unwrapped = some k ∧ Schema.isInputKind k = true ∧
      checkInputValueType ⟨T⟩ v.ty = [] := by
  intro v hv
  simp only [knownTypeRefs, Bool.and_eq_true, List.all_eq_true] at hk
  simp only [inputPositions, List.all_eq_true] at hi
  obtain ⟨k, hkk⟩ := kindOf_of_known (hk.2 v hv)
  have := hi v hv
  rw [hkk] at this
  have hik : Schema.isInputKind k = true := by
    cases k <;> first | rfl | (simp at this)
  exact ⟨k, hkk, hik, inputValueType_eq_nil hkk hik⟩

/-- With all referenced types defined and no input object in an output position, no field of an object or
    interface type gets `UnknownType` or `NoInputType`. -/
theorem C05_complete_outputFieldTypes (T : TsDoc) (hk : knownTypeRefs T = true) (ho : outputPositions T = true) :
    ∀ t ∈ ValidTs.typeDefs T, ∀ f ∈ fieldsOfT t, checkOutputFieldType ⟨T⟩ f.ty = [] := by
  intro t ht f hf
  simp only [knownTypeRefs, Bool.and_eq_true, List.all_eq_true] at hk
  simp only [outputPositions, List.all_eq_true] at ho
  obtain ⟨k, hkk⟩ := kindOf_of_known ((hk.1 t ht).1.1 f hf)
  have := ho t ht f hf
  rw [hkk] at this
  exact outputFieldType_eq_nil hkk (by simpa using this)

theorem mem_inputValues_of_argList {T : TsDoc} {as : List InputValueDef} (h : as ∈ argLists T) :
    ∀ a ∈ as, a ∈ inputValues T := by
  intro a ha
  simp only [inputValues, List.mem_append, List.mem_flatten]
  exact Or.inl ⟨as, h, ha⟩

theorem inputTypesOk_of (T : TsDoc) (hk : knownTypeRefs T = true) (hi : inputPositions T = true) :
    InputTypesOk ⟨T⟩ := by
  intro n td htd hkind ef hef
  have hmem := (typeDef_mem htd).1
  have : ef ∈ inputValues T := by
    simp only [inputValues, List.mem_append, List.mem_flatMap]
    exact Or.inr ⟨td, hmem, by simp [inputsOfT, hkind, hef]⟩
  obtain ⟨k, h1, h2, _⟩ := C05_complete_inputValueTypes T hk hi ef this
  exact ⟨k, h1, h2⟩

theorem inputsNodup_of_spec (T : TsDoc) (hu : uniqueFields T = true) : InputsNodup ⟨T⟩ := by
  intro n td htd hkind
  simp only [uniqueFields, List.all_eq_true, Bool.and_eq_true] at hu
  have := (hu td (typeDef_mem htd).1).2
  have hin : inputsOfT td = td.inputs := by simp [inputsOfT, hkind]
  rw [hin] at this
  exact (noDup_iff_nodup _).mp this

/-! ## directive applications: UnknownDirective, DirectiveLocationNotAllowed, RepeatedDirective,
    ArgumentsNotNeeded, RequiredArgumentNotSpecified, UnknownArgument, TypeMismatch, UnknownEnumMember,
    UnknownVariable, TypeSystemError -/

/-- Under the directive rules of the specification (defined, located, unique, arguments declared / given /
    of the right type / not repeated) plus the rules that make argument types meaningful, no directive
    application at any type-system location gets a diagnostic. -/
theorem C05_complete_directiveSites (T : TsDoc)
    (hdef : directivesDefined T = true) (hloc : directivesLocated T = true) (huniq : directivesUnique T = true)
    (hargs : directiveArgs T = true) (hnames : directiveArgNamesUnique T = true)
    (huargs : uniqueArgs T = true) (huf : uniqueFields T = true)
    (hk : knownTypeRefs T = true) (hi : inputPositions T = true) :
    ∀ s ∈ dirSites T, checkDirectives ⟨T⟩ s.1 s.2 = [] := by
  intro s hs
  unfold checkDirectives
  apply checkDirectivesAux_eq_nil
  intro d hd
  simp only [directivesDefined, List.all_eq_true] at hdef
  simp only [directivesLocated, List.all_eq_true] at hloc
  simp only [directivesUnique, List.all_eq_true] at huniq
  simp only [directiveArgs, List.all_eq_true] at hargs
  simp only [directiveArgNamesUnique, List.all_eq_true] at hnames
  have h1 := hdef s hs d hd
  cases hdf : (Schema.mk T).directiveDef? d.name with
  | none => rw [hdf] at h1; simp at h1
  | some df =>
    have h2 := hloc s hs d hd
    have h3 := huniq s hs d hd
    have h4 := hargs s hs d hd
    rw [hdf] at h2 h3 h4
    dsimp only at h2 h3 h4
    have hdfmem : df ∈ ValidTs.directiveDefs T := by
      unfold Schema.directiveDef? at hdf
      exact List.mem_of_find?_eq_some hdf
    have hal : df.args ∈ argLists T := by
      simp only [argLists, List.mem_append, List.mem_map]
      exact Or.inr ⟨df, hdfmem, rfl⟩
    have hnd : (df.args.map (·.name)).Nodup := by
      simp only [uniqueArgs, List.all_eq_true] at huargs
      exact (noDup_iff_nodup _).mp (huargs _ hal)
    simp only [directiveArgsOk, Bool.and_eq_true, List.all_eq_true, Bool.or_eq_true, Bool.not_eq_true'] at h4
    refine ⟨df, rfl, h2, ?_, ?_⟩
    · apply checkArguments_eq_nil hnd ((noDup_iff_nodup _).mp (hnames s hs d hd))
      · intro a ha
        have := h4.1 a ha
        cases hf : df.args.find? (·.name == a.1) with
        | none => rw [hf] at this; simp at this
        | some ad =>
          rw [hf] at this
          refine ⟨ad, rfl, ?_⟩
          have hadm : ad ∈ df.args := List.mem_of_find?_eq_some hf
          obtain ⟨k, hkk, hik, _⟩ := C05_complete_inputValueTypes T hk hi ad
            (mem_inputValues_of_argList hal ad hadm)
          exact checkValue_complete (inputsNodup_of_spec T huf) (inputTypesOk_of T hk hi) _ _ (Nat.le_refl _)
            _ k hkk hik this
      · intro ad had; exact h4.2 ad had
    · rcases Bool.or_eq_true _ _ |>.mp h3 with hr | hc
      · exact Or.inl hr
      · exact Or.inr ⟨(by intro hin; cases hin), (by simpa using hc)⟩

/-! ## the directive sites of a definition -/

theorem site_type {T : TsDoc} {t : TypeDef} (ht : t ∈ ValidTs.typeDefs T) :
    (specLocation t.kind, t.dirs) ∈ dirSites T := by
  simp only [dirSites, List.mem_flatMap]
  exact ⟨.typeDef t, mem_typeDefs.mp ht, by simp⟩

theorem site_field {T : TsDoc} {t : TypeDef} (ht : t ∈ ValidTs.typeDefs T) {f : FieldDef} (hf : f ∈ fieldsOfT t) :
    ("FIELD_DEFINITION", f.dirs) ∈ dirSites T := by
  simp only [dirSites, List.mem_flatMap]
  refine ⟨.typeDef t, mem_typeDefs.mp ht, ?_⟩
  simp only [List.mem_cons, List.mem_append, List.mem_flatMap, List.mem_map]
  exact Or.inl (Or.inl (Or.inr ⟨f, hf, Or.inl rfl⟩))

theorem site_fieldArg {T : TsDoc} {t : TypeDef} (ht : t ∈ ValidTs.typeDefs T) {f : FieldDef} (hf : f ∈ fieldsOfT t)
    {a : InputValueDef} (ha : a ∈ f.args) : ("ARGUMENT_DEFINITION", a.dirs) ∈ dirSites T := by
  simp only [dirSites, List.mem_flatMap]
  refine ⟨.typeDef t, mem_typeDefs.mp ht, ?_⟩
  simp only [List.mem_cons, List.mem_append, List.mem_flatMap, List.mem_map]
  exact Or.inl (Or.inl (Or.inr ⟨f, hf, Or.inr ⟨a, ha, rfl⟩⟩))

theorem site_value {T : TsDoc} {t : TypeDef} (ht : t ∈ ValidTs.typeDefs T) {v : EnumValueDef} (hv : v ∈ valuesOfT t) :
    ("ENUM_VALUE", v.dirs) ∈ dirSites T := by
  simp only [dirSites, List.mem_flatMap]
  refine ⟨.typeDef t, mem_typeDefs.mp ht, ?_⟩
  simp only [List.mem_cons, List.mem_append, List.mem_flatMap, List.mem_map]
  exact Or.inl (Or.inr ⟨v, hv, rfl⟩)

theorem site_input {T : TsDoc} {t : TypeDef} (ht : t ∈ ValidTs.typeDefs T) {f : InputValueDef} (hf : f ∈ inputsOfT t) :
    ("INPUT_FIELD_DEFINITION", f.dirs) ∈ dirSites T := by
  simp only [dirSites, List.mem_flatMap]
  refine ⟨.typeDef t, mem_typeDefs.mp ht, ?_⟩
  simp only [List.mem_cons, List.mem_append, List.mem_flatMap, List.mem_map]
  exact Or.inr ⟨f, hf, rfl⟩

theorem site_dirArg {T : TsDoc} {d : DirectiveDef} (hd : d ∈ ValidTs.directiveDefs T) {a : InputValueDef}
    (ha : a ∈ d.args) : ("ARGUMENT_DEFINITION", a.dirs) ∈ dirSites T := by
  simp only [dirSites, List.mem_flatMap]
  exact ⟨.directiveDef d, mem_directiveDefs.mp hd, by simp only [List.mem_map]; exact ⟨a, ha, rfl⟩⟩

theorem site_schema {T : TsDoc} {sd : SchemaDef} (hd : sd ∈ ValidTs.schemaDefs T) :
    ("SCHEMA", sd.dirs) ∈ dirSites T := by
  simp only [dirSites, List.mem_flatMap]
  exact ⟨.schemaDef sd, mem_schemaDefs.mp hd, by simp⟩

/-! ## the rules as a bundle -/

/-- all the rules of `Spec/ValidTs.lean` (= `tsSpecValid T = true`, field by field) -/
structure Rules (T : TsDoc) : Prop where
  reservedNames : ValidTs.reservedNames T = true
  uniqueFields : ValidTs.uniqueFields T = true
  uniqueArgs : ValidTs.uniqueArgs T = true
  uniqueEnumValues : ValidTs.uniqueEnumValues T = true
  uniqueUnionMembers : ValidTs.uniqueUnionMembers T = true
  uniqueTypeDefs : ValidTs.uniqueTypeDefs T = true
  knownTypes : ValidTs.knownTypes T = true
  outputPositions : ValidTs.outputPositions T = true
  inputPositions : ValidTs.inputPositions T = true
  implementsInterfaces : ValidTs.implementsInterfaces T = true
  noSelfImplements : ValidTs.noSelfImplements T = true
  transitiveInterfaces : ValidTs.transitiveInterfaces T = true
  ifaceFieldsPresent : ValidTs.ifaceFieldsPresent T = true
  ifaceFieldsCovariant : ValidTs.ifaceFieldsCovariant T = true
  ifaceFieldArgs : ValidTs.ifaceFieldArgs T = true
  unionMembersObjects : ValidTs.unionMembersObjects T = true
  directivesDefined : ValidTs.directivesDefined T = true
  directivesLocated : ValidTs.directivesLocated T = true
  directivesUnique : ValidTs.directivesUnique T = true
  directiveArgs : ValidTs.directiveArgs T = true
  noRecursiveDirectives : ValidTs.noRecursiveDirectives T = true
  uniqueTypeNames : ValidTs.uniqueTypeNames T = true
  uniqueDirectiveNames : ValidTs.uniqueDirectiveNames T = true
  directiveArgNamesUnique : ValidTs.directiveArgNamesUnique T = true

theorem rules_of_valid {T : TsDoc} (h : tsSpecValid T = true) : Rules T := by
  simp only [tsSpecValid, Bool.and_eq_true] at h
  obtain ⟨⟨⟨⟨⟨⟨⟨⟨⟨⟨⟨⟨⟨⟨⟨⟨⟨⟨⟨⟨⟨⟨⟨h_reservedNames, h_uniqueFields⟩, h_uniqueArgs⟩, h_uniqueEnumValues⟩, h_uniqueUnionMembers⟩, h_uniqueTypeDefs⟩, h_knownTypes⟩, h_outputPositions⟩, h_inputPositions⟩, h_implementsInterfaces⟩, h_noSelfImplements⟩, h_transitiveInterfaces⟩, h_ifaceFieldsPresent⟩, h_ifaceFieldsCovariant⟩, h_ifaceFieldArgs⟩, h_unionMembersObjects⟩, h_directivesDefined⟩, h_directivesLocated⟩, h_directivesUnique⟩, h_directiveArgs⟩, h_noRecursiveDirectives⟩, h_uniqueTypeNames⟩, h_uniqueDirectiveNames⟩, h_directiveArgNamesUnique⟩ := h
  exact ⟨h_reservedNames, h_uniqueFields, h_uniqueArgs, h_uniqueEnumValues, h_uniqueUnionMembers, h_uniqueTypeDefs, h_knownTypes, h_outputPositions, h_inputPositions, h_implementsInterfaces, h_noSelfImplements, h_transitiveInterfaces, h_ifaceFieldsPresent, h_ifaceFieldsCovariant, h_ifaceFieldArgs, h_unionMembersObjects, h_directivesDefined, h_directivesLocated, h_directivesUnique, h_directiveArgs, h_noRecursiveDirectives, h_uniqueTypeNames, h_uniqueDirectiveNames, h_directiveArgNamesUnique⟩

theorem Rules.knownTypeRefs {T : TsDoc} (R : Rules T) : ValidTs.knownTypeRefs T = true := by
  have := R.knownTypes
  simp only [ValidTs.knownTypes, Bool.and_eq_true] at this
  exact this.1

theorem Rules.sites {T : TsDoc} (R : Rules T) : ∀ s ∈ dirSites T, checkDirectives ⟨T⟩ s.1 s.2 = [] :=
  C05_complete_directiveSites T R.directivesDefined R.directivesLocated R.directivesUnique R.directiveArgs
    R.directiveArgNamesUnique R.uniqueArgs R.uniqueFields R.knownTypeRefs R.inputPositions

/-! ## implements / interface fields: UnknownType, NotInterface, NoImplementSelf, InterfaceNotImplemented,
    InterfaceFieldNotImplemented, InterfaceArgumentNotImplemented, ArgumentTypeMisMatchWithInterface,
    ArgumentTypeNonNullAgainstInterface, FieldTypeMisMatchWithInterface -/

theorem Rules.implementsOk {T : TsDoc} (R : Rules T) : ImplementsOk ⟨T⟩ := by
  intro tn td htd hkind i hi
  have hmem := (typeDef_mem htd).1
  have hi' : i ∈ implementsOfT td := by
    unfold implementsOfT isObjOrIface
    rcases hkind with hk | hk <;> simp [hk, hi]
  have hk := R.knownTypeRefs
  simp only [ValidTs.knownTypeRefs, Bool.and_eq_true, List.all_eq_true] at hk
  have hkn := (hk.1 td hmem).1.2 i hi'
  unfold known at hkn
  cases hpd : (Schema.mk T).typeDef? i.1 with
  | none => rw [hpd] at hkn; simp at hkn
  | some pd =>
    refine ⟨pd, rfl, ?_⟩
    have := R.implementsInterfaces
    simp only [ValidTs.implementsInterfaces, List.all_eq_true] at this
    have := this td hmem i hi'
    rw [kindOf_of_typeDef hpd] at this
    simpa using this

/-- every entry of an `implements` list resolves (also in the checker's last-definition map) to an
    interface definition that is among the spec's implemented interfaces -/
theorem Rules.implementsEntry {T : TsDoc} (R : Rules T) {t : TypeDef} (ht : t ∈ ValidTs.typeDefs T)
    (hobj : isObjOrIface t = true) {i : Name × Pos} (hi : i ∈ t.implements) :
    ∃ idef, lastTypeDef? T i.1 = some idef ∧ idef.kind = .interface ∧ idef ∈ implementedIfaces ⟨T⟩ t ∧
      idef ∈ ValidTs.typeDefs T := by
  have hkind : t.kind = .object ∨ t.kind = .interface := by
    unfold isObjOrIface at hobj
    simpa using hobj
  obtain ⟨tn, htd⟩ : ∃ tn, (Schema.mk T).typeDef? tn = some t := by
    refine ⟨t.name, ?_⟩
    have hu := R.uniqueTypeNames
    unfold Schema.typeDef?
    have hnd : ((Schema.typeDefs ⟨T⟩).map (·.name)).Nodup := (noDup_iff_nodup _).mp hu
    exact find?_key_of_nodup (fun (x : TypeDef) => x.name) _ hnd t ht
  obtain ⟨pd, hpd, hpk⟩ := R.implementsOk tn t htd hkind i hi
  refine ⟨pd, ?_, hpk, ?_, (typeDef_mem hpd).1⟩
  · rw [lastTypeDef_eq_typeDef R.uniqueTypeNames]; exact hpd
  · simp only [implementedIfaces, List.mem_filterMap]
    refine ⟨i, by simp [implementsOfT, hobj, hi], ?_⟩
    rw [hpd]; simp [hpk]

/-- the interface rules of the specification make `check_valid_implementation` silent -/
theorem Rules.validImpl {T : TsDoc} (R : Rules T) {t : TypeDef} (ht : t ∈ ValidTs.typeDefs T)
    (hobj : isObjOrIface t = true) {idef : TypeDef} (hidef : idef ∈ implementedIfaces ⟨T⟩ t)
    (hmem : idef ∈ ValidTs.typeDefs T) (hik : idef.kind = .interface) :
    checkValidImpl ⟨T⟩ t.namePos t.fields t.implements idef = [] := by
  have hfo : fieldsOfT t = t.fields := by simp [fieldsOfT, hobj]
  have hio : implementsOfT t = t.implements := by simp [implementsOfT, hobj]
  apply checkValidImpl_eq_nil
  · have := R.transitiveInterfaces
    simp only [ValidTs.transitiveInterfaces, List.all_eq_true] at this
    intro imp himp
    have := this t ht idef hidef imp himp
    rwa [hio] at this
  · intro impF hF
    have hp := R.ifaceFieldsPresent
    simp only [ValidTs.ifaceFieldsPresent, List.all_eq_true] at hp
    have hany := hp t ht idef hidef impF hF
    rw [hfo] at hany
    obtain ⟨f0, hf0, hf0e⟩ := List.any_eq_true.mp hany
    cases hfind : t.fields.find? (·.name == impF.name) with
    | none => exact absurd hf0e (List.find?_eq_none.mp hfind f0 hf0)
    | some f =>
      have hpair : (f, impF) ∈ implPairs ⟨T⟩ t := by
        simp only [implPairs, List.mem_flatMap, List.mem_filterMap, Option.map_eq_some_iff]
        exact ⟨idef, hidef, impF, hF, f, by rw [hfo]; exact hfind, rfl⟩
      have ha := R.ifaceFieldArgs
      simp only [ValidTs.ifaceFieldArgs, List.all_eq_true, Bool.and_eq_true, Bool.or_eq_true,
        Bool.not_eq_true'] at ha
      obtain ⟨ha1, ha2⟩ := ha t ht (f, impF) hpair
      have hc := R.ifaceFieldsCovariant
      simp only [ValidTs.ifaceFieldsCovariant, List.all_eq_true] at hc
      have hcov := hc t ht (f, impF) hpair
      refine ⟨f, rfl, ?_, ha2, ?_⟩
      · intro ia hia
        have := ha1 ia hia
        cases hfa : f.args.find? (·.name == ia.name) with
        | none => rw [hfa] at this; simp at this
        | some fa => rw [hfa] at this; exact ⟨fa, rfl, this⟩
      · have hfm : f ∈ fieldsOfT t := by rw [hfo]; exact List.mem_of_find?_eq_some hfind
        have hFm : impF ∈ fieldsOfT idef := by simp [fieldsOfT, isObjOrIface, hik, hF]
        have hk := R.knownTypeRefs
        simp only [ValidTs.knownTypeRefs, Bool.and_eq_true, List.all_eq_true] at hk
        have hk1 := (hk.1 t ht).1.1 f hfm
        have hk2 := (hk.1 idef hmem).1.1 impF hFm
        rw [isSubtype_iff ⟨T⟩ R.implementsOk f.ty impF.ty hk1 hk2]
        simp only at hcov
        rw [hcov]
        intro hcontra; cases hcontra

/-! ## RecursingDirective -/

/-- If no directive definition transitively references itself (the specification's relation),
    `RecursingDirective` is never pushed: an edge of the graph the code explores is a path of the specification's
    graph (`specReaches_of_edge`, Lemmas/CheckTsRecSpec.lean — since fix 2e4a65e along the types of input-object
    fields). The converse holds too: `C05_recursion_exact` (Props/C05.lean). -/
theorem C05_complete_recursion (T : TsDoc) (hut : uniqueTypeNames T = true) (hud : uniqueDirectiveNames T = true)
    (hrec : NoSpecRecursion T) : ∀ d ∈ ValidTs.directiveDefs T, checkDirectiveRecursion T d = [] := by
  intro d hd
  cases hc : checkDirectiveRecursion T d with
  | nil => rfl
  | cons e es =>
    exfalso
    have hne : checkDirectiveRecursion T d ≠ [] := by rw [hc]; simp
    exact hrec d hd (specReaches_of_reaches hut hud ((directiveRec_iff T d hd hud).mp hne))

/-! ## definitions -/

theorem Rules.argsDef {T : TsDoc} (R : Rules T) {as : List InputValueDef} (hal : as ∈ argLists T)
    (hsite : ∀ a ∈ as, ("ARGUMENT_DEFINITION", a.dirs) ∈ dirSites T) : checkArgsDef ⟨T⟩ as = [] := by
  have hu := R.uniqueArgs
  simp only [ValidTs.uniqueArgs, List.all_eq_true] at hu
  apply checkArgsDef_eq_nil (hu as hal)
  intro a ha
  obtain ⟨_, _, _, hty⟩ := C05_complete_inputValueTypes T R.knownTypeRefs R.inputPositions a
    (mem_inputValues_of_argList hal a ha)
  refine ⟨?_, hty, R.sites _ (hsite a ha)⟩
  -- reserved: argument names of fields and of directive definitions
  have hr := R.reservedNames
  simp only [ValidTs.reservedNames, Bool.and_eq_true, List.all_eq_true] at hr
  simp only [argLists, List.mem_append, List.mem_flatMap, List.mem_map] at hal
  rcases hal with ⟨t, ht, f, hf, rfl⟩ | ⟨d, hd, rfl⟩
  · exact reserved_false_of (((hr.1 t ht).1.1.2 f hf).2 a ha)
  · exact reserved_false_of ((hr.2 d hd).2 a ha)

/-- A type definition of a document that satisfies the rules gets no diagnostic (UnscoUnsco, DuplicatedName,
    UnknownType, NoInputType, NoOutputType, NotInterface, NoImplementSelf, InterfaceNotImplemented, the
    interface-field kinds, NonObjectTypeUnionMember and the directive kinds). -/
theorem C05_complete_typeDef (T : TsDoc) (R : Rules T) :
    ∀ t ∈ ValidTs.typeDefs T, checkTypeDef T ⟨T⟩ t = [] := by
  intro t ht
  have hr := R.reservedNames
  simp only [ValidTs.reservedNames, Bool.and_eq_true, List.all_eq_true] at hr
  obtain ⟨⟨⟨hrn, hrf⟩, hrv⟩, hri⟩ := hr.1 t ht
  have hloc : checkDirectives ⟨T⟩ (locationOfKind t.kind) t.dirs = [] := by
    rw [← specLocation_eq]; exact R.sites _ (site_type ht)
  have hfields : isObjOrIface t = true → checkFields ⟨T⟩ t.fields = [] := by
    intro hobj
    have hfo : fieldsOfT t = t.fields := by simp [fieldsOfT, hobj]
    have huf := R.uniqueFields
    simp only [ValidTs.uniqueFields, List.all_eq_true, Bool.and_eq_true] at huf
    apply checkFields_eq_nil (by rw [← hfo]; exact (huf t ht).1)
    intro f hf
    have hf' : f ∈ fieldsOfT t := by rw [hfo]; exact hf
    refine ⟨reserved_false_of (hrf f hf').1, R.sites _ (site_field ht hf'),
      C05_complete_outputFieldTypes T R.knownTypeRefs R.outputPositions t ht f hf', ?_⟩
    apply R.argsDef
    · simp only [argLists, List.mem_append, List.mem_flatMap, List.mem_map]
      exact Or.inl ⟨t, ht, f, hf', rfl⟩
    · intro a ha; exact site_fieldArg ht hf' ha
  have himpl : isObjOrIface t = true → ∀ i ∈ t.implements,
      (match lastTypeDef? T i.1 with
        | none => [(ErrKind.UnknownType, i.2)]
        | some idef =>
          if idef.kind != .interface then [(ErrKind.NotInterface, i.2)]
          else checkValidImpl ⟨T⟩ t.namePos t.fields t.implements idef) = [] := by
    intro hobj i hi
    obtain ⟨idef, hl, hik, hmem, hmemT⟩ := R.implementsEntry ht hobj hi
    rw [hl]
    simp only [hik, bne_self_eq_false, Bool.false_eq_true, if_false]
    exact R.validImpl ht hobj hmem hmemT hik
  simp only [checkTypeDef, List.append_eq_nil_iff]
  refine ⟨⟨by rw [reserved_false_of hrn]; rfl, hloc⟩, ?_⟩
  cases hk : t.kind with
  | scalar => rfl
  | object =>
    have hobj : isObjOrIface t = true := by simp [isObjOrIface, hk]
    simp only [List.append_eq_nil_iff, checkObjectImplements, List.flatMap_eq_nil_iff]
    exact ⟨hfields hobj, fun i hi => himpl hobj i hi⟩
  | interface =>
    have hobj : isObjOrIface t = true := by simp [isObjOrIface, hk]
    simp only [List.append_eq_nil_iff, checkInterfaceImplements, List.flatMap_eq_nil_iff]
    refine ⟨hfields hobj, fun i hi => ?_⟩
    have hs := R.noSelfImplements
    simp only [ValidTs.noSelfImplements, List.all_eq_true, Bool.or_eq_true, bne_iff_ne, ne_eq] at hs
    have hne : i.1 ≠ t.name := by
      rcases hs t ht with h | h
      · exact absurd hk h
      · exact h i hi
    have hb : (t.name == i.1) = false := by simpa using fun h => hne h.symm
    simp only [hb, Bool.false_eq_true, if_false]
    exact himpl hobj i hi
  | union =>
    have hmo : membersOfT t = t.members := by simp [membersOfT, hk]
    have hum := R.uniqueUnionMembers
    simp only [ValidTs.uniqueUnionMembers, List.all_eq_true] at hum
    apply checkUnionMembers_eq_nil (by rw [← hmo]; exact hum t ht)
    intro m hm
    have hm' : m ∈ membersOfT t := by rw [hmo]; exact hm
    have hk1 := R.knownTypeRefs
    simp only [ValidTs.knownTypeRefs, Bool.and_eq_true, List.all_eq_true] at hk1
    have hkn := (hk1.1 t ht).2 m hm'
    unfold known at hkn
    cases hd : (Schema.mk T).typeDef? m.1 with
    | none => rw [hd] at hkn; simp at hkn
    | some d =>
      refine ⟨d, by rw [lastTypeDef_eq_typeDef R.uniqueTypeNames]; exact hd, ?_⟩
      have huo := R.unionMembersObjects
      simp only [ValidTs.unionMembersObjects, List.all_eq_true] at huo
      have := huo t ht m hm'
      rw [kindOf_of_typeDef hd] at this
      simpa using this
  | enum =>
    have hvo : valuesOfT t = t.values := by simp [valuesOfT, hk]
    have hue := R.uniqueEnumValues
    simp only [ValidTs.uniqueEnumValues, List.all_eq_true] at hue
    apply checkEnumValues_eq_nil (by rw [← hvo]; exact hue t ht)
    intro v hv
    have hv' : v ∈ valuesOfT t := by rw [hvo]; exact hv
    exact ⟨reserved_false_of (hrv v hv'), R.sites _ (site_value ht hv')⟩
  | input =>
    have hio : inputsOfT t = t.inputs := by simp [inputsOfT, hk]
    have huf := R.uniqueFields
    simp only [ValidTs.uniqueFields, List.all_eq_true, Bool.and_eq_true] at huf
    apply checkInputFields_eq_nil (by rw [← hio]; exact (huf t ht).2)
    intro a ha
    have ha' : a ∈ inputsOfT t := by rw [hio]; exact ha
    have hav : a ∈ inputValues T := by
      simp only [inputValues, List.mem_append, List.mem_flatMap]
      exact Or.inr ⟨t, ht, ha'⟩
    obtain ⟨_, _, _, hty⟩ := C05_complete_inputValueTypes T R.knownTypeRefs R.inputPositions a hav
    exact ⟨reserved_false_of (hri a ha'), hty, R.sites _ (site_input ht ha')⟩

/-- A directive definition of a document that satisfies the rules gets no diagnostic. -/
theorem C05_complete_directiveDef (T : TsDoc) (R : Rules T) (hrec : NoSpecRecursion T) :
    ∀ d ∈ ValidTs.directiveDefs T, checkDirectiveDef T ⟨T⟩ d = [] := by
  intro d hd
  have hr := R.reservedNames
  simp only [ValidTs.reservedNames, Bool.and_eq_true, List.all_eq_true] at hr
  simp only [checkDirectiveDef, List.append_eq_nil_iff]
  refine ⟨⟨C05_complete_recursion T R.uniqueTypeNames R.uniqueDirectiveNames hrec d hd, ?_⟩, ?_⟩
  · rw [reserved_false_of (hr.2 d hd).1]; rfl
  · apply R.argsDef
    · simp only [argLists, List.mem_append, List.mem_map]
      exact Or.inr ⟨d, hd, rfl⟩
    · intro a ha; exact site_dirArg hd ha

/-! ## completeness -/

/-- Completeness with the recursion rule in its relational form (`SpecReaches`) as a separate hypothesis. -/
theorem C05_complete_rel (T : TsDoc) (h : TsSpecValid T) (hrec : NoSpecRecursion T) : checkSchema T = [] := by
  have R := rules_of_valid h
  rw [checkSchema_nil_iff]
  -- `check_unique_names` (fix 8cdbacf): the two name rules of the specification leave nothing to report
  refine ⟨checkUniqueNames_nil_of_spec R.uniqueTypeNames R.uniqueDirectiveNames, ?_⟩
  simp only [checkSchemaItems, List.flatMap_eq_nil_iff]
  intro it hit
  cases it with
  | schemaDef sd => exact R.sites _ (site_schema (mem_schemaDefs.mpr hit))
  | typeDef t => exact C05_complete_typeDef T R t (mem_typeDefs.mpr hit)
  | directiveDef d => exact C05_complete_directiveDef T R hrec d (mem_directiveDefs.mpr hit)
  | schemaExt _ => rfl
  | typeExt _ => rfl

/-- **C05, completeness.** A resolved type-system document that satisfies every rule of the executable
    specification `Spec/ValidTs.lean` (`tsSpecValid T = true` — exactly what the oracle stream evaluates)
    gets no diagnostic from `check_type_system_document` — neither from `check_unique_names` (fix 8cdbacf: the
    specification's `uniqueTypeNames` / `uniqueDirectiveNames` leave it nothing to report) nor from a definition. The executable recursion rule (a closure computed
    in `|T| + 1` rounds) is proved to imply the relational one (`noSpecRecursion_of_exec`). -/
theorem C05_complete (T : TsDoc) (h : TsSpecValid T) : checkSchema T = [] :=
  C05_complete_rel T h (noSpecRecursion_of_exec (rules_of_valid h).noRecursiveDirectives)

example : TsSpecValid sampleSchema := by unfold TsSpecValid; decide

/-- the hypotheses of `C05_complete_rel` are satisfiable by a non-trivial document -/
example : TsSpecValid sampleSchema ∧ NoSpecRecursion sampleSchema := by
  refine ⟨by unfold TsSpecValid; decide, ?_⟩
  intro d hd h
  have hd' : d.name = "flag" := by
    have : ValidTs.directiveDefs sampleSchema = [{ name := "flag", locations := ["OBJECT", "FIELD_DEFINITION"] }] := rfl
    rw [this] at hd
    simp at hd
    rw [hd]
  rw [hd'] at h
  have hrefs : refs ⟨sampleSchema⟩ (.dir "flag") = [] := by decide
  cases h with
  | step h1 => rw [hrefs] at h1; cases h1
  | cons h1 _ => rw [hrefs] at h1; cases h1

/-
`C05_complete` has no side condition, but note what it does NOT say (OPEN — carried by K/O only; see also the status
block at the end of Props/C05.lean):
* `TsSpecValid` contains `uniqueDirectiveNames` (built-ins counted), so a document that re-declares a built-in directive —
  accepted by the code — is outside the theorem; for it only `C05_unique_names_complete` (the new rule alone) is proved,
  the rest is the O mode `valid-redeclare`;
* the conclusion is `checkSchema T = []`: nothing is stated about the resolver model `dupOriginal?` on a valid document;
* `C05_complete_recursion` / `C05_complete_rel` take `uniqueTypeNames`, `uniqueDirectiveNames` resp. `NoSpecRecursion` as
  hypotheses; `C05_complete` discharges them from `TsSpecValid`.
-/

end NitroVerif.CheckTs
