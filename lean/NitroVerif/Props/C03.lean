import NitroVerif.Lemmas.CheckOpSoundWitness
import NitroVerif.Lemmas.IntRange
import NitroVerif.Lemmas.CheckOpPreE3584a3
/-!
# C03 — `check` accepts no operation that violates an implemented validation rule

Property theorems only. Model: `NitroVerif/Model/CheckOp.lean` + `Model/CheckCommon.lean` (tied to
`crates/checker/src/operation_checker/*.rs` and `common.rs` by the correspondence check
`harness/src/bin/opcheck/mod.rs`); reference validator: `NitroVerif/Spec/Valid.lean` (written from the
GraphQL specification, quantifying over all selection sets of the document).

Every theorem has the shape "the model reports no diagnostic ⟹ the rule predicate of the reference validator
holds". The document-level and variable-definition rules need no hypothesis on the schema; the others assume
`SchemaValid S` (used: no field is named `__typename`; argument and input-field names are unique per
field / directive / input object). Helper lemmas live in `Lemmas/CheckOp*.lean`: the walk invariant
(`CheckOpWalk`), spread handler / reachability / closures (`CheckOpReach`), "every selection set of the
document was visited" (`CheckOpVisited`), directive and argument sites (`CheckOpSites`), applicability of
spreads (`CheckOpApply`), argument names by counting (`CheckOpArgs`), values and variable usages
(`CheckOpValues*`), subscription root keys (`CheckOpSubscription`), the "at least one root field" half of
5.2.3.1 under `Doc.NonEmptySelections` (`CheckOpSoundNonEmpty`), fuel adequacy (`CheckOpSoundFuel`).
-/
namespace NitroVerif.CheckOp
open NitroVerif.Gql NitroVerif.CheckCommon NitroVerif.Valid NitroVerif.CheckOp.Witness

/-! ### witnesses used by the non-vacuity examples -/

def exSchema : Schema := ⟨[
  .typeDef { kind := .scalar, name := "Int" },
  .typeDef { kind := .scalar, name := "Float" },
  .typeDef { kind := .scalar, name := "String" },
  .typeDef { kind := .scalar, name := "Boolean" },
  .typeDef { kind := .scalar, name := "ID" },
  .typeDef { kind := .object, name := "Query",
             fields := [{ name := "a", ty := .named "Int" {} },
                        { name := "f", args := [{ name := "x", ty := .nonNull (.named "Int" {}) }], ty := .named "Query" {} }] }]⟩

/-- `query Q($v: Int!) { a f(x: $v) { a ...F } }  fragment F on Query { a }` -/
def exDoc : Doc := [
  .op { kind := .query, name := some ("Q", {}),
        vars := [{ name := "v", ty := .nonNull (.named "Int" {}) }],
        sel := [.field none "a" {} [] [] none,
                .field none "f" {} [("x", {}, .var "v" {})] []
                  (some [.field none "a" {} [] [] none, .spread "F" {} [] {}])] },
  .frag { name := "F", cond := "Query", sel := [.field none "a" {} [] [] none] }]

/-- the hypotheses of every theorem below are satisfiable by a non-trivial schema and document -/
example : SchemaValid exSchema := by decide
example : checkOp exSchema exDoc = [] := by decide

/-- and it is not trivially true: a duplicated operation name is reported -/
example : checkOp exSchema (exDoc ++ exDoc) ≠ [] := by decide

/-! ### document-level rules -/

/-- 5.2.1.1 Operation Name Uniqueness: if the checker reports nothing, no two named operations of the
    document have the same name. -/
theorem C03_rule_5_2_1_1 (S : Schema) (D : Doc) (h : checkOp S D = []) : rule_5_2_1_1 S D = true := by
  have := (checkDefs_opNames (S := S) (D := D) D [] h).2
  simpa [rule_5_2_1_1, opNames, opNamesOf, ops_eq] using this

/-- non-vacuity of `C03_rule_5_2_1_1`: the accepted witness has three named operations; and the rule has teeth (`wBad "5.2.1.1"` violates it and is rejected) -/
example : SchemaValid wSchema ∧ checkOp wSchema wDoc = [] ∧ 2 ≤ (opNames wDoc).length := by decide +kernel
example : rule_5_2_1_1 wSchema (wBad "5.2.1.1") = false ∧ checkOp wSchema (wBad "5.2.1.1") ≠ [] := by decide +kernel

/-- 5.2.2.1 Lone Anonymous Operation: if the checker reports nothing and the document contains an anonymous
    operation, that operation is the only operation of the document. -/
theorem C03_rule_5_2_2_1 (S : Schema) (D : Doc) (h : checkOp S D = []) : rule_5_2_2_1 S D = true := by
  unfold rule_5_2_2_1
  cases hany : (Valid.ops D).any (·.name.isNone) with
  | false => simp
  | true =>
    obtain ⟨o, ho, hnone⟩ := List.any_eq_true.mp hany
    have hmem : ExecDef.op o ∈ D := by
      simp only [Valid.ops, List.mem_filterMap] at ho
      obtain ⟨d, hd, hdo⟩ := ho
      cases d <;> simp at hdo
      subst hdo; exact hd
    obtain ⟨⟨e, he⟩, _⟩ := checkDefs_mem D [] h _ hmem
    have hn : o.name = none := by cases hx : o.name <;> simp_all
    simp only [defHeader, hn] at he
    have : (opsOf D).length = 1 := by
      by_cases hl : (opsOf D).length = 1
      · exact hl
      · simp [hl] at he
    simp [ops_eq, this]

/-- non-vacuity of `C03_rule_5_2_2_1`: a lone anonymous operation is accepted; and the rule has teeth (`wBad "5.2.2.1"` violates it and is rejected) -/
example : checkOp wSchema wAnonDoc = [] ∧ (Valid.ops wAnonDoc).any (·.name.isNone) = true := by decide +kernel
example : rule_5_2_2_1 wSchema (wBad "5.2.2.1") = false ∧ checkOp wSchema (wBad "5.2.2.1") ≠ [] := by decide +kernel

/-- 5.5.1.1 Fragment Name Uniqueness: if the checker reports nothing, no two fragment definitions of the
    document have the same name. -/
theorem C03_rule_5_5_1_1 (S : Schema) (D : Doc) (h : checkOp S D = []) : rule_5_5_1_1 S D = true := by
  have := (checkDefs_fragNames (S := S) (D := D) D [] h).2
  simpa [rule_5_5_1_1, fragNamesOf, frags_eq] using this

/-- non-vacuity of `C03_rule_5_5_1_1`: the accepted witness defines six fragments; and the rule has teeth (`wBad "5.5.1.1"` violates it and is rejected) -/
example : SchemaValid wSchema ∧ checkOp wSchema wDoc = [] ∧ 2 ≤ (Valid.frags wDoc).length := by decide +kernel
example : rule_5_5_1_1 wSchema (wBad "5.5.1.1") = false ∧ checkOp wSchema (wBad "5.5.1.1") ≠ [] := by decide +kernel

/-- 5.8.1 Variable Uniqueness: if the checker reports nothing, the variables of every operation have
    pairwise different names. -/
theorem C03_rule_5_8_1 (S : Schema) (D : Doc) (h : checkOp S D = []) : rule_5_8_1 S D = true := by
  unfold rule_5_8_1
  rw [List.all_eq_true]
  intro o ho
  exact (checkVariablesAux_nil o.vars [] (vars_of_accepted h o ho)).2.1

/-- non-vacuity of `C03_rule_5_8_1`: an operation of the accepted witness declares three variables; and the rule has teeth (`wBad "5.8.1"` violates it and is rejected) -/
example : SchemaValid wSchema ∧ checkOp wSchema wDoc = [] ∧ 2 ≤ maxVars wDoc := by decide +kernel
example : rule_5_8_1 wSchema (wBad "5.8.1") = false ∧ checkOp wSchema (wBad "5.8.1") ≠ [] := by decide +kernel

/-- 5.8.2 Variables Are Input Types: if the checker reports nothing, the (unwrapped) type of every variable
    of every operation is a scalar, enum or input-object type defined in the schema. -/
theorem C03_rule_5_8_2 (S : Schema) (D : Doc) (h : checkOp S D = []) : rule_5_8_2 S D = true := by
  unfold rule_5_8_2
  rw [List.all_eq_true]
  intro o ho
  rw [List.all_eq_true]
  intro v hv
  have := (checkVariablesAux_nil o.vars [] (vars_of_accepted h o ho)).2.2 v hv
  unfold isInputType? at this
  cases hk : S.kindOf? v.ty.unwrapped with
  | none => simp [hk] at this
  | some k => simpa [hk] using this

/-- non-vacuity of `C03_rule_5_8_2`: the accepted witness declares variables of scalar and input-object type; and the rule has teeth (`wBad "5.8.2"` violates it and is rejected) -/
example : SchemaValid wSchema ∧ checkOp wSchema wDoc = [] ∧ 1 ≤ maxVars wDoc := by decide +kernel
example : rule_5_8_2 wSchema (wBad "5.8.2") = false ∧ checkOp wSchema (wBad "5.8.2") ≠ [] := by decide +kernel

/-! ### fragment targets (the part of 5.5.1.2 / 5.5.1.3 about fragment DEFINITIONS) -/

/-- 5.5.1.2 / 5.5.1.3 for fragment definitions: if the checker reports nothing, the type condition of every
    fragment definition is an object, interface or union type of the schema. (The same rules for ALL type
    conditions, those of inline fragments included: `C03_rule_5_5_1_2`, `C03_rule_5_5_1_3` below.) -/
theorem C03_fragment_definition_targets (S : Schema) (D : Doc) (h : checkOp S D = []) :
    ∀ f ∈ Valid.frags D, ∃ t, S.typeDef? f.cond = some t ∧
      (t.kind = .object ∨ t.kind = .interface ∨ t.kind = .union) := by
  intro f hf
  have hmem : ExecDef.frag f ∈ D := by
    simp only [Valid.frags, List.mem_filterMap] at hf
    obtain ⟨d, hd, hdo⟩ := hf
    cases d <;> simp at hdo
    subst hdo; exact hd
  obtain ⟨_, hb⟩ := checkDefs_mem D [] h _ hmem
  simp only [defBody, checkFragmentDefinition] at hb
  obtain ⟨_, hb⟩ := append_eq_nil' hb
  cases ht : S.typeDef? f.cond with
  | none => simp [ht] at hb
  | some t =>
    refine ⟨t, rfl, ?_⟩
    simp only [ht] at hb
    cases hk : t.kind <;> simp_all [directFields]

/-- non-vacuity of `C03_fragment_definition_targets`: the accepted witness has fragment definitions on object,
    interface and union types; a fragment on a scalar is rejected -/
example : checkOp wSchema wDoc = [] ∧ 6 ≤ (Valid.frags wDoc).length := by decide +kernel
example : checkOp wSchema (wBad "5.5.1.3") ≠ [] := by decide +kernel

/-! ### selection sets: every selection set of the document is visited with its correct type in scope
(`Lemmas/CheckOpWalk.lean`, `CheckOpReach.lean`, `CheckOpVisited.lean`) -/

/-- 5.3.1 Field Selections: if the checker reports nothing, every field selected anywhere in the document
    (operations and ALL fragment definitions, at any depth) is defined on the type in scope. -/
theorem C03_rule_5_3_1 (S : Schema) (D : Doc) (hS : SchemaValid S) (h : checkOp S D = []) : rule_5_3_1 S D = true := by
  unfold rule_5_3_1
  rw [List.all_eq_true]
  intro ps hps
  obtain ⟨A, k, seen, vars, hA, hl⟩ := all_visited h (schemaValid_noReserved hS) ps hps
  obtain ⟨p, s⟩ := ps
  cases p with
  | none => exact absurd hl (by simp [LocalFact])
  | some t =>
    cases s with
    | field al name namePos args dirs sel =>
      simp only [LocalFact] at hl
      obtain ⟨root, fields, hn, hf, fd, hfd, _⟩ := hl
      simp [fieldDef?_eq_find (schemaValid_noReserved hS) hn hf, hfd]
    | spread => rfl
    | inline => rfl

/-- non-vacuity of `C03_rule_5_3_1`: the accepted witness selects fields (on objects, an interface, a union, in fragments); and the rule has teeth (`wBad "5.3.1"` violates it and is rejected) -/
example : SchemaValid wSchema ∧ checkOp wSchema wDoc = [] ∧ 20 ≤ nFields wSchema wDoc := by decide +kernel
example : rule_5_3_1 wSchema (wBad "5.3.1") = false ∧ checkOp wSchema (wBad "5.3.1") ≠ [] := by decide +kernel

/-- 5.3.3 Leaf Field Selections: if the checker reports nothing, every selected field of scalar or enum type
    has no sub-selection and every selected field of object, interface or union type has one. -/
theorem C03_rule_5_3_3 (S : Schema) (D : Doc) (hS : SchemaValid S) (h : checkOp S D = []) : rule_5_3_3 S D = true := by
  unfold rule_5_3_3
  rw [List.all_eq_true]
  intro ps hps
  obtain ⟨A, k, seen, vars, hA, hl⟩ := all_visited h (schemaValid_noReserved hS) ps hps
  obtain ⟨p, s⟩ := ps
  cases p with
  | none => exact absurd hl (by simp [LocalFact])
  | some t =>
    cases s with
    | field al name namePos args dirs sel =>
      simp only [LocalFact] at hl
      obtain ⟨root, fields, hn, hf, fd, hfd, _, _, ft, hft, hsel⟩ := hl
      simp only [fieldDef?_eq_find (schemaValid_noReserved hS) hn hf, hfd, Schema.kindOf?, hft, Option.map_some]
      unfold directFields at hsel
      cases hk : ft.kind <;> simp [hk, isLeafKind, isCompositeKind] at hsel ⊢ <;> simp [hsel]
    | spread => rfl
    | inline => rfl

/-- non-vacuity of `C03_rule_5_3_3`: the accepted witness has leaf fields and fields with a sub-selection; and the rule has teeth (`wBad "5.3.3"` violates it and is rejected) -/
example : SchemaValid wSchema ∧ checkOp wSchema wDoc = [] ∧ 1 ≤ nLeafFields wSchema wDoc ∧ 1 ≤ nFieldsWithSel wSchema wDoc := by decide +kernel
example : rule_5_3_3 wSchema (wBad "5.3.3") = false ∧ checkOp wSchema (wBad "5.3.3") ≠ [] := by decide +kernel

/-- 5.5.1.2 Fragment Spread Type Existence: if the checker reports nothing, the type condition of every fragment
    definition and of every inline fragment is a type of the schema. -/
theorem C03_rule_5_5_1_2 (S : Schema) (D : Doc) (hS : SchemaValid S) (h : checkOp S D = []) : rule_5_5_1_2 S D = true := by
  unfold rule_5_5_1_2
  rw [List.all_eq_true]
  intro c hc
  obtain ⟨ct, hct, _⟩ := typeConditions_ok hS h c hc
  simp [hct]

/-- non-vacuity of `C03_rule_5_5_1_2`: the accepted witness has type conditions on fragment definitions AND on inline fragments; and the rule has teeth (`wBad "5.5.1.2"` violates it and is rejected) -/
example : SchemaValid wSchema ∧ checkOp wSchema wDoc = [] ∧ (Valid.frags wDoc).length < (typeConditions wSchema wDoc).length := by decide +kernel
example : rule_5_5_1_2 wSchema (wBad "5.5.1.2") = false ∧ checkOp wSchema (wBad "5.5.1.2") ≠ [] := by decide +kernel

/-- 5.5.1.3 Fragments on Composite Types: if the checker reports nothing, every type condition is an object,
    interface or union type. -/
theorem C03_rule_5_5_1_3 (S : Schema) (D : Doc) (hS : SchemaValid S) (h : checkOp S D = []) : rule_5_5_1_3 S D = true := by
  unfold rule_5_5_1_3
  rw [List.all_eq_true]
  intro c hc
  obtain ⟨ct, hct, hd⟩ := typeConditions_ok hS h c hc
  simp [Schema.kindOf?, hct, directFields_isSome_composite hd]

/-- non-vacuity of `C03_rule_5_5_1_3`: the accepted witness has type conditions on object, interface and union types; and the rule has teeth (`wBad "5.5.1.3"` violates it and is rejected) -/
example : SchemaValid wSchema ∧ checkOp wSchema wDoc = [] ∧ (Valid.frags wDoc).length < (typeConditions wSchema wDoc).length := by decide +kernel
example : rule_5_5_1_3 wSchema (wBad "5.5.1.3") = false ∧ checkOp wSchema (wBad "5.5.1.3") ≠ [] := by decide +kernel

/-- 5.5.2.1 Fragment Spread Target Defined: if the checker reports nothing, every fragment spread anywhere in
    the document names a fragment the document defines. -/
theorem C03_rule_5_5_2_1 (S : Schema) (D : Doc) (hS : SchemaValid S) (h : checkOp S D = []) : rule_5_5_2_1 S D = true := by
  unfold rule_5_5_2_1
  rw [List.all_eq_true]
  intro ps hps
  obtain ⟨A, k, seen, vars, hA, hl⟩ := all_visited h (schemaValid_noReserved hS) ps hps
  obtain ⟨p, s⟩ := ps
  cases s with
  | field => rfl
  | inline => rfl
  | spread name namePos dirs pos =>
    cases p with
    | none => exact absurd hl (by simp [LocalFact])
    | some t =>
      simp only [LocalFact] at hl
      obtain ⟨root, fields, _, hf, _, hq⟩ := hl
      obtain ⟨_, f, _, _, hm, _⟩ := handler_quiet hA hf hq
      simp [frag?_eq_fragMap (accepted_nodup h), hm]

/-- non-vacuity of `C03_rule_5_5_2_1`: the accepted witness spreads fragments; and the rule has teeth (`wBad "5.5.2.1"` violates it and is rejected) -/
example : SchemaValid wSchema ∧ checkOp wSchema wDoc = [] ∧ 1 ≤ nSpreads wSchema wDoc := by decide +kernel
example : rule_5_5_2_1 wSchema (wBad "5.5.2.1") = false ∧ checkOp wSchema (wBad "5.5.2.1") ≠ [] := by decide +kernel

/-- 5.5.2.2 Fragment Spreads Must Not Form Cycles: if the checker reports nothing, no fragment definition reaches
    itself through spreads (the seen-stack argument: the walk of a fragment's selection set has the fragment's name
    on the stack, the stack only grows along spreads, and a spread of a name on the stack is a diagnostic). -/
theorem C03_rule_5_5_2_2 (S : Schema) (D : Doc) (hS : SchemaValid S) (h : checkOp S D = []) : rule_5_5_2_2 S D = true := by
  unfold rule_5_5_2_2
  rw [List.all_eq_true]
  intro f hf
  rw [frags_eq] at hf
  obtain ⟨A, vars, seen, hA, hmem, _, hq⟩ := frag_walked h (schemaValid_noReserved hS) hf
  cases hc : (Valid.reachable D f.sel).contains f.name with
  | false => rfl
  | true =>
    exfalso
    have hr := reachable_sound (accepted_nodup h) (by simpa using hc : f.name ∈ Valid.reachable D f.sel)
    obtain ⟨hno, _⟩ := reach_walked hA (schemaValid_noReserved hS) (accepted_condsDefined h) hq hr
    have : seen.contains f.name = true := by simpa using hmem
    rw [this] at hno; cases hno

/-- non-vacuity of `C03_rule_5_5_2_2`: a fragment of the accepted witness spreads another fragment; and the rule has teeth (`wBad "5.5.2.2"` violates it and is rejected) -/
example : SchemaValid wSchema ∧ checkOp wSchema wDoc = [] ∧ 1 ≤ nSpreadingFrags wDoc := by decide +kernel
example : rule_5_5_2_2 wSchema (wBad "5.5.2.2") = false ∧ checkOp wSchema (wBad "5.5.2.2") ≠ [] := by decide +kernel

/-! ### directives at every location, required arguments, applicability of spreads (`Lemmas/CheckOpSites.lean`, `CheckOpApply.lean`) -/

/-- 5.7.1 Directives Are Defined: if the checker reports nothing, every directive applied anywhere in the
    document (operations, variable definitions, fields, fragment spreads, inline fragments, fragment
    definitions) is defined in the schema. -/
theorem C03_rule_5_7_1 (S : Schema) (D : Doc) (hS : SchemaValid S) (h : checkOp S D = []) : rule_5_7_1 S D = true := by
  unfold rule_5_7_1
  rw [List.all_eq_true]
  intro site hs
  obtain ⟨A, vars, _, hfacts, _⟩ := dirSites_checked hS h site hs
  rw [List.all_eq_true]
  intro d hd
  obtain ⟨dd, hdd, _⟩ := hfacts d hd
  simp [hdd]

/-- non-vacuity of `C03_rule_5_7_1`: the accepted witness applies directives at six kinds of location; and the rule has teeth (`wBad "5.7.1"` violates it and is rejected) -/
example : SchemaValid wSchema ∧ checkOp wSchema wDoc = [] ∧ 6 ≤ (dirLocations wSchema wDoc).length ∧ 9 ≤ nDirectives wSchema wDoc := by decide +kernel
example : rule_5_7_1 wSchema (wBad "5.7.1") = false ∧ checkOp wSchema (wBad "5.7.1") ≠ [] := by decide +kernel

/-- 5.7.2 Directives Are in Valid Locations: if the checker reports nothing, every directive applied anywhere
    in the document is declared for the location it is applied at. -/
theorem C03_rule_5_7_2 (S : Schema) (D : Doc) (hS : SchemaValid S) (h : checkOp S D = []) : rule_5_7_2 S D = true := by
  unfold rule_5_7_2
  rw [List.all_eq_true]
  intro site hs
  obtain ⟨A, vars, _, hfacts, _⟩ := dirSites_checked hS h site hs
  rw [List.all_eq_true]
  intro d hd
  obtain ⟨dd, hdd, hl, _⟩ := hfacts d hd
  simp only [hdd]; exact hl

/-- non-vacuity of `C03_rule_5_7_2`: the accepted witness applies directives at six kinds of location; and the rule has teeth (`wBad "5.7.2"` violates it and is rejected) -/
example : SchemaValid wSchema ∧ checkOp wSchema wDoc = [] ∧ 6 ≤ (dirLocations wSchema wDoc).length := by decide +kernel
example : rule_5_7_2 wSchema (wBad "5.7.2") = false ∧ checkOp wSchema (wBad "5.7.2") ≠ [] := by decide +kernel

/-- 5.7.3 Directives Are Unique per Location: if the checker reports nothing, no non-repeatable directive is
    applied twice at the same location. -/
theorem C03_rule_5_7_3 (S : Schema) (D : Doc) (hS : SchemaValid S) (h : checkOp S D = []) : rule_5_7_3 S D = true := by
  unfold rule_5_7_3
  rw [List.all_eq_true]
  intro site hs
  obtain ⟨A, vars, _, _, hnd⟩ := dirSites_checked hS h site hs
  exact hnd

/-- non-vacuity of `C03_rule_5_7_3`: the accepted witness applies a repeatable directive twice at one location (and non-repeatable ones once); and the rule has teeth (`wBad "5.7.3"` violates it and is rejected) -/
example : SchemaValid wSchema ∧ checkOp wSchema wDoc = [] ∧ 1 ≤ nRepeated wSchema wDoc := by decide +kernel
example : rule_5_7_3 wSchema (wBad "5.7.3") = false ∧ checkOp wSchema (wBad "5.7.3") ≠ [] := by decide +kernel

/-- 5.4.2.1 Required Arguments: if the checker reports nothing, every field and directive of the document is
    given all its required arguments (non-null type, no default value). -/
theorem C03_rule_5_4_2_1 (S : Schema) (D : Doc) (hS : SchemaValid S) (h : checkOp S D = []) : rule_5_4_2_1 S D = true := by
  unfold rule_5_4_2_1
  rw [List.all_eq_true]
  intro site hs
  obtain ⟨A, vars, pos, hA, hq⟩ := argSites_checked hS h site hs
  rw [List.all_eq_true]
  intro d hd
  cases hreq : (d.ty.isNonNull && d.default.isNone) with
  | false => simp
  | true => simpa using (checkArguments_quiet hA hq).1 d hd hreq

/-- non-vacuity of `C03_rule_5_4_2_1`: the argument sites of the accepted witness have required argument definitions; and the rule has teeth (`wBad "5.4.2.1"` violates it and is rejected) -/
example : SchemaValid wSchema ∧ checkOp wSchema wDoc = [] ∧ 1 ≤ nRequiredArgDefs wSchema wDoc := by decide +kernel
example : rule_5_4_2_1 wSchema (wBad "5.4.2.1") = false ∧ checkOp wSchema (wBad "5.4.2.1") ≠ [] := by decide +kernel

/-- 5.5.2.3 Fragment Spread Is Possible: if the checker reports nothing, for every fragment spread and inline
    fragment of the document the possible types of the type in scope and of the fragment's type condition
    overlap. -/
theorem C03_rule_5_5_2_3 (S : Schema) (D : Doc) (hS : SchemaValid S) (h : checkOp S D = []) : rule_5_5_2_3 S D = true := by
  unfold rule_5_5_2_3
  rw [List.all_eq_true]
  intro ps hps
  obtain ⟨A, k, seen, vars, hA, hl⟩ := all_visited h (schemaValid_noReserved hS) ps hps
  obtain ⟨p, s⟩ := ps
  cases p with
  | none => exact absurd hl (by simp [LocalFact])
  | some t =>
    simp only [LocalFact] at hl
    obtain ⟨root, fields, hn, hf, hl⟩ := hl
    cases s with
    | field => rfl
    | spread name namePos dirs pos =>
      obtain ⟨_, hq⟩ := hl
      obtain ⟨_, f, _, _, hm, _, hrest⟩ := handler_quiet hA hf hq
      obtain ⟨ct, hct⟩ := accepted_condsDefined h f (fragMap_mem hm).1
      simp only [frag?_eq_fragMap (accepted_nodup h), hm]
      exact applicability_canApply hA hn hct (hrest ct hct).1
    | inline cond dirs ss pos =>
      cases cond with
      | none => rfl
      | some cc =>
        obtain ⟨c, cp⟩ := cc
        obtain ⟨_, ct, hct, hq, _⟩ := hl
        exact applicability_canApply hA hn hct hq

/-- non-vacuity of `C03_rule_5_5_2_3`: the accepted witness narrows the type in scope (interface → object, union → object, union → interface, object → interface); and the rule has teeth (`wBad "5.5.2.3"` violates it and is rejected) -/
example : SchemaValid wSchema ∧ checkOp wSchema wDoc = [] ∧ 4 ≤ nNarrowing wSchema wDoc := by decide +kernel
example : rule_5_5_2_3 wSchema (wBad "5.5.2.3") = false ∧ checkOp wSchema (wBad "5.5.2.3") ≠ [] := by decide +kernel

/-! ### argument names (`Lemmas/CheckOpArgs.lean`: the unknown-argument test counts matched definitions) -/

/-- 5.4.1 Argument Names: if the checker reports nothing, every argument given to a field or a directive is
    defined for it. -/
theorem C03_rule_5_4_1 (S : Schema) (D : Doc) (hS : SchemaValid S) (h : checkOp S D = []) : rule_5_4_1 S D = true := by
  unfold rule_5_4_1
  rw [List.all_eq_true]
  intro site hs
  obtain ⟨A, vars, pos, hA, hq⟩ := argSites_checked hS h site hs
  rw [List.all_eq_true]
  intro a ha
  exact (checkArguments_names hA hq).2 (argSites_defs_nodup hS D site hs) a ha

/-- non-vacuity of `C03_rule_5_4_1`: the accepted witness gives arguments to fields and directives; and the rule has teeth (`wBad "5.4.1"` violates it and is rejected) -/
example : SchemaValid wSchema ∧ checkOp wSchema wDoc = [] ∧ 10 ≤ nArgs wSchema wDoc := by decide +kernel
example : rule_5_4_1 wSchema (wBad "5.4.1") = false ∧ checkOp wSchema (wBad "5.4.1") ≠ [] := by decide +kernel

/-- 5.4.2 Argument Uniqueness: if the checker reports nothing, no field or directive of the document is given
    two arguments with the same name. -/
theorem C03_rule_5_4_2 (S : Schema) (D : Doc) (hS : SchemaValid S) (h : checkOp S D = []) : rule_5_4_2 S D = true := by
  unfold rule_5_4_2
  rw [List.all_eq_true]
  intro as has
  rcases List.mem_append.mp has with has | has
  · simp only [rule_5_4_2.fieldArgSitesAll, List.mem_filterMap] at has
    obtain ⟨ps, hps, hsite⟩ := has
    obtain ⟨A, k, seen, vars, hA, hl⟩ := all_visited h (schemaValid_noReserved hS) ps hps
    obtain ⟨p, s⟩ := ps
    cases s with
    | spread => simp at hsite
    | inline => simp at hsite
    | field al name namePos args dirs sel =>
      simp only [Option.some.injEq] at hsite
      subst hsite
      cases p with
      | none => exact absurd hl (by simp [LocalFact])
      | some t =>
        simp only [LocalFact] at hl
        obtain ⟨_, _, _, _, fd, _, _, hq, _⟩ := hl
        exact (checkArguments_names hA hq).1
  · simp only [rule_5_4_2.dirArgSitesAll, List.mem_flatMap, List.mem_map] at has
    obtain ⟨site, hsite, d, hd, rfl⟩ := has
    obtain ⟨A, vars, hA, hfacts, _⟩ := dirSites_checked hS h site hsite
    obtain ⟨dd, _, _, hq⟩ := hfacts d hd
    exact (checkArguments_names hA hq).1

/-- non-vacuity of `C03_rule_5_4_2`: the accepted witness has an argument list with three arguments; and the rule has teeth (`wBad "5.4.2"` violates it and is rejected) -/
example : SchemaValid wSchema ∧ checkOp wSchema wDoc = [] ∧ 1 ≤ nMultiArgLists wSchema wDoc := by decide +kernel
example : rule_5_4_2 wSchema (wBad "5.4.2") = false ∧ checkOp wSchema (wBad "5.4.2") ≠ [] := by decide +kernel

/-! ### values and variable usages (`Lemmas/CheckOpValues*.lean`: `check_value` against the specification input coercion and `IsVariableUsageAllowed`) -/

/-- 5.6.1 Values of Correct Type: if the checker reports nothing, every argument value (of fields and of
    directives, at any nesting depth inside lists and input objects) and every variable default value is
    coercible to the type expected at its position. -/
theorem C03_rule_5_6_1 (S : Schema) (D : Doc) (hS : SchemaValid S) (h : checkOp S D = []) : rule_5_6_1 S D = true :=
  valueRule_of_ok "5.6.1" (typedValues_ok hS h)

/-- non-vacuity of `C03_rule_5_6_1`: the accepted witness has typed values (scalars, enum, list, input objects, variables, a variable default); and the rule has teeth (`wBad "5.6.1"` violates it and is rejected) -/
example : SchemaValid wSchema ∧ checkOp wSchema wDoc = [] ∧ 10 ≤ nTypedValues wSchema wDoc := by decide +kernel
example : rule_5_6_1 wSchema (wBad "5.6.1") = false ∧ checkOp wSchema (wBad "5.6.1") ≠ [] := by decide +kernel

/-! #### the 32-bit range of Int literals (spec §3.5.1 inside 5.6.1; fix e3584a3) -/

/-- `type Query { f(n: Int, l: [Int], x: In, fl: Float, id: ID): Int }  input In { a: Int }` -/
def i32Schema : Schema := ⟨[
  .typeDef { kind := .scalar, name := "Int" },
  .typeDef { kind := .scalar, name := "Float" },
  .typeDef { kind := .scalar, name := "String" },
  .typeDef { kind := .scalar, name := "Boolean" },
  .typeDef { kind := .scalar, name := "ID" },
  .typeDef { kind := .input, name := "In", inputs := [{ name := "a", ty := .named "Int" {} }] },
  .typeDef { kind := .object, name := "Query",
             fields := [{ name := "f", ty := .named "Int" {},
                          args := [{ name := "n", ty := .named "Int" {} },
                                   { name := "l", ty := .list (.named "Int" {}) {} },
                                   { name := "x", ty := .named "In" {} },
                                   { name := "fl", ty := .named "Float" {} },
                                   { name := "id", ty := .named "ID" {} }] }] }]⟩

/-- `query Q($v: Int = -2147483648) { f(n: 2147483647, l: [$v, -0], x: {a: -2147483648}, fl: 4294967296, id: 12345678901234567890) }`:
    the boundary values at Int positions, integers of any size at Float / ID positions -/
def i32Doc : Doc := [
  .op { kind := .query, name := some ("Q", {}),
        vars := [{ name := "v", ty := .named "Int" {}, default := some (.int "-2147483648" {}) }],
        sel := [.field none "f" {}
                  [("n", {}, .int "2147483647" {}), ("l", {}, .list [.var "v" {}, .int "-0" {}] {}),
                   ("x", {}, .obj [("a", {}, .int "-2147483648" {})] {}),
                   ("fl", {}, .int "4294967296" {}), ("id", {}, .int "12345678901234567890" {})] [] none] }]

/-- `query Q { f(n: 4294967296) }` (the literal at line 1, column 16) -/
def i32BadDoc : Doc := [
  .op { kind := .query, name := some ("Q", {}),
        sel := [.field none "f" {} [("n", {}, .int "4294967296" { line := 1, col := 16 })] [] none] }]

/-- Int literals are 32-bit values (spec §3.5.1 "Input Coercion", part of 5.6.1; the checker tests it since fix e3584a3):
    if the checker reports nothing, then at every position of the document whose expected (innermost named) type is `Int`
    — arguments of fields and directives, items of list literals, a single value given for a list, fields of
    input-object literals at any nesting depth, variable default values — an integer literal denotes a value in
    `[-2^31, 2^31)` (`rule_int32`, Spec/IntRange.lean). In particular (second clause, spelled out for the top level of
    every typed value): the literal's text denotes an integer `i` with `-2147483648 ≤ i ≤ 2147483647`. -/
theorem C03_int_literals_in_range (S : Schema) (D : Doc) (hS : SchemaValid S) (h : checkOp S D = []) :
    rule_int32 S D = true ∧
    ∀ tv ∈ typedValues S D, ∀ s p, tv.value = .int s p → tv.ty.unwrapped = "Int" →
      ∃ i : Int, SpecInt.intValue? s.toList = some i ∧ -2147483648 ≤ i ∧ i ≤ 2147483647 := by
  have hr := rule_int32_of_rule_5_6_1 S D (C03_rule_5_6_1 S D hS h)
  refine ⟨hr, ?_⟩
  intro tv htv s p hv ht
  have := List.all_eq_true.mp hr tv htv
  rw [hv] at this
  simp only [intRangeOk, ht, beq_self_eq_true, Bool.not_true, Bool.false_or] at this
  exact (IntLit.intLiteralFitsI32_iff s).mp (by rw [IntLit.intLiteralFitsI32_eq]; exact this)

/-- the range is part of rule 5.6.1 of the reference validator (not an extra rule): a document that satisfies 5.6.1
    has every Int literal at an Int position in range -/
theorem C03_rule_5_6_1_contains_int_range (S : Schema) (D : Doc) (h : rule_5_6_1 S D = true) : rule_int32 S D = true :=
  rule_int32_of_rule_5_6_1 S D h

example : rule_5_6_1 i32Schema i32Doc = true ∧ rule_int32 i32Schema i32Doc = true := by decide +kernel

/-- non-vacuity of `C03_int_literals_in_range`: an accepted document with the boundary values `2147483647`,
    `-2147483648`, `-0` at Int positions (argument, list item, input field, variable default) and integers far beyond
    32 bits at Float and ID positions; and the rule has teeth: one step beyond either boundary is rejected -/
example : SchemaValid i32Schema ∧ checkOp i32Schema i32Doc = [] ∧ 6 ≤ (typedValues i32Schema i32Doc).length := by
  decide +kernel
example : rule_int32 i32Schema i32BadDoc = false ∧ rule_5_6_1 i32Schema i32BadDoc = false ∧
    checkOp i32Schema i32BadDoc ≠ [] := by decide +kernel

/-- PRE-REPAIR WITNESS (fix e3584a3): `query Q { f(n: 4294967296) }` with `n: Int`. The model of the checker as it was
    before the fix (`PreE3584a3.CheckOp.checkOp`, `"Int" => matches!(value, IntValue(_) | NullValue(_))`) accepted it
    although rule 5.6.1 of the reference validator (§3.5.1: an Int input is a 32-bit value) is violated; the model of
    the repaired checker reports exactly one `TypeMismatch`, at the literal. The boundary cases `2147483648` and
    `-2147483649` behave the same way. -/
theorem C03_int_range_prerepair_witness :
    SchemaValid i32Schema ∧
    PreE3584a3.CheckOp.checkOp i32Schema i32BadDoc = [] ∧
    rule_5_6_1 i32Schema i32BadDoc = false ∧ rule_int32 i32Schema i32BadDoc = false ∧
    checkOp i32Schema i32BadDoc = [(ErrKind.TypeMismatch, { line := 1, col := 16 })] ∧
    (∀ t ∈ ["2147483648", "-2147483649", "12345678901234567890"],
      let D : Doc := [.op { kind := .query, name := some ("Q", {}), sel := [.field none "f" {} [("n", {}, .int t {})] [] none] }]
      PreE3584a3.CheckOp.checkOp i32Schema D = [] ∧ rule_5_6_1 i32Schema D = false ∧ checkOp i32Schema D ≠ []) := by
  decide +kernel

/-- 5.6.2 Input Object Field Names: if the checker reports nothing, every field of every input-object literal
    is defined by the input-object type expected at its position. -/
theorem C03_rule_5_6_2 (S : Schema) (D : Doc) (hS : SchemaValid S) (h : checkOp S D = []) : rule_5_6_2 S D = true :=
  valueRule_of_ok "5.6.2" (typedValues_ok hS h)

/-- non-vacuity of `C03_rule_5_6_2`: the accepted witness has input-object literals; and the rule has teeth (`wBad "5.6.2"` violates it and is rejected) -/
example : SchemaValid wSchema ∧ checkOp wSchema wDoc = [] ∧ 2 ≤ nObjectValues wSchema wDoc := by decide +kernel
example : rule_5_6_2 wSchema (wBad "5.6.2") = false ∧ checkOp wSchema (wBad "5.6.2") ≠ [] := by decide +kernel

/-- 5.6.3 Input Object Field Uniqueness: if the checker reports nothing, no input-object literal names a field
    twice. -/
theorem C03_rule_5_6_3 (S : Schema) (D : Doc) (hS : SchemaValid S) (h : checkOp S D = []) : rule_5_6_3 S D = true :=
  valueRule_of_ok "5.6.3" (typedValues_ok hS h)

/-- non-vacuity of `C03_rule_5_6_3`: the accepted witness has an input-object literal with two fields; and the rule has teeth (`wBad "5.6.3"` violates it and is rejected) -/
example : SchemaValid wSchema ∧ checkOp wSchema wDoc = [] ∧ 1 ≤ nBigObjectValues wSchema wDoc := by decide +kernel
example : rule_5_6_3 wSchema (wBad "5.6.3") = false ∧ checkOp wSchema (wBad "5.6.3") ≠ [] := by decide +kernel

/-- 5.6.4 Input Object Required Fields: if the checker reports nothing, every input-object literal provides
    all required fields (non-null type, no default value) of its type. -/
theorem C03_rule_5_6_4 (S : Schema) (D : Doc) (hS : SchemaValid S) (h : checkOp S D = []) : rule_5_6_4 S D = true :=
  valueRule_of_ok "5.6.4" (typedValues_ok hS h)

/-- non-vacuity of `C03_rule_5_6_4`: the accepted witness has input-object literals of a type with a required field (one omits the optional field); and the rule has teeth (`wBad "5.6.4"` violates it and is rejected) -/
example : SchemaValid wSchema ∧ checkOp wSchema wDoc = [] ∧ 2 ≤ nObjectValues wSchema wDoc := by decide +kernel
example : rule_5_6_4 wSchema (wBad "5.6.4") = false ∧ checkOp wSchema (wBad "5.6.4") ≠ [] := by decide +kernel

/-- 5.8.3 All Variable Uses Defined: if the checker reports nothing, every variable used in the scope of an
    operation (its selection sets and directives, and those of every fragment it reaches) is defined by that
    operation. -/
theorem C03_rule_5_8_3 (S : Schema) (D : Doc) (hS : SchemaValid S) (h : checkOp S D = []) : rule_5_8_3 S D = true := by
  unfold rule_5_8_3
  rw [List.all_eq_true]
  intro o ho
  rw [List.all_eq_true]
  intro u hu
  obtain ⟨vd, hvd, _⟩ := opVarUses_ok hS h (by rw [← ops_eq]; exact ho) u hu
  have hp : (vd.name == u.name) = true := by
    have := List.find?_some hvd
    simpa using this
  exact List.any_eq_true.mpr ⟨vd, List.mem_of_find?_eq_some hvd, by simpa using hp⟩

/-- non-vacuity of `C03_rule_5_8_3`: the accepted witness uses variables (in field and directive arguments); and the rule has teeth (`wBad "5.8.3"` violates it and is rejected) -/
example : SchemaValid wSchema ∧ checkOp wSchema wDoc = [] ∧ 3 ≤ nVarUses wSchema wDoc := by decide +kernel
example : rule_5_8_3 wSchema (wBad "5.8.3") = false ∧ checkOp wSchema (wBad "5.8.3") ≠ [] := by decide +kernel

/-- 5.8.5 All Variable Usages Are Allowed: if the checker reports nothing, every variable usage in the scope of
    an operation satisfies the specification's `IsVariableUsageAllowed` (type compatibility, with the
    non-null-default exceptions). -/
theorem C03_rule_5_8_5 (S : Schema) (D : Doc) (hS : SchemaValid S) (h : checkOp S D = []) : rule_5_8_5 S D = true := by
  unfold rule_5_8_5
  rw [List.all_eq_true]
  intro o ho
  rw [List.all_eq_true]
  intro u hu
  obtain ⟨vd, hvd, hal⟩ := opVarUses_ok hS h (by rw [← ops_eq]; exact ho) u hu
  simp only [hvd]; exact hal

/-- non-vacuity of `C03_rule_5_8_5`: the accepted witness uses a nullable variable with a default at a non-null location; and the rule has teeth (`wBad "5.8.5"` violates it and is rejected) -/
example : SchemaValid wSchema ∧ checkOp wSchema wDoc = [] ∧ 1 ≤ nDefaultRescued wSchema wDoc := by decide +kernel
example : rule_5_8_5 wSchema (wBad "5.8.5") = false ∧ checkOp wSchema (wBad "5.8.5") ≠ [] := by decide +kernel

/-! ### subscriptions (`Lemmas/CheckOpSubscription.lean`) -/

/-- 5.2.3.1 Single Root Field, the part a checker has to test: if the checker reports nothing, the root selection
    set of every subscription collects AT MOST ONE response key (spec `CollectFields`, through inline fragments
    and fragment spreads). This half needs no hypothesis on the document; that at least one key is collected needs
    the grammar's non-empty selection sets — `C03_rule_5_2_3_1` below. -/
theorem C03_rule_5_2_3_1_at_most_one (S : Schema) (D : Doc) (h : checkOp S D = []) :
    ∀ o ∈ Valid.ops D, o.kind = .subscription → (Valid.rootKeys D o.sel).length ≤ 1 := by
  intro o ho hkind
  rw [ops_eq] at ho
  obtain ⟨_, hb⟩ := checkDefs_mem D [] h _ (op_mem_doc ho)
  obtain ⟨root, hroot, _, _, hsub, hwalk⟩ := checkOperation_nil (by simpa [defBody] using hb)
  have hM : (dedupNames (rootKeys (keysHandler D (fuelFor D)) [] o.sel)).length ≤ 1 := by
    have hk : (o.kind == OpKind.subscription) = true := by rw [hkind]; rfl
    simp only [hk, Bool.true_and, hasMoreThanOneField, decide_eq_false_iff_not] at hsub
    omega
  unfold Valid.rootKeys
  apply dedup_le_one_of_subset _ hM
  intro key hkey
  have hflat : FlatKey D o.sel key := rootKeys_flatKey (accepted_nodup h) (by
    unfold Valid.rootKeys
    exact mem_foldl_dedup_of _ [] (Or.inr hkey))
  unfold checkSelectionSet at hwalk
  cases hdf : directFields root with
  | none => simp [hdf] at hwalk
  | some fields =>
    simp only [hdf] at hwalk
    exact flatKey_collected admissible_none (accepted_condsDefined h) hflat _ _ _ _ hdf (quiet_none_iff.mpr hwalk)

/-- non-vacuity of `C03_rule_5_2_3_1_at_most_one`: the accepted witness has a subscription whose single root key is
    found through a fragment spread and an inline fragment; two root fields (one through a spread) are rejected -/
example : checkOp wSchema wDoc = [] ∧ 1 ≤ nSubsThroughSpread wDoc := by decide +kernel
example : rule_5_2_3_1 wSchema (wBad "5.2.3.1") = false ∧ checkOp wSchema (wBad "5.2.3.1") ≠ [] := by decide +kernel

/-! ### directives on operations and variable definitions (part of 5.7.1 – 5.7.3) -/

/-- 5.7.1 – 5.7.3 on the definition-level directive sites of operations: if the checker reports nothing, the
    directives applied to every operation and to every variable definition are defined, allowed at that
    location, and not repeated unless repeatable -/
theorem C03_directives_on_operations (S : Schema) (D : Doc) (h : checkOp S D = []) :
    ∀ o ∈ Valid.ops D, ∀ site ∈ defDirSites (.op o), dirSiteOk S site := by
  intro o ho site hs
  have hmem : ExecDef.op o ∈ D := by
    simp only [Valid.ops, List.mem_filterMap] at ho
    obtain ⟨d, hd, hdo⟩ := ho
    cases d <;> simp at hdo
    subst hdo; exact hd
  obtain ⟨_, hb⟩ := checkDefs_mem D [] h _ hmem
  obtain ⟨_, _, hdirs, hv, _⟩ := checkOperation_nil (by simpa [defBody] using hb)
  simp only [defDirSites, List.mem_cons, List.mem_map] at hs
  rcases hs with rfl | ⟨v, hv', rfl⟩
  · have : Valid.opLocation o.kind = CheckOp.opLocation o.kind := by cases o.kind <;> rfl
    rw [this]
    exact dirSiteOk_of_checkDirectives hdirs
  · exact dirSiteOk_of_checkDirectives (checkVariablesAux_dirs o.vars [] hv v hv')

/-- non-vacuity of `C03_directives_on_operations`: the accepted witness has directives on an operation and on a
    variable definition; `@skip` on a query is rejected -/
example : checkOp wSchema wDoc = [] ∧ "QUERY" ∈ dirLocations wSchema wDoc ∧ "VARIABLE_DEFINITION" ∈ dirLocations wSchema wDoc := by
  decide +kernel
example : checkOp wSchema (wBad "5.7.2") ≠ [] := by decide +kernel

/-! ### conjunction -/

/-- the rules whose soundness theorem needs no hypothesis on the document (all implemented rules except 5.2.3.1,
    which is proved under `Doc.NonEmptySelections` further below) -/
def ProvedRules : List String :=
  ["5.2.1.1", "5.2.2.1", "5.5.1.1", "5.8.1", "5.8.2", "5.3.1", "5.3.3", "5.5.1.2", "5.5.1.3", "5.5.2.1", "5.5.2.2", "5.7.1", "5.7.2", "5.7.3", "5.4.2.1", "5.5.2.3", "5.4.1", "5.4.2", "5.6.1", "5.6.2", "5.6.3", "5.6.4", "5.8.3", "5.8.5"]

/-- every proved rule is one of the implemented rules of the C03 statement -/
example : ∀ r ∈ ProvedRules, r ∈ ImplementedRules := by decide

/-- C03 for the proved rules: a document the checker accepts (against a valid schema) satisfies each of them -/
theorem C03_accepts_only_valid_proved (S : Schema) (D : Doc) (hS : SchemaValid S) (h : checkOp S D = []) :
    ∀ r ∈ ProvedRules, Holds r S D := by
  intro r hr f hf
  simp only [ProvedRules, List.mem_cons, List.not_mem_nil, or_false] at hr
  simp only [ruleTable, extraRuleTable, List.cons_append, List.nil_append, List.mem_cons, Prod.mk.injEq,
    List.not_mem_nil, or_false] at hf
  rcases hr with rfl | rfl | rfl | rfl | rfl | rfl | rfl | rfl | rfl | rfl | rfl | rfl | rfl | rfl | rfl | rfl | rfl | rfl | rfl | rfl | rfl | rfl | rfl | rfl <;> simp at hf <;> subst hf
  · exact C03_rule_5_2_1_1 S D h
  · exact C03_rule_5_2_2_1 S D h
  · exact C03_rule_5_5_1_1 S D h
  · exact C03_rule_5_8_1 S D h
  · exact C03_rule_5_8_2 S D h
  · exact C03_rule_5_3_1 S D hS h
  · exact C03_rule_5_3_3 S D hS h
  · exact C03_rule_5_5_1_2 S D hS h
  · exact C03_rule_5_5_1_3 S D hS h
  · exact C03_rule_5_5_2_1 S D hS h
  · exact C03_rule_5_5_2_2 S D hS h
  · exact C03_rule_5_7_1 S D hS h
  · exact C03_rule_5_7_2 S D hS h
  · exact C03_rule_5_7_3 S D hS h
  · exact C03_rule_5_4_2_1 S D hS h
  · exact C03_rule_5_5_2_3 S D hS h
  · exact C03_rule_5_4_1 S D hS h
  · exact C03_rule_5_4_2 S D hS h
  · exact C03_rule_5_6_1 S D hS h
  · exact C03_rule_5_6_2 S D hS h
  · exact C03_rule_5_6_3 S D hS h
  · exact C03_rule_5_6_4 S D hS h
  · exact C03_rule_5_8_3 S D hS h
  · exact C03_rule_5_8_5 S D hS h

/-! ### 5.2.3.1 in full, and the conjunction over ALL implemented rules -/

/-- `subscription S { tick }` against a schema with a `Subscription` type; and the same with an EMPTY root selection
    set, which only the abstract syntax can express -/
def exSubSchema : Schema := ⟨exSchema.items ++ [
  .typeDef { kind := .object, name := "Subscription", fields := [{ name := "tick", ty := .named "Int" {} }] }]⟩
def exSubDoc : Doc := [.op { kind := .subscription, name := some ("S", {}), sel := [.field none "tick" {} [] [] none] }]
def exSubEmptyDoc : Doc := [.op { kind := .subscription, name := some ("S", {}), sel := [] }]

/-- 5.2.3.1 Single Root Field: if the checker reports nothing and every selection set of the document is
    non-empty (as the grammar `SelectionSet = "{" Selection+ "}"` guarantees for every parsed document), the root
    selection set of every subscription collects EXACTLY ONE response key (spec `CollectFields`, through inline
    fragments and fragment spreads). "At most one" is what the checker tests; "at least one" is found by following
    first selections: a spread the quiet walk went through consumed one unit of its fuel, and the reference
    validator's closure runs exactly that many rounds. No hypothesis on the schema. -/
theorem C03_rule_5_2_3_1 (S : Schema) (D : Doc) (hD : Doc.NonEmptySelections D) (h : checkOp S D = []) :
    rule_5_2_3_1 S D = true := by
  unfold rule_5_2_3_1
  rw [List.all_eq_true]
  intro o ho
  cases hk : o.kind with
  | query => rfl
  | mutation => rfl
  | subscription =>
    have h1 := C03_rule_5_2_3_1_at_most_one S D h o ho hk
    have h2 := rootKeys_nonempty h hD (by rw [← ops_eq]; exact ho)
    have : (Valid.rootKeys D o.sel).length = 1 := by omega
    simp [this]

/-- the hypotheses of `C03_rule_5_2_3_1` are satisfiable by a document with a subscription -/
example : Doc.NonEmptySelections exSubDoc ∧ checkOp exSubSchema exSubDoc = [] := by decide
example : Doc.NonEmptySelections exDoc := by decide

/-- The hypothesis `Doc.NonEmptySelections` of `C03_rule_5_2_3_1` cannot be dropped: the abstract document
    `subscription S { }` (empty root selection set — not producible by the parser) is accepted by the checker model
    against a valid schema and violates 5.2.3.1 as the reference validator states it (zero root fields). -/
theorem C03_rule_5_2_3_1_needs_nonempty :
    SchemaValid exSubSchema ∧ checkOp exSubSchema exSubEmptyDoc = [] ∧ rule_5_2_3_1 exSubSchema exSubEmptyDoc = false ∧
      ¬ Doc.NonEmptySelections exSubEmptyDoc := by decide

/-- **C03.** A document the checker accepts against a valid schema, all of whose selection sets are non-empty
    (true of every parsed document), satisfies EVERY implemented validation rule of the reference validator
    (all 25 of `ImplementedRules`). -/
theorem C03_accepts_only_valid (S : Schema) (D : Doc) (hS : SchemaValid S) (hD : Doc.NonEmptySelections D)
    (h : checkOp S D = []) : ∀ r ∈ ImplementedRules, Holds r S D := by
  intro r hr
  by_cases h1 : r = "5.2.3.1"
  · subst h1
    intro f hf
    simp only [ruleTable, extraRuleTable, List.cons_append, List.nil_append, List.mem_cons, Prod.mk.injEq,
      List.not_mem_nil, or_false] at hf
    simp at hf
    subst hf
    exact C03_rule_5_2_3_1 S D hD h
  · apply C03_accepts_only_valid_proved S D hS h
    simp only [ImplementedRules, ruleTable, List.map_cons, List.map_nil, List.mem_cons, List.not_mem_nil, or_false] at hr
    simp only [ProvedRules, List.mem_cons, List.not_mem_nil, or_false]
    rcases hr with rfl | rfl | rfl | rfl | rfl | rfl | rfl | rfl | rfl | rfl | rfl | rfl | rfl | rfl | rfl | rfl | rfl | rfl | rfl | rfl | rfl | rfl | rfl | rfl | rfl <;> simp at h1 ⊢

/-- the hypotheses of `C03_accepts_only_valid` are satisfiable together, by the witness document that contains every
    construct the rules talk about (see the examples beside each rule theorem); its subscription finds its root key
    through a spread -/
example : SchemaValid exSubSchema ∧ Doc.NonEmptySelections exSubDoc ∧ checkOp exSubSchema exSubDoc = [] := by decide
example : SchemaValid wSchema ∧ Doc.NonEmptySelections wDoc ∧ checkOp wSchema wDoc = [] ∧ 1 ≤ nSubsThroughSpread wDoc := by
  decide +kernel
/-- every implemented rule can fail, and its violating witness is rejected by the model -/
example : ∀ r ∈ ImplementedRules, ruleOf r wSchema (wBad r) = false ∧ checkOp wSchema (wBad r) ≠ [] := by decide +kernel

/-! ### fuel adequacy of the model (`Lemmas/CheckOpSoundFuel.lean`) -/

/-- Fuel adequacy: the model's recursion through fragment spreads (main walk and root-key collection of
    subscriptions) is bounded by a fuel and has an out-of-fuel branch the Rust code does not have. `checkOpX S D n Z ZK`
    is the model run with fuel `n` and with ARBITRARY behaviours `Z`, `ZK` in the two out-of-fuel branches
    (`checkOp S D` is the instance `n = fuelFor D`, `Z` = "report RecursingFragmentSpread", `ZK` = "no keys":
    `checkOp_eq_X`). For every schema and document, every fuel `n ≥ fuelFor D` (= number of fragment definitions
    + 1) and every `Z`, `ZK`, the diagnostics are those of `checkOp`: the out-of-fuel branches are never evaluated —
    the stack test fires first, because a stack holds pairwise different fragment-definition names and is therefore
    never longer than the number of fragment definitions. -/
theorem checkOp_fuel_irrelevant (S : Schema) (D : Doc) (n : Nat) (Z : SpreadHandler) (ZK : KeysHandler)
    (hn : fuelFor D ≤ n) : checkOpX S D n Z ZK = checkOp S D := by
  rw [checkOp_eq_X]
  exact checkOpX_indep S D Z exhaustedSpread ZK exhaustedKeys hn (Nat.le_refl _)

/-- Fuel adequacy, all three fuels: besides the walk fuel, the model computes `fragments_used_by_operations` (a worklist
    loop in the Rust code) by a fixed number of rounds (`#fragments + 2`) of a round function. `checkOpXU S D n m Z ZK`
    is the model with walk fuel `n`, `m` closure rounds and arbitrary out-of-fuel behaviours. For every schema and
    document, every `n ≥ fuelFor D`, every `m ≥ #fragments + 1` and every `Z`, `ZK` it reports exactly what `checkOp`
    reports: no verdict of the model depends on a fuel. -/
theorem checkOp_all_fuels_irrelevant (S : Schema) (D : Doc) (n m : Nat) (Z : SpreadHandler) (ZK : KeysHandler)
    (hn : fuelFor D ≤ n) (hm : (fragsOf D).length + 1 ≤ m) : checkOpXU S D n m Z ZK = checkOp S D := by
  rw [checkOpXU_eq_X S D Z ZK hm]
  exact checkOp_fuel_irrelevant S D n Z ZK hn

/-- The set of used fragments the model computes is a FIXED POINT of its round function — the state in which the
    worklist loop of `fragments_used_by_operations` stops — and any number of rounds `≥ #fragments + 1` computes it. -/
theorem usedFragments_fuel_irrelevant (D : Doc) :
    usedStep D (usedFragments D) = usedFragments D ∧
    ∀ m, (fragsOf D).length + 1 ≤ m → usedIter D m (usedStart D) = usedFragments D :=
  ⟨usedFragments_fixed D, fun _ hm => usedFragments_fuel hm⟩

/-- the hypotheses are met by the fuels the model uses, on the witness document with a chain of used fragments
    (`Q → UF → NF`) and an unused one; with too few rounds the chain is cut and the verdict about `NF` changes -/
example : fuelFor wDoc ≤ fuelFor wDoc ∧ (fragsOf wDoc).length + 1 ≤ (fragsOf wDoc).length + 2 ∧
    "NF" ∈ usedFragments wDoc ∧ "Unused" ∉ usedFragments wDoc ∧ "NF" ∉ usedIter wDoc 0 (usedStart wDoc) := by decide +kernel

/-- a two-cycle of fragments: `query { ...F }  fragment F on Query { ...G }  fragment G on Query { ...F }` -/
def exCycleDoc : Doc := [
  .op { kind := .query, sel := [.spread "F" {} [] {}] },
  .frag { name := "F", cond := "Query", sel := [.spread "G" {} [] {}] },
  .frag { name := "G", cond := "Query", sel := [.spread "F" {} [] {}] }]

/-- the theorem at work: even with SILENT out-of-fuel branches (`Z` reports nothing) the cycle is reported — by the
    stack test, not by running out of fuel -/
example : checkOpX exSchema exCycleDoc (fuelFor exCycleDoc) (fun _ _ _ _ _ _ => []) (fun _ _ => []) ≠ [] := by decide

/-- `fuelFor D` is the least fuel with this property: with one unit less the out-of-fuel branch is reached on
    `query { ...F }  fragment F on Query { ...G }  fragment G on Query { ...H }` (`H` undefined), and the verdict
    changes (`RecursingFragmentSpread` from the out-of-fuel branch instead of `UnknownFragment`) -/
example :
    let D : Doc := [
      .op { kind := .query, sel := [.spread "F" {} [] {}] },
      .frag { name := "F", cond := "Query", sel := [.spread "G" {} [] {}] },
      .frag { name := "G", cond := "Query", sel := [.spread "H" {} [] {}] }]
    (checkOp exSchema D).map (·.1) = [ErrKind.UnknownFragment] ∧
    (checkOpX exSchema D (fuelFor D - 1) exhaustedSpread exhaustedKeys).map (·.1) = [ErrKind.RecursingFragmentSpread] := by
  decide

/-! ### the reference validator's closures are exact (`Lemmas/CheckOpSoundClosure.lean`)

The rule predicates 5.5.2.2, 5.8.3, 5.8.5 (through `Valid.reachable`) and 5.2.3.1 (through `Valid.reachableFlat`) are
computed with a bounded number of closure rounds. If that bound were too small the predicates — and with them the
theorems above — would be weaker than the specification's rules (a long cycle would go unnoticed). It is not: -/

/-- The reference validator's `reachable D ss` is EXACTLY the set of fragment names reachable from `ss` through
    fragment spreads at any depth (`SpecReach`: inductive definition, no fuel), for every document; likewise
    `reachableFlat` and top-level reachability (`SpecFlatReach`, spec `CollectFields`). -/
theorem spec_closures_exact (D : Doc) (ss : List Selection) (n : Name) :
    (n ∈ Valid.reachable D ss ↔ SpecReach D ss n) ∧ (n ∈ Valid.reachableFlat D ss ↔ SpecFlatReach D ss n) :=
  ⟨mem_reachable_iff D ss n, mem_reachableFlat_iff D ss n⟩

/-- 5.5.2.2 without any fuel: in a document the checker accepts no fragment definition reaches itself through
    fragment spreads, however long the path. -/
theorem C03_no_fragment_cycle (S : Schema) (D : Doc) (hS : SchemaValid S) (h : checkOp S D = []) :
    ∀ f ∈ Valid.frags D, ¬ SpecReach D f.sel f.name := by
  intro f hf hr
  have hrule := C03_rule_5_5_2_2 S D hS h
  unfold rule_5_5_2_2 at hrule
  have := List.all_eq_true.mp hrule f hf
  have hmem : f.name ∈ Valid.reachable D f.sel := (mem_reachable_iff D f.sel f.name).mpr hr
  simp [hmem] at this

/-- a response key collected at the root of the selection set `ss` (spec `CollectFields`): a top-level field of `ss`
    or of a fragment reached from the top level of `ss` -/
def SpecRootKey (D : Doc) (ss : List Selection) (key : Name) : Prop :=
  key ∈ keysFlat ss ∨ ∃ n f, SpecFlatReach D ss n ∧ Valid.frag? D n = some f ∧ key ∈ keysFlat f.sel

/-- 5.2.3.1 without any fuel: in an accepted document with non-empty selection sets every subscription has exactly
    one root response key — there is a key that is collected, and every collected key is that key. -/
theorem C03_single_root_field (S : Schema) (D : Doc) (hD : Doc.NonEmptySelections D) (h : checkOp S D = []) :
    ∀ o ∈ Valid.ops D, o.kind = .subscription → ∃ key, ∀ k, SpecRootKey D o.sel k ↔ k = key := by
  intro o ho hk
  have hrule := C03_rule_5_2_3_1 S D hD h
  unfold rule_5_2_3_1 at hrule
  have h1 := List.all_eq_true.mp hrule o ho
  have hne : (OpKind.subscription != OpKind.subscription) = false := by decide
  simp only [hk, hne, Bool.false_or, beq_iff_eq] at h1
  have hiff : ∀ k, SpecRootKey D o.sel k ↔ k ∈ Valid.rootKeys D o.sel := by
    intro k
    unfold SpecRootKey Valid.rootKeys
    constructor
    · rintro (hk | ⟨n, f, hr, hf, hk⟩)
      · exact mem_foldl_dedup_of _ [] (Or.inr (List.mem_append_left _ hk))
      · refine mem_foldl_dedup_of _ [] (Or.inr (List.mem_append_right _ (List.mem_flatMap.mpr ⟨n, ?_, ?_⟩)))
        · exact (mem_reachableFlat_iff D o.sel n).mpr hr
        · simp only [hf]; exact hk
    · intro hk
      rcases List.mem_append.mp (mem_dedup hk) with hk | hk
      · exact Or.inl hk
      · obtain ⟨n, hn, hkn⟩ := List.mem_flatMap.mp hk
        cases hf : Valid.frag? D n with
        | none => simp [hf] at hkn
        | some f =>
          simp only [hf] at hkn
          exact Or.inr ⟨n, f, (mem_reachableFlat_iff D o.sel n).mp hn, hf, hkn⟩
  cases hl : Valid.rootKeys D o.sel with
  | nil => rw [hl] at h1; simp at h1
  | cons key rest =>
    cases rest with
    | cons _ _ => rw [hl] at h1; simp at h1
    | nil =>
      refine ⟨key, fun k => ?_⟩
      rw [hiff k, hl]
      simp

/-- non-vacuity of `C03_no_fragment_cycle` / `C03_single_root_field`: the witness document has a fragment that spreads
    another one, and a subscription whose root key is collected through a spread; a two-cycle is rejected -/
example : SchemaValid wSchema ∧ Doc.NonEmptySelections wDoc ∧ checkOp wSchema wDoc = [] ∧ 1 ≤ nSpreadingFrags wDoc ∧
    1 ≤ nSubsThroughSpread wDoc ∧ checkOp exSchema exCycleDoc ≠ [] := by decide +kernel

/-
OPEN — carried by K/O only (stated, not proved): nothing of the C03 statement.

Since fix e3584a3 rule 5.6.1 of the reference validator includes the 32-bit range of Int literals (spec §3.5.1); the
former separate predicate `rule_int32` (an open finding of the real checker until then) is a proved consequence:
`C03_int_literals_in_range`, `C03_rule_5_6_1_contains_int_range`, `C03_int_range_prerepair_witness`.

Every implemented rule (25 of 25) is proved, the conjunction `C03_accepts_only_valid` included. What the theorems
assume and K/O carry:
* `Doc.NonEmptySelections D` in `C03_rule_5_2_3_1` / `C03_accepts_only_valid` / `C03_single_root_field` — a property of
  the PARSER (grammar `SelectionSet = "{" Selection+ "}"`), not of the checker; NOT discharged by any theorem of this
  property; shown necessary by `C03_rule_5_2_3_1_needs_nonempty`. The 24 other rules (`C03_accepts_only_valid_proved`)
  and the "at most one" half (`C03_rule_5_2_3_1_at_most_one`) do not need it.
* the model = the Rust code (K) — including `Model/IntLit.lean` = Rust's `str::parse::<i32>` and the bounded-rounds /
  fuel-bounded rendering of the Rust loops; the reference validator = the specification (trusted transcription).
* `#import` resolution and the `nitrogql check` command are not modelled (import stream and CLI leg of K/O).
NOT implemented by the checker (known, recorded as a theorem in `Props/C03FieldMerge.lean`): 5.3.2 Field Selection
Merging; also 5.2.3.1b, 5.5.1.4, 5.8.4 (`extraRuleTable`).
-/

end NitroVerif.CheckOp
