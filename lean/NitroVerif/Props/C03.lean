import NitroVerif.Lemmas.CheckOpSubscription
/-!
# C03 — `check` accepts no operation that violates an implemented validation rule

Property theorems only. Model: `NitroVerif/Model/CheckOp.lean` + `Model/CheckCommon.lean` (tied to
`crates/checker/src/operation_checker/*.rs` and `common.rs` by the correspondence check
`harness/src/bin/opcheck/mod.rs`); reference validator: `NitroVerif/Spec/Valid.lean` (written from the
GraphQL specification, quantifying over all selection sets of the document).

Every theorem has the shape "the model reports no diagnostic ⟹ the rule predicate of the reference validator
holds". The document-level and variable-definition rules need no hypothesis on the schema; the others assume
`SchemaValid S` (used: no field is named `__typename`; argument and input-field names are unique per
field / directive / input object). Helper lemmas live in `Lemmas/CheckOp*.lean`: the walk invariant
(`CheckOpWalk`), spread handler / reachability / closures (`CheckOpReach`), "every selection set of the
document was visited" (`CheckOpVisited`), directive and argument sites (`CheckOpSites`), applicability of
spreads (`CheckOpApply`), argument names by counting (`CheckOpArgs`), values and variable usages
(`CheckOpValues*`), subscription root keys (`CheckOpSubscription`).
-/
namespace NitroVerif.CheckOp
open NitroVerif.Gql NitroVerif.CheckCommon NitroVerif.Valid

/-! ### witnesses used by the non-vacuity examples -/

def exSchema : Schema := ⟨[
  .typeDef { kind := .scalar, name := "Int" },
  .typeDef { kind := .scalar, name := "Float" },
  .typeDef { kind := .scalar, name := "String" },
  .typeDef { kind := .scalar, name := "Boolean" },
  .typeDef { kind := .scalar, name := "ID" },
  .typeDef { kind := .object, name := "Query",
             fields := [{ name := "a", ty := .named "Int" {} },
                        { name := "f", args := [{ name := "x", ty := .nonNull (.named "Int" {}) }], ty := .named "Query" {} }] }]⟩

/-- `query Q($v: Int!) { a f(x: $v) { a ...F } }  fragment F on Query { a }` -/
def exDoc : Doc := [
  .op { kind := .query, name := some ("Q", {}),
        vars := [{ name := "v", ty := .nonNull (.named "Int" {}) }],
        sel := [.field none "a" {} [] [] none,
                .field none "f" {} [("x", {}, .var "v" {})] []
                  (some [.field none "a" {} [] [] none, .spread "F" {} [] {}])] },
  .frag { name := "F", cond := "Query", sel := [.field none "a" {} [] [] none] }]

/-- the hypotheses of every theorem below are satisfiable by a non-trivial schema and document -/
example : SchemaValid exSchema := by decide
example : checkOp exSchema exDoc = [] := by decide

/-- and it is not trivially true: a duplicated operation name is reported -/
example : checkOp exSchema (exDoc ++ exDoc) ≠ [] := by decide

/-! ### document-level rules -/

/-- 5.2.1.1 Operation Name Uniqueness: if the checker reports nothing, no two named operations of the
    document have the same name. -/
theorem C03_rule_5_2_1_1 (S : Schema) (D : Doc) (h : checkOp S D = []) : rule_5_2_1_1 S D = true := by
  have := (checkDefs_opNames (S := S) (D := D) D [] h).2
  simpa [rule_5_2_1_1, opNames, opNamesOf, ops_eq] using this

/-- 5.2.2.1 Lone Anonymous Operation: if the checker reports nothing and the document contains an anonymous
    operation, that operation is the only operation of the document. -/
theorem C03_rule_5_2_2_1 (S : Schema) (D : Doc) (h : checkOp S D = []) : rule_5_2_2_1 S D = true := by
  unfold rule_5_2_2_1
  cases hany : (Valid.ops D).any (·.name.isNone) with
  | false => simp
  | true =>
    obtain ⟨o, ho, hnone⟩ := List.any_eq_true.mp hany
    have hmem : ExecDef.op o ∈ D := by
      simp only [Valid.ops, List.mem_filterMap] at ho
      obtain ⟨d, hd, hdo⟩ := ho
      cases d <;> simp at hdo
      subst hdo; exact hd
    obtain ⟨⟨e, he⟩, _⟩ := checkDefs_mem D [] h _ hmem
    have hn : o.name = none := by cases hx : o.name <;> simp_all
    simp only [defHeader, hn] at he
    have : (opsOf D).length = 1 := by
      by_cases hl : (opsOf D).length = 1
      · exact hl
      · simp [hl] at he
    simp [ops_eq, this]

/-- 5.5.1.1 Fragment Name Uniqueness: if the checker reports nothing, no two fragment definitions of the
    document have the same name. -/
theorem C03_rule_5_5_1_1 (S : Schema) (D : Doc) (h : checkOp S D = []) : rule_5_5_1_1 S D = true := by
  have := (checkDefs_fragNames (S := S) (D := D) D [] h).2
  simpa [rule_5_5_1_1, fragNamesOf, frags_eq] using this

/-- 5.8.1 Variable Uniqueness: if the checker reports nothing, the variables of every operation have
    pairwise different names. -/
theorem C03_rule_5_8_1 (S : Schema) (D : Doc) (h : checkOp S D = []) : rule_5_8_1 S D = true := by
  unfold rule_5_8_1
  rw [List.all_eq_true]
  intro o ho
  exact (checkVariablesAux_nil o.vars [] (vars_of_accepted h o ho)).2.1

/-- 5.8.2 Variables Are Input Types: if the checker reports nothing, the (unwrapped) type of every variable
    of every operation is a scalar, enum or input-object type defined in the schema. -/
theorem C03_rule_5_8_2 (S : Schema) (D : Doc) (h : checkOp S D = []) : rule_5_8_2 S D = true := by
  unfold rule_5_8_2
  rw [List.all_eq_true]
  intro o ho
  rw [List.all_eq_true]
  intro v hv
  have := (checkVariablesAux_nil o.vars [] (vars_of_accepted h o ho)).2.2 v hv
  unfold isInputType? at this
  cases hk : S.kindOf? v.ty.unwrapped with
  | none => simp [hk] at this
  | some k => simpa [hk] using this

/-! ### fragment targets (the part of 5.5.1.2 / 5.5.1.3 about fragment DEFINITIONS) -/

/-- 5.5.1.2 / 5.5.1.3 for fragment definitions: if the checker reports nothing, the type condition of every
    fragment definition is an object, interface or union type of the schema. (The same rules for the type
    conditions of inline fragments are in the OPEN block below.) -/
theorem C03_fragment_definition_targets (S : Schema) (D : Doc) (h : checkOp S D = []) :
    ∀ f ∈ Valid.frags D, ∃ t, S.typeDef? f.cond = some t ∧
      (t.kind = .object ∨ t.kind = .interface ∨ t.kind = .union) := by
  intro f hf
  have hmem : ExecDef.frag f ∈ D := by
    simp only [Valid.frags, List.mem_filterMap] at hf
    obtain ⟨d, hd, hdo⟩ := hf
    cases d <;> simp at hdo
    subst hdo; exact hd
  obtain ⟨_, hb⟩ := checkDefs_mem D [] h _ hmem
  simp only [defBody, checkFragmentDefinition] at hb
  obtain ⟨_, hb⟩ := append_eq_nil' hb
  cases ht : S.typeDef? f.cond with
  | none => simp [ht] at hb
  | some t =>
    refine ⟨t, rfl, ?_⟩
    simp only [ht] at hb
    cases hk : t.kind <;> simp_all [directFields]

/-! ### selection sets: every selection set of the document is visited with its correct type in scope
(`Lemmas/CheckOpWalk.lean`, `CheckOpReach.lean`, `CheckOpVisited.lean`) -/

/-- 5.3.1 Field Selections: if the checker reports nothing, every field selected anywhere in the document
    (operations and ALL fragment definitions, at any depth) is defined on the type in scope. -/
theorem C03_rule_5_3_1 (S : Schema) (D : Doc) (hS : SchemaValid S) (h : checkOp S D = []) : rule_5_3_1 S D = true := by
  unfold rule_5_3_1
  rw [List.all_eq_true]
  intro ps hps
  obtain ⟨A, k, seen, vars, hA, hl⟩ := all_visited h (schemaValid_noReserved hS) ps hps
  obtain ⟨p, s⟩ := ps
  cases p with
  | none => exact absurd hl (by simp [LocalFact])
  | some t =>
    cases s with
    | field al name namePos args dirs sel =>
      simp only [LocalFact] at hl
      obtain ⟨root, fields, hn, hf, fd, hfd, _⟩ := hl
      simp [fieldDef?_eq_find (schemaValid_noReserved hS) hn hf, hfd]
    | spread => rfl
    | inline => rfl

/-- 5.3.3 Leaf Field Selections: if the checker reports nothing, every selected field of scalar or enum type
    has no sub-selection and every selected field of object, interface or union type has one. -/
theorem C03_rule_5_3_3 (S : Schema) (D : Doc) (hS : SchemaValid S) (h : checkOp S D = []) : rule_5_3_3 S D = true := by
  unfold rule_5_3_3
  rw [List.all_eq_true]
  intro ps hps
  obtain ⟨A, k, seen, vars, hA, hl⟩ := all_visited h (schemaValid_noReserved hS) ps hps
  obtain ⟨p, s⟩ := ps
  cases p with
  | none => exact absurd hl (by simp [LocalFact])
  | some t =>
    cases s with
    | field al name namePos args dirs sel =>
      simp only [LocalFact] at hl
      obtain ⟨root, fields, hn, hf, fd, hfd, _, _, ft, hft, hsel⟩ := hl
      simp only [fieldDef?_eq_find (schemaValid_noReserved hS) hn hf, hfd, Schema.kindOf?, hft, Option.map_some]
      unfold directFields at hsel
      cases hk : ft.kind <;> simp [hk, isLeafKind, isCompositeKind] at hsel ⊢ <;> simp [hsel]
    | spread => rfl
    | inline => rfl

/-- 5.5.1.2 Fragment Spread Type Existence: if the checker reports nothing, the type condition of every fragment
    definition and of every inline fragment is a type of the schema. -/
theorem C03_rule_5_5_1_2 (S : Schema) (D : Doc) (hS : SchemaValid S) (h : checkOp S D = []) : rule_5_5_1_2 S D = true := by
  unfold rule_5_5_1_2
  rw [List.all_eq_true]
  intro c hc
  obtain ⟨ct, hct, _⟩ := typeConditions_ok hS h c hc
  simp [hct]

/-- 5.5.1.3 Fragments on Composite Types: if the checker reports nothing, every type condition is an object,
    interface or union type. -/
theorem C03_rule_5_5_1_3 (S : Schema) (D : Doc) (hS : SchemaValid S) (h : checkOp S D = []) : rule_5_5_1_3 S D = true := by
  unfold rule_5_5_1_3
  rw [List.all_eq_true]
  intro c hc
  obtain ⟨ct, hct, hd⟩ := typeConditions_ok hS h c hc
  simp [Schema.kindOf?, hct, directFields_isSome_composite hd]

/-- 5.5.2.1 Fragment Spread Target Defined: if the checker reports nothing, every fragment spread anywhere in
    the document names a fragment the document defines. -/
theorem C03_rule_5_5_2_1 (S : Schema) (D : Doc) (hS : SchemaValid S) (h : checkOp S D = []) : rule_5_5_2_1 S D = true := by
  unfold rule_5_5_2_1
  rw [List.all_eq_true]
  intro ps hps
  obtain ⟨A, k, seen, vars, hA, hl⟩ := all_visited h (schemaValid_noReserved hS) ps hps
  obtain ⟨p, s⟩ := ps
  cases s with
  | field => rfl
  | inline => rfl
  | spread name namePos dirs pos =>
    cases p with
    | none => exact absurd hl (by simp [LocalFact])
    | some t =>
      simp only [LocalFact] at hl
      obtain ⟨root, fields, _, hf, _, hq⟩ := hl
      obtain ⟨_, f, _, _, hm, _⟩ := handler_quiet hA hf hq
      simp [frag?_eq_fragMap (accepted_nodup h), hm]

/-- 5.5.2.2 Fragment Spreads Must Not Form Cycles: if the checker reports nothing, no fragment definition reaches
    itself through spreads (the seen-stack argument: the walk of a fragment's selection set has the fragment's name
    on the stack, the stack only grows along spreads, and a spread of a name on the stack is a diagnostic). -/
theorem C03_rule_5_5_2_2 (S : Schema) (D : Doc) (hS : SchemaValid S) (h : checkOp S D = []) : rule_5_5_2_2 S D = true := by
  unfold rule_5_5_2_2
  rw [List.all_eq_true]
  intro f hf
  rw [frags_eq] at hf
  obtain ⟨A, vars, seen, hA, hmem, _, hq⟩ := frag_walked h (schemaValid_noReserved hS) hf
  cases hc : (Valid.reachable D f.sel).contains f.name with
  | false => rfl
  | true =>
    exfalso
    have hr := reachable_sound (accepted_nodup h) (by simpa using hc : f.name ∈ Valid.reachable D f.sel)
    obtain ⟨hno, _⟩ := reach_walked hA (schemaValid_noReserved hS) (accepted_condsDefined h) hq hr
    have : seen.contains f.name = true := by simpa using hmem
    rw [this] at hno; cases hno

/-! ### directives at every location, required arguments, applicability of spreads (`Lemmas/CheckOpSites.lean`, `CheckOpApply.lean`) -/

/-- 5.7.1 Directives Are Defined: if the checker reports nothing, every directive applied anywhere in the
    document (operations, variable definitions, fields, fragment spreads, inline fragments, fragment
    definitions) is defined in the schema. -/
theorem C03_rule_5_7_1 (S : Schema) (D : Doc) (hS : SchemaValid S) (h : checkOp S D = []) : rule_5_7_1 S D = true := by
  unfold rule_5_7_1
  rw [List.all_eq_true]
  intro site hs
  obtain ⟨A, vars, _, hfacts, _⟩ := dirSites_checked hS h site hs
  rw [List.all_eq_true]
  intro d hd
  obtain ⟨dd, hdd, _⟩ := hfacts d hd
  simp [hdd]

/-- 5.7.2 Directives Are in Valid Locations: if the checker reports nothing, every directive applied anywhere
    in the document is declared for the location it is applied at. -/
theorem C03_rule_5_7_2 (S : Schema) (D : Doc) (hS : SchemaValid S) (h : checkOp S D = []) : rule_5_7_2 S D = true := by
  unfold rule_5_7_2
  rw [List.all_eq_true]
  intro site hs
  obtain ⟨A, vars, _, hfacts, _⟩ := dirSites_checked hS h site hs
  rw [List.all_eq_true]
  intro d hd
  obtain ⟨dd, hdd, hl, _⟩ := hfacts d hd
  simp only [hdd]; exact hl

/-- 5.7.3 Directives Are Unique per Location: if the checker reports nothing, no non-repeatable directive is
    applied twice at the same location. -/
theorem C03_rule_5_7_3 (S : Schema) (D : Doc) (hS : SchemaValid S) (h : checkOp S D = []) : rule_5_7_3 S D = true := by
  unfold rule_5_7_3
  rw [List.all_eq_true]
  intro site hs
  obtain ⟨A, vars, _, _, hnd⟩ := dirSites_checked hS h site hs
  exact hnd

/-- 5.4.2.1 Required Arguments: if the checker reports nothing, every field and directive of the document is
    given all its required arguments (non-null type, no default value). -/
theorem C03_rule_5_4_2_1 (S : Schema) (D : Doc) (hS : SchemaValid S) (h : checkOp S D = []) : rule_5_4_2_1 S D = true := by
  unfold rule_5_4_2_1
  rw [List.all_eq_true]
  intro site hs
  obtain ⟨A, vars, pos, hA, hq⟩ := argSites_checked hS h site hs
  rw [List.all_eq_true]
  intro d hd
  cases hreq : (d.ty.isNonNull && d.default.isNone) with
  | false => simp
  | true => simpa using (checkArguments_quiet hA hq).1 d hd hreq

/-- 5.5.2.3 Fragment Spread Is Possible: if the checker reports nothing, for every fragment spread and inline
    fragment of the document the possible types of the type in scope and of the fragment's type condition
    overlap. -/
theorem C03_rule_5_5_2_3 (S : Schema) (D : Doc) (hS : SchemaValid S) (h : checkOp S D = []) : rule_5_5_2_3 S D = true := by
  unfold rule_5_5_2_3
  rw [List.all_eq_true]
  intro ps hps
  obtain ⟨A, k, seen, vars, hA, hl⟩ := all_visited h (schemaValid_noReserved hS) ps hps
  obtain ⟨p, s⟩ := ps
  cases p with
  | none => exact absurd hl (by simp [LocalFact])
  | some t =>
    simp only [LocalFact] at hl
    obtain ⟨root, fields, hn, hf, hl⟩ := hl
    cases s with
    | field => rfl
    | spread name namePos dirs pos =>
      obtain ⟨_, hq⟩ := hl
      obtain ⟨_, f, _, _, hm, _, hrest⟩ := handler_quiet hA hf hq
      obtain ⟨ct, hct⟩ := accepted_condsDefined h f (fragMap_mem hm).1
      simp only [frag?_eq_fragMap (accepted_nodup h), hm]
      exact applicability_canApply hA hn hct (hrest ct hct).1
    | inline cond dirs ss pos =>
      cases cond with
      | none => rfl
      | some cc =>
        obtain ⟨c, cp⟩ := cc
        obtain ⟨_, ct, hct, hq, _⟩ := hl
        exact applicability_canApply hA hn hct hq

/-! ### argument names (`Lemmas/CheckOpArgs.lean`: the unknown-argument test counts matched definitions) -/

/-- 5.4.1 Argument Names: if the checker reports nothing, every argument given to a field or a directive is
    defined for it. -/
theorem C03_rule_5_4_1 (S : Schema) (D : Doc) (hS : SchemaValid S) (h : checkOp S D = []) : rule_5_4_1 S D = true := by
  unfold rule_5_4_1
  rw [List.all_eq_true]
  intro site hs
  obtain ⟨A, vars, pos, hA, hq⟩ := argSites_checked hS h site hs
  rw [List.all_eq_true]
  intro a ha
  exact (checkArguments_names hA hq).2 (argSites_defs_nodup hS D site hs) a ha

/-- 5.4.2 Argument Uniqueness: if the checker reports nothing, no field or directive of the document is given
    two arguments with the same name. -/
theorem C03_rule_5_4_2 (S : Schema) (D : Doc) (hS : SchemaValid S) (h : checkOp S D = []) : rule_5_4_2 S D = true := by
  unfold rule_5_4_2
  rw [List.all_eq_true]
  intro as has
  rcases List.mem_append.mp has with has | has
  · simp only [rule_5_4_2.fieldArgSitesAll, List.mem_filterMap] at has
    obtain ⟨ps, hps, hsite⟩ := has
    obtain ⟨A, k, seen, vars, hA, hl⟩ := all_visited h (schemaValid_noReserved hS) ps hps
    obtain ⟨p, s⟩ := ps
    cases s with
    | spread => simp at hsite
    | inline => simp at hsite
    | field al name namePos args dirs sel =>
      simp only [Option.some.injEq] at hsite
      subst hsite
      cases p with
      | none => exact absurd hl (by simp [LocalFact])
      | some t =>
        simp only [LocalFact] at hl
        obtain ⟨_, _, _, _, fd, _, _, hq, _⟩ := hl
        exact (checkArguments_names hA hq).1
  · simp only [rule_5_4_2.dirArgSitesAll, List.mem_flatMap, List.mem_map] at has
    obtain ⟨site, hsite, d, hd, rfl⟩ := has
    obtain ⟨A, vars, hA, hfacts, _⟩ := dirSites_checked hS h site hsite
    obtain ⟨dd, _, _, hq⟩ := hfacts d hd
    exact (checkArguments_names hA hq).1

/-! ### values and variable usages (`Lemmas/CheckOpValues*.lean`: `check_value` against the specification input coercion and `IsVariableUsageAllowed`) -/

/-- 5.6.1 Values of Correct Type: if the checker reports nothing, every argument value (of fields and of
    directives, at any nesting depth inside lists and input objects) and every variable default value is
    coercible to the type expected at its position. -/
theorem C03_rule_5_6_1 (S : Schema) (D : Doc) (hS : SchemaValid S) (h : checkOp S D = []) : rule_5_6_1 S D = true :=
  valueRule_of_ok "5.6.1" (typedValues_ok hS h)

/-- 5.6.2 Input Object Field Names: if the checker reports nothing, every field of every input-object literal
    is defined by the input-object type expected at its position. -/
theorem C03_rule_5_6_2 (S : Schema) (D : Doc) (hS : SchemaValid S) (h : checkOp S D = []) : rule_5_6_2 S D = true :=
  valueRule_of_ok "5.6.2" (typedValues_ok hS h)

/-- 5.6.3 Input Object Field Uniqueness: if the checker reports nothing, no input-object literal names a field
    twice. -/
theorem C03_rule_5_6_3 (S : Schema) (D : Doc) (hS : SchemaValid S) (h : checkOp S D = []) : rule_5_6_3 S D = true :=
  valueRule_of_ok "5.6.3" (typedValues_ok hS h)

/-- 5.6.4 Input Object Required Fields: if the checker reports nothing, every input-object literal provides
    all required fields (non-null type, no default value) of its type. -/
theorem C03_rule_5_6_4 (S : Schema) (D : Doc) (hS : SchemaValid S) (h : checkOp S D = []) : rule_5_6_4 S D = true :=
  valueRule_of_ok "5.6.4" (typedValues_ok hS h)

/-- 5.8.3 All Variable Uses Defined: if the checker reports nothing, every variable used in the scope of an
    operation (its selection sets and directives, and those of every fragment it reaches) is defined by that
    operation. -/
theorem C03_rule_5_8_3 (S : Schema) (D : Doc) (hS : SchemaValid S) (h : checkOp S D = []) : rule_5_8_3 S D = true := by
  unfold rule_5_8_3
  rw [List.all_eq_true]
  intro o ho
  rw [List.all_eq_true]
  intro u hu
  obtain ⟨vd, hvd, _⟩ := opVarUses_ok hS h (by rw [← ops_eq]; exact ho) u hu
  have hp : (vd.name == u.name) = true := by
    have := List.find?_some hvd
    simpa using this
  exact List.any_eq_true.mpr ⟨vd, List.mem_of_find?_eq_some hvd, by simpa using hp⟩

/-- 5.8.5 All Variable Usages Are Allowed: if the checker reports nothing, every variable usage in the scope of
    an operation satisfies the specification's `IsVariableUsageAllowed` (type compatibility, with the
    non-null-default exceptions). -/
theorem C03_rule_5_8_5 (S : Schema) (D : Doc) (hS : SchemaValid S) (h : checkOp S D = []) : rule_5_8_5 S D = true := by
  unfold rule_5_8_5
  rw [List.all_eq_true]
  intro o ho
  rw [List.all_eq_true]
  intro u hu
  obtain ⟨vd, hvd, hal⟩ := opVarUses_ok hS h (by rw [← ops_eq]; exact ho) u hu
  simp only [hvd]; exact hal

/-! ### subscriptions (`Lemmas/CheckOpSubscription.lean`) -/

/-- 5.2.3.1 Single Root Field, the part a checker has to test: if the checker reports nothing, the root selection
    set of every subscription collects AT MOST ONE response key (spec `CollectFields`, through inline fragments
    and fragment spreads). That it collects at least one follows from the grammar (selection sets are non-empty)
    together with 5.5.2.1 / 5.5.2.2 and is not proved here — see the OPEN block. -/
theorem C03_rule_5_2_3_1_at_most_one (S : Schema) (D : Doc) (h : checkOp S D = []) :
    ∀ o ∈ Valid.ops D, o.kind = .subscription → (Valid.rootKeys D o.sel).length ≤ 1 := by
  intro o ho hkind
  rw [ops_eq] at ho
  obtain ⟨_, hb⟩ := checkDefs_mem D [] h _ (op_mem_doc ho)
  obtain ⟨root, hroot, _, _, hsub, hwalk⟩ := checkOperation_nil (by simpa [defBody] using hb)
  have hM : (dedupNames (rootKeys (keysHandler D (fuelFor D)) [] o.sel)).length ≤ 1 := by
    have hk : (o.kind == OpKind.subscription) = true := by rw [hkind]; rfl
    simp only [hk, Bool.true_and, hasMoreThanOneField, decide_eq_false_iff_not] at hsub
    omega
  unfold Valid.rootKeys
  apply dedup_le_one_of_subset _ hM
  intro key hkey
  have hflat : FlatKey D o.sel key := rootKeys_flatKey (accepted_nodup h) (by
    unfold Valid.rootKeys
    exact mem_foldl_dedup_of _ [] (Or.inr hkey))
  unfold checkSelectionSet at hwalk
  cases hdf : directFields root with
  | none => simp [hdf] at hwalk
  | some fields =>
    simp only [hdf] at hwalk
    exact flatKey_collected admissible_none (accepted_condsDefined h) hflat _ _ _ _ hdf (quiet_none_iff.mpr hwalk)

/-! ### directives on operations and variable definitions (part of 5.7.1 – 5.7.3) -/

/-- 5.7.1 – 5.7.3 on the definition-level directive sites of operations: if the checker reports nothing, the
    directives applied to every operation and to every variable definition are defined, allowed at that
    location, and not repeated unless repeatable -/
theorem C03_directives_on_operations (S : Schema) (D : Doc) (h : checkOp S D = []) :
    ∀ o ∈ Valid.ops D, ∀ site ∈ defDirSites (.op o), dirSiteOk S site := by
  intro o ho site hs
  have hmem : ExecDef.op o ∈ D := by
    simp only [Valid.ops, List.mem_filterMap] at ho
    obtain ⟨d, hd, hdo⟩ := ho
    cases d <;> simp at hdo
    subst hdo; exact hd
  obtain ⟨_, hb⟩ := checkDefs_mem D [] h _ hmem
  obtain ⟨_, _, hdirs, hv, _⟩ := checkOperation_nil (by simpa [defBody] using hb)
  simp only [defDirSites, List.mem_cons, List.mem_map] at hs
  rcases hs with rfl | ⟨v, hv', rfl⟩
  · have : Valid.opLocation o.kind = CheckOp.opLocation o.kind := by cases o.kind <;> rfl
    rw [this]
    exact dirSiteOk_of_checkDirectives hdirs
  · exact dirSiteOk_of_checkDirectives (checkVariablesAux_dirs o.vars [] hv v hv')

/-! ### conjunction -/

/-- the rules whose soundness theorem is proved in this file -/
def ProvedRules : List String :=
  ["5.2.1.1", "5.2.2.1", "5.5.1.1", "5.8.1", "5.8.2", "5.3.1", "5.3.3", "5.5.1.2", "5.5.1.3", "5.5.2.1", "5.5.2.2", "5.7.1", "5.7.2", "5.7.3", "5.4.2.1", "5.5.2.3", "5.4.1", "5.4.2", "5.6.1", "5.6.2", "5.6.3", "5.6.4", "5.8.3", "5.8.5"]

/-- every proved rule is one of the implemented rules of the C03 statement -/
example : ∀ r ∈ ProvedRules, r ∈ ImplementedRules := by decide

/-- C03 for the proved rules: a document the checker accepts (against a valid schema) satisfies each of them -/
theorem C03_accepts_only_valid_proved (S : Schema) (D : Doc) (hS : SchemaValid S) (h : checkOp S D = []) :
    ∀ r ∈ ProvedRules, Holds r S D := by
  intro r hr f hf
  simp only [ProvedRules, List.mem_cons, List.not_mem_nil, or_false] at hr
  simp only [ruleTable, extraRuleTable, List.cons_append, List.nil_append, List.mem_cons, Prod.mk.injEq,
    List.not_mem_nil, or_false] at hf
  rcases hr with rfl | rfl | rfl | rfl | rfl | rfl | rfl | rfl | rfl | rfl | rfl | rfl | rfl | rfl | rfl | rfl | rfl | rfl | rfl | rfl | rfl | rfl | rfl | rfl <;> simp at hf <;> subst hf
  · exact C03_rule_5_2_1_1 S D h
  · exact C03_rule_5_2_2_1 S D h
  · exact C03_rule_5_5_1_1 S D h
  · exact C03_rule_5_8_1 S D h
  · exact C03_rule_5_8_2 S D h
  · exact C03_rule_5_3_1 S D hS h
  · exact C03_rule_5_3_3 S D hS h
  · exact C03_rule_5_5_1_2 S D hS h
  · exact C03_rule_5_5_1_3 S D hS h
  · exact C03_rule_5_5_2_1 S D hS h
  · exact C03_rule_5_5_2_2 S D hS h
  · exact C03_rule_5_7_1 S D hS h
  · exact C03_rule_5_7_2 S D hS h
  · exact C03_rule_5_7_3 S D hS h
  · exact C03_rule_5_4_2_1 S D hS h
  · exact C03_rule_5_5_2_3 S D hS h
  · exact C03_rule_5_4_1 S D hS h
  · exact C03_rule_5_4_2 S D hS h
  · exact C03_rule_5_6_1 S D hS h
  · exact C03_rule_5_6_2 S D hS h
  · exact C03_rule_5_6_3 S D hS h
  · exact C03_rule_5_6_4 S D hS h
  · exact C03_rule_5_8_3 S D hS h
  · exact C03_rule_5_8_5 S D hS h

/-
OPEN — carried by K/O only (stated, not proved):

theorem C03_rule_5_2_3_1 : checkOp S D = [] → rule_5_2_3_1 S D = true     -- single subscription root field
theorem C03_accepts_only_valid : SchemaValid S → checkOp S D = [] → ∀ r ∈ ImplementedRules, Holds r S D

What is missing is only the "at least one root field" half of 5.2.3.1 (`C03_rule_5_2_3_1_at_most_one` above is the
half a checker has to test): `rule_5_2_3_1` demands exactly one collected response key, and a `Doc` value may
contain an empty selection set (`subscription S { }`), which the grammar (`SelectionSet = "{" Selection+ "}"`)
excludes but the abstract syntax does not. On parsed documents "at least one" follows from non-emptiness plus the
proved rules 5.5.2.1 (spreads defined) and 5.5.2.2 (no cycles) by following first selections; that termination
argument (a pigeonhole over fragment names) is not formalised. The conjunction over ALL 25 implemented rules is
open for that reason alone; `C03_accepts_only_valid_proved` is the conjunction over the other 24.
-/

end NitroVerif.CheckOp
