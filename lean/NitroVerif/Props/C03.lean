import NitroVerif.Lemmas.CheckOp
/-!
# C03 — `check` accepts no operation that violates an implemented validation rule

Property theorems only. Model: `NitroVerif/Model/CheckOp.lean` + `Model/CheckCommon.lean` (tied to
`crates/checker/src/operation_checker/*.rs` and `common.rs` by the correspondence check
`harness/src/bin/opcheck/mod.rs`); reference validator: `NitroVerif/Spec/Valid.lean` (written from the
GraphQL specification, quantifying over all selection sets of the document).

Every theorem has the shape "the model reports no diagnostic ⟹ the rule predicate of the reference validator
holds". No hypothesis on the schema is needed for the rules proved here.
-/
namespace NitroVerif.CheckOp
open NitroVerif.Gql NitroVerif.CheckCommon NitroVerif.Valid

/-! ### witnesses used by the non-vacuity examples -/

def exSchema : Schema := ⟨[
  .typeDef { kind := .scalar, name := "Int" },
  .typeDef { kind := .scalar, name := "String" },
  .typeDef { kind := .object, name := "Query",
             fields := [{ name := "a", ty := .named "Int" {} },
                        { name := "f", args := [{ name := "x", ty := .nonNull (.named "Int" {}) }], ty := .named "Query" {} }] }]⟩

/-- `query Q($v: Int!) { a f(x: $v) { a ...F } }  fragment F on Query { a }` -/
def exDoc : Doc := [
  .op { kind := .query, name := some ("Q", {}),
        vars := [{ name := "v", ty := .nonNull (.named "Int" {}) }],
        sel := [.field none "a" {} [] [] none,
                .field none "f" {} [("x", {}, .var "v" {})] []
                  (some [.field none "a" {} [] [] none, .spread "F" {} [] {}])] },
  .frag { name := "F", cond := "Query", sel := [.field none "a" {} [] [] none] }]

/-- the hypothesis of every theorem below is satisfiable by a non-trivial document -/
example : checkOp exSchema exDoc = [] := by decide

/-- and it is not trivially true: a duplicated operation name is reported -/
example : checkOp exSchema (exDoc ++ exDoc) ≠ [] := by decide

/-! ### document-level rules -/

/-- 5.2.1.1 Operation Name Uniqueness: if the checker reports nothing, no two named operations of the
    document have the same name. -/
theorem C03_rule_5_2_1_1 (S : Schema) (D : Doc) (h : checkOp S D = []) : rule_5_2_1_1 S D = true := by
  have := (checkDefs_opNames (S := S) (D := D) D [] h).2
  simpa [rule_5_2_1_1, opNames, opNamesOf, ops_eq] using this

/-- 5.2.2.1 Lone Anonymous Operation: if the checker reports nothing and the document contains an anonymous
    operation, that operation is the only operation of the document. -/
theorem C03_rule_5_2_2_1 (S : Schema) (D : Doc) (h : checkOp S D = []) : rule_5_2_2_1 S D = true := by
  unfold rule_5_2_2_1
  cases hany : (Valid.ops D).any (·.name.isNone) with
  | false => simp
  | true =>
    obtain ⟨o, ho, hnone⟩ := List.any_eq_true.mp hany
    have hmem : ExecDef.op o ∈ D := by
      simp only [Valid.ops, List.mem_filterMap] at ho
      obtain ⟨d, hd, hdo⟩ := ho
      cases d <;> simp at hdo
      subst hdo; exact hd
    obtain ⟨⟨e, he⟩, _⟩ := checkDefs_mem D [] h _ hmem
    have hn : o.name = none := by cases hx : o.name <;> simp_all
    simp only [defHeader, hn] at he
    have : (opsOf D).length = 1 := by
      by_cases hl : (opsOf D).length = 1
      · exact hl
      · simp [hl] at he
    simp [ops_eq, this]

/-- 5.5.1.1 Fragment Name Uniqueness: if the checker reports nothing, no two fragment definitions of the
    document have the same name. -/
theorem C03_rule_5_5_1_1 (S : Schema) (D : Doc) (h : checkOp S D = []) : rule_5_5_1_1 S D = true := by
  have := (checkDefs_fragNames (S := S) (D := D) D [] h).2
  simpa [rule_5_5_1_1, fragNamesOf, frags_eq] using this

/-- 5.8.1 Variable Uniqueness: if the checker reports nothing, the variables of every operation have
    pairwise different names. -/
theorem C03_rule_5_8_1 (S : Schema) (D : Doc) (h : checkOp S D = []) : rule_5_8_1 S D = true := by
  unfold rule_5_8_1
  rw [List.all_eq_true]
  intro o ho
  exact (checkVariablesAux_nil o.vars [] (vars_of_accepted h o ho)).2.1

/-- 5.8.2 Variables Are Input Types: if the checker reports nothing, the (unwrapped) type of every variable
    of every operation is a scalar, enum or input-object type defined in the schema. -/
theorem C03_rule_5_8_2 (S : Schema) (D : Doc) (h : checkOp S D = []) : rule_5_8_2 S D = true := by
  unfold rule_5_8_2
  rw [List.all_eq_true]
  intro o ho
  rw [List.all_eq_true]
  intro v hv
  have := (checkVariablesAux_nil o.vars [] (vars_of_accepted h o ho)).2.2 v hv
  unfold isInputType? at this
  cases hk : S.kindOf? v.ty.unwrapped with
  | none => simp [hk] at this
  | some k => simpa [hk] using this

/-! ### fragment targets (the part of 5.5.1.2 / 5.5.1.3 about fragment DEFINITIONS) -/

/-- 5.5.1.2 / 5.5.1.3 for fragment definitions: if the checker reports nothing, the type condition of every
    fragment definition is an object, interface or union type of the schema. (The same rules for the type
    conditions of inline fragments are in the OPEN block below.) -/
theorem C03_fragment_definition_targets (S : Schema) (D : Doc) (h : checkOp S D = []) :
    ∀ f ∈ Valid.frags D, ∃ t, S.typeDef? f.cond = some t ∧
      (t.kind = .object ∨ t.kind = .interface ∨ t.kind = .union) := by
  intro f hf
  have hmem : ExecDef.frag f ∈ D := by
    simp only [Valid.frags, List.mem_filterMap] at hf
    obtain ⟨d, hd, hdo⟩ := hf
    cases d <;> simp at hdo
    subst hdo; exact hd
  obtain ⟨_, hb⟩ := checkDefs_mem D [] h _ hmem
  simp only [defBody, checkFragmentDefinition] at hb
  obtain ⟨_, hb⟩ := append_eq_nil' hb
  cases ht : S.typeDef? f.cond with
  | none => simp [ht] at hb
  | some t =>
    refine ⟨t, rfl, ?_⟩
    simp only [ht] at hb
    cases hk : t.kind <;> simp_all [directFields]

/-! ### directives on operations and variable definitions (part of 5.7.1 – 5.7.3) -/

/-- 5.7.1 – 5.7.3 on the definition-level directive sites of operations: if the checker reports nothing, the
    directives applied to every operation and to every variable definition are defined, allowed at that
    location, and not repeated unless repeatable -/
theorem C03_directives_on_operations (S : Schema) (D : Doc) (h : checkOp S D = []) :
    ∀ o ∈ Valid.ops D, ∀ site ∈ defDirSites (.op o), dirSiteOk S site := by
  intro o ho site hs
  have hmem : ExecDef.op o ∈ D := by
    simp only [Valid.ops, List.mem_filterMap] at ho
    obtain ⟨d, hd, hdo⟩ := ho
    cases d <;> simp at hdo
    subst hdo; exact hd
  obtain ⟨_, hb⟩ := checkDefs_mem D [] h _ hmem
  obtain ⟨_, _, hdirs, hv, _⟩ := checkOperation_nil (by simpa [defBody] using hb)
  simp only [defDirSites, List.mem_cons, List.mem_map] at hs
  rcases hs with rfl | ⟨v, hv', rfl⟩
  · have : Valid.opLocation o.kind = CheckOp.opLocation o.kind := by cases o.kind <;> rfl
    rw [this]
    exact dirSiteOk_of_checkDirectives hdirs
  · exact dirSiteOk_of_checkDirectives (checkVariablesAux_dirs o.vars [] hv v hv')

/-! ### conjunction -/

/-- the rules whose soundness theorem is proved in this file -/
def ProvedRules : List String := ["5.2.1.1", "5.2.2.1", "5.5.1.1", "5.8.1", "5.8.2"]

/-- every proved rule is one of the implemented rules of the C03 statement -/
example : ∀ r ∈ ProvedRules, r ∈ ImplementedRules := by decide

/-- C03 for the proved rules: a document the checker accepts satisfies each of them -/
theorem C03_accepts_only_valid_proved (S : Schema) (D : Doc) (h : checkOp S D = []) :
    ∀ r ∈ ProvedRules, Holds r S D := by
  intro r hr f hf
  simp only [ProvedRules, List.mem_cons, List.not_mem_nil, or_false] at hr
  simp only [ruleTable, extraRuleTable, List.cons_append, List.nil_append, List.mem_cons, Prod.mk.injEq,
    List.not_mem_nil, or_false] at hf
  rcases hr with rfl | rfl | rfl | rfl | rfl <;> simp at hf <;> subst hf
  · exact C03_rule_5_2_1_1 S D h
  · exact C03_rule_5_2_2_1 S D h
  · exact C03_rule_5_5_1_1 S D h
  · exact C03_rule_5_8_1 S D h
  · exact C03_rule_5_8_2 S D h

/-
OPEN — carried by K/O only (stated, not proved; K ties the model to the code, O searches the real code for a
violation of each of them with labelled mutations at every position class):

theorem C03_rule_5_2_3_1 : checkOp S D = [] → rule_5_2_3_1 S D = true     -- single subscription root field
theorem C03_rule_5_3_1   : checkOp S D = [] → rule_5_3_1 S D = true       -- fields exist on the type in scope
theorem C03_rule_5_3_3   : SchemaValid S → checkOp S D = [] → rule_5_3_3 S D = true   -- leaf / composite selections
theorem C03_rule_5_4_1   : checkOp S D = [] → rule_5_4_1 S D = true       -- argument names
theorem C03_rule_5_4_2_1 : checkOp S D = [] → rule_5_4_2_1 S D = true     -- required arguments
theorem C03_rule_5_6_1   : SchemaValid S → checkOp S D = [] → rule_5_6_1 S D = true   -- values of correct type
theorem C03_rule_5_6_2   : checkOp S D = [] → rule_5_6_2 S D = true       -- input object field names
theorem C03_rule_5_6_3   : SchemaValid S → checkOp S D = [] → rule_5_6_3 S D = true   -- input object field uniqueness
theorem C03_rule_5_6_4   : checkOp S D = [] → rule_5_6_4 S D = true       -- input object required fields
theorem C03_rule_5_8_3   : checkOp S D = [] → rule_5_8_3 S D = true       -- variable uses defined
theorem C03_rule_5_8_5   : checkOp S D = [] → rule_5_8_5 S D = true       -- variable usages allowed
theorem C03_rule_5_5_1_2 : checkOp S D = [] → rule_5_5_1_2 S D = true     -- (inline-fragment part; definitions: proved above)
theorem C03_rule_5_5_1_3 : checkOp S D = [] → rule_5_5_1_3 S D = true     -- (inline-fragment part; definitions: proved above)
theorem C03_rule_5_5_2_1 : checkOp S D = [] → rule_5_5_2_1 S D = true     -- spread target defined
theorem C03_rule_5_5_2_2 : checkOp S D = [] → rule_5_5_2_2 S D = true     -- no fragment cycles
theorem C03_rule_5_5_2_3 : SchemaValid S → checkOp S D = [] → rule_5_5_2_3 S D = true -- spread possible
theorem C03_rule_5_7_1   : checkOp S D = [] → rule_5_7_1 S D = true       -- directives defined (operation / variable-definition sites: proved above)
theorem C03_rule_5_7_2   : checkOp S D = [] → rule_5_7_2 S D = true       -- directives in valid locations
theorem C03_rule_5_7_3   : checkOp S D = [] → rule_5_7_3 S D = true       -- directives unique per location
theorem C03_accepts_only_valid : SchemaValid S → checkOp S D = [] → ∀ r ∈ ImplementedRules, Holds r S D

Proof plan for the selection-set rules (not finished in the budget): (A) local soundness of the structural
walk — `∀ d ∈ checkSelectionSet S H seen vars root ss a, d.1 = UnknownVariable` implies the rule on `ss` and on
every nested selection set, and the same for `H seen vars parent F` at every spread `...F` inside; (B) induction
along a spread path from an operation, the fuel strictly decreasing and the exhausted-fuel branch being
non-empty, gives (A)'s hypothesis for the selection set of every fragment an operation reaches; fragments no
operation reaches are walked directly by `checkFragmentDefinition` (fix f60edb6).
-/

end NitroVerif.CheckOp
