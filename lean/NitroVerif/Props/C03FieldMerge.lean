import NitroVerif.Lemmas.CheckOpSoundWitness
import NitroVerif.Spec.FieldMerge
/-!
# C03, the rule that is NOT implemented: 5.3.2 Field Selection Merging

Property theorems only. `FieldMerge.rule_5_3_2` (`Spec/FieldMerge.lean`) is the specification's
`FieldsInSetCanMerge` / `SameResponseShape`, stated for every selection set of the document. nitrogql's
`check_operation_document` has no such check; here that known non-implementation is a theorem about the model
(which K ties to the Rust code), not prose: the model accepts documents that violate the rule.
-/
namespace NitroVerif.CheckOp
open NitroVerif.Gql NitroVerif.CheckCommon NitroVerif.Valid NitroVerif.CheckOp.Witness

/-- `query Q { n: a  n: f(x: 1) { a } }` — one response key, two different fields (`Int` against `Query`) -/
def mergeBadShape : Doc :=
  [q [fld "a" [] [] none (some "n"), fld "f" [arg "x" (vInt "1")] [] (some [fld "a"]) (some "n")]]

/-- `query Q { f(x: 1) { a }  f(x: 2) { a } }` — the same field twice with different arguments -/
def mergeBadArgs : Doc :=
  [q [fld "f" [arg "x" (vInt "1")] [] (some [fld "a"]), fld "f" [arg "x" (vInt "2")] [] (some [fld "a"])]]

/-- `query Q { node(id: "1") { ... on User { x: name } ...DF } }  fragment DF on Dog { x: id }` — the conflict
    (`String` against `ID!`) is between an inline fragment and a fragment spread, on different object types -/
def mergeBadThroughSpread : Doc :=
  [q [fld "node" [arg "id" (vStr "1")] [] (some [inl (some "User") [fld "name" [] [] none (some "x")], spr "DF"])],
   fr "DF" "Dog" [fld "id" [] [] none (some "x")]]

/-- the same with `x: bark` (`String` against `String` on different object types): mergeable -/
def mergeOk : Doc :=
  [q [fld "node" [arg "id" (vStr "1")] [] (some [inl (some "User") [fld "name" [] [] none (some "x")], spr "DF"])],
   fr "DF" "Dog" [fld "bark" [] [] none (some "x")]]

/-- 5.3.2 is not implemented: the checker model accepts, against a valid schema, three parsed-shape documents (all
    selection sets non-empty) that violate Field Selection Merging as the specification states it — two different
    fields under one response key, one field twice with different arguments, and a response-shape conflict between
    an inline fragment and a fragment spread. -/
theorem C03_field_merge_not_implemented_witnesses :
    SchemaValid wSchema ∧
    (∀ D ∈ [mergeBadShape, mergeBadArgs, mergeBadThroughSpread],
      Doc.NonEmptySelections D ∧ checkOp wSchema D = [] ∧ FieldMerge.rule_5_3_2 wSchema D = false) := by
  decide +kernel

/-- 5.3.2 is not implemented, as the failure of the C03 implication for that rule: it is NOT the case that every
    document the checker accepts (valid schema, non-empty selection sets) satisfies Field Selection Merging. -/
theorem C03_field_merge_not_implemented :
    ¬ (∀ (S : Schema) (D : Doc), SchemaValid S → Doc.NonEmptySelections D → checkOp S D = [] →
        FieldMerge.rule_5_3_2 S D = true) := by
  intro hall
  have h := hall wSchema mergeBadShape (by decide +kernel) (by decide +kernel) (by decide +kernel)
  exact absurd h (by decide +kernel)

/-- the reference statement is not trivially false: it holds of the accepted witness document of `Props/C03.lean`
    (on which the document-wide SUFFICIENT check `Valid.rule_5_3_2` fails — `name(upper: true)` and `name` occur in
    different selection sets — so that check is strictly stronger than the rule) and of a document with the same
    response key for different fields on different object types -/
example : FieldMerge.rule_5_3_2 wSchema wDoc = true ∧ Valid.rule_5_3_2 wSchema wDoc = false ∧
    checkOp wSchema mergeOk = [] ∧ FieldMerge.rule_5_3_2 wSchema mergeOk = true := by decide +kernel

/-- on the three violating witnesses the sufficient check of `Spec/Valid.lean` (what the O stream's `valid.spec` uses)
    agrees that they are invalid -/
example : ∀ D ∈ [mergeBadShape, mergeBadArgs, mergeBadThroughSpread], Valid.rule_5_3_2 wSchema D = false := by
  decide +kernel

end NitroVerif.CheckOp
