import NitroVerif.Lemmas.GqlPrintOwnLeadErase
/-!
# C07 — type-system documents written WITH the optional leading separators

Property theorems only. `Props/C07Doc.lean` proves `parse_render_type_system_document` for the renderings `DocParse.rTsDoc`,
which never write the optional leading `&` of an `implements` list, `|` of a union member list and `|` of a
directive-location list. The chain was re-proved for the renderings that DO write them (`DocParseL.rTsDoc`, namespace
`NitroVerif.DocParseL`, `Lemmas/GqlPrintOwnLead*.lean`: `"&"?` / `"|"?` of the grammar now succeed); this file states the
result as a C07 theorem. Everything else (well-formedness `WFTsItem`, trivia `Ws`, positions) is as in `Props/C07Doc.lean`;
`WFTsItem`, not `WFTsItemF`: the bare `interface I` of `parse_render_type_system_document_full` is not covered here. A document
that writes the leading separator in some lists and not in others is covered by neither theorem (OPEN block of `Props/C07.lean`).
-/
namespace NitroVerif.C07
open NitroVerif.Peg NitroVerif.Build NitroVerif.Gen NitroVerif.Gql NitroVerif.ValueParse NitroVerif.TypeParse
open NitroVerif.DocParse

/-- **`parse_render_type_system_document_lead`**: for EVERY non-empty list `doc` of well-formed type-system items and every
    trivia assignment `τ`, the model of `parse_type_system_document` applied to the rendering that writes the optional
    leading separator of EVERY non-empty `implements` list (`implements & A & B`), union member list (`= | A | B`) and
    directive-location list (`on | A | B`), with arbitrary trivia after the separator too, returns exactly the document,
    every position being the line/column of the first character of the corresponding token (`DocParseL.wpTsDoc`). Together
    with `parse_render_type_system_document` (no leading separator anywhere) both spellings the grammar admits are covered,
    each used uniformly throughout a document (not mixed). -/
theorem parse_render_type_system_document_lead (τ : Trivia) (hτ : ∀ q, Ws (τ q)) (doc : List TsItem) (hne : doc ≠ [])
    (hwf : ∀ d ∈ doc, WFTsItem d) :
    parseTs (DocParseL.rTsDoc τ doc) = .ok (DocParseL.wpTsDoc τ (DocParseL.rTsDoc τ doc) doc) :=
  DocParseL.parseTs_rTsDoc τ hτ doc hne hwf

/-- … in the terms of the property: the document returned differs from `doc` only in positions, provided every item carries
    only what its rendering shows (`NormalItem`, as for `parse_render_type_system_document_erase`). -/
theorem parse_render_type_system_document_lead_erase (τ : Trivia) (hτ : ∀ q, Ws (τ q)) (doc : List TsItem) (hne : doc ≠ [])
    (hwf : ∀ d ∈ doc, WFTsItem d) (hn : ∀ d ∈ doc, NormalItem d) :
    ∃ A, parseTs (DocParseL.rTsDoc τ doc) = .ok A ∧ GqlTokens.eraseTsDoc A = GqlTokens.eraseTsDoc doc :=
  ⟨_, DocParseL.parseTs_rTsDoc τ hτ doc hne hwf, DocParseL.tsErase_wpTsDoc τ _ doc hn⟩

/-- the hypotheses are satisfiable, and this is the text: leading separators in all three places, canonical trivia -/
example : DocParseL.rTsDoc (fun _ => [])
    [.typeDef { kind := .object, name := "T", implements := [("I", {}), ("J", {})], dirs := [{ name := "d" }] },
     .typeDef { kind := .union, name := "U", members := [("T", {}), ("V", {})] },
     .directiveDef { name := "d", locations := ["OBJECT", "FIELD"] }] =
    "type T implements &I&J@d union U=|T|V directive@d on |OBJECT|FIELD".toList := by decide

example : ∀ q : Nat, Ws ((fun _ => [] : Trivia) q) := fun _ => Ws.nil

end NitroVerif.C07
