import NitroVerif.Props.C03
import NitroVerif.Props.C04
/-!
# C03 + C04 — the checker accepts exactly the documents that satisfy the implemented rules

Property theorem only: the conjunction of the soundness direction (`C03_accepts_only_valid`, Props/C03.lean) and the
completeness direction (`C04_no_false_alarm_implemented_rules`, Props/C04.lean).
-/
namespace NitroVerif.CheckOp
open NitroVerif.Gql NitroVerif.CheckCommon NitroVerif.Valid

/-- the hypotheses are satisfiable by the non-trivial witness of Props/C04.lean -/
example : SchemaValid c04Schema ∧ Doc.NonEmptySelections c04Doc ∧ noEmptyUnionB c04Schema = true ∧
    rootsDefinedB c04Schema c04Doc = true ∧ constVarDefsB c04Doc = true := by decide +kernel

/-- **Exact characterisation.** For a valid schema (without empty unions) and a document without empty selection sets
    (as the parser's grammar guarantees — assumed, not proved here) and with constant variable definitions (the
    grammar of the specification; NOT enforced by the nitrogql parser) whose operation kinds the schema supports:
    `check_operation_document` reports NO diagnostic if and only if the document satisfies every one of the 25
    validation rules nitrogql implements. -/
theorem C04_C03_exact (S : Schema) (D : Doc) (hS : SchemaValid S) (hD : Doc.NonEmptySelections D)
    (hNE : noEmptyUnionB S = true) (hroots : rootsDefinedB S D = true) (hconst : constVarDefsB D = true) :
    checkOp S D = [] ↔ ∀ r ∈ ImplementedRules, Holds r S D :=
  ⟨C03_accepts_only_valid S D hS hD, fun h => C04_no_false_alarm_implemented_rules S D hS h hNE hroots hconst⟩

end NitroVerif.CheckOp
