import NitroVerif.Lemmas.CliComposedChecked
import NitroVerif.Lemmas.CliComposedCode
import NitroVerif.Props.C18
import NitroVerif.Props.C03
import NitroVerif.Props.C04
import NitroVerif.Props.C05
/-!
# C18, second stage — the CLI driver composed with the models of the stages it drives

Property theorems only.  `Props/C18.lean` proves the driver model correct for ALL stage results (they are its input).
Here the stage results are COMPUTED from the input texts of a project by the stage models (`CliComposed.stagesOf`,
`Lemmas/CliComposed.lean`): parser → merge + built-ins → `ExtResolve.resolve` → `CheckTs.checkSchema`; parser →
`Imports.resolveExt` → `Imports.resolve` (all files) → `CheckOp.checkOp` (all files), composed the way `run_cli_impl`
and `check_impl` compose the real stages.  Every theorem is for ALL projects (any number of files, any texts, any
command list) and ALL environments `E` — in particular for every pair of parsers (functions `file index → text →
document | error`): the parsers' own correctness is C07 / C08 and is not used.

CONCRETE in `stagesOf`: `ExtResolve.resolve`, `CheckTs.checkSchema`, `Imports.resolveExt`, `Imports.resolve`,
`CheckOp.checkOp`, the built-in definitions and the glue.  ABSTRACT (`Env`): the two parsers, `resolve_relative_path`
(`res`), the name coding, `pathPos`, the tag tables.  INPUTS no stage model computes (`Project`): command list, generate
options, `ScalarTypeNotProvided`, the results of the writes.  Hypotheses that are nowhere discharged for the real code:
`ParserStamps`, "no empty selection set" of the parsers, C03's `SchemaValid`, `TsSpecValid` and C04's decidable side
conditions.  What stays OPEN (carried by K/O only) is listed in the OPEN block at the end of `Props/C18.lean`.
-/
namespace NitroVerif.CliComposed
open NitroVerif NitroVerif.Gql NitroVerif.Cli

variable {Text κ : Type} [DecidableEq κ]

/-! ## a small concrete project (witness of the hypotheses below) -/

/-- texts of the witness: a "text" is the pair of documents the two parsers return for it -/
abbrev WText := TsDoc × Doc

def wEnv : Env WText Nat :=
  { parseTs := fun i t =>
      if t.1.isEmpty || !(TsDoc.positions t.1).all (fun p => p.file == i && !p.builtin) then .error (0, 0, i) else .ok t.1
    parseOp := fun i t =>
      if t.2.isEmpty || !Doc.nonEmptySelectionsB t.2 || !(Doc.positions t.2).all (fun p => p.file == i && !p.builtin)
      then .error (0, 0, i) else .ok t.2
    res := fun _ rel => rel.length
    code := fun n => n.length
    pathPos := fun i => i.pos
    tags := ⟨fun _ => 0, fun _ => 1, fun _ => 2, fun _ => 3, fun _ => 4⟩ }

/-- `type Query { a: Int  q: Query }` (file 0) -/
def wSchemaText : WText :=
  ([.typeDef { kind := .object, name := "Query", namePos := ⟨0, 5, 0, false⟩, pos := ⟨0, 0, 0, false⟩,
               fields := [{ name := "a", pos := ⟨0, 13, 0, false⟩, ty := .named "Int" ⟨0, 16, 0, false⟩ },
                          { name := "q", pos := ⟨0, 21, 0, false⟩, ty := .named "Query" ⟨0, 24, 0, false⟩ }] }], [])

/-- `#import F from "x"` / `query Q { a ...F }` (file 1, registered under path 1) -/
def wOpText1 : WText :=
  ([], [.imp { targets := [some ("F", ⟨0, 8, 1, false⟩)], path := "x", pos := ⟨0, 0, 1, false⟩ },
        .op { kind := .query, name := some ("Q", ⟨1, 6, 1, false⟩), pos := ⟨1, 0, 1, false⟩,
              sel := [.field none "a" ⟨1, 10, 1, false⟩ [] [] none, .spread "F" ⟨1, 15, 1, false⟩ [] ⟨1, 12, 1, false⟩] }])

/-- `fragment F on Query { q { a } }` (file 2, registered under path 1 = the length of the literal `"x"`) -/
def wOpText2 : WText :=
  ([], [.frag { name := "F", namePos := ⟨0, 9, 2, false⟩, cond := "Query", condPos := ⟨0, 14, 2, false⟩,
                pos := ⟨0, 0, 2, false⟩,
                sel := [.field none "q" ⟨0, 22, 2, false⟩ [] [] (some [.field none "a" ⟨0, 26, 2, false⟩ [] [] none])] }])

def wGen : GenOpts := ⟨true, false, false, false, false, .withLoaderTs50⟩

/-- a clean project: `check generate` on one schema file and two operation files, one importing from the other -/
def wProject : Project WText Nat :=
  ⟨[.check, .generate], [wSchemaText], [⟨0, wOpText1, .ok⟩, ⟨1, wOpText2, .ok⟩], wGen, false, .ok, .ok, .ok⟩

/-- the same project with a field the schema does not have in the second operation file -/
def wBadProject : Project WText Nat :=
  { wProject with ops := [⟨0, wOpText1, .ok⟩,
      ⟨1, ([], [.frag { name := "F", namePos := ⟨0, 9, 2, false⟩, cond := "Query", condPos := ⟨0, 14, 2, false⟩,
                        pos := ⟨0, 0, 2, false⟩, sel := [.field none "zz" ⟨0, 22, 2, false⟩ [] [] none] }]), .ok⟩] }

/-! ## 1. exit code 0 ⇔ no stage model reports anything -/

/-- which operation files the composition looks at: the `j`-th operation file of the project gets the global file
    index `#schema files + j` and is parsed with that index set -/
theorem views_spec (E : Env Text κ) (P : Project Text κ) (v : OpView Text κ) :
    v ∈ views E P ↔ ∃ j f, P.ops[j]? = some f ∧
      v = ⟨P.schemaTexts.length + j, f, E.parseOp (P.schemaTexts.length + j) f.text⟩ :=
  mem_views E P v

/-- … and the `i`-th schema file is parsed with file index `i` -/
theorem schemaParses_spec (E : Env Text κ) (P : Project Text κ) (r : PRes TsDoc) :
    r ∈ schemaParses E P ↔ ∃ i t, P.schemaTexts[i]? = some t ∧ r = E.parseTs i t :=
  mem_schemaParses E P r

/-- **exit = 0 ⇔ clean, at the level of the stage models applied to the input texts.**  For every project and
    environment: the exit code of the modelled run is 0 if and only if the command list is usable (`check` or
    `generate` first, then only `generate`), every schema file parses, every operation file parses,
    `resolve_schema_extensions` succeeds on the merged schema document (built-ins appended),
    `check_type_system_document` reports nothing on the resolved document, `resolve_operation_extensions` succeeds
    for every operation file, `resolve_operation_imports` succeeds for every operation file (against the map of ALL
    operation files) and `check_operation_document` reports nothing for every operation file (against the resolved
    schema, on the file's definitions followed by the imported ones) — and, if `generate` is requested, the options
    are usable, the schema printer does not fail and every write succeeds. -/
theorem C18_exit_iff_clean (E : Env Text κ) (P : Project Text κ) (o : Outcome)
    (h : runCli (stagesOf E P) = some o) : o.exit = 0 ↔ StagesClean E P :=
  (C18_exit_iff_faults _ o h).trans (clean_stagesOf_iff E P)

/-- the hypothesis is satisfiable, both sides of the equivalence occur: the clean witness exits 0, the witness with an
    unknown field exits 1 -/
example : (∃ o, runCli (stagesOf wEnv wProject) = some o ∧ o.exit = 0 ∧ o.written.length = 6) ∧
    (∃ o, runCli (stagesOf wEnv wBadProject) = some o ∧ o.exit = 1 ∧ o.diags.length = 2) := by
  refine ⟨⟨_, rfl, ?_, ?_⟩, ⟨_, rfl, ?_, ?_⟩⟩ <;> decide +kernel

/-- the composition is stated for EVERY coding `E.code` of fragment names into the numbers `Model/Imports.lean` works
    with; a faithful (injective) one exists, so instantiating `E.code := nameCode` identifies exactly the fragment
    names of the documents -/
theorem C18_name_coding_injective : ∀ a b : Name, nameCode a = nameCode b → a = b := nameCode_inj

/-- every run of the composed model has an outcome -/
theorem C18_composed_total (E : Env Text κ) (P : Project Text κ) : ∃ o, runCli (stagesOf E P) = some o := by
  obtain ⟨o, h, _⟩ := runCli_shape (stagesOf E P)
  exact ⟨o, h⟩

/-- the property's first sentence for the `check` command: `nitrogql check` exits 0 exactly when every file parses,
    both resolvers succeed and both checkers report nothing (`CheckClean`: the seven conditions, each about a stage
    model applied to the texts / documents of the project) -/
theorem C18_check_exit_iff_clean (E : Env Text κ) (P : Project Text κ) (hc : P.cmds = [.check]) (o : Outcome)
    (h : runCli (stagesOf E P) = some o) : o.exit = 0 ↔ CheckClean E P := by
  rw [C18_exit_iff_clean E P o h]
  constructor
  · intro c; exact c.check
  · intro c; exact ⟨by rw [hc]; rfl, c, by rw [hc]; intro hg; simp at hg⟩

example : ({ wProject with cmds := [.check] } : Project WText Nat).cmds = [.check] := rfl

/-! ## 4. `generate` writes nothing when the check fails -/

/-- whatever commands are requested (`generate`, `check generate`, …): if ANY of the seven conditions of `CheckClean`
    fails — a file does not parse, a resolver fails, a checker model reports something — no file is written and none
    is listed -/
theorem C18_generate_gated_concrete (E : Env Text κ) (P : Project Text κ) (o : Outcome)
    (h : runCli (stagesOf E P) = some o) (hf : ¬ CheckClean E P) : o.written = [] ∧ o.listed = [] := by
  apply C18_generate_gated _ o h
  apply Classical.byContradiction
  intro hn
  apply hf
  rw [checkClean_iff]
  unfold CheckFails at hn
  refine ⟨(parseErrs_nil_iff _ _ _ _).mp (Classical.byContradiction fun h1 => hn (Or.inl h1)), ?_,
    Classical.byContradiction fun h3 => hn (Or.inr (Or.inr h3))⟩
  have h2 : parseErrs .operation .parseOperation (stagesOf E P).schemaFiles.length
      ((stagesOf E P).opFiles.map (·.parse)) = [] :=
    Classical.byContradiction fun h2 => hn (Or.inr (Or.inl h2))
  intro f hf'
  exact (parseErrs_nil_iff _ _ _ _).mp h2 f.parse (List.mem_map.mpr ⟨f, hf', rfl⟩)

/-- the witness with the unknown field requests `check generate` and writes nothing -/
example : ¬ CheckClean wEnv wBadProject ∧ Cmd.generate ∈ wBadProject.cmds := by
  refine ⟨fun c => ?_, by decide⟩
  have : (∀ f ∈ (stagesOf wEnv wBadProject).schemaFiles, f = .ok) ∧
      (∀ f ∈ (stagesOf wEnv wBadProject).opFiles, f.parse = .ok) ∧ checkImpl (stagesOf wEnv wBadProject) = [] :=
    (checkClean_iff _ _).mp c
  exact absurd this.2.2 (by decide +kernel)

/-! ## 2. exit code 0 and the validation rules (C03 / C04 / C05) -/

section
open NitroVerif.Valid NitroVerif.ValidTs NitroVerif.CheckTs NitroVerif.CheckOp

/-- **exit 0 ⇒ the type-system rules hold of the project's schema.**  When the run exits 0, the resolved schema
    document (all schema files merged, built-ins appended, extensions applied) satisfies every rule of the reference
    validator of C05 whose soundness is proved from `checkSchema T = []` alone: reserved names, unique fields /
    arguments / enum values / union members, every type reference known, output and input positions, no interface
    implements itself, directives defined / at allowed locations / not repeated / with unique and well-typed
    arguments. -/
theorem C18_exit_zero_implies_schema_rules (E : Env Text κ) (P : Project Text κ) (o : Outcome)
    (h : runCli (stagesOf E P) = some o) (h0 : o.exit = 0) :
    Holds_reservedNames (resolvedSchema E P) ∧ Holds_uniqueFields (resolvedSchema E P) ∧
    Holds_uniqueArgs (resolvedSchema E P) ∧ Holds_uniqueEnumValues (resolvedSchema E P) ∧
    Holds_uniqueUnionMembers (resolvedSchema E P) ∧ knownTypeRefs (resolvedSchema E P) = true ∧
    Holds_outputPositions (resolvedSchema E P) ∧ Holds_inputPositions (resolvedSchema E P) ∧
    Holds_noSelfImplements (resolvedSchema E P) ∧ Holds_directivesDefined (resolvedSchema E P) ∧
    Holds_directivesLocated (resolvedSchema E P) ∧ Holds_directivesUnique (resolvedSchema E P) ∧
    directiveArgNamesUnique (resolvedSchema E P) = true ∧ Holds_directiveArgs (resolvedSchema E P) := by
  have hc := ((C18_exit_iff_clean E P o h).mp h0).check.schemaCheck
  exact ⟨C05_sound_reservedNames _ hc, C05_sound_uniqueFields _ hc, C05_sound_uniqueArgs _ hc,
    C05_sound_uniqueEnumValues _ hc, C05_sound_uniqueUnionMembers _ hc, C05_sound_knownTypeRefs _ hc,
    C05_sound_outputPositions _ hc, C05_sound_inputPositions _ hc, C05_sound_noSelfImplements _ hc,
    C05_sound_directivesDefined _ hc, C05_sound_directivesLocated _ hc, C05_sound_directivesUnique _ hc,
    C05_sound_directiveArgNamesUnique _ hc, C05_sound_directiveArgs _ hc⟩

/-- **exit 0 ⇒ type names are unique and the interface / union rules hold** (the C05 rules whose soundness needs the
    built-in-position type definitions to be pairwise distinct).  In the composed model that side condition is a
    theorem (`resolvedSchema_builtinsDistinct`: the parser never stamps a position built-in, so the built-in-position
    type definitions of the resolved schema are the five scalars of `generate_builtins()`).  Hence, when the run
    exits 0: all type names of the resolved schema are pairwise distinct (across kinds, built-ins included), what a
    type implements is an interface, interfaces are implemented transitively, every interface field is present with
    its arguments and at a covariant type, and union members are object types. -/
theorem C18_exit_zero_implies_interface_rules (E : Env Text κ) (P : Project Text κ) (o : Outcome)
    (h : runCli (stagesOf E P) = some o) (h0 : o.exit = 0) (hp : ParserStamps E) :
    uniqueTypeNames (resolvedSchema E P) = true ∧ Holds_implementsInterfaces (resolvedSchema E P) ∧
    Holds_transitiveInterfaces (resolvedSchema E P) ∧ Holds_ifaceFieldsPresent (resolvedSchema E P) ∧
    Holds_ifaceFieldArgs (resolvedSchema E P) ∧ Holds_ifaceFieldsCovariant (resolvedSchema E P) ∧
    Holds_unionMembersObjects (resolvedSchema E P) := by
  have hc := ((C18_exit_iff_clean E P o h).mp h0).check.schemaCheck
  have hb := resolvedSchema_builtinsDistinct (P := P) hp
  exact ⟨(C05_unique_type_names _ hc).2.2 hb, C05_sound_implementsInterfaces _ hb hc,
    C05_sound_transitiveInterfaces _ hb hc, C05_sound_ifaceFieldsPresent _ hb hc, C05_sound_ifaceFieldArgs _ hb hc,
    C05_sound_ifaceFieldsCovariant _ hb hc, C05_sound_unionMembersObjects _ hb hc⟩

/-- **exit 0 ⇒ the operation rules hold of every operation document of the project.**  When the run exits 0, every
    document the operation checker was given — the definitions of an operation file followed by the fragments its
    `#import` lines bring in — satisfies all 25 validation rules nitrogql implements (`C03_accepts_only_valid`),
    against the resolved schema.  Hypotheses: the resolved schema is valid in the sense of C03's `SchemaValid` (the
    schema check establishes most but not all of it — e.g. not that the root types exist), and the parser only
    produces documents without empty selection sets (the grammar: `SelectionSet = "{" Selection+ "}"`). -/
theorem C18_exit_zero_implies_operation_rules (E : Env Text κ) (P : Project Text κ) (o : Outcome)
    (h : runCli (stagesOf E P) = some o) (h0 : o.exit = 0)
    (hS : SchemaValid ⟨resolvedSchema E P⟩)
    (hp : ∀ i t D, E.parseOp i t = .ok D → Doc.NonEmptySelections D) :
    ∀ v ∈ views E P, ∀ r ∈ ImplementedRules, Holds r ⟨resolvedSchema E P⟩ (resolvedDoc E P v) := by
  intro v hv
  have hc := ((C18_exit_iff_clean E P o h).mp h0).check.opCheck v hv
  exact C03_accepts_only_valid _ _ hS (nonEmpty_resolvedDoc hp hv) hc

/-- **exit 0 ⇒ rules** (both halves) -/
theorem C18_exit_zero_implies_rules (E : Env Text κ) (P : Project Text κ) (o : Outcome)
    (h : runCli (stagesOf E P) = some o) (h0 : o.exit = 0)
    (hS : SchemaValid ⟨resolvedSchema E P⟩)
    (hp : ∀ i t D, E.parseOp i t = .ok D → Doc.NonEmptySelections D) :
    (Holds_reservedNames (resolvedSchema E P) ∧ Holds_uniqueFields (resolvedSchema E P) ∧
     Holds_uniqueArgs (resolvedSchema E P) ∧ Holds_uniqueEnumValues (resolvedSchema E P) ∧
     Holds_uniqueUnionMembers (resolvedSchema E P) ∧ knownTypeRefs (resolvedSchema E P) = true ∧
     Holds_outputPositions (resolvedSchema E P) ∧ Holds_inputPositions (resolvedSchema E P) ∧
     Holds_noSelfImplements (resolvedSchema E P) ∧ Holds_directivesDefined (resolvedSchema E P) ∧
     Holds_directivesLocated (resolvedSchema E P) ∧ Holds_directivesUnique (resolvedSchema E P) ∧
     directiveArgNamesUnique (resolvedSchema E P) = true ∧ Holds_directiveArgs (resolvedSchema E P)) ∧
    ∀ v ∈ views E P, ∀ r ∈ ImplementedRules, Holds r ⟨resolvedSchema E P⟩ (resolvedDoc E P v) :=
  ⟨C18_exit_zero_implies_schema_rules E P o h h0, C18_exit_zero_implies_operation_rules E P o h h0 hS hp⟩

/-- the witness parser rejects documents with an empty selection set -/
theorem wEnv_nonEmpty : ∀ i t D, wEnv.parseOp i t = .ok D → Doc.NonEmptySelections D := by
  intro i t D h
  simp only [wEnv] at h
  split at h
  · cases h
  · rename_i hc
    cases h
    simp only [Bool.or_eq_true, Bool.not_eq_true', not_or, Bool.not_eq_false] at hc
    exact hc.1.2

/-- the hypotheses are satisfiable together: the witness project exits 0, its resolved schema is `SchemaValid`, its
    parser rejects empty selection sets -/
example : (∃ o, runCli (stagesOf wEnv wProject) = some o ∧ o.exit = 0) ∧ SchemaValid ⟨resolvedSchema wEnv wProject⟩ ∧
    (∀ i t D, wEnv.parseOp i t = .ok D → Doc.NonEmptySelections D) :=
  ⟨⟨_, rfl, by decide +kernel⟩, by decide +kernel, wEnv_nonEmpty⟩

/-- **a project whose operation documents satisfy the implemented rules exits 0** (the converse, C04): if the command
    list is usable, every file parses, schema extension resolution succeeds and the schema check reports nothing,
    operation extension / import resolution succeed for every file, and every document handed to the operation
    checker satisfies the 25 implemented rules — then, under C04's three decidable side conditions (no empty union
    in the schema; a root type for the kind of every operation; constant variable definitions) and `SchemaValid`,
    the run exits 0 (and, if `generate` is requested, under `projGenOk`).  The schema-check hypothesis can in turn
    be discharged from spec-validity of the resolved schema by C05's completeness theorem
    (`C18_valid_project_exits_zero`, Props/C18ComposedTs.lean). -/
theorem C18_valid_operations_exit_zero (E : Env Text κ) (P : Project Text κ) (o : Outcome)
    (h : runCli (stagesOf E P) = some o)
    (hcmds : cmdsOk P.cmds = true)
    (hsp : ∀ r ∈ schemaParses E P, ∃ T, r = .ok T) (hop : ∀ v ∈ views E P, ∃ D, v.parse = .ok D)
    (hres : ∃ T, ExtResolve.resolve (mergedSchema E P) = .ok T)
    (hts : checkSchema (resolvedSchema E P) = [])
    (hext : ∀ v ∈ views E P, ∃ imps, extOf E.code v.doc = .ok imps)
    (himp : ∀ v ∈ views E P, ∃ out, impOf E P v = .ok out)
    (hS : SchemaValid ⟨resolvedSchema E P⟩) (hNE : noEmptyUnionB ⟨resolvedSchema E P⟩ = true)
    (hrules : ∀ v ∈ views E P, (∀ r ∈ ImplementedRules, Holds r ⟨resolvedSchema E P⟩ (resolvedDoc E P v)) ∧
      rootsDefinedB ⟨resolvedSchema E P⟩ (resolvedDoc E P v) = true ∧ constVarDefsB (resolvedDoc E P v) = true)
    (hgen : Cmd.generate ∈ P.cmds → projGenOk P = true) : o.exit = 0 := by
  rw [C18_exit_iff_clean E P o h]
  refine ⟨hcmds, ⟨hsp, hop, hres, hts, hext, himp, ?_⟩, hgen⟩
  intro v hv
  obtain ⟨h1, h2, h3⟩ := hrules v hv
  exact C04_no_false_alarm_implemented_rules _ _ hS h1 hNE h2 h3

/-- the hypotheses are satisfiable by the witness project (the rules hold of it by `C18_exit_zero_implies_rules`) -/
example : cmdsOk wProject.cmds = true ∧ noEmptyUnionB ⟨resolvedSchema wEnv wProject⟩ = true ∧
    (∀ v ∈ views wEnv wProject, (∀ r ∈ ImplementedRules, Holds r ⟨resolvedSchema wEnv wProject⟩ (resolvedDoc wEnv wProject v)) ∧
      rootsDefinedB ⟨resolvedSchema wEnv wProject⟩ (resolvedDoc wEnv wProject v) = true ∧
      constVarDefsB (resolvedDoc wEnv wProject v) = true) := by
  refine ⟨by decide, by decide +kernel, ?_⟩
  intro v hv
  refine ⟨C18_exit_zero_implies_operation_rules wEnv wProject _ rfl (by decide +kernel) (by decide +kernel)
    wEnv_nonEmpty v hv, ?_⟩
  have : ∀ v ∈ views wEnv wProject, rootsDefinedB ⟨resolvedSchema wEnv wProject⟩ (resolvedDoc wEnv wProject v) = true ∧
      constVarDefsB (resolvedDoc wEnv wProject v) = true := by decide +kernel
  exact this v hv

end

/-! ## 3. every offending file is named, at positions of its own nodes -/

/-- **the operation checker invents no position**: for every schema and document, every position
    `check_operation_document` reports is a position carried by a node of the document it was given, or of the schema
    document (`Doc.positions` / `TsDoc.positions` list every position of every node, at any depth) -/
theorem C18_checkOp_positions_from_ast (S : Schema) (D : Doc) :
    ∀ d ∈ CheckOp.checkOp S D, d.2 ∈ Doc.positions D ∨ d.2 ∈ TsDoc.positions S.items :=
  checkOp_positions S D

/-- … and against a schema in which argument / input-field types are defined and union members are object types
    (`schemaRefsOkB`, implied by C03's `SchemaValid`), always a position of a node of the OPERATION document -/
theorem C18_checkOp_positions_from_own_ast (S : Schema) (hS : schemaRefsOkB S = true) (D : Doc) :
    ∀ d ∈ CheckOp.checkOp S D, d.2 ∈ Doc.positions D :=
  checkOp_Q (Q := fun p => p ∈ Doc.positions D) (schemaQ_of_refsOk hS _) (fun _ hp => hp)

example : schemaRefsOkB ⟨resolvedSchema wEnv wProject⟩ = true ∧ Valid.SchemaValid ⟨resolvedSchema wEnv wProject⟩ := by
  decide +kernel

/-- `type Query { f(x: Missing): Int }` (file 0; `Missing` is not defined) and `{ f(x: 1) }` (file 1) -/
def danglingSchema : Schema := ⟨[
  .typeDef { kind := .scalar, name := "Int" },
  .typeDef { kind := .object, name := "Query", namePos := ⟨0, 5, 0, false⟩,
             fields := [{ name := "f", pos := ⟨0, 13, 0, false⟩, ty := .named "Int" ⟨0, 27, 0, false⟩,
                          args := [{ name := "x", pos := ⟨0, 15, 0, false⟩, ty := .named "Missing" ⟨0, 18, 0, false⟩ }] }] }]⟩
def danglingDoc : Doc := [
  .op { kind := .query, pos := ⟨0, 0, 1, false⟩,
        sel := [.field none "f" ⟨0, 2, 1, false⟩ [("x", ⟨0, 4, 1, false⟩, .int "1" ⟨0, 7, 1, false⟩)] [] none] }]

/-- the side condition `schemaRefsOkB` of the "own AST" / "located" theorems cannot be dropped at the level of the stage
    models: against a schema with an undefined argument type the operation-checker model reports `TypeSystemError`
    at the position of the type name IN THE SCHEMA (file 0) for an operation file (file 1).  In the real pipeline the
    schema check rejects this schema first (`UnknownType`), which is what the side condition expresses. -/
theorem C18_checkOp_schema_position_witness :
    CheckOp.checkOp danglingSchema danglingDoc = [(ErrKind.TypeSystemError, ⟨0, 18, 0, false⟩)] ∧
    (∀ p ∈ Doc.positions danglingDoc, p ≠ (⟨0, 18, 0, false⟩ : Gql.Pos)) ∧ schemaRefsOkB danglingSchema = false ∧
    CheckTs.checkSchema danglingSchema.items ≠ [] := by
  refine ⟨by decide +kernel, by decide +kernel, by decide +kernel, by decide +kernel⟩

/-- **the schema checker invents no position**: every position `check_type_system_document` reports is a position
    of a node of the document it was given -/
theorem C18_checkSchema_positions_from_ast (T : TsDoc) :
    ∀ d ∈ CheckTs.checkSchema T, d.2 ∈ TsDoc.positions T :=
  Ts.checkSchema_positions T

/-- **the extension resolver invents no position**: every position of the resolved document is a position of the
    document it was given; so are the main position and the note of its error -/
theorem C18_resolve_positions_from_ast (T : TsDoc) :
    (∀ out, ExtResolve.resolve T = .ok out → ∀ p ∈ TsDoc.positions out, p ∈ TsDoc.positions T) ∧
    (∀ e, ExtResolve.resolve T = .error e → e.position ∈ TsDoc.positions T ∧ ∀ p ∈ e.additional, p ∈ TsDoc.positions T) :=
  ⟨fun _ h => Ext.resolve_PQ (Q := fun p => p ∈ TsDoc.positions T) (fun _ hp => hp) h,
   fun _ h => Ext.resolve_err_PQ (Q := fun p => p ∈ TsDoc.positions T) (fun _ hp => hp) h⟩

/-- **`diag_positions_from_ast`, for the whole run.**  When the check ran, the position of EVERY diagnostic is a
    position of a node of an input document: a schema diagnostic (extension resolution, schema check) lies at a
    position of the merged schema document — a node of a parsed schema file or of a built-in definition; an
    operation diagnostic (extension / import resolution, operation check) lies at a position of a node of a parsed
    operation file of the project, at the path literal of one of its `#import` lines, or — only for a fault of the
    schema itself, see the next theorem — at a position of the resolved schema. -/
theorem C18_diag_positions_from_ast (E : Env Text κ) (P : Project Text κ) (o : Outcome)
    (h : runCli (stagesOf E P) = some o) (hc : Cmd.check ∈ o.commandsRun) :
    ∀ e ∈ o.diags, ∃ p : Gql.Pos, e.diag.pos = toCli p ∧
      ((e.kind = .schema ∧ p ∈ TsDoc.positions (mergedSchema E P)) ∨
       (e.kind = .operation ∧
         ((∃ v ∈ views E P, p ∈ Doc.positions v.doc ∨ ∃ i ∈ importsOf v.doc, p = E.pathPos i) ∨
          p ∈ TsDoc.positions (resolvedSchema E P)))) := by
  rw [C18_diags_are_check_result _ o h hc]
  exact checkImpl_QQ (QS := fun p => p ∈ TsDoc.positions (mergedSchema E P))
    (QO := fun p => (∃ v ∈ views E P, p ∈ Doc.positions v.doc ∨ ∃ i ∈ importsOf v.doc, p = E.pathPos i) ∨
      p ∈ TsDoc.positions (resolvedSchema E P))
    (fun _ hp => hp) (fun v hv p hp => Or.inl ⟨v, hv, Or.inl hp⟩) (fun v hv i hi => Or.inl ⟨v, hv, Or.inr ⟨i, hi, rfl⟩⟩)
    (fun _ => schemaQ_of_positions (fun p hp => Or.inr hp))

/-- … and an operation diagnostic NEVER lies at a schema position — always at a node (or path literal) of an operation
    file: the schema check has accepted the schema before any operation stage runs, and an accepted schema has no
    undefined argument / input-field type and no non-object union member (C05 soundness; the built-in-position
    type definitions of the resolved schema are the five distinct scalars because the parser never stamps a position
    built-in, `ParserStamps`) -/
theorem C18_diag_positions_from_own_ast (E : Env Text κ) (P : Project Text κ) (o : Outcome)
    (h : runCli (stagesOf E P) = some o) (hc : Cmd.check ∈ o.commandsRun) (hp : ParserStamps E) :
    ∀ e ∈ o.diags, e.kind = .operation → ∃ p : Gql.Pos, e.diag.pos = toCli p ∧
      ∃ v ∈ views E P, p ∈ Doc.positions v.doc ∨ ∃ i ∈ importsOf v.doc, p = E.pathPos i := by
  rw [C18_diags_are_check_result _ o h hc]
  intro e he hk
  obtain ⟨p, hpe, hq⟩ := checkImpl_QQ (QS := fun _ => True)
    (QO := fun p => ∃ v ∈ views E P, p ∈ Doc.positions v.doc ∨ ∃ i ∈ importsOf v.doc, p = E.pathPos i)
    (fun _ _ => trivial) (fun v hv p hp => ⟨v, hv, Or.inl hp⟩) (fun v hv i hi => ⟨v, hv, Or.inr ⟨i, hi, rfl⟩⟩)
    (fun hh => schemaQ_of_checked_composed hp hh _) e he
  rcases hq with ⟨hk', _⟩ | ⟨_, hq⟩
  · rw [hk] at hk'; cases hk'
  · exact ⟨p, hpe, hq⟩

/-- the hypothesis "the check ran with diagnostics" is satisfiable: the witness with the unknown field runs the check
    and reports two operation diagnostics (`ParserStamps wEnv` is `wEnv_stamps` below) -/
example : ∃ o, runCli (stagesOf wEnv wBadProject) = some o ∧ Cmd.check ∈ o.commandsRun ∧ o.diags.length = 2 :=
  ⟨_, rfl, by decide +kernel, by decide +kernel⟩

/-- the witness parsers reject documents whose positions do not carry the file index they were given -/
theorem wEnv_stamps : ParserStamps wEnv := by
  refine ⟨?_, ?_, fun i => ⟨rfl, rfl⟩⟩
  · intro i t T h p hp
    simp only [wEnv] at h
    split at h
    · cases h
    · rename_i hc
      cases h
      simp only [Bool.or_eq_true, Bool.not_eq_true', not_or, Bool.not_eq_false, List.all_eq_true,
        Bool.and_eq_true, beq_iff_eq] at hc
      exact hc.2 p hp
  · intro i t D h p hp
    simp only [wEnv] at h
    split at h
    · cases h
    · rename_i hc
      cases h
      simp only [Bool.or_eq_true, Bool.not_eq_true', not_or, Bool.not_eq_false, List.all_eq_true,
        Bool.and_eq_true, beq_iff_eq] at hc
      exact hc.2 p hp

/-- the hypotheses of `C18_exit_zero_implies_interface_rules` are satisfiable: the witness project exits 0 under the
    stamping witness parsers -/
example : ParserStamps wEnv ∧ ∃ o, runCli (stagesOf wEnv wProject) = some o ∧ o.exit = 0 :=
  ⟨wEnv_stamps, _, rfl, by decide +kernel⟩

/-- **`C18_located` without the hypothesis `WF`.**  For the stage results COMPUTED by the stage models, "a stage
    reports positions of the documents it was given" is a theorem, not an assumption: if the parsers stamp every
    position of a parsed document with the file index set before the parse and never mark it built-in
    (`ParserStamps` — what `set_current_file_of_pos` + `Pos::new` do), then every diagnostic that is not about a
    built-in definition has a file index inside the file store, the file there is of the kind the diagnostic
    announces, and the JSON `file` member carries exactly that index, line and column.  No other hypothesis: that an
    operation diagnostic never sits at a schema position follows from the schema check having accepted the schema
    (C05 soundness, `schemaQ_of_checked_composed`). -/
theorem C18_located_composed (E : Env Text κ) (P : Project Text κ) (o : Outcome)
    (h : runCli (stagesOf E P) = some o) (hp : ParserStamps E) :
    ∀ e ∈ o.diags, e.diag.pos.builtin = false →
      (∃ i, o.store.getFile e.diag.pos.file = some (e.kind, i)) ∧
      jsonFile o.store e.diag.pos = some (e.diag.pos.file, e.diag.pos.line, e.diag.pos.col) :=
  located_of_inRange _ o h (checkImpl_inRange hp (fun hh => schemaQ_of_checked_composed hp hh _))

/-- the hypothesis is satisfiable by the witness environment (its parsers reject documents whose positions do not
    carry the file index), on a project with a fault -/
example : ParserStamps wEnv ∧ ∃ o, runCli (stagesOf wEnv wBadProject) = some o ∧ o.diags.length = 2 :=
  ⟨wEnv_stamps, _, rfl, by decide +kernel⟩

/-- **the human format never panics on the composed model**: `print_positioned_error` indexes the file store with the
    file index of the main position and of every note of every diagnostic; all of them are built-in or inside the
    store, so `humanView` is defined (same hypothesis as `C18_located_composed`) -/
theorem C18_human_total_composed (E : Env Text κ) (P : Project Text κ) (o : Outcome)
    (h : runCli (stagesOf E P) = some o) (hp : ParserStamps E) : (humanView o).isSome = true := by
  have hmain : ∀ e ∈ o.diags, renderable o.store e.diag.pos = true := by
    intro e he
    unfold renderable
    cases hb : e.diag.pos.builtin with
    | true => rfl
    | false =>
      obtain ⟨⟨i, hi⟩, _⟩ := C18_located_composed E P o h hp e he hb
      simp [hi]
  have hall : o.diags.all (fun e => renderableDiag o.store e.diag) = true := by
    rw [List.all_eq_true]
    intro e he
    unfold renderableDiag
    rw [hmain e he, Bool.true_and]
    cases hb : e.diag.pos.builtin with
    | true => rfl
    | false =>
      rw [Bool.false_or, List.all_eq_true]
      intro q hq
      rcases diags_cases _ o h with h0 | h1 | h2 | ⟨hc, h3⟩
      · rw [h0] at he; cases he
      · rw [h1] at he; rw [parseErrs_extra _ _ _ _ e he] at hq; cases hq
      · rw [h2] at he; rw [parseErrs_extra _ _ _ _ e he] at hq; cases hq
      · rw [h3] at he
        have hst := store_of_check_ran _ o h hc
        rw [schemaFiles_length, opFiles_length] at hst
        unfold renderable
        rcases checkImpl_extras hp e he q hq with hb' | hlt
        · simp [hb']
        · rw [hst]
          simp [FileStore.getFile, hlt]
  unfold humanView
  rw [if_pos hall]
  rfl

/-- **every offending file is named — extension stage, exactly.**  When the check ran and the schema was accepted:
    every operation file whose `resolve_operation_extensions` fails contributes its diagnostic, located in that
    very file (its file index); and conversely, if any file fails at this stage, every diagnostic of the run is
    such a diagnostic of such a file — the set of files named = the set of files the stage model faults. -/
theorem C18_ext_stage_files_named (E : Env Text κ) (P : Project Text κ) (o : Outcome)
    (h : runCli (stagesOf E P) = some o) (hc : Cmd.check ∈ o.commandsRun) (hp : ParserStamps E)
    (hres : ∃ T, ExtResolve.resolve (mergedSchema E P) = .ok T)
    (hts : CheckTs.checkSchema (resolvedSchema E P) = []) :
    (∀ v ∈ views E P, ∀ x, extOf E.code v.doc = .error x →
      (⟨.operation, .opExt, opExtDiag E v.doc x⟩ : CheckErr) ∈ o.diags ∧
      (opExtDiag E v.doc x).pos.file = v.idx ∧ (opExtDiag E v.doc x).pos.builtin = false) ∧
    ((∃ v ∈ views E P, ∃ x, extOf E.code v.doc = .error x) →
      ∀ e ∈ o.diags, ∃ v ∈ views E P, ∃ x, extOf E.code v.doc = .error x ∧
        e = ⟨.operation, .opExt, opExtDiag E v.doc x⟩) := by
  have hse : (stagesOf E P).schemaExt = none := by
    obtain ⟨T, hT⟩ := hres
    simp [stagesOf, hT]
  have hsc : (stagesOf E P).schemaCheck = [] := by simp [stagesOf, hts]
  have hext : ∀ v ∈ views E P, ∀ x, extOf E.code v.doc = .error x →
      (opFileOf E P v).ext = some (opExtDiag E v.doc x) := by
    intro v _ x hx; simp [opFileOf, hx]
  rw [C18_diags_are_check_result _ o h hc]
  constructor
  · intro v hv x hx
    refine ⟨(checkImpl_first_stage _ hse hsc).1 (opFileOf E P v) (by simp only [stagesOf]; exact List.mem_map.mpr ⟨v, hv, rfl⟩)
      _ (hext v hv x hx), ?_⟩
    obtain ⟨i, hi, hpos⟩ := extErr_line_exists hx
    have := view_doc_file hp hv _ (import_pos_mem hi)
    simp only [opExtDiag, toCli, hpos]
    exact this
  · rintro ⟨v0, hv0, x0, hx0⟩ e he
    rcases checkImpl_cases (stagesOf E P) with ⟨d, hd, _⟩ | ⟨_, hne, _⟩ | ⟨_, _, _, heq⟩ | ⟨_, _, hnil, _⟩ | ⟨_, _, hnil, _⟩
    · rw [hse] at hd; cases hd
    · exact absurd hsc hne
    · rw [heq] at he
      obtain ⟨hk, hcl, hd⟩ := mem_tagged.mp he
      obtain ⟨f, hf, hfe⟩ := List.mem_filterMap.mp hd
      simp only [stagesOf] at hf
      obtain ⟨v, hv, rfl⟩ := List.mem_map.mp hf
      simp only [opFileOf] at hfe
      cases hq : extOf E.code v.doc with
      | ok imps => rw [hq] at hfe; cases hfe
      | error x =>
        rw [hq] at hfe
        simp only [Option.some.injEq] at hfe
        refine ⟨v, hv, x, hq, ?_⟩
        cases e with
        | mk k c d => simp only at hk hcl hfe; subst hk hcl hfe; rfl
    all_goals
      exfalso
      have hm : (opFileOf E P v0).ext ∈ ((stagesOf E P).opFiles.map (·.ext)) := by
        simp only [stagesOf, List.map_map]
        exact List.mem_map.mpr ⟨v0, hv0, rfl⟩
      rw [List.filterMap_eq_nil_iff] at hnil
      have := hnil (opFileOf E P v0) (by simp only [stagesOf]; exact List.mem_map.mpr ⟨v0, hv0, rfl⟩)
      rw [hext v0 hv0 x0 hx0] at this
      cases this

/-- **every offending file is named — import stage.**  When the check ran, the schema was accepted and extension
    resolution succeeded for every file: every operation file whose `resolve_operation_imports` fails contributes
    its diagnostic, and that diagnostic lies in an operation file of the project — the file in which the import
    chain broke (the file itself, or a file it imports: the one error `resolve_operation_imports` returns is the
    first met along the chain; open finding `unnamed:op-import:masked-by:op-import`). -/
theorem C18_import_stage_files_named (E : Env Text κ) (P : Project Text κ) (o : Outcome)
    (h : runCli (stagesOf E P) = some o) (hc : Cmd.check ∈ o.commandsRun) (hp : ParserStamps E)
    (hres : ∃ T, ExtResolve.resolve (mergedSchema E P) = .ok T)
    (hts : CheckTs.checkSchema (resolvedSchema E P) = [])
    (hext : ∀ v ∈ views E P, ∃ imps, extOf E.code v.doc = .ok imps) :
    ∀ v ∈ views E P, ∀ x, impOf E P v = .err x →
      (⟨.operation, .opImport, opImportDiag E P v x⟩ : CheckErr) ∈ o.diags ∧
      ∃ w ∈ views E P, (opImportDiag E P v x).pos.file = w.idx ∧ (opImportDiag E P v x).pos.builtin = false := by
  have hse : (stagesOf E P).schemaExt = none := by
    obtain ⟨T, hT⟩ := hres
    simp [stagesOf, hT]
  have hsc : (stagesOf E P).schemaCheck = [] := by simp [stagesOf, hts]
  have hnone : ∀ g ∈ (stagesOf E P).opFiles, g.ext = none := by
    intro g hg
    simp only [stagesOf] at hg
    obtain ⟨v, hv, rfl⟩ := List.mem_map.mp hg
    exact (opFileOf_ext_none E P v).mpr (hext v hv)
  rw [C18_diags_are_check_result _ o h hc]
  intro v hv x hx
  constructor
  · refine (checkImpl_first_stage _ hse hsc).2.1 hnone (opFileOf E P v)
      (by simp only [stagesOf]; exact List.mem_map.mpr ⟨v, hv, rfl⟩) _ ?_
    simp [opFileOf, hx]
  · obtain ⟨q, D, i, hD, hi, hpos⟩ := impErr_place E P v x hx
    obtain ⟨w, hw, rfl⟩ := docAt_view hv hD
    refine ⟨w, hw, ?_⟩
    simp only [opImportDiag, toCli]
    rcases hpos with hpos | hpos
    · rw [hpos]
      have h1 := view_doc_file hp hw _ (import_positions_sub hi i.pos (by simp [ImportDef.positions]))
      have h2 := hp.path i
      exact ⟨by rw [h2.1]; exact h1.1, by rw [h2.2]; exact h1.2⟩
    · exact view_doc_file hp hw _ (import_positions_sub hi _ hpos)

/-- a project whose second operation file imports from a file that is not among the documents -/
def wDanglingProject : Project WText Nat :=
  { wProject with ops := [⟨0, wOpText1, .ok⟩,
      ⟨1, ([], [.imp { targets := [none], path := "nowhere", pos := ⟨0, 0, 2, false⟩ },
                .frag { name := "F", namePos := ⟨1, 9, 2, false⟩, cond := "Query", condPos := ⟨1, 14, 2, false⟩,
                        pos := ⟨1, 0, 2, false⟩, sel := [.field none "a" ⟨1, 22, 2, false⟩ [] [] none] }]), .ok⟩] }

/-- the hypotheses are satisfiable: in the witness both files fail at the import stage (file 1 through its import of
    file 2), and both diagnostics lie in file 2 -/
example : ∃ o, runCli (stagesOf wEnv wDanglingProject) = some o ∧ Cmd.check ∈ o.commandsRun ∧
    o.diags.map (fun e => (e.cls, e.diag.pos.file)) = [(.opImport, 2), (.opImport, 2)] :=
  ⟨_, rfl, by decide +kernel, by decide +kernel⟩

/-- **every offending file is named — check stage.**  When the check ran, the schema was accepted and both
    resolvers succeeded for every file: every diagnostic the operation-checker model reports for ANY operation file
    appears among the diagnostics of the run (none is dropped, for no file), and each lies in the operation file
    whose AST contains the faulty node — the file itself, or the file an imported fragment was fetched from. -/
theorem C18_check_stage_files_named (E : Env Text κ) (P : Project Text κ) (o : Outcome)
    (h : runCli (stagesOf E P) = some o) (hc : Cmd.check ∈ o.commandsRun) (hp : ParserStamps E)
    (hres : ∃ T, ExtResolve.resolve (mergedSchema E P) = .ok T)
    (hts : CheckTs.checkSchema (resolvedSchema E P) = [])
    (hext : ∀ v ∈ views E P, ∃ imps, extOf E.code v.doc = .ok imps)
    (himp : ∀ v ∈ views E P, ∃ out, impOf E P v = .ok out) :
    ∀ v ∈ views E P, ∀ d ∈ CheckOp.checkOp ⟨resolvedSchema E P⟩ (resolvedDoc E P v),
      (⟨.operation, .opCheck, opCheckDiag E d⟩ : CheckErr) ∈ o.diags ∧
      ∃ w ∈ views E P, d.2 ∈ Doc.positions w.doc ∧ (opCheckDiag E d).pos.file = w.idx ∧
        (opCheckDiag E d).pos.builtin = false := by
  have hse : (stagesOf E P).schemaExt = none := by
    obtain ⟨T, hT⟩ := hres
    simp [stagesOf, hT]
  have hsc : (stagesOf E P).schemaCheck = [] := by simp [stagesOf, hts]
  have hnone : ∀ g ∈ (stagesOf E P).opFiles, g.ext = none ∧ g.imp = none := by
    intro g hg
    simp only [stagesOf] at hg
    obtain ⟨v, hv, rfl⟩ := List.mem_map.mp hg
    exact ⟨(opFileOf_ext_none E P v).mpr (hext v hv), (opFileOf_imp_none E P v).mpr (himp v hv)⟩
  rw [C18_diags_are_check_result _ o h hc]
  intro v hv d hd
  constructor
  · refine (checkImpl_first_stage _ hse hsc).2.2 hnone (opFileOf E P v)
      (by simp only [stagesOf]; exact List.mem_map.mpr ⟨v, hv, rfl⟩) _ ?_
    simp only [opFileOf]
    exact List.mem_map.mpr ⟨d, hd, rfl⟩
  · have hpos : d.2 ∈ Doc.positions (resolvedDoc E P v) :=
      checkOp_Q (Q := fun p => p ∈ Doc.positions (resolvedDoc E P v)) (schemaQ_of_checked_composed hp hts _)
        (fun _ hp' => hp') d hd
    unfold Doc.positions at hpos
    obtain ⟨x, hx, hpx⟩ := List.mem_flatMap.mp hpos
    obtain ⟨w, hw, hxw⟩ := mem_resolvedDoc hv hx
    have hin : d.2 ∈ Doc.positions w.doc := List.mem_flatMap.mpr ⟨x, (mem_defsOf hxw).1, hpx⟩
    have := view_doc_file hp hw _ hin
    exact ⟨w, hw, hin, by simp only [opCheckDiag, toCli]; exact this.1, by simp only [opCheckDiag, toCli]; exact this.2⟩

/-- the hypotheses of the two theorems are satisfiable by the witness with a fault at the check stage -/
example : (∃ T, ExtResolve.resolve (mergedSchema wEnv wBadProject) = .ok T) ∧
    CheckTs.checkSchema (resolvedSchema wEnv wBadProject) = [] ∧
    (views wEnv wBadProject).all (fun v => match extOf wEnv.code v.doc, impOf wEnv wBadProject v with
      | .ok _, .ok _ => true | _, _ => false) = true := by
  refine ⟨?_, by decide +kernel, by decide +kernel⟩
  have : (ExtResolve.resolve (mergedSchema wEnv wBadProject)).toOption.isSome = true := by decide +kernel
  cases hq : ExtResolve.resolve (mergedSchema wEnv wBadProject) with
  | ok T => exact ⟨T, rfl⟩
  | error e => rw [hq] at this; cases this

end NitroVerif.CliComposed
