import NitroVerif.Lemmas.Loader
import NitroVerif.Lemmas.LoaderHeap
/-!
# C19 — loader tasks are isolated and safe under any sequence of loader calls

Property theorems only. Model: `NitroVerif/Model/Loader.lean` (tied to
`crates/graphql-loader/src/{main,tasks,loader}.rs` by the correspondence check `harness/src/bin/c19.rs`,
which drives the real `extern "C"` functions call by call).
All theorems quantify over every parser / path resolver / emitter (`env`) and every history
(`C19_isolation` / `C19_no_trap`: histories of the five task calls, without a stand-alone `get_result`, which traps on an
empty RESULT cell; the theorems about the answer of one call assume the instance has not trapped, `dead = false`).
The heap of the model is a ghost record of the leak / free protocol: the allocator, pointers and the wasm ABI are not
modelled, on the real code they are only observed by the harness (checking allocator, child processes).

CONCRETE EMITTER (second stage, `Props/C19Composed.lean`): `env.emit` instantiated with import resolution (C13's model)
+ `find_undefined_fragment_spread` (fix 08fd7e5) + the JavaScript-module model (C14's statements, C12's document
literals).  `C19_emit_total` proves `EmitTotal` for it, so `C19_isolation_concrete` / `C19_no_trap_concrete` have no
hypothesis left; `C19_emit_is_printer` says what `emit_js` answers.  The parser stays a parameter there.
-/
namespace NitroVerif.Loader
variable {P S J : Type} [DecidableEq P]

/-- Ids strictly increase along any history (so an id is never issued twice, in particular never
    re-used after `free_task`), and every issued id is ≥ 1 (0 is the failure return value). -/
theorem C19_ids_fresh (env : Env P S J) (h : List (Op P S)) :
    (issued (runResps env init h)).Pairwise (· < ·) ∧ (issued (runResps env init h)).Nodup ∧
    ∀ n ∈ issued (runResps env init h), 1 ≤ n := by
  have hp := issued_pairwise env init h
  refine ⟨hp, ?_, fun n hn => issued_ge env init h n hn⟩
  exact hp.imp (fun hlt => Nat.ne_of_lt hlt)

/-- A call on an id that is not live answers the `Task not found` error (stored in RESULT) and changes
    nothing else; `free_task` on such an id is a no-op. Nothing traps. -/
theorem C19_unknown_id (env : Env P S J) (σ : St P S J) (hd : σ.dead = false) (t : Nat)
    (hn : lookup σ.tasks t = none) (f : P) (s : S) :
    step env σ (.call (.required t)) = ({ σ with result := some (.msg .taskNotFound) }, .failed .taskNotFound) ∧
    step env σ (.call (.load t f s)) = ({ σ with result := some (.msg .taskNotFound) }, .failed .taskNotFound) ∧
    step env σ (.call (.emit t)) = ({ σ with result := some (.msg .taskNotFound) }, .failed .taskNotFound) ∧
    step env σ (.call (.free t)) = (σ, .freed) :=
  ⟨step_required_none env hd hn, step_load_none env hd hn f s, step_emit_none env hd hn, step_free_none env hd hn⟩

/-- A never-issued id (≥ the next id, or 0) is not live in any reachable state. -/
theorem C19_unknown_id_never_issued (env : Env P S J) (h : List (Op P S)) (t : Nat)
    (ht : (runSt env init h).next ≤ t ∨ t = 0) : lookup (runSt env init h).tasks t = none := by
  have hk := (run_inv env h init keysLt_init rootOk_init (parsedOk_init env)).1
  rcases ht with ht | rfl
  · exact hk t ht
  · exact run_not_live env 0 h init (by simp [init]) rfl

/-- Once a live task has been freed its id stays not live for ever, whatever is called afterwards
    (ids are never re-used), so every later call on it gets the `Task not found` answer of `C19_unknown_id`. -/
theorem C19_unknown_id_freed (env : Env P S J) (h h' : List (Op P S)) (t : Nat)
    (hd : (runSt env init h).dead = false) (hl : Live (runSt env init h) t) :
    lookup (runSt env init (h ++ .call (.free t) :: h')).tasks t = none := by
  rw [runSt_append]
  simp only [runSt]
  have hk := (run_inv env h init keysLt_init rootOk_init (parsedOk_init env)).1
  generalize runSt env init h = σ at hk hd hl
  have hlt : t < σ.next := by
    by_cases h : σ.next ≤ t
    · exact absurd (hk t h) hl
    · omega
  cases hT : lookup σ.tasks t with
  | none => exact absurd hT hl
  | some T =>
    apply run_not_live
    · rw [step_free_some env hd hT]; exact hlt
    · rw [step_free_some env hd hT]; simp [lookup_erase]

/-- `get_required_files` on a live task answers, without duplicates, exactly the resolved import targets
    of the task's loaded files that are not themselves loaded (supplied) files of the task. -/
theorem C19_required_exact (env : Env P S J) (σ : St P S J) (hd : σ.dead = false) (t : Nat) (T : Task P S)
    (hl : lookup σ.tasks t = some T) :
    ∃ l, (step env σ (.call (.required t))).2 = .files l ∧ l.Nodup ∧
      ∀ p, p ∈ l ↔ (p ∈ targets env T.files ∧ lookup T.files p = none) := by
  refine ⟨requiredOf env T.files, by rw [step_required_some env hd hl], ?_, ?_⟩
  · exact nodup_foldl_addNew _ _ List.nodup_nil
  · intro p
    unfold requiredOf
    rw [mem_foldl_addNew]
    simp [List.mem_filter]

/-- What "the files supplied to a task" means, call by call: `initiate_task(f, s)` that parses creates a
    task whose only file is `f ↦ s`; `load_file(t, f, s)` that parses sets `f ↦ s` and leaves every other
    path alone (re-supplying replaces); one that does not parse leaves all files as they were. -/
theorem C19_files_spec (env : Env P S J) (σ : St P S J) (hd : σ.dead = false) :
    (∀ f s imps, env.parse s = .ok imps →
      ∃ T, lookup (step env σ (.call (.initiate f s))).1.tasks σ.next = some T ∧ T.root = f ∧
        ∀ q, lookup T.files q = if f = q then some ⟨imps, s⟩ else none) ∧
    (∀ t T f s, lookup σ.tasks t = some T →
      ∃ T', lookup (step env σ (.call (.load t f s))).1.tasks t = some T' ∧ T'.root = T.root ∧
        ∀ q, lookup T'.files q =
          match env.parse s with
          | .ok imps => if f = q then some ⟨imps, s⟩ else lookup T.files q
          | .error _ => lookup T.files q) := by
  constructor
  · intro f s imps hp
    rw [step_initiate_ok env hd hp]
    refine ⟨(register env (some σ.next) σ.heap { root := f, files := [], borrows := [], drops := [] } f s).task, ?_, ?_, ?_⟩
    · simp only; rw [lookup_cons]; simp
    · rw [register_ok env _ _ _ _ hp]
    · intro q; rw [register_ok env _ _ _ _ hp]; simp only; rw [lookup_insert]; rfl
  · intro t T f s hl
    refine ⟨(register env (some t) σ.heap T f s).task, ?_, ?_, ?_⟩
    · cases hp : env.parse s with
      | error c => rw [step_load_err env hd hl f hp]; simp only; rw [lookup_insert]; simp
      | ok imps => rw [step_load_ok env hd hl f hp]; simp only; rw [lookup_insert]; simp
    · cases hp : env.parse s with
      | error c => rw [register_err env _ _ _ _ hp]
      | ok imps => rw [register_ok env _ _ _ _ hp]
    · intro q
      cases hp : env.parse s with
      | error c => rw [register_err env _ _ _ _ hp]
      | ok imps => rw [register_ok env _ _ _ _ hp]; simp only; rw [lookup_insert]

/-- `emit_js` of a task in any reachable state answers exactly what a FRESH task answers that is created,
    in any live instance `σ0` (other tasks, other results, other ids), from the same root and given the
    same files: the emitted module depends only on the files currently held by the task — not on the order
    they came in, on failed or repeated supplies, or on any other task. -/
theorem C19_emit_fresh (env : Env P S J) (h : List (Op P S)) (t : Nat) (T : Task P S)
    (hd : (runSt env init h).dead = false) (hl : lookup (runSt env init h).tasks t = some T)
    (σ0 : St P S J) (hd0 : σ0.dead = false) :
    ∃ d, lookup T.files T.root = some d ∧
      (step env (runSt env init h) (.call (.emit t))).2 =
        (step env (runSt env σ0 (freshHist σ0.next T d.src)) (.call (.emit σ0.next))).2 := by
  obtain ⟨_, hroot, hparsed⟩ := run_inv env h init keysLt_init rootOk_init (parsedOk_init env)
  generalize runSt env init h = σ at hd hl hroot hparsed
  cases hr : lookup T.files T.root with
  | none => exact absurd hr (hroot t T hl)
  | some d =>
    refine ⟨d, rfl, ?_⟩
    have hpd : env.parse d.src = .ok d.imports := hparsed t T hl (T.root, d) (lookup_mem hr)
    have hpf := hparsed t T hl
    -- the fresh instance
    simp only [freshHist, runSt]
    rw [step_initiate_ok env hd0 hpd]
    have hR := register_ok env (some σ0.next) σ0.heap { root := T.root, files := [], borrows := [], drops := [] } T.root hpd
    generalize register env (some σ0.next) σ0.heap { root := T.root, files := [], borrows := [], drops := [] } T.root d.src = R at hR ⊢
    have hd1 : ({ σ0 with next := σ0.next + 1, tasks := (σ0.next, R.task) :: σ0.tasks, heap := R.heap } : St P S J).dead = false := hd0
    have hl1 : lookup ({ σ0 with next := σ0.next + 1, tasks := (σ0.next, R.task) :: σ0.tasks, heap := R.heap } : St P S J).tasks σ0.next
        = some R.task := by simp only; rw [lookup_cons]; simp
    obtain ⟨T', hd', hl', hr', hq'⟩ := run_supplyAll env σ0.next T.files hpf _ _ hd1 hl1
    have hRroot : R.task.root = T.root := by rw [hR]
    have hRfiles : R.task.files = insert T.root { imports := d.imports, src := d.src } [] := by rw [hR]
    have hfiles : lookup T'.files = lookup T.files := by
      funext q
      rw [hq' q]
      cases hq : lookup T.files q with
      | some d' => rfl
      | none =>
        simp only
        rw [hRfiles, lookup_insert]
        split
        · rename_i e; subst e; rw [hr] at hq; simp at hq
        · rfl
    have hr'' : lookup T'.files T'.root = some d := by rw [hfiles, hr', hRroot]; exact hr
    rw [step_emit_some env hd hl hr, step_emit_some env hd' hl' hr'', hfiles, hr', hRroot]
    cases env.emit T.root (lookup T.files) <;> rfl

/-- the emitter never traps is satisfiable (and is what O searches a counterexample for on the real code) -/
example : EmitTotal (⟨fun _ => .ok [], fun a _ => a, fun _ _ => .js 0⟩ : Env Nat Nat Nat) := by
  intro _ _ h; cases h

/-- Isolation. For every history of calls and every task id `t`: the responses to the calls addressed to
    `t` (the `initiate_task` that issued `t` and every call carrying id `t`; each response includes the
    RESULT text read right after the call) are exactly the responses obtained by running only those calls,
    in a fresh instance where the task gets id 1 — whatever the other tasks did in between.
    Hypothesis: the emitter does not trap (a trap kills the whole instance — see the counterexample). -/
theorem C19_isolation (env : Env P S J) (he : EmitTotal env) (t : Nat) (h : List (Call P S)) :
    respsOf env t init h = runResps env init ((proj env t init h).map .call) :=
  sim_run env he t h init init (sim_init t)

/-- `EmitTotal` cannot be dropped: when task 2's emission traps, task 1's next call traps too, although the
    projection onto task 1 (`initiate`, `required`) answers normally. This is the model-level image of the
    defect repaired by /repo commit 08fd7e5 (replayed on the real code by the harness corpus). -/
theorem C19_isolation_needs_emit_total :
    respsOf trapEnv 1 init [.initiate 0 0, .initiate 0 1, .emit 2, .required 1]
      ≠ runResps trapEnv init ((proj trapEnv 1 init [.initiate 0 0, .initiate 0 1, .emit 2, .required 1]).map .call) := by
  decide

/-- No call traps: with a total emitter, every response of every history of calls (any ids, live, freed or
    never issued; any sources) is a value or an error result, never a trap. -/
theorem C19_no_trap (env : Env P S J) (he : EmitTotal env) (h : List (Call P S)) :
    ∀ r ∈ runResps env init (h.map .call), r ≠ .trap :=
  run_calls_alive env he h init rfl rootOk_init

/-- Heap safety in every reachable state (any history incl. `get_result`, any parser / emitter), for every
    source buffer ever leaked by `register_file`:
    1. it has been freed at most once, never while a parsed document still borrowed it and never by a task
       that does not own it (`bad = false`);
    2. it is freed exactly when its owner task has been dropped (the task of a failed `initiate_task`, which is
       dropped within the call, or a task id that is no longer live): freed only at the owner's drop, and
       nothing is leaked when a task is dropped;
    3. a buffer borrowed by a live document is not freed;
    4. the drop list of a live task has no duplicates, is exactly the set of buffers the task owns, and the
       buffers its documents borrow are among them (a task reads and frees only memory it owns). -/
theorem C19_heap_safe (env : Env P S J) (h : List (Op P S)) :
    (∀ b ∈ (runSt env init h).heap, b.freed ≤ 1 ∧ b.bad = false) ∧
    (∀ b ∈ (runSt env init h).heap,
      (b.freed = 1 ↔ (b.owner = none ∨ ∃ t, b.owner = some t ∧ lookup (runSt env init h).tasks t = none))) ∧
    (∀ b ∈ (runSt env init h).heap, b.borrowed = true → b.freed = 0) ∧
    (∀ t T, lookup (runSt env init h).tasks t = some T →
      T.drops.Nodup ∧ (∀ id, id ∈ T.drops ↔ ∃ b ∈ (runSt env init h).heap, b.id = id ∧ b.owner = some t) ∧
      ∀ e ∈ T.borrows, e.2 ∈ T.drops) := by
  have hi := run_heapInv env h init heapInv_init
  generalize runSt env init h = σ at hi
  obtain ⟨a, b, c', d, e, g, l, k⟩ := hi
  refine ⟨fun x hx => ⟨(c' x hx).2, (c' x hx).1⟩, ?_, ?_, ?_⟩
  · intro x hx
    constructor
    · intro hf
      cases ho : x.owner with
      | none => exact Or.inl rfl
      | some t =>
        right
        cases hl : lookup σ.tasks t with
        | none => exact ⟨t, rfl, hl⟩
        | some T => have := (l x hx t T ho hl).1; omega
    · rintro (ho | ⟨t, ho, hl⟩)
      · exact (d x hx ho).1
      · exact (g x hx t ho hl).1
  · intro x hx hb
    cases ho : x.owner with
    | none => have := (d x hx ho).2; rw [hb] at this; cases this
    | some t =>
      cases hl : lookup σ.tasks t with
      | none => have := (g x hx t ho hl).2; rw [hb] at this; cases this
      | some T => exact (l x hx t T ho hl).1
  · intro t T hl
    obtain ⟨k1, k2, k3⟩ := k t T hl
    refine ⟨k1, fun id => ⟨k2 id, ?_⟩, k3⟩
    rintro ⟨x, hx, rfl, ho⟩
    exact (l x hx t T ho hl).2.1

/-- non-vacuity of the heap claims: a concrete history that leaks, re-supplies, fails and frees buffers -/
example : (runSt (⟨fun s => if s = 4 then .error 1 else .ok [], fun a _ => a, fun _ _ => .js 0⟩ : Env Nat Nat Nat) init
    [.call (.initiate 0 0), .call (.load 1 1 2), .call (.load 1 1 3), .call (.load 1 1 4), .call (.initiate 0 4),
     .call (.free 1)]).heap.map (fun b => (b.owner, b.freed, b.borrowed, b.bad))
    = [(some 1, 1, false, false), (some 1, 1, false, false), (some 1, 1, false, false), (some 1, 1, false, false),
       (none, 1, false, false)] := by decide

example : Live (runSt (⟨fun _ => .ok [], fun a _ => a, fun _ _ => .js 0⟩ : Env Nat Nat Nat) init [.call (.initiate 0 0)]) 1 := by
  unfold Live; decide

end NitroVerif.Loader
