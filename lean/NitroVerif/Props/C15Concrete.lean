import NitroVerif.Lemmas.RoutesConcrete
import NitroVerif.Lemmas.RoutesOpTypesConcrete
import NitroVerif.Lemmas.RoutesSpec
import NitroVerif.Lemmas.RoutesSchemaDecls
/-!
# C15 — the CONCRETE checker / printer models give the same results on the two routes

Property theorems only.  `Props/C15.lean` shows that the two routes build `≃` schema values and that any consumer
of the lookup interface `lookupOf` agrees on them.  Here the consumers are the executable models of the real code
(`Model/CheckOp.lean` = `check_operation_document`, K-tied by C03/C04), which read a schema through the document view
`Gql.Schema`:

* `Bridge.sdlView M`  = the resolved document `M` followed by the built-ins (what `ast_to_type_system` is given on the
  SDL route);
* `Bridge.jsonView M` = `Bridge.ofIR (Routes.jsonSide M)`, the document view of the schema value the JSON route reads
  from the spec's introspection result of `M` (`Bridge.sees_ofIR`: its lookups are the lookups of that value).

Lemmas: `Lemmas/RoutesBridge.lean`, `RoutesCheckValue.lean`, `RoutesCheckOp.lean`, `RoutesViews.lean`,
`RoutesConcrete.lean`.
-/
namespace NitroVerif.C15
open NitroVerif NitroVerif.Gql NitroVerif.SchemaIR NitroVerif.AstSchema NitroVerif.CheckCommon NitroVerif.CheckOp
open NitroVerif.Bridge NitroVerif.OpTypes

/-! ### Goal 1 — the bridge -/

/-- A type-system document (whose schema definitions are parsed ones) is a faithful view of the schema value
    `ast_to_type_system` builds from it: type lookup, directive lookup, "root types are declared" and the declared
    root names of the view are those of the value. -/
theorem C15_view_of_document (doc : TsDoc) (hp : ParsedSchemaDefs doc) : Sees ⟨doc⟩ (astToSchema doc) :=
  sees_doc doc hp

/-- the hypothesis is satisfiable -/
example : ParsedSchemaDefs [.schemaDef { roots := [(.query, "Q", {})], pos := { line := 1, col := 1 } },
    .typeDef { kind := .object, name := "Q", fields := [{ name := "a", ty := .named "Int" {} }] }] := by
  decide

/-- Every schema value (without components outside a definition's kind — what the `TypeDefinition` enum guarantees)
    has a document view with the same lookups: `ofIR` = `type_system_to_ast` + the directive definitions. -/
theorem C15_view_of_schema_value (s : SchemaIR.Schema) (hclean : ∀ t ∈ s.types, cleanType t = t) :
    Sees (ofIR s) s := sees_ofIR s hclean

/-- the hypothesis is satisfiable -/
example : ∀ t ∈ ({ types := [{ kind := .object, name := "Q", fields := [{ name := "a", ty := .named "Int" }] },
                             { kind := .scalar, name := "Int" }],
                   roots := { query := some "Q" } } : SchemaIR.Schema).types, cleanType t = t := by
  decide

/-- **Every lookup the operation checker model performs is a function of `lookupOf`.** If two document views see two
    schema values that are `≃` (distinct type names, root names not `__*`), then they answer alike — after erasing
    positions, descriptions, deprecations, default-value texts and directive lists — `typeDef?` on every non-`__*` name,
    `directiveDef?` on every name but `nitrogql_ts_type`, the "some object type implements both interfaces" test
    (the only use of `typeNames`), and the root type definition of every operation kind. -/
theorem C15_lookups_factor {G₁ G₂ : Gql.Schema} {s₁ s₂ : SchemaIR.Schema} (h₁ : Sees G₁ s₁) (h₂ : Sees G₂ s₂)
    (he : s₁ ≃ s₂) (n₁ : NamesNodup s₁) (n₂ : NamesNodup s₂) (r₁ : RootsOk s₁) (r₂ : RootsOk s₂) :
    AgreeRoots G₁ G₂ := agreeRoots_of_equiv h₁ h₂ he n₁ n₂ r₁ r₂

/-- the hypotheses of `C15_lookups_factor` are satisfiable by two different views of two different schema values
    (the two routes of `exampleM`, defined below) -/
theorem C15_lookups_factor_hypotheses (M : TsDoc) (h : ValidParsed M) :
    Sees (sdlView M) (CliSchema.routeSdl M) ∧ Sees (jsonView M) (Routes.jsonSide M) ∧
    CliSchema.routeSdl M ≃ Routes.jsonSide M ∧ NamesNodup (CliSchema.routeSdl M) ∧ NamesNodup (Routes.jsonSide M) ∧
    RootsOk (CliSchema.routeSdl M) ∧ RootsOk (Routes.jsonSide M) :=
  ⟨sees_sdl M h.parsed, sees_json M, (Routes.routes_equiv M h.resolved).symm, namesNodup_sdl M, namesNodup_json M,
    rootsOk_sdl M h.rootNames, rootsOk_json M h.rootNames⟩

/-- For every valid `M`, the two routes' views answer the checker's lookups alike. -/
theorem C15_routes_lookups_agree (M : TsDoc) (h : ValidParsed M) : AgreeRoots (sdlView M) (jsonView M) :=
  agreeRoots_routes M h

/-- a non-trivial valid document: explicit schema definition without mutation, a decoy type `Mutation`, an interface
    chain, a union, an enum with a deprecated value, an input object with a default, a custom directive -/
def exampleM : TsDoc :=
  [ .schemaDef { roots := [(.query, "Q", {})], pos := { line := 1, col := 1 } },
    .typeDef { kind := .interface, name := "Node", fields := [{ name := "id", ty := .nonNull (.named "ID" {}) }] },
    .typeDef { kind := .interface, name := "Ent", implements := [("Node", {})],
               fields := [{ name := "id", ty := .nonNull (.named "ID" {}) }] },
    .typeDef { kind := .object, name := "U", implements := [("Ent", {}), ("Node", {})],
               fields := [{ name := "id", ty := .nonNull (.named "ID" {}) }] },
    .typeDef { kind := .object, name := "Q",
               fields := [{ name := "n", ty := .named "Node" {},
                            args := [{ name := "f", ty := .named "In" {}, default := some (.null {}) }] },
                          { name := "s", ty := .named "S" {} }] },
    .typeDef { kind := .object, name := "Mutation", fields := [{ name := "x", ty := .named "Int" {} }] },
    .typeDef { kind := .union, name := "S", members := [("U", {}), ("Q", {})] },
    .typeDef { kind := .enum, name := "E", values := [{ name := "A", dirs := [{ name := "deprecated" }] }, { name := "B" }] },
    .typeDef { kind := .input, name := "In", inputs := [{ name := "e", ty := .list (.named "E" {}) {} }] },
    .directiveDef { name := "tag", repeatable := true, locations := ["FIELD"] } ]

/-- the hypotheses are satisfiable by a non-trivial document -/
theorem exampleM_valid : ValidParsed exampleM :=
  ⟨⟨by decide, by decide, by decide, by decide, by decide⟩, by decide, by decide, by decide⟩

/-! ### Goal 2 — the operation checker -/

/-- **The operation checker model depends on the lookups only**: on ANY two document views that answer the lookups
    alike (`AgreeRoots`), the first of which has resolvable references (`Closed`), `check_operation_document` returns the
    same diagnostics for every document within the exemptions (`NoRootType` / `UnknownType` of an operation kind without
    root type counted as one).  This is `C15_check_eq` for the concrete checker model. -/
theorem C15_checkOp_views_eq {G₁ G₂ : Gql.Schema} (hA : AgreeRoots G₁ G₂) (hC : Closed G₁) (D : Doc)
    (hD : docOk D = true) : (checkOp G₁ D).map normRoot = (checkOp G₂ D).map normRoot :=
  checkOp_congr_norm hA hC D hD

/-- the hypotheses are satisfiable by two different views -/
example : AgreeRoots (sdlView exampleM) (jsonView exampleM) ∧ Closed (sdlView exampleM) :=
  ⟨agreeRoots_routes _ exampleM_valid, closed_of_closedB exampleM_valid.closed⟩

/-- **The operation checker model returns the same diagnostics on the two routes**, for every valid `M` and every
    operation document `D` that names no `__*` type and uses no `@nitrogql_ts_type` directive (`docOk`, the two
    documented exemptions) — same kinds, same positions, same order — where the two ways an operation kind without
    root type is rejected (`NoRootType` on the route with declared root types, `UnknownType` on the route with default
    names; same position) count as one (`normRoot`). -/
theorem C15_checkOp_routes_eq (M : TsDoc) (h : ValidParsed M) (D : Doc) (hD : docOk D = true) :
    (checkOp (sdlView M) D).map normRoot = (checkOp (jsonView M) D).map normRoot :=
  checkOp_congr_norm (agreeRoots_routes M h) (closed_of_closedB h.closed) D hD

/-- the document hypothesis is satisfiable by a non-trivial document (variables, fragments on an interface and a
    union, `@skip`, a custom directive, an input object literal) -/
example : docOk
    [ .op { kind := .query, name := some ("A", {}), vars := [{ name := "v", ty := .named "In" {} }],
            sel := [.field none "n" {} [("f", {}, .var "v" {})] [{ name := "skip", args := [("if", {}, .bool true {})] }]
                      (some [.field none "id" {} [] [{ name := "tag" }] none, .spread "F" {} [] {}]),
                    .field none "s" {} [] [] (some [.inline (some ("U", {})) [] [.field none "id" {} [] [] none] {}])] },
      .frag { name := "F", cond := "Ent", sel := [.field none "__typename" {} [] [] none] } ] = true := by
  decide

/-- **Same verdict**: the checker accepts a document on one route iff it accepts it on the other. -/
theorem C15_checkOp_routes_verdict (M : TsDoc) (h : ValidParsed M) (D : Doc) (hD : docOk D = true) :
    checkOp (sdlView M) D = [] ↔ checkOp (jsonView M) D = [] := by
  rw [← map_normRoot_eq_nil (checkOp (sdlView M) D), ← map_normRoot_eq_nil (checkOp (jsonView M) D),
    C15_checkOp_routes_eq M h D hD]

/-- **Exactly the same diagnostics** when every operation of `D` has a root type in `M` (side condition on the
    pair, decidable). -/
theorem C15_checkOp_routes_eq_partial (M : TsDoc) (h : ValidParsed M) (D : Doc) (hD : docOk D = true)
    (hroots : ∀ o ∈ opsOf D, (rootDef? (sdlView M) o.kind).isSome = true) :
    checkOp (sdlView M) D = checkOp (jsonView M) D :=
  checkOp_congr_exact (agreeRoots_routes M h) (closed_of_closedB h.closed) D hD hroots

/-- the side condition is satisfiable: a query on `exampleM` -/
example : ∀ o ∈ opsOf [.op { kind := .query, sel := [.field none "s" {} [] [] none] }],
    (rootDef? (sdlView exampleM) o.kind).isSome = true := by
  decide

/-- The unnormalised statement (`checkOp (sdlView M) D = checkOp (jsonView M) D` for every valid `M`) is FALSE: with
    `M = type Query { a: Int }` (no schema definition, no type `Mutation`) the document `mutation { a }` is rejected
    with `UnknownType` on the SDL route (the default name `Mutation` has no definition) and with `NoRootType` on the
    JSON route (`mutationType: null` declares that there is no mutation root) — both at the operation's position. -/
theorem C15_checkOp_routes_eq_counterexample :
    let M : TsDoc := [.typeDef { kind := .object, name := "Query", fields := [{ name := "a", ty := .named "Int" {} }] }]
    let D : Doc := [.op { kind := .mutation, sel := [.field none "a" {} [] [] none] }]
    ValidParsed M ∧ docOk D = true ∧
    checkOp (sdlView M) D = [(ErrKind.UnknownType, {})] ∧ checkOp (jsonView M) D = [(ErrKind.NoRootType, {})] := by
  refine ⟨⟨⟨by decide, by decide, by decide, by decide, by decide⟩, by decide, by decide, by decide⟩, by decide,
    by decide, by decide⟩

/-- The exemption "documents that name `__*` types" is necessary: `query ($k: __TypeKind) { a }` is accepted on the
    JSON route (the introspection result lists `__TypeKind`) and rejected on the SDL route. -/
theorem C15_checkOp_introspection_name_counterexample :
    let M : TsDoc := [.typeDef { kind := .object, name := "Query", fields := [{ name := "a", ty := .named "Int" {} }] }]
    let D : Doc := [.op { kind := .query, vars := [{ name := "k", ty := .named "__TypeKind" {} }],
                          sel := [.field none "a" {} [] [] none] }]
    ValidParsed M ∧ docOk D = false ∧
    checkOp (sdlView M) D = [(ErrKind.UnknownType, {})] ∧ checkOp (jsonView M) D = [] := by
  refine ⟨⟨⟨by decide, by decide, by decide, by decide, by decide⟩, by decide, by decide, by decide⟩, by decide,
    by decide, by decide⟩

/-- The exemption "`@nitrogql_ts_type`" is necessary: on a field the directive is known on the SDL route only
    (wrong location + missing arguments there, unknown directive on the JSON route); both routes reject. -/
theorem C15_checkOp_nitrogql_directive_counterexample :
    let M : TsDoc := [.typeDef { kind := .object, name := "Query", fields := [{ name := "a", ty := .named "Int" {} }] }]
    let D : Doc := [.op { kind := .query, sel := [.field none "a" {} [] [{ name := "nitrogql_ts_type" }] none] }]
    ValidParsed M ∧ docOk D = false ∧
    (checkOp (sdlView M) D).map (·.1) ≠ (checkOp (jsonView M) D).map (·.1) ∧
    checkOp (jsonView M) D = [(ErrKind.UnknownDirective, {})] := by
  refine ⟨⟨⟨by decide, by decide, by decide, by decide, by decide⟩, by decide, by decide, by decide⟩, by decide,
    by decide, by decide⟩

/-- The hypothesis "every type a definition refers to is defined" (`ValidParsed.closed`) is necessary for the
    POSITIONS: with the undefined argument type `Foo` written at line 7 of the schema source, `{ a(x: 1) }` gets a
    `TypeSystemError` located inside the schema source on the SDL route and at the built-in position on the JSON
    route (same kind, both reject). -/
theorem C15_checkOp_unresolved_reference_counterexample :
    let M : TsDoc := [.typeDef {
      kind := .object, name := "Query",
      fields := [{ name := "a", ty := .named "Int" {}, args := [{ name := "x", ty := .named "Foo" { line := 7 } }] }] }]
    let D : Doc := [.op { kind := .query, sel := [.field none "a" {} [("x", {}, .int "1" {})] [] none] }]
    closedB (sdlView M) = false ∧ docOk D = true ∧
    checkOp (sdlView M) D = [(ErrKind.TypeSystemError, { line := 7 })] ∧
    checkOp (jsonView M) D = [(ErrKind.TypeSystemError, { builtin := true })] := by
  refine ⟨by decide, by decide, by decide, by decide⟩

/-! ### Goal 3 — the operation type printer (`Model/OpTypes.lean`) -/

/-- The lookups of the operation type printer model agree on the two routes: those of the checker, and
    `interface_implementers` lists the same object types IN THE SAME ORDER (the order of branches of a printed union). -/
theorem C15_routes_implementers_agree (M : TsDoc) (h : ValidParsed M) : AgreeImpl (sdlView M) (jsonView M) :=
  agreeImpl_routes M h

/-- **`get_type_for_selection_set` builds the same selection tree on the two routes** — same branches (object types of
    an interface in the same order, union members in the same order), same boolean-variable assignments, same
    unaliased / aliased fields after merging, same panics — up to the source positions inside the leaf types
    (`normTree`; the JSON route has no source), for every valid `M`, every document `D` within the exemptions, every
    parent type not named `__*`, every selection set and all fuels. -/
theorem C15_implTree_routes_eq (M : TsDoc) (h : ValidParsed M) (D : Doc) (hD : docOk D = true) (mfuel fuel : Nat)
    (p : GType) (hp : isIntrospectionName p.unwrapped = false) (ss : List Selection) (hss : selsOk ss = true) :
    (implTree (sdlView M) (OpTypes.fragsOf D) mfuel fuel p ss).map normTree
      = (implTree (jsonView M) (OpTypes.fragsOf D) mfuel fuel p ss).map normTree :=
  implTree_routes M h D hD mfuel fuel p hp ss hss

/-- the hypotheses on the parent type and the selection set are satisfiable -/
example : isIntrospectionName (GType.nonNull (.list (.named "Node" {}) {})).unwrapped = false ∧
    selsOk [.field (some ("x", {})) "id" {} [] [{ name := "include", args := [("if", {}, .var "v" {})] }] none,
            .inline (some ("U", {})) [] [.field none "__typename" {} [] [] none] {}] = true := by
  decide

/-- The trees themselves are NOT equal: a leaf keeps the field's type as written in the schema, with its source
    position on the SDL route and the built-in position on the JSON route. -/
theorem C15_implTree_positions_counterexample :
    let M : TsDoc := [.typeDef { kind := .object, name := "Query",
                                 fields := [{ name := "a", ty := .named "Int" { line := 2, col := 6 } }] }]
    let ss : List Selection := [.field none "a" {} [] [] none]
    ValidParsed M ∧
    firstLeafTy (implTree (sdlView M) (fun _ => none) 8 8 (.nonNull (.named "Query" {})) ss)
      = some (.named "Int" { line := 2, col := 6 }) ∧
    firstLeafTy (implTree (jsonView M) (fun _ => none) 8 8 (.nonNull (.named "Query" {})) ss)
      = some (.named "Int" { builtin := true }) := by
  refine ⟨⟨⟨by decide, by decide, by decide, by decide, by decide⟩, by decide, by decide, by decide⟩, by decide,
    by decide⟩

/-- the result tree of every operation and fragment of `D` (against `root_types().unwrap_or_default()` resp. the
    fragment's type condition, with the fuels the model uses) -/
theorem C15_resultTree_routes_eq (M : TsDoc) (h : ValidParsed M) (D : Doc) (hD : docOk D = true) (x : ExecDef)
    (hx : x ∈ D) :
    (resultTree (sdlView M) D x).map (·.map normTree) = (resultTree (jsonView M) D x).map (·.map normTree) :=
  resultTree_routes M h D hD x hx

/-- **The operation declaration file carries the same result / fragment types on the two routes**: the
    `type <Name>Result = …` / `export type <fragment> = …` statements (`opDecls`: names, export flags and the printed
    TypeScript types, or the same panic) are EQUAL, for every valid `M`, every printer configuration and every document
    within the exemptions. -/
theorem C15_opDecls_routes_eq (M : TsDoc) (h : ValidParsed M) (o : Opts) (D : Doc) (hD : docOk D = true) :
    opDecls (sdlView M) o D = opDecls (jsonView M) o D :=
  opDecls_routes M h o D hD

/-! ### Goal 3 (second half) — the schema declaration printer (`Model/SchemaDecls.lean`)

On the SDL route `SchemaTypePrinter` is given `docSdl M = M ++ builtins`, on the JSON route
`docJson M = type_system_to_ast (schema value read from the introspection result)`. -/

/-- **Same aliases.** Every type definition of the SDL document has its twin (`twin td` = the definition after
    `ast_to_type_system` and `type_system_to_ast`) among the definitions of the JSON document, and every definition of
    the JSON document whose name does not start with `__` is such a twin: the JSON route declares exactly the aliases
    of the SDL route plus the `__*` introspection types (in a different order). -/
theorem C15_schemaDecls_same_aliases (M : TsDoc) (h : ValidParsed M) (hb : UserNotBuiltin M) :
    (∀ td ∈ SchemaDecls.typeDefsOf (docSdl M), twin td ∈ SchemaDecls.typeDefsOf (docJson M)) ∧
    (∀ td' ∈ SchemaDecls.typeDefsOf (docJson M), isIntrospectionName td'.name = false →
      ∃ td ∈ SchemaDecls.typeDefsOf (docSdl M), td' = twin td) :=
  ⟨fun td htd => twin_mem M h.resolved.typeNames hb (user_nonintro M h) td htd, fun td' h' hi => twin_surj M td' h' hi⟩

/-- **Same declaration per alias.** For every configuration in which no scalar relies on `@nitrogql_ts_type` alone
    (`ScalarsConfigured`; the directive does not survive introspection), every namespace (`__OperationInput`,
    `__OperationOutput`, `__ResolverInput`, `__ResolverOutput`) and every type definition `td` of the SDL document, the
    statements printed for `td` on the SDL route EQUAL those printed for its twin on the JSON route: the type-level
    JSDoc, the local name (`__tmp_` renaming against the same bag of identifiers), the scalar's configured TypeScript
    type, object fields with their nullability / list structure, interface implementers in the same order, union
    members, enum values, input fields with optionality — or the same "scalar without TypeScript type" error. -/
theorem C15_schemaDecls_routes_eq (c : DeclCfg.Cfg) (M : TsDoc) (h : DeclsOk c M) (t : DeclCfg.Target) (td : TypeDef) :
    SchemaDecls.printType (SchemaDecls.Ctx.new c (docSdl M) t) td
      = SchemaDecls.printType (SchemaDecls.Ctx.new c (docJson M) t) (twin td) :=
  printType_routes h t td

/-- the body of each namespace: printing the twins of the SDL document's definitions on the JSON route, in the SDL
    order, gives the namespace body of the SDL route (the JSON route's own body is a reordering of it, interleaved with
    the statements of the `__*` types — `C15_schemaDecls_same_aliases`) -/
theorem C15_schemaDecls_namespace_eq (c : DeclCfg.Cfg) (M : TsDoc) (h : DeclsOk c M) (t : DeclCfg.Target) :
    SchemaDecls.namespaceBody (SchemaDecls.Ctx.new c (docSdl M) t) (SchemaDecls.typeDefsOf (docSdl M))
      = SchemaDecls.namespaceBody (SchemaDecls.Ctx.new c (docJson M) t) ((SchemaDecls.typeDefsOf (docSdl M)).map twin) :=
  namespaceBody_routes h t _

/-- … and so are the top-level representative alias and the enum runtime constant -/
theorem C15_schemaDecls_representative_eq (c : DeclCfg.Cfg) (M : TsDoc) (h : DeclsOk c M) (td : TypeDef) :
    SchemaDecls.representative (SchemaDecls.Ctx.new c (docSdl M) .operationOutput) td
      = SchemaDecls.representative (SchemaDecls.Ctx.new c (docJson M) .operationOutput) (twin td) :=
  representative_routes h td

/-- **The schema declaration file is produced on one route iff it is produced on the other** (`okB` = the printer
    did not stop with "scalar without a TypeScript type"): the two documents define the same scalars, and the extra `__*`
    definitions of the JSON route are objects and enums. -/
theorem C15_schemaFile_produced_iff (c : DeclCfg.Cfg) (M : TsDoc) (h : DeclsOk c M) :
    okB (SchemaDecls.schemaFile c (docSdl M)) = okB (SchemaDecls.schemaFile c (docJson M)) :=
  schemaFile_ok_routes h

/-- the hypotheses are satisfiable: `exampleM` with a scalar mapping whose identifier clashes with a type name -/
example : DeclsOk { scalars := [("ID", .single "U | string")] } exampleM :=
  ⟨exampleM_valid, by decide, by decide⟩

/-- The exemption for `@nitrogql_ts_type` is necessary: a scalar whose TypeScript type comes from the directive only
    is printed on the SDL route and is a "scalar without TypeScript type" error on the JSON route. -/
theorem C15_schemaDecls_directive_scalar_counterexample :
    let date : TypeDef := { kind := .scalar, name := "Date", dirs := [{ name := "nitrogql_ts_type", args :=
      [("resolverInput", {}, .str "Date" {}), ("resolverOutput", {}, .str "Date" {}),
       ("operationInput", {}, .str "string" {}), ("operationOutput", {}, .str "string" {})] }] }
    let M : TsDoc := [.typeDef date,
      .typeDef { kind := .object, name := "Query", fields := [{ name := "d", ty := .named "Date" {} }] }]
    ValidParsed M ∧ UserNotBuiltin M ∧ ¬ ScalarsConfigured {} M ∧
    (SchemaDecls.printType (SchemaDecls.Ctx.new {} (docSdl M) .operationOutput) date).toOption.isSome = true ∧
    (match SchemaDecls.printType (SchemaDecls.Ctx.new {} (docJson M) .operationOutput) (twin date) with
      | .error e => e
      | .ok _ => "") = "Date" := by
  refine ⟨⟨⟨by decide, by decide, by decide, by decide, by decide⟩, by decide, by decide, by decide⟩, by decide,
    by decide, by decide, by decide⟩

/-! ### the composition with the reader -/

/-- **`C15_routes_agree` for the concrete models.** For every valid `M`: reading the specification's introspection
    result of `M` the way the CLI does succeeds with a schema value `s`, and against `s` (document view `ofIR s`, AST
    `type_system_to_ast s`) the operation checker model gives the same diagnostics, the operation type printer model
    the same declarations, and the schema declaration printer model the same statements per alias, as against the SDL
    document `M` + built-ins. -/
theorem C15_routes_agree_concrete (M : TsDoc) (h : ValidParsed M) :
    ∃ s, CliSchema.routeJson (IntrospectSpec.introspectSpec M) = .ok s ∧
      (∀ D, docOk D = true → (checkOp (sdlView M) D).map normRoot = (checkOp (ofIR s) D).map normRoot) ∧
      (∀ o D, docOk D = true → opDecls (sdlView M) o D = opDecls (ofIR s) o D) ∧
      (∀ c t td, UserNotBuiltin M → ScalarsConfigured c M →
        SchemaDecls.printType (SchemaDecls.Ctx.new c (M ++ CliSchema.builtins) t) td
          = SchemaDecls.printType (SchemaDecls.Ctx.new c (schemaToAst s) t) (twin td)) := by
  obtain ⟨q, hq⟩ := Option.isSome_iff_exists.mp h.resolved.query
  exact ⟨Routes.jsonSide M, Routes.routeJson_spec M q hq, fun D hD => C15_checkOp_routes_eq M h D hD,
    fun o D hD => C15_opDecls_routes_eq M h o D hD, fun c t td hb hs => printType_routes ⟨h, hb, hs⟩ t td⟩

/-! ### Goal 4 — the SDL half against the specification -/

/-- Reading the specification's introspection result of `M` back loses nothing a consumer can see: the JSON route's
    schema is `≃` the type system the specification assigns to `M` (`specSchema M`: the named types of `M`, the
    referenced built-in scalars, the `__*` types, the built-in directives, the §3.3.1 root types) with the five
    built-in scalars added. -/
theorem C15_json_route_is_spec (M : TsDoc) (hn : ((IntrospectSpec.userTypes M).map (·.name)).Nodup) :
    Routes.jsonSide M ≃ Routes.specSide M :=
  Routes.jsonSide_equiv_specSide M hn

/-- **The SDL half**: for every valid resolved `M`, the schema `ast_to_type_system` builds from `M` followed by the
    built-ins is `≃` the specification's type system of `M` (+ the five built-in scalars) — the counterpart of
    `C15_schema_eq_reader` for the SDL route; together with `C15_json_route_is_spec` it is `C15_schema_eq` factored
    through the specification. -/
theorem C15_sdl_route_is_spec (M : TsDoc) (h : Routes.ValidResolved M) : CliSchema.routeSdl M ≃ Routes.specSide M :=
  Routes.routeSdl_equiv_specSide M h

/-- the hypothesis is satisfiable by the non-trivial document of `exampleM_valid` -/
example : Routes.ValidResolved exampleM := exampleM_valid.resolved

/-!
## OPEN — carried by K/O only

Nothing of this module's statements is open; what is NOT proved is listed once, in the block at the end of
`Props/C15.lean`: that `CheckOp` / `OpTypes` / `SchemaDecls` are the real checker / printers (K of C03/C04, C01/C02, C10 on
SDL inputs; the two-route O stream), diagnostic message texts, the reader on JSON other than the specification's
rendering, and that the hypotheses `ValidParsed` / `UserNotBuiltin` / `ScalarsConfigured` / `docOk` hold (they are
assumptions; `docOk`, closed references and `ScalarsConfigured` are shown necessary by the `…_counterexample` theorems, the
others are not).  The checker / operation-type theorems speak about the document view `jsonView M = Bridge.ofIR
(Routes.jsonSide M)`, which is not literally `type_system_to_ast` (`Bridge.sees_ofIR`); the schema declaration theorems use
the literal `docJson M = schemaToAst (Routes.jsonSide M)`.
-/

end NitroVerif.C15
