import NitroVerif.Props.C18Composed
import NitroVerif.Props.C05Complete
/-!
# C18, second stage — a spec-valid project exits 0 (C04 + C05 completeness through the CLI driver)

Property theorem only; kept apart from `Props/C18Composed.lean` because it is the one statement that depends on the
completeness theorem of the type-system checker (`C05_complete`, Props/C05Complete.lean).
-/
namespace NitroVerif.CliComposed
open NitroVerif NitroVerif.Gql NitroVerif.Cli NitroVerif.Valid NitroVerif.ValidTs NitroVerif.CheckTs NitroVerif.CheckOp

variable {Text κ : Type} [DecidableEq κ]

/-- **a project whose documents are valid exits 0.**  If the command list is usable, every file parses, both
    extension resolvers and the import resolver succeed, the RESOLVED schema document satisfies every rule of the
    reference validator of C05 (`TsSpecValid`) and every document handed to the operation checker satisfies the 25
    implemented operation rules against it — then the run exits 0: no stage of the composed pipeline raises a false
    alarm.  Side conditions are exactly those of the two completeness theorems (`C05_complete`: none beyond
    `TsSpecValid`; `C04_no_false_alarm_implemented_rules`: `SchemaValid`, no empty union, a root type for the kind of
    every operation, constant variable definitions) and, when `generate` is requested, `projGenOk` (usable options,
    no printer / file-system failure). -/
theorem C18_valid_project_exits_zero (E : Env Text κ) (P : Project Text κ) (o : Outcome)
    (h : runCli (stagesOf E P) = some o)
    (hcmds : cmdsOk P.cmds = true)
    (hsp : ∀ r ∈ schemaParses E P, ∃ T, r = .ok T) (hop : ∀ v ∈ views E P, ∃ D, v.parse = .ok D)
    (hres : ∃ T, ExtResolve.resolve (mergedSchema E P) = .ok T)
    (hts : TsSpecValid (resolvedSchema E P))
    (hext : ∀ v ∈ views E P, ∃ imps, extOf E.code v.doc = .ok imps)
    (himp : ∀ v ∈ views E P, ∃ out, impOf E P v = .ok out)
    (hS : SchemaValid ⟨resolvedSchema E P⟩) (hNE : noEmptyUnionB ⟨resolvedSchema E P⟩ = true)
    (hrules : ∀ v ∈ views E P, (∀ r ∈ ImplementedRules, Holds r ⟨resolvedSchema E P⟩ (resolvedDoc E P v)) ∧
      rootsDefinedB ⟨resolvedSchema E P⟩ (resolvedDoc E P v) = true ∧ constVarDefsB (resolvedDoc E P v) = true)
    (hgen : Cmd.generate ∈ P.cmds → projGenOk P = true) : o.exit = 0 :=
  C18_valid_operations_exit_zero E P o h hcmds hsp hop hres (C05_complete _ hts) hext himp hS hNE hrules hgen

/-- the schema hypotheses are satisfiable by the witness project: its resolved schema (one user type and the
    built-in definitions) is valid under both reference validators -/
example : TsSpecValid (resolvedSchema wEnv wProject) ∧ SchemaValid ⟨resolvedSchema wEnv wProject⟩ ∧
    noEmptyUnionB ⟨resolvedSchema wEnv wProject⟩ = true := by
  refine ⟨by unfold TsSpecValid; decide +kernel, by decide +kernel, by decide +kernel⟩

end NitroVerif.CliComposed
