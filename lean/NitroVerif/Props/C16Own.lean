import NitroVerif.Props.C16Text
import NitroVerif.Props.C07Doc
import NitroVerif.Lemmas.GqlPrintOwnFinal
/-!
# C16 (continued) — print ∘ parse = id over nitrogql's OWN parser

Property theorems only. The reader here is not the specification's lexer + parser (Props/C16Text.lean) but the model of
nitrogql's own parser that C07 verifies: the GENERATED grammar run by the PEG interpreter plus the builders
(`parseOp`, `parseTs` of `Model/Build.lean`). C07 proves `parse (render A τ) = A` for every trivia assignment `τ`; this file
shows that the TEXT the printer writes is one of those renderings — the printer's blanks, line feeds, commas and
indentation are the trivia assignment `gaps T` read off the text itself — and composes the two.

15. `print_string_spec_escape`        — where `print_string` and C07's `specEscape` rendering of a string agree (exactly).
16. `printed_exec_is_c07_rendering`   — `text (print doc) = rDoc (gaps …) noShorthand doc` for every well-formed executable document.
17. `C16_roundtrip_own_parser_exec`   — `parseOp (text (print doc)) = doc` up to positions.
18. `printed_ts_is_c07_rendering_partial` — type-system documents without a list that takes a leading `&` / `|`: the text is
                                         literally C07's `rTsDoc`;
    `own_parser_reads_lead_renderings`  — C07's theorem extended to the renderings WITH those leading separators (which the
                                         printer always writes);
    `printed_ts_is_own_rendering`, `C16_roundtrip_own_parser_ts`, `…_tsext` — `parseTs (text (print doc)) = doc` up to positions.
19. `server_module_roundtrip_own`     — all layers with nitrogql's own parser as the reader.

"nitrogql's own parser" is everywhere the MODEL (`parseOp` / `parseTs`); that the model equals the real parser is C07's K
stream. `own_parser_reads_lead_renderings` is also stated as a C07 theorem (`parse_render_type_system_document_lead` in
`Props/C07Lead.lean`). Side conditions of the round-trip theorems: non-empty document, `WFDef` / `WFTsItem`, `NormalItem`,
`itemOK`, `strsQ`; what lies outside them is OPEN (carried by K/O only) — see the OPEN block of `Props/C16.lean`; the
counterexamples below show where the round trip is FALSE outside them (block string, double quote, `extend union U @d =`).
-/
namespace NitroVerif.C16Own
open NitroVerif.Gql NitroVerif.GqlPrint NitroVerif.JsTemplate NitroVerif.Cook
open NitroVerif.ValueParse NitroVerif.DocParse NitroVerif.TypeParse NitroVerif.StringParse NitroVerif.Build

/-! ## 15. string literals: `print_string` against C07's rendering -/

/-- For EVERY string that is written in the quoted form (no line feed, or not printable as a block string), has no double
    quote and no control character other than CR / LF (`strQ`, decidable): the literal `print_string` writes is
    character for character the literal of C07's renderings (`"` + `specEscape` + `"`). -/
theorem print_string_spec_escape (s : List Char) (h : strQ s = true) : printString s = quoted s :=
  printString_eq_quoted s h

example : strQ "a \\ b\rc é".toList = true := by decide

/-- `strQ` is exact in each of its three parts: a TAB is written `\u{9}` by the printer and `\t` by `specEscape`; a double
    quote is left alone by the printer (open finding) and escaped by `specEscape`; a text with a line feed is written as a
    block string. -/
theorem print_string_spec_escape_counterexample :
    printString "\t".toList ≠ quoted "\t".toList ∧ printString "\"".toList ≠ quoted "\"".toList ∧
    printString "a\nb".toList ≠ quoted "a\nb".toList := by
  refine ⟨by decide, by decide, by decide⟩

/-! ## 16–17. executable documents -/

/-- For EVERY list of well-formed operations and fragments (`WFDef`: C07's side conditions — valid names, non-empty selection
    sets, …; no `#import`) all of whose strings satisfy `strQ`: the text `print_graphql` writes (into a `JustWriter`, with
    its indentation) IS C07's rendering of the document, for the trivia assignment `gaps T` that gives every offset the
    run of blanks / line feeds / commas standing there in the text itself, never using the `{ … }` shorthand; and that
    assignment is a legal one (`Ws`). -/
theorem printed_exec_is_c07_rendering (doc : List ExecDef) (hwf : ∀ d ∈ doc, WFDef d)
    (hq : strsQ (printDoc doc) = true) :
    rDoc (gaps (text (printDoc doc))) noSh doc = text (printDoc doc) ∧ ∀ q, Ws (gaps (text (printDoc doc)) q) :=
  ⟨by simpa using own_text_exec doc hwf hq [] (by simp), ws_gaps _⟩

/-- **`C16_roundtrip_own_parser_exec`** — print ∘ parse = id over nitrogql's own parser: for EVERY non-empty list of
    well-formed operations and fragments whose strings satisfy `strQ`, the model of `parse_operation_document` (generated
    grammar, PEG interpreter, `validate_unicode_escapes`, builders) applied to the text the printer writes returns the
    document, up to positions. -/
theorem C16_roundtrip_own_parser_exec (doc : List ExecDef) (hne : doc ≠ []) (hwf : ∀ d ∈ doc, WFDef d)
    (hq : strsQ (printDoc doc) = true) :
    ∃ A, parseOp (text (printDoc doc)) = .ok A ∧ ReadDoc.erasePos A = ReadDoc.erasePos doc := by
  obtain ⟨hr, hws⟩ := printed_exec_is_c07_rendering doc hwf hq
  have := C07.parse_render_operation_document_erase _ hws noSh doc hne hwf
  rwa [hr] at this

/-- a query with a variable, a default value, an alias, arguments, a directive, an inline fragment and a spread, and a
    fragment, for the satisfiability of the hypotheses -/
def sampleExec : List ExecDef :=
  [.op { kind := .query, name := some ("Q", {}),
         vars := [{ name := "v", ty := .nonNull (.named "Int" {}), default := some (.int "1" {}) }],
         sel := [.field (some ("x", {})) "a" {} [("k", {}, .var "v" {}), ("s", {}, .str "t\\u" {})] [{ name := "d" }]
                   (some [.field none "b" {} [] [] none, .inline (some ("T", {})) [] [.field none "c" {} [] [] none] {}]),
                 .spread "F" {} [] {}] },
   .frag { name := "F", cond := "T", sel := [.field none "e" {} [] [] none] }]

example : sampleExec ≠ [] ∧ (∀ d ∈ sampleExec, WFDef d) ∧ strsQ (printDoc sampleExec) = true := by
  refine ⟨by simp [sampleExec], ?_, by decide⟩
  have vn : ∀ w : List Char, validNameB w = true → validName w := fun w h => validName_of_B h
  intro d hd
  simp only [sampleExec, List.mem_cons, List.mem_nil_iff, or_false] at hd
  rcases hd with rfl | rfl
  · refine ⟨?_, ?_, trivial, by simp, ?_⟩
    · intro n hn; cases hn; exact vn _ (by decide)
    · intro v hv
      simp only [List.mem_singleton] at hv; subst hv
      exact ⟨vn _ (by decide), ⟨vn _ (by decide), rfl⟩,
        (by intro d hd; cases hd; exact IntText.nz false '1' [] (by decide) (by simp)), trivial⟩
    · refine ⟨⟨?_, vn _ (by decide), ⟨vn _ (by decide), (by simp only [WFV]; exact vn _ (by decide)), vn _ (by decide), trivial, trivial⟩,
        ⟨⟨vn _ (by decide), trivial⟩, trivial⟩, by simp, ?_⟩, ⟨vn _ (by decide), by decide, trivial⟩, trivial⟩
      · intro a ha; cases ha; exact vn _ (by decide)
      · refine ⟨⟨by simp, vn _ (by decide), trivial, trivial⟩, ⟨?_, trivial, by simp, ⟨by simp, vn _ (by decide), trivial, trivial⟩,
          trivial⟩, trivial⟩
        intro c hc; cases hc; exact vn _ (by decide)
  · exact ⟨vn _ (by decide), by decide, vn _ (by decide), trivial, by simp, ⟨by simp, vn _ (by decide), trivial, trivial⟩, trivial⟩

/-! ## 18. type-system documents -/

/-- First stage (the literal statement "the printer's output is one of C07's renderings"): for EVERY list of well-formed
    type-system items (`WFTsItem`: C07's side conditions) that contains no union extension without members (`itemOK`: the
    printer writes `extend union U @d =`, open finding) and no `implements` list, union member list or directive-location
    list (`noLeadItem`: there the printer writes the optional leading `&` / `|`, which C07's renderings `rTsDoc` never do),
    and whose strings satisfy `strQ`: the text `TypeSystemDocument::print_graphql` writes IS C07's rendering
    `rTsDoc (gaps T) doc`. -/
theorem printed_ts_is_c07_rendering_partial (doc : List TsItem) (hwf : ∀ d ∈ doc, WFTsItem d)
    (hok : ∀ d ∈ doc, itemOK d = true) (hnl : ∀ d ∈ doc, noLeadItem d = true) (hq : strsQ (printTsDoc doc) = true) :
    rTsDoc (gaps (text (printTsDoc doc))) doc = text (printTsDoc doc) ∧ ∀ q, Ws (gaps (text (printTsDoc doc)) q) :=
  ⟨by simpa using own_text_ts_noLead doc hwf hok hnl hq [] (by simp), ws_gaps _⟩

example : (∀ d ∈ [TsItem.typeDef { kind := .scalar, name := "S", desc := some "s" }, .schemaDef { roots := [(.query, "Q", {})] }],
      WFTsItem d ∧ itemOK d = true ∧ noLeadItem d = true) ∧
    strsQ (printTsDoc [.typeDef { kind := .scalar, name := "S", desc := some "s" }, .schemaDef { roots := [(.query, "Q", {})] }]) = true := by
  refine ⟨?_, by decide⟩
  intro d hd
  simp only [List.mem_cons, List.mem_nil_iff, or_false] at hd
  rcases hd with rfl | rfl
  · exact ⟨⟨validName_of_B (by decide), trivial, trivial⟩, by decide, by decide⟩
  · refine ⟨⟨trivial, by simp, ?_⟩, by decide, by decide⟩
    intro x hx
    simp only [List.mem_singleton] at hx; subst hx
    exact validName_of_B (by decide)

/-- Second stage, the parser side: C07's `parse_render_type_system_document` ALSO holds for the renderings that write the
    optional leading separator of every `implements` list (`implements & A & B`), union member list (`= | A | B`) and
    directive-location list (`on | A | B`) — `DocParseL.rTsDoc`, the same text as C07's `rTsDoc` but for those
    separators: for every non-empty list of well-formed items and EVERY trivia assignment `τ`, the model of
    `parse_type_system_document` returns the document, every position being the true one (`DocParseL.wpTsDoc`), hence the
    document itself up to positions. (Proved in `Lemmas/GqlPrintOwnLead*.lean` with C07's calculus; the `"&"?` / `"|"?` of
    the grammar now succeeds.) -/
theorem own_parser_reads_lead_renderings (τ : Trivia) (hτ : ∀ q, Ws (τ q)) (doc : List TsItem) (hne : doc ≠ [])
    (hwf : ∀ d ∈ doc, WFTsItem d) :
    parseTs (DocParseL.rTsDoc τ doc) = .ok (DocParseL.wpTsDoc τ (DocParseL.rTsDoc τ doc) doc) ∧
    ((∀ d ∈ doc, NormalItem d) →
      GqlTokens.eraseTsDoc (DocParseL.wpTsDoc τ (DocParseL.rTsDoc τ doc) doc) = GqlTokens.eraseTsDoc doc) :=
  ⟨DocParseL.parseTs_rTsDoc τ hτ doc hne hwf, fun hn => DocParseL.tsErase_wpTsDoc τ _ doc hn⟩

example : ∀ q : Nat, Ws ((fun _ => [] : Trivia) q) := fun _ => Ws.nil

/-- the rendering with leading separators, canonical trivia -/
example : DocParseL.rTsDoc (fun _ => [])
    [.typeDef { kind := .object, name := "T", implements := [("I", {}), ("J", {})], dirs := [{ name := "d" }] },
     .typeDef { kind := .union, name := "U", members := [("T", {}), ("V", {})] },
     .directiveDef { name := "d", locations := ["OBJECT", "FIELD"] }] =
    "type T implements &I&J@d union U=|T|V directive@d on |OBJECT|FIELD".toList := by decide

/-- For EVERY list of well-formed type-system items without a member-less union extension (`itemOK`) whose strings satisfy
    `strQ`: the text `TypeSystemDocument::print_graphql` writes IS the rendering with leading separators of the document
    under the trivia read off the text (and that assignment is legal). -/
theorem printed_ts_is_own_rendering (doc : List TsItem) (hwf : ∀ d ∈ doc, WFTsItem d)
    (hok : ∀ d ∈ doc, itemOK d = true) (hq : strsQ (printTsDoc doc) = true) :
    DocParseL.rTsDoc (gaps (text (printTsDoc doc))) doc = text (printTsDoc doc) ∧
    ∀ q, Ws (gaps (text (printTsDoc doc)) q) :=
  ⟨by simpa using own_text_ts doc hwf hok hq [] (by simp), ws_gaps _⟩

/-- **`C16_roundtrip_own_parser_ts`** — print ∘ parse = id over nitrogql's own parser: for EVERY non-empty list of
    well-formed type-system items (schema definition / extension, the six kinds of type definition and extension with
    descriptions, directives, `implements` lists, fields, arguments, default values, members, values, input fields,
    directive definitions) that carry only the components of their kind (`NormalItem`, as in C07), contain no member-less
    union extension (`itemOK`) and only strings satisfying `strQ`: the model of `parse_type_system_document` applied to
    the text the printer writes returns the document, up to positions. -/
theorem C16_roundtrip_own_parser_ts (doc : List TsItem) (hne : doc ≠ []) (hwf : ∀ d ∈ doc, WFTsItem d)
    (hn : ∀ d ∈ doc, NormalItem d) (hok : ∀ d ∈ doc, itemOK d = true) (hq : strsQ (printTsDoc doc) = true) :
    ∃ A, parseTs (text (printTsDoc doc)) = .ok A ∧ GqlTokens.eraseTsDoc A = GqlTokens.eraseTsDoc doc := by
  obtain ⟨hr, hws⟩ := printed_ts_is_own_rendering doc hwf hok hq
  have := parseTs_lead_erase _ hws doc hne hwf hn
  rwa [hr] at this

/-- the same for `TypeSystemOrExtensionDocument::print_graphql` (an extra line feed after every definition) -/
theorem C16_roundtrip_own_parser_tsext (doc : List TsItem) (hne : doc ≠ []) (hwf : ∀ d ∈ doc, WFTsItem d)
    (hn : ∀ d ∈ doc, NormalItem d) (hok : ∀ d ∈ doc, itemOK d = true) (hq : strsQ (printTsExtDoc doc) = true) :
    ∃ A, parseTs (text (printTsExtDoc doc)) = .ok A ∧ GqlTokens.eraseTsDoc A = GqlTokens.eraseTsDoc doc := by
  have hr := own_text_tsext doc hwf hok hq [] (by simp)
  have := parseTs_lead_erase _ (ws_gaps (text (printTsExtDoc doc))) doc hne hwf hn
  simp only [List.nil_append] at hr
  rwa [hr] at this

/-- a described scalar with a directive, an interface, an object type that implements it with a described field with an
    argument and a default value, a union, an enum, an input object, a directive definition, a schema definition, a schema
    extension, an enum extension and an object extension with an `implements` list — for the satisfiability of the
    hypotheses -/
def sampleTsOwn : List TsItem :=
  [.typeDef { kind := .scalar, name := "Date", desc := some "a date", dirs := [{ name := "specifiedBy", args := [("url", {}, .str "u" {})] }] },
   .typeDef { kind := .interface, name := "N", fields := [{ name := "id", ty := .nonNull (.named "ID" {}) }] },
   .typeDef { kind := .object, name := "Q", implements := [("N", {})],
              fields := [{ name := "f", desc := some "field", args := [{ name := "x", ty := .named "Int" {}, default := some (.int "1" {}) }],
                           ty := .nonNull (.list (.named "Date" {}) {}) }] },
   .typeDef { kind := .union, name := "U", members := [("Q", {}), ("R", {})] },
   .typeDef { kind := .enum, name := "E", values := [{ name := "A" }, { name := "B", dirs := [{ name := "deprecated" }] }] },
   .typeDef { kind := .input, name := "I", inputs := [{ name := "y", ty := .named "E" {} }] },
   .directiveDef { name := "d", repeatable := true, locations := ["SCHEMA", "FIELD_DEFINITION"] },
   .schemaDef { roots := [(.query, "Q", {})] },
   .schemaExt { dirs := [{ name := "d" }] },
   .typeExt { kind := .enum, name := "E", values := [{ name := "C" }] },
   .typeExt { kind := .object, name := "Q", implements := [("M", {})] }]

example : sampleTsOwn ≠ [] ∧ (∀ d ∈ sampleTsOwn, WFTsItem d) ∧ (∀ d ∈ sampleTsOwn, NormalItem d) ∧
    (∀ d ∈ sampleTsOwn, itemOK d = true) ∧ strsQ (printTsDoc sampleTsOwn) = true ∧
    strsQ (printTsExtDoc sampleTsOwn) = true := by
  have vn : ∀ w : List Char, validNameB w = true → validName w := fun w h => validName_of_B h
  refine ⟨by simp [sampleTsOwn], ?_, ?_, by decide, by decide, by decide⟩
  · intro d hd
    simp only [sampleTsOwn, List.mem_cons, List.mem_nil_iff, or_false] at hd
    rcases hd with rfl | rfl | rfl | rfl | rfl | rfl | rfl | rfl | rfl | rfl | rfl
    · exact ⟨vn _ (by decide), ⟨⟨vn _ (by decide), vn _ (by decide), trivial, trivial⟩, trivial⟩, trivial⟩
    · refine ⟨vn _ (by decide), trivial, by simp, ?_, Or.inr (Or.inr (by simp))⟩
      intro f hf
      simp only [List.mem_singleton] at hf; subst hf
      exact ⟨vn _ (by decide), by simp, ⟨vn _ (by decide), rfl⟩, trivial⟩
    · refine ⟨vn _ (by decide), trivial, ?_, ?_, Or.inr (by simp)⟩
      · intro x hx
        simp only [List.mem_singleton] at hx; subst hx
        exact vn _ (by decide)
      intro f hf
      simp only [List.mem_singleton] at hf; subst hf
      refine ⟨vn _ (by decide), ?_, ⟨(by simp only [WF]; exact vn _ (by decide)), rfl⟩, trivial⟩
      intro v hv
      simp only [List.mem_singleton] at hv; subst hv
      exact ⟨vn _ (by decide), vn _ (by decide),
        (by intro d hd; cases hd; exact IntText.nz false '1' [] (by decide) (by simp)), trivial⟩
    · refine ⟨vn _ (by decide), trivial, by simp, ?_⟩
      intro x hx
      simp only [List.mem_cons, List.mem_nil_iff, or_false] at hx
      rcases hx with rfl | rfl <;> exact vn _ (by decide)
    · refine ⟨vn _ (by decide), trivial, ?_⟩
      intro v hv
      simp only [List.mem_cons, List.mem_nil_iff, or_false] at hv
      rcases hv with rfl | rfl
      · exact ⟨vn _ (by decide), by decide, by decide, by decide, trivial⟩
      · exact ⟨vn _ (by decide), by decide, by decide, by decide, ⟨vn _ (by decide), trivial⟩, trivial⟩
    · refine ⟨vn _ (by decide), trivial, ?_⟩
      intro v hv
      simp only [List.mem_singleton] at hv; subst hv
      exact ⟨vn _ (by decide), vn _ (by decide), (by intro d hd; cases hd), trivial⟩
    · refine ⟨vn _ (by decide), by simp, by simp, ?_⟩
      intro l hl
      simp only [List.mem_cons, List.mem_nil_iff, or_false] at hl
      rcases hl with rfl | rfl <;> decide
    · refine ⟨trivial, by simp, ?_⟩
      intro x hx
      simp only [List.mem_singleton] at hx; subst hx
      exact vn _ (by decide)
    · exact ⟨⟨⟨vn _ (by decide), trivial⟩, trivial⟩, Or.inl (by simp), by intro x hx; cases hx⟩
    · refine ⟨vn _ (by decide), trivial, ?_⟩
      intro v hv
      simp only [List.mem_singleton] at hv; subst hv
      exact ⟨vn _ (by decide), by decide, by decide, by decide, trivial⟩
    · refine ⟨vn _ (by decide), trivial, ?_, by simp, Or.inl (by simp)⟩
      intro x hx
      simp only [List.mem_singleton] at hx; subst hx
      exact vn _ (by decide)
  · intro d hd
    simp only [sampleTsOwn, List.mem_cons, List.mem_nil_iff, or_false] at hd
    rcases hd with rfl | rfl | rfl | rfl | rfl | rfl | rfl | rfl | rfl | rfl | rfl <;> simp [NormalItem, KindNormal]

/-- `itemOK` is necessary: the printed form of a union extension without members (`extend union U @d =`, open finding) is
    rejected by nitrogql's own parser model too. And `strQ` is necessary in its double-quote part: a description holding
    a double quote is written unescaped (open finding) and the printed text is rejected. -/
theorem C16_roundtrip_own_parser_ts_counterexample :
    (match parseTs (text (printTsDoc [.typeExt { kind := .union, name := "U", dirs := [{ name := "d" }] }])) with
      | .ok _ => false
      | _ => true) = true ∧
    (match parseTs (text (printTsDoc [.typeDef { kind := .scalar, name := "S", desc := some "a\"b" }])) with
      | .ok _ => false
      | _ => true) = true := by
  decide +kernel

/-- The line-feed part of `strQ` is necessary over nitrogql's own parser (it is not a mere limit of the proof): a field
    description `a⏎b` is printed as a block string whose second line carries the writer's indentation, and the parser model
    — like the real parser, which returns block strings raw (finding t of C07; C16's open finding "multi-line string
    re-read as a block string") — returns `a⏎··b`: parse ∘ print ≠ id on this document. (Over the specification's reader,
    which applies `BlockStringValue`, the indentation is removed again: `print_block_lexes_indented`.) -/
theorem C16_roundtrip_own_parser_block_counterexample :
    (match parseTs (text (printTsDoc
        [.typeDef { kind := .object, name := "T", fields := [{ name := "f", desc := some "a\nb", ty := .named "Int" {} }] }])) with
      | .ok [.typeDef t] =>
        (match t.fields with
         | [f] => (match f.desc with
                   | some s => s.toList == ['a', '\n', ' ', ' ', 'b']
                   | none => false)
         | _ => false)
      | _ => false) = true := by
  decide +kernel

/-! ## 19. all layers, nitrogql's own parser as the reader -/

/-- **`server_module_roundtrip_own`** — all layers together, for the `serverGraphqlOutput` module of EVERY checked document
    `d` that applies the two nitrogql-only directives where the checker allows, and whose stripped form
    `d' = serverDoc d …` is non-empty, consists of well-formed items (`WFTsItem`, `NormalItem`) without a member-less union
    extension, and has only strings satisfying `strQ`:
    (1) the module text is the wrapper around the template literal of the printed `d'`;
    (2) evaluating the template literal (ECMAScript cooking) succeeds, and the model of nitrogql's OWN
        `parse_type_system_document` applied to its value returns `d'` — the checked schema without the stripped
        directives — up to positions.
    (That names are safe chunks for the template writer is not a hypothesis here: it follows from `WFTsItem`.) -/
theorem server_module_roundtrip_own (d : TsDoc) (modelPlugin : Bool) (h1 : C16.OnlyOnScalars nitroName d)
    (h2 : modelPlugin = true → C16.OnlyOnObjects modelName (Strip.stripDirective nitroName d))
    (hne : C16.serverDoc d modelPlugin ≠ []) (hwf : ∀ i ∈ C16.serverDoc d modelPlugin, WFTsItem i)
    (hn : ∀ i ∈ C16.serverDoc d modelPlugin, NormalItem i) (hok : ∀ i ∈ C16.serverDoc d modelPlugin, itemOK i = true)
    (hq : strsQ (printTsDoc (C16.serverDoc d modelPlugin)) = true) :
    serverGraphqlOutput d modelPlugin = serverModule (ops (printTsDoc (C16.serverDoc d modelPlugin))) ∧
    ∃ v, cook ('\n' :: runOps true {} (ops (printTsDoc (C16.serverDoc d modelPlugin)))) = some v ∧
      ∃ A, parseTs v = .ok A ∧ GqlTokens.eraseTsDoc A = GqlTokens.eraseTsDoc (C16.serverDoc d modelPlugin) := by
  have hmod : serverGraphqlOutput d modelPlugin = serverModule (ops (printTsDoc (C16.serverDoc d modelPlugin))) := by
    unfold serverGraphqlOutput C16.serverDoc
    cases modelPlugin with
    | false => simp [C16.strip_exact d h1]
    | true => simp [C16.strip_exact d h1, C16.strip_model_exact _ (h2 rfl)]
  refine ⟨hmod, _, C16.server_template_cooks _ (nameOK_tsDoc _ hwf hok), ?_⟩
  have hr := own_text_ts _ hwf hok hq ['\n'] (by simp [isGapC])
  have := parseTs_lead_erase _ (ws_gaps (['\n'] ++ text (printTsDoc (C16.serverDoc d modelPlugin)))) _ hne hwf hn
  rw [hr] at this
  exact this

/-- a checked document with both nitrogql-only directives, for the satisfiability of the hypotheses -/
def sampleCheckedOwn : TsDoc := [
  .typeDef { kind := .scalar, name := "Date", desc := some "a date", dirs := [{ name := "nitrogql_ts_type", args := [("resolverInput", {}, .str "string" {})] }, { name := "specifiedBy" }] },
  .directiveDef { name := "nitrogql_ts_type", args := [{ name := "resolverInput", ty := .nonNull (.named "String" {}) }], locations := ["SCALAR"] },
  .directiveDef { name := "model", locations := ["OBJECT", "FIELD_DEFINITION"] },
  .typeDef { kind := .object, name := "User", dirs := [{ name := "model" }],
             fields := [{ name := "id", ty := .nonNull (.named "ID" {}), dirs := [{ name := "model" }, { name := "deprecated" }] },
                        { name := "born", ty := .named "Date" {} }] }]

example : C16.OnlyOnScalars nitroName sampleCheckedOwn ∧
    C16.OnlyOnObjects modelName (Strip.stripDirective nitroName sampleCheckedOwn) ∧
    C16.serverDoc sampleCheckedOwn true ≠ [] ∧ (∀ i ∈ C16.serverDoc sampleCheckedOwn true, WFTsItem i ∧ NormalItem i ∧ itemOK i = true) ∧
    strsQ (printTsDoc (C16.serverDoc sampleCheckedOwn true)) = true := by
  have vn : ∀ w : List Char, validNameB w = true → validName w := fun w h => validName_of_B h
  have sampleCheckedOwn_server : C16.serverDoc sampleCheckedOwn true = [
      .typeDef { kind := .scalar, name := "Date", desc := some "a date", dirs := [{ name := "specifiedBy" }] },
      .typeDef { kind := .object, name := "User",
                 fields := [{ name := "id", ty := .nonNull (.named "ID" {}), dirs := [{ name := "deprecated" }] },
                            { name := "born", ty := .named "Date" {} }] }] := by rfl
  refine ⟨?_, ?_, ?_, ?_, ?_⟩
  · intro i hi
    simp only [sampleCheckedOwn, List.mem_cons, List.mem_nil_iff, or_false] at hi
    rcases hi with rfl | rfl | rfl | rfl <;> decide
  · have e : Strip.stripDirective nitroName sampleCheckedOwn = [
        .typeDef { kind := .scalar, name := "Date", desc := some "a date", dirs := [{ name := "specifiedBy" }] },
        .directiveDef { name := "model", locations := ["OBJECT", "FIELD_DEFINITION"] },
        .typeDef { kind := .object, name := "User", dirs := [{ name := "model" }],
                   fields := [{ name := "id", ty := .nonNull (.named "ID" {}), dirs := [{ name := "model" }, { name := "deprecated" }] },
                              { name := "born", ty := .named "Date" {} }] }] := by rfl
    rw [e]
    intro i hi
    simp only [List.mem_cons, List.mem_nil_iff, or_false] at hi
    rcases hi with rfl | rfl | rfl <;> decide
  · rw [sampleCheckedOwn_server]; simp
  · rw [sampleCheckedOwn_server]
    intro i hi
    simp only [List.mem_cons, List.mem_nil_iff, or_false] at hi
    rcases hi with rfl | rfl
    · exact ⟨⟨vn _ (by decide), ⟨⟨vn _ (by decide), trivial⟩, trivial⟩, trivial⟩, by simp [NormalItem, KindNormal], by decide⟩
    · refine ⟨⟨vn _ (by decide), trivial, by simp, ?_, Or.inr (by simp)⟩, by simp [NormalItem, KindNormal], by decide⟩
      intro f hf
      simp only [List.mem_cons, List.mem_nil_iff, or_false] at hf
      rcases hf with rfl | rfl
      · exact ⟨vn _ (by decide), by simp, ⟨vn _ (by decide), rfl⟩, ⟨vn _ (by decide), trivial⟩, trivial⟩
      · exact ⟨vn _ (by decide), by simp, vn _ (by decide), trivial⟩
  · rw [sampleCheckedOwn_server]; decide

end NitroVerif.C16Own
