import NitroVerif.Lemmas.ParseValueBuild
import NitroVerif.Lemmas.ParseArgs
import NitroVerif.Lemmas.ParseDirectives
import NitroVerif.Lemmas.ParseMoreStrCtx
/-!
# C07 — render ∘ parse for the `Value`, `Arguments`, `Directives` sub-languages, with arbitrary trivia

Property theorems only. For EVERY value the lexical grammar can express (`WFV`: nested lists and objects of any depth,
all scalar kinds — variables, integers, floats, strings of arbitrary characters, booleans, null, enum values) and for
EVERY placement of trivia between its tokens (`τ`, `Ws`: spaces, tabs, line terminators incl. CR LF, commas, BOM, and
`# …` comments ending in a line terminator whose text is visibly not the beginning of an `#import` statement — `NotImportHead`, Lemmas/ParseComment.lean: it does not begin with `import`, or `import` is followed by a name character, or by blanks and a character that starts neither a name nor `*` nor a comment), the GENERATED grammar's `Value` rule (generic PEG interpreter, rule bodies read from
`Gen.grammar` by `rfl`) run on the rendering, followed by the builder `build_value`, gives the value back with every
position equal to the line/column of the corresponding token.

Definitions (Lemmas/ParseValueDefs.lean, ParseComment.lean): `Ws t` — `t` is a run of whitespace characters followed by
any number of (comment, run of whitespace characters); `renderV τ p v` — the text of `v` written at offset `p`, where `τ q`
is the trivia written at the gap that begins at offset `q` (between two list items / object fields an empty gap becomes one
space); `WFV`; `withPosV τ inp p v` — `v` with the positions of its tokens; `B L = 60·L + 100` — parser depth bound.
-/
namespace NitroVerif.C07
open NitroVerif.Peg NitroVerif.Build NitroVerif.Gen NitroVerif.Gql NitroVerif.ValueParse NitroVerif.TypeParse

/-- `render_parse_value`, embedded form: wherever the rendering of a well-formed value `v` (with trivia `τ`)
    occurs in an input — at offset `off`, followed by anything that cannot continue a token (`ValEnd`: not a name
    character, `.` or `"`) — the `Value` rule consumes exactly that rendering and yields one pair, on which
    `build_value` returns `v` with the true token positions; for every parser depth bound ≥ `B |text|` and builder depth
    bound ≥ `v.size`. (This is the form that composes into arguments, directives, default values.) -/
theorem render_parse_value_at (τ : Trivia) (hτ : ∀ q, Ws (τ q)) (v : Value) (hwf : WFV v) (inp : List Char) (off : Nat)
    (rest : List Char) (h : inp.drop off = renderV τ off v ++ rest) (hend : ValEnd rest) (fuel bfuel : Nat)
    (hf : B (renderV τ off v).length ≤ fuel) (hb : v.size ≤ bfuel) :
    ∃ pair, Peg.run gList fuel R.Value inp off .nonAtomic = some (off + (renderV τ off v).length, [pair]) ∧
      buildValue (Ctx.spec inp) bfuel pair = .ok (withPosV τ inp off v) := by
  refine ⟨valuePair τ off v, ?_, value_builds τ inp v.size v (Nat.le_refl _) off rest bfuel h hb⟩
  obtain ⟨tr', h'⟩ := value_runs τ hτ v.size v (Nat.le_refl _) hwf off rest hend {}
  have := h' fuel hf
  unfold Peg.run
  rw [h, this]

/-- `render_parse_value`: for every well-formed value and every placement of trivia (whitespace, commas, comments), parsing the rendering
    with the generated grammar's `Value` rule and building gives the value back with the TRUE position of every token
    (`withPosV`): `build_value (parse (render v τ)) = v`. -/
theorem render_parse_value (τ : Trivia) (hτ : ∀ q, Ws (τ q)) (v : Value) (hwf : WFV v) (fuel bfuel : Nat)
    (hf : B (renderV τ 0 v).length ≤ fuel) (hb : v.size ≤ bfuel) :
    ∃ pair, Peg.parse gList fuel R.Value (renderV τ 0 v) = .pairs [pair] ∧
      buildValue (Ctx.spec (renderV τ 0 v)) bfuel pair = .ok (withPosV τ (renderV τ 0 v) 0 v) := by
  refine ⟨valuePair τ 0 v, ?_, value_builds τ _ v.size v (Nat.le_refl _) 0 [] bfuel (by simp) hb⟩
  obtain ⟨tr', h'⟩ := value_runs τ hτ v.size v (Nat.le_refl _) hwf 0 [] (headNot_nil _) {}
  have := h' fuel hf
  simp only [List.append_nil, Nat.zero_add] at this
  simp [Peg.parse, runTr, this]

/-- … with the depth bounds the parser model actually uses (`defaultFuel`, `4·|input| + 64`): the result equals `v` up to
    positions. -/
theorem render_parse_value_default (τ : Trivia) (hτ : ∀ q, Ws (τ q)) (v : Value) (hwf : WFV v) :
    let inp := renderV τ 0 v
    ∃ pair v', Peg.parse gList (defaultFuel inp) R.Value inp = .pairs [pair] ∧
      buildValue (Ctx.spec inp) (4 * inp.length + 64) pair = .ok v' ∧ v'.erasePos = v.erasePos := by
  intro inp
  have hsz := size_le_length τ v.size v (Nat.le_refl _) hwf 0
  obtain ⟨pair, h1, h2⟩ := render_parse_value τ hτ v hwf (defaultFuel inp) (4 * inp.length + 64)
    (by simp only [B, defaultFuel, inp]; omega) (by simp only [inp]; omega)
  exact ⟨pair, _, h1, h2, withPosV_erase τ inp v 0⟩

/-- the canonical rendering (no trivia: `[1 2]`, `{a:1 b:2}`) -/
theorem render_parse_value_canonical (v : Value) (hwf : WFV v) :
    let inp := renderV (fun _ => []) 0 v
    ∃ pair v', Peg.parse gList (defaultFuel inp) R.Value inp = .pairs [pair] ∧
      buildValue (Ctx.spec inp) (4 * inp.length + 64) pair = .ok v' ∧ v'.erasePos = v.erasePos :=
  render_parse_value_default (fun _ => []) (fun _ => Ws.nil) v hwf

/-- well-formed argument list: non-empty, valid names, well-formed values -/
def WFArgs (args : List Arg) : Prop := args ≠ [] ∧ WFFs args

/-- `render_parse_arguments`: wherever the rendering `( name: value … )` of a non-empty argument list (valid names,
    well-formed values, arbitrary trivia `τ` — whitespace, commas, comments — at every gap) occurs in an input, the GENERATED grammar's
    `Arguments` rule consumes exactly that text and yields one pair, on which `build_arguments` returns the arguments —
    names, values, and the true position of every name and every value token; for every parser depth bound ≥ `B |text|`
    and builder depth bound ≥ the total size of the values. -/
theorem render_parse_arguments (τ : Trivia) (hτ : ∀ q, Ws (τ q)) (args : List Arg) (hwf : WFArgs args) (inp : List Char)
    (off : Nat) (rest : List Char) (h : inp.drop off = renderArgs τ off args ++ rest) (fuel bfuel : Nat)
    (hf : B (renderArgs τ off args).length ≤ fuel) (hb : Value.sizeFields args ≤ bfuel) :
    ∃ pair, Peg.run gList fuel R.Arguments inp off .nonAtomic = some (off + (renderArgs τ off args).length, [pair]) ∧
      buildArguments (Ctx.spec inp) bfuel pair = .ok (withPosFs τ inp (off + 1) true args) := by
  refine ⟨argsPair τ off args, ?_, buildArguments_argsPair τ inp args off rest bfuel h hb⟩
  have hok : FieldsOk τ args := fun f hf' =>
    ⟨(wffs_mem hwf.2 hf').1, (wffs_mem hwf.2 hf').2, value_runs τ hτ f.2.2.size f.2.2 (Nat.le_refl _) (wffs_mem hwf.2 hf').2⟩
  obtain ⟨tr', h'⟩ := arguments_runs τ hτ args hwf.1 hok off rest {}
  have := h' fuel hf
  unfold Peg.run
  rw [h, this]

/-- … the result equals the argument list up to positions -/
theorem render_parse_arguments_erase (τ : Trivia) (inp : List Char) (args : List Arg) (q : Nat) :
    Value.erasePosFields (withPosFs τ inp q true args) = Value.erasePosFields args :=
  withPosFs_erase τ inp args q true

example : renderArgs (fun _ => []) 0 [("a", {}, .int "1" {}), ("b", {}, .list [.var "v" {}] {})] = "(a:1 b:[$v])".toList := by
  decide

/-- the hypotheses of `render_parse_arguments` are satisfiable -/
example : WFArgs [("a", {}, .int "1" {})] ∧
    ("(a:1) @d".toList).drop 0 = renderArgs (fun _ => []) 0 [("a", {}, .int "1" {})] ++ " @d".toList := by
  refine ⟨⟨by simp, ?_, ?_, trivial⟩, by decide⟩
  · have : "a".toList = ['a'] := by decide
    rw [this]; exact ⟨by decide, fun x hx => by cases hx⟩
  · have : "1".toList = sign false ++ '1' :: [] := by decide
    show IntText "1".toList
    rw [this]; exact .nz false '1' [] (by decide) (fun x hx => by cases hx)

/-- `render_parse_directives`: wherever the rendering `@name(args) @name …` of a non-empty directive list (valid names,
    well-formed arguments, arbitrary trivia `τ` — whitespace, commas, comments — at every gap: after `@`, between name and `(`, inside the
    arguments, between the directives and after the last one) occurs in an input, followed by something that is neither
    trivia nor `@`, `(`, a name character — the GENERATED grammar's `Directives` rule succeeds with one pair, ending
    at or before the end of the rendering (pest includes the trivia after an argument-less directive in its span),
    and `build_directives` returns the directives: names, arguments, and the true position of every `@`, name, argument
    name and value token. -/
theorem render_parse_directives (τ : Trivia) (hτ : ∀ q, Ws (τ q)) (ds : List Directive) (hne : ds ≠ [])
    (hwf : WFDirs ds) (inp : List Char) (off : Nat) (X : List Char) (h : inp.drop off = dirsFrom τ off ds ++ X)
    (hX : DirEnd X) (fuel bfuel : Nat) (hf : B (dirsFrom τ off ds).length + 80 ≤ fuel)
    (hb : ∀ d ∈ ds, Value.sizeFields d.args ≤ bfuel) :
    ∃ e pair, Peg.run gList fuel R.Directives inp off .nonAtomic = some (e, [pair]) ∧
      e ≤ off + (dirsFrom τ off ds).length ∧
      buildDirectives (Ctx.spec inp) bfuel pair = .ok (withPosDs τ inp off ds) := by
  cases ds with
  | nil => exact absurd rfl hne
  | cons d ds =>
    obtain ⟨cE, e, ps, hrun, hok, hle⟩ := directives_runs τ hτ d ds hwf off X hX
    obtain ⟨hall, hmap⟩ := dirs_build τ inp bfuel (d :: ds) hb off ps X hok h
    obtain ⟨tr', h'⟩ := hrun {}
    have := h' fuel hf
    refine ⟨cE.pos, .mk R.Directives off e ps, ?_, hle, ?_⟩
    · unfold Peg.run
      rw [h, this]
    · rw [buildDirectives_eq _ _ _ _ _ hall, hmap]

/-- the directives returned differ from the given ones only in positions: same names, same arguments up to positions -/
theorem render_parse_directives_erase (τ : Trivia) (inp : List Char) : ∀ (ds : List Directive) (q : Nat),
    (withPosDs τ inp q ds).map (fun d => (d.name, Value.erasePosFields d.args)) =
      ds.map (fun d => (d.name, Value.erasePosFields d.args)) := by
  intro ds
  induction ds with
  | nil => intro q; rfl
  | cons d ds ih =>
    intro q
    simp [withPosDs, withPosD, withPosFs_erase, ih]

example : dirsFrom (fun _ => []) 0 [{ name := "a", args := [("x", {}, .int "1" {})] }, { name := "b" }] = "@a(x:1)@b".toList := by
  decide

/-- the hypotheses of `render_parse_directives` are satisfiable -/
example : WFDirs [{ name := "b" }] ∧ DirEnd "{ x }".toList := by
  refine ⟨⟨⟨?_, trivial⟩, trivial⟩, ?_⟩
  · have : ("b" : String).toList = ['b'] := by decide
    show validName ("b" : String).toList
    rw [this]; exact ⟨by decide, fun x hx => by cases hx⟩
  · have : "{ x }".toList = '{' :: " x }".toList := by decide
    rw [this]
    exact headNot_cons (by decide) _

/-- the hypotheses are satisfiable by a non-trivial value and non-trivial trivia (a comma, a comment, indentation) -/
example : WFV (.list [.int "1" {}, .obj [("k", {}, .str "a\"b" {})] {}, .bool true {}] {}) ∧
    Ws (',' :: '#' :: ([' ', 'c'] ++ (['\n'] ++ ([' ', ' '] ++ [])))) ∧
    renderV (fun _ => []) 0 (.list [.int "1" {}, .obj [("k", {}, .null {})] {}] {}) = "[1 {k:null}]".toList := by
  refine ⟨?_, ?_, by decide⟩
  · have hk : validName "k".toList := by
      have : "k".toList = ['k'] := by decide
      rw [this]; exact ⟨by decide, fun x hx => by cases hx⟩
    have h1 : IntText "1".toList := by
      have : "1".toList = sign false ++ '1' :: [] := by decide
      rw [this]; exact .nz false '1' [] (by decide) (fun x hx => by cases hx)
    exact ⟨h1, ⟨hk, trivial, trivial⟩, trivial, trivial⟩
  · refine ⟨[','], _, rfl, ?_, ?_⟩
    · intro x hx
      simp only [List.mem_singleton] at hx
      subst hx; decide
    · refine Cms.cons ⟨?_, Or.inl (by decide), Or.inl rfl⟩ ?_ (fun h => by cases h) Cms.nil
      · intro x hx
        simp only [List.mem_cons, List.not_mem_nil, or_false] at hx
        rcases hx with rfl | rfl <;> decide
      · intro x hx
        simp only [List.mem_cons, List.not_mem_nil, or_false] at hx
        rcases hx with rfl | rfl <;> decide

/-! ### string literals of every form as values and as descriptions (third stage) -/

open NitroVerif.StringParse in
/-- `render_parse_string_value_general`: ANY legal normal string literal (`SItem`s: plain characters, simple escapes, `\uXXXX`,
    `\u{X…}`; see `string_decode_general` in `Props/C07.lean`) that the builder's loop decodes to `s` (`decodeItems`: surrogate
    pairs `\uHHHH\uLLLL` combined, fix fff8e9c; by `string_decode_general_spec` exactly the literals the specification gives a
    value), wherever it occurs in an
    input, is parsed by the `Value` rule (the earlier alternatives `Variable`, `IntValue`, `FloatValue` fail on `"`) into one
    pair on which `build_value` returns the string value with the decoded characters `s` and the position of the opening
    quote — and by the `Description` rule into one pair on which the description builder returns `s`. -/
theorem render_parse_string_value_general (it : SItem) (its : List SItem) (hok : AllOk (it :: its)) (s : List Char)
    (hs : decodeItems false (it :: its) = .ok s) (inp : List Char) (off : Nat) (rest : List Char)
    (h : inp.drop off = '"' :: (litText (it :: its) ++ '"' :: rest)) (fuel bfuel : Nat)
    (hf : (litText (it :: its)).length + 70 ≤ fuel) (hb : 1 ≤ bfuel) :
    (∃ pair, Peg.run gList fuel R.Value inp off .nonAtomic = some (off + ((litText (it :: its)).length + 2), [pair]) ∧
      buildValue (Ctx.spec inp) bfuel pair = .ok (.str (String.ofList s) (posAt inp off))) ∧
    (∃ pair, Peg.run gList fuel R.Description inp off .nonAtomic = some (off + ((litText (it :: its)).length + 2), [pair]) ∧
      buildDescription (Ctx.spec inp) pair = .ok (String.ofList s)) := by
  have hrun := litValue_runs it its hok off rest (at_ := .nonAtomic)
  have hsv : stringValueChars (Ctx.spec inp) (litPair (it :: its) off) = .ok (s, posAt inp off) := by
    rw [stringValueChars_litPair it its hok off rest h, hs]; rfl
  obtain ⟨bf, rfl⟩ : ∃ bf, bfuel = bf + 1 := ⟨bfuel - 1, by omega⟩
  constructor
  · obtain ⟨tr', h'⟩ := value_of_string hrun {}
    have := h' fuel (by omega)
    refine ⟨.mk R.Value off (off + ((litText (it :: its)).length + 2)) [litPair (it :: its) off], ?_,
      buildValue_string (litPair_rule _ _) hsv bf _ _⟩
    unfold Peg.run
    rw [h, this]
  · obtain ⟨tr', h'⟩ := description_of_string hrun {}
    have := h' fuel (by omega)
    refine ⟨.mk R.Description off (off + ((litText (it :: its)).length + 2)) [litPair (it :: its) off], ?_,
      buildDescription_string (litPair_rule _ _) hsv _ _⟩
    unfold Peg.run
    rw [h, this]

open NitroVerif.StringParse in
/-- `render_parse_block_string_value_raw`: a block string `"""body"""` (every body the grammar reads to its end, see
    `parse_render_block_string_raw`) wherever it occurs in an input is parsed by the `Value` rule and by the `Description` rule
    into one pair each, on which `build_value` returns the string value `body` — the RAW text (open finding t) — with the
    position of the opening delimiter, and the description builder returns `body`. -/
theorem render_parse_block_string_value_raw (body : List Char) (h3 : noBareTriple body = true)
    (hend : endsPlain body = true) (inp : List Char) (off : Nat) (rest : List Char)
    (h : inp.drop off = ['"', '"', '"'] ++ (body ++ (['"', '"', '"'] ++ rest))) (fuel bfuel : Nat)
    (hf : body.length + 40 ≤ fuel) (hb : 1 ≤ bfuel) :
    (∃ pair, Peg.run gList fuel R.Value inp off .nonAtomic = some (off + (body.length + 6), [pair]) ∧
      buildValue (Ctx.spec inp) bfuel pair = .ok (.str (String.ofList body) (posAt inp off))) ∧
    (∃ pair, Peg.run gList fuel R.Description inp off .nonAtomic = some (off + (body.length + 6), [pair]) ∧
      buildDescription (Ctx.spec inp) pair = .ok (String.ofList body)) := by
  have hrun := blockString_runs (blockBody_of body h3 hend) off rest (at_ := .nonAtomic)
  have hsv := stringValueChars_blockPair (inp := inp) body off rest h
  have h' : inp.drop off = '"' :: ('"' :: '"' :: (body ++ (['"', '"', '"'] ++ rest))) := by simpa using h
  have hrun' : RunsRule gList (body.length + 30) R.StringValue .nonAtomic
      ⟨off, '"' :: ('"' :: '"' :: (body ++ (['"', '"', '"'] ++ rest)))⟩ ⟨off + (body.length + 6), rest⟩
      [blockPair body.length off] := by simpa using hrun
  obtain ⟨bf, rfl⟩ : ∃ bf, bfuel = bf + 1 := ⟨bfuel - 1, by omega⟩
  constructor
  · obtain ⟨tr', hh⟩ := value_of_string hrun' {}
    have := hh fuel (by omega)
    refine ⟨.mk R.Value off (off + (body.length + 6)) [blockPair body.length off], ?_,
      buildValue_string (blockPair_rule _ _) hsv bf _ _⟩
    unfold Peg.run
    rw [h', this]
  · obtain ⟨tr', hh⟩ := description_of_string hrun' {}
    have := hh fuel (by omega)
    refine ⟨.mk R.Description off (off + (body.length + 6)) [blockPair body.length off], ?_,
      buildDescription_string (blockPair_rule _ _) hsv _ _⟩
    unfold Peg.run
    rw [h', this]

/-- the hypotheses are satisfiable: `"\u00e9t\u{e9}"` and `"""été"""` both denote `été` -/
example : (StringParse.decodeItems false [StringParse.SItem.u4 '0' '0' 'e' '9', .plain 't', .ubrace ['e', '9']]).toOption =
      some ['é', 't', 'é'] ∧
    StringParse.noBareTriple "été".toList = true ∧ StringParse.endsPlain "été".toList = true := by decide

end NitroVerif.C07
