import NitroVerif.Lemmas.Paths
import NitroVerif.Lemmas.PathsText
import NitroVerif.Lemmas.PathToTs
/-!
# C20 — relative and resolved paths are mutually inverse and land on the intended file

Property theorems only. Model: `NitroVerif/Model/Paths.lean` (tied to
`crates/utils/src/relative_path.rs` by the correspondence check `harness/src/bin/c20.rs`).
-/
namespace NitroVerif.Paths

/-- an absolute path (components view) that never pops at the root while being normalised -/
def AbsNoClimb (p : P) : Prop := ∃ r, p = .root :: r ∧ noClimbAux 0 r = true

/-- normalising an absolute non-climbing path gives root followed by normal components only:
    every `.` and `..` is removed and the root stays at the head -/
theorem normalize_clean (p : P) (h : AbsNoClimb p) : CleanAbs (normalize p) := by
  obtain ⟨r, rfl, hr⟩ := h
  obtain ⟨ns, hns, e⟩ := foldl_normStep_noClimb [] r normals_nil (by simpa using hr)
  exact ⟨ns, hns, by simpa [normalize, List.foldl_cons, normStep] using e⟩

/-- normalisation is idempotent (on every path the property quantifies over) -/
theorem normalize_idem (p : P) (h : AbsNoClimb p) : normalize (normalize p) = normalize p := by
  obtain ⟨ns, hns, e⟩ := normalize_clean p h
  rw [e, normalize_cleanAbs hns]

/-- idempotence without any hypothesis, for arbitrary (also relative / climbing) paths -/
theorem normalize_idem_all (p : P) : normalize (normalize p) = normalize p := by
  -- invariant: the stack is (optionally root) followed by normals
  have key : ∀ (r s : P), (∃ ns, Normals ns ∧ (s = ns ∨ s = .root :: ns)) →
      ∃ ns, Normals ns ∧ (r.foldl normStep s = ns ∨ r.foldl normStep s = .root :: ns) := by
    intro r
    induction r with
    | nil => intro s h; simpa using h
    | cons c r ih =>
      intro s ⟨ns, hns, hs⟩
      apply ih
      cases c with
      | root => exact ⟨[], normals_nil, Or.inr (by simp [normStep])⟩
      | cur => exact ⟨ns, hns, by simpa [normStep] using hs⟩
      | normal x =>
        refine ⟨ns ++ [.normal x], normals_append.mpr ⟨hns, by intro c hc; simp at hc; subst hc; trivial⟩, ?_⟩
        rcases hs with rfl | rfl <;> simp [normStep]
      | parent =>
        rcases hs with rfl | rfl
        · exact ⟨_, normals_dropLast hns, Or.inl (by simp [normStep])⟩
        · by_cases hne : ns = []
          · subst hne; exact ⟨[], normals_nil, Or.inl (by simp [normStep])⟩
          · exact ⟨List.dropLast ns, normals_dropLast hns, Or.inr (by simp [normStep, List.dropLast_cons_of_ne_nil hne])⟩
  obtain ⟨ns, hns, h⟩ := key p [] ⟨[], normals_nil, Or.inl rfl⟩
  unfold normalize at *
  rcases h with h | h
  · rw [h]; simpa using foldl_normStep_normals [] ns hns
  · rw [h]; exact normalize_cleanAbs hns

/-- shape of the result of `relative_path` on the property's domain: `k` = length of the common
    prefix below the root; the result is the ups-then-downs list, with a leading "." when needed -/
theorem relative_shape (a b : P) (ha : AbsNoClimb a) (hb : AbsNoClimb b) :
    ∃ fs ts k comps, Normals fs ∧ Normals ts ∧
      pop (normalize a) = .root :: fs ∧ normalize b = .root :: ts ∧
      k ≤ fs.length ∧ fs.take k = ts.take k ∧
      comps = List.replicate (fs.length - k) Comp.parent ++ ts.drop k ∧
      (∀ c ∈ comps, c ≠ .root ∧ c ≠ .cur) ∧
      relative a b = some (finish comps) := by
  obtain ⟨as, has, ea⟩ := normalize_clean a ha
  obtain ⟨ts, hts, eb⟩ := normalize_clean b hb
  have hpop : pop (normalize a) = .root :: as.dropLast := by rw [ea]; exact pop_cleanAbs has
  have hfs : Normals as.dropLast := normals_dropLast has
  generalize as.dropLast = fs at hpop hfs
  refine ⟨fs, ts, commonPrefix fs ts, _, hfs, hts, hpop, eb, commonPrefix_le_left fs ts,
    commonPrefix_take fs ts, rfl, ?_, ?_⟩
  · intro c hc
    simp only [List.mem_append, List.mem_replicate] at hc
    rcases hc with ⟨_, rfl⟩ | hc
    · simp
    · have := normals_drop _ hts c hc
      cases c <;> simp [IsNormal] at this ⊢
  · have hcp : commonPrefix (Comp.root :: fs) (Comp.root :: ts) = commonPrefix fs ts + 1 := by
      simp [commonPrefix]
    have hups : ups (fs.drop (commonPrefix fs ts)) = some (List.replicate (fs.length - commonPrefix fs ts) .parent) := by
      rw [ups_normals _ (normals_drop _ hfs)]; simp
    simp only [relative, hpop, eb, hcp, List.drop_succ_cons, hups]

theorem finish_cases (comps : P) (h : ∀ c ∈ comps, c ≠ .root ∧ c ≠ .cur) :
    (finish comps = comps ∧ ∃ tl, comps = .parent :: tl) ∨ finish comps = .cur :: comps := by
  cases comps with
  | nil => right; rfl
  | cons c tl =>
    by_cases hrel : isRel c = true
    · left
      have hc := h c (by simp)
      refine ⟨?_, tl, ?_⟩
      · simp only [finish, hrel, if_true]; simpa using foldl_push_noRootCur [] (c :: tl) h
      · cases c <;> simp_all [isRel]
    · right
      simp only [finish, hrel]; simpa using foldl_push_noRootCur [.cur] (c :: tl) h

/-- `relative_path` never reaches its `panic!`, and resolving its result against the source file
    gives the target's normalised location -/
theorem resolve_relative (a b : P) (ha : AbsNoClimb a) (hb : AbsNoClimb b) :
    ∃ r, relative a b = some r ∧ resolve a r = normalize b := by
  obtain ⟨fs, ts, k, comps, hfs, hts, hpop, eb, hk, htake, hcomps, hnr, hrel⟩ := relative_shape a b ha hb
  refine ⟨_, hrel, ?_⟩
  have hpp : pushPath (Comp.root :: fs) (finish comps) = (Comp.root :: fs) ++ comps := by
    rcases finish_cases comps hnr with ⟨e, _⟩ | e <;> rw [e]
    · exact foldl_push_noRootCur _ _ hnr
    · simp only [pushPath, List.foldl_cons, push]
      simpa using foldl_push_noRootCur (Comp.root :: fs) _ hnr
  unfold resolve
  rw [hpop, hpp, eb, hcomps]
  unfold normalize
  rw [List.foldl_append, List.foldl_append]
  have h1 : (Comp.root :: fs).foldl normStep [] = Comp.root :: fs := normalize_cleanAbs hfs
  rw [h1, foldl_normStep_parents, foldl_normStep_normals _ _ (normals_drop k hts)]
  have : (Comp.root :: fs).length - (fs.length - k) = k + 1 := by simp; omega
  rw [this, List.take_succ_cons, htake, List.cons_append, List.take_append_drop]

/-- the relative path is never empty and always starts with `.` or `..` -/
theorem relative_head (a b : P) (ha : AbsNoClimb a) (hb : AbsNoClimb b) :
    ∃ c r, relative a b = some (c :: r) ∧ (c = .cur ∨ c = .parent) := by
  obtain ⟨fs, ts, k, comps, hfs, hts, hpop, eb, hk, htake, hcomps, hnr, hrel⟩ := relative_shape a b ha hb
  rcases finish_cases comps hnr with ⟨e, tl, etl⟩ | e
  · exact ⟨.parent, tl, by rw [hrel, e, etl], Or.inr rfl⟩
  · exact ⟨.cur, comps, by rw [hrel, e], Or.inl rfl⟩

/-- The `NoClimb` hypothesis cannot be dropped: "/../a" normalises to the *relative* path "a"
    (the pop removes the root), and resolving the computed relative path does not come back. -/
theorem climb_needed_counterexample :
    ∃ a b r, relative a b = some r ∧ resolve a r ≠ normalize b ∧ a.head? = some Comp.root ∧ b.head? = some Comp.root := by
  refine ⟨[.root, .normal "x", .normal "f"], [.root, .parent, .normal "a"], [.parent, .normal "a"], ?_, ?_, rfl, rfl⟩ <;> decide

/-- non-vacuity: a concrete pair with `.` and `..` segments meets the hypotheses -/
example : AbsNoClimb [.root, .normal "p", .parent, .normal "q", .cur, .normal "f.graphql"] ∧
    AbsNoClimb [.root, .normal "q", .normal "sub", .parent, .parent, .normal "g.graphql"] :=
  ⟨⟨_, rfl, by decide⟩, ⟨_, rfl, by decide⟩⟩

/-! ### text level: rendering a path the model produces and splitting it again gives the same components -/

/-- absolute results (`normalize_path`, `resolve_relative_path`): "/" ++ segments joined by "/" -/
theorem components_render_abs (ns : P) (h : GoodNormals ns) :
    componentsL (renderL (.root :: ns)) = .root :: ns := by
  cases ns with
  | nil => simp [renderL, componentsL, splitSlash, splitSlashGo_cons_slash, splitSlashGo, segsToComps]
  | cons c r =>
    have hs := splitSlash_joinSlash ((c :: r).map compTextL) (by simp) (noSlash_compTextL_goodNormals _ h)
    have : renderL (.root :: c :: r) = '/' :: joinSlash ((c :: r).map compTextL) := by simp [renderL]
    rw [this]
    unfold componentsL
    simp only [List.head?_cons, if_true]
    unfold splitSlash at *
    rw [splitSlashGo_cons_slash, hs]
    simp only [List.reverse_nil, segsToComps, if_true]
    rw [segsToComps_goodNormals false _ h rfl]

/-- relative results of `relative_path`: "." / "./segs" / "../../segs" -/
theorem components_render_rel (k : Nat) (ns : P) (h : GoodNormals ns) :
    componentsL (renderL (.cur :: ns)) = .cur :: ns ∧
    componentsL (renderL (List.replicate (k + 1) Comp.parent ++ ns)) = List.replicate (k + 1) Comp.parent ++ ns := by
  have hno : ∀ (pre : P), (∀ c ∈ pre, c = .cur ∨ c = .parent) → ∀ s ∈ (pre ++ ns).map compTextL, NoSlash s := by
    intro pre hpre s hs
    simp only [List.map_append, List.mem_append, List.mem_map] at hs
    rcases hs with ⟨c, hc, rfl⟩ | ⟨c, hc, rfl⟩
    · rcases hpre c hc with rfl | rfl <;> simp [compTextL, NoSlash]
    · obtain ⟨t, rfl, _, hns, _⟩ := h c hc; exact hns
  have hpar : ∀ (j : Nat), segsToComps false ((List.replicate j Comp.parent ++ ns).map compTextL) = List.replicate j Comp.parent ++ ns := by
    intro j
    induction j with
    | zero => simpa using segsToComps_goodNormals false ns h rfl
    | succ j ih =>
      have e : (List.replicate (j + 1) Comp.parent ++ ns).map compTextL =
          ['.', '.'] :: (List.replicate j Comp.parent ++ ns).map compTextL := by
        simp [List.replicate_succ, compTextL]
      rw [e]
      have e2 : ∀ rest, segsToComps false (['.', '.'] :: rest) = Comp.parent :: segsToComps false rest := by
        intro rest; simp [segsToComps]
      rw [e2, ih]; simp [List.replicate_succ]
  constructor
  · have hs := splitSlash_joinSlash ((Comp.cur :: ns).map compTextL) (by simp)
      (by simpa using hno [.cur] (by simp))
    have hr : renderL (.cur :: ns) = joinSlash ((Comp.cur :: ns).map compTextL) := by
      cases ns <;> simp [renderL]
    have hhead : (joinSlash ((Comp.cur :: ns).map compTextL)).head? ≠ some '/' := by
      cases ns <;> simp [joinSlash, compTextL]
    rw [hr]; unfold componentsL; rw [if_neg hhead, hs]
    simp only [List.map_cons, compTextL, segsToComps]
    simp [segsToComps_goodNormals false ns h rfl]
  · have hs := splitSlash_joinSlash ((List.replicate (k + 1) Comp.parent ++ ns).map compTextL) (by simp [List.replicate_succ])
      (hno _ (by intro c hc; exact Or.inr (List.eq_of_mem_replicate hc)))
    have hr : renderL (List.replicate (k + 1) Comp.parent ++ ns) = joinSlash ((List.replicate (k + 1) Comp.parent ++ ns).map compTextL) := by
      simp only [List.replicate_succ, List.cons_append]
      cases hrest : (List.replicate k Comp.parent ++ ns) <;> simp [renderL]
    have hhead : (joinSlash ((List.replicate (k + 1) Comp.parent ++ ns).map compTextL)).head? ≠ some '/' := by
      simp only [List.replicate_succ, List.cons_append, List.map_cons, compTextL]
      cases hrest : ((List.replicate k Comp.parent ++ ns).map compTextL) <;> simp [joinSlash]
    rw [hr]; unfold componentsL; rw [if_neg hhead, hs]
    have := hpar (k + 1)
    simp only [List.replicate_succ, List.cons_append, List.map_cons, compTextL, segsToComps] at this ⊢
    simpa using this

/-- String-level statement of the property: for path TEXTS `a`, `b` that are absolute and do not climb,
    the text `relative_path` returns, read back as a path, resolves against `a` to `normalize b`;
    and the text of the normalised path reads back as itself. -/
theorem text_resolve_relative (a b : String)
    (ha : AbsNoClimb (components a)) (hb : AbsNoClimb (components b)) :
    ∃ r, relative (components a) (components b) = some r ∧
      components (render r) = r ∧
      resolve (components a) (components (render r)) = normalize (components b) ∧
      components (render (normalize (components b))) = normalize (components b) := by
  obtain ⟨fs, ts, k, comps, hfs, hts, hpop, eb, hk, htake, hcomps, hnr, hrel⟩ := relative_shape _ _ ha hb
  obtain ⟨r, hr, hres⟩ := resolve_relative _ _ ha hb
  have hgoodb : CompsGood (normalize (components b)) := fun c hc s hs =>
    componentsL_good b.toList c (mem_normalize _ c hc) s hs
  have hgts : GoodNormals ts := goodNormals_of ts hts (fun c hc s hs => hgoodb c (by rw [eb]; simp [hc]) s hs)
  have hgdrop : GoodNormals (ts.drop k) := fun c hc => hgts c (List.mem_of_mem_drop hc)
  have hnorm : components (render (normalize (components b))) = normalize (components b) := by
    rw [eb]; simp only [components, render, String.toList_ofList]; exact components_render_abs ts hgts
  have hround : components (render r) = r := by
    rw [hrel] at hr; injection hr with hr; subst hr
    simp only [components, render, String.toList_ofList]
    rcases finish_cases comps hnr with ⟨e, tl, etl⟩ | e
    · rw [e, hcomps]
      have hpos : fs.length - k ≠ 0 := by
        intro h0; rw [hcomps, h0] at etl; simp at etl
        have := hgdrop Comp.parent (by rw [etl]; simp); obtain ⟨s, hs, _⟩ := this; cases hs
      obtain ⟨j, hj⟩ := Nat.exists_eq_succ_of_ne_zero hpos
      rw [hj]; exact (components_render_rel j _ hgdrop).2
    · rw [e]
      by_cases h0 : fs.length - k = 0
      · rw [hcomps, h0]; simpa using (components_render_rel 0 _ hgdrop).1
      · -- comps starts with a parent, so `finish` does not add "." — contradiction with e
        exfalso
        obtain ⟨j, hj⟩ := Nat.exists_eq_succ_of_ne_zero h0
        rw [hcomps, hj, List.replicate_succ] at e
        simp [finish, isRel] at e
        have := foldl_push_noRootCur [] (Comp.parent :: (List.replicate j Comp.parent ++ ts.drop k))
          (by rw [hcomps, hj, List.replicate_succ] at hnr; exact hnr)
        simp at this
        rw [this] at e
        simp at e
  exact ⟨r, hr, hround, by rw [hround]; exact hres, hnorm⟩

/-- non-vacuity at the text level -/
example : AbsNoClimb (components "/p/../q/./f.graphql") ∧ AbsNoClimb (components "/q//sub/../../g.graphql") :=
  ⟨⟨_, rfl, by decide⟩, ⟨_, rfl, by decide⟩⟩

end NitroVerif.Paths

/-! ### the import specifier's file name (`path_to_ts`) resolves back to the schema declaration file -/
namespace NitroVerif.PathToTs

/-- every entry of the TRANSLATED table maps a TypeScript extension to a JavaScript extension under which
    TypeScript looks that very extension up (re-checked by the kernel whenever the source table changes) -/
theorem table_ok : ∀ p ∈ Gen.tsToJs, p.2 ∈ jsExts ∧ p.1 ∈ tsExtsFor p.2 := by decide

/-- For every file name that ends in one of the table's TypeScript extensions (any stem, any length), the
    name `path_to_ts` writes into the import specifier is one for which TypeScript's module resolution tries
    the original file.  This is a statement about the file NAME and about the models `pathToTs` (the loop of
    `path_to_ts`, not compared function-for-function with the code) and `tsCandidates` (TypeScript's lookup,
    restated from the handbook, an assumption); that the whole specifier — `relative_path` for the directory part
    composed with `path_to_ts` — lands on the schema declaration file is not a theorem and is checked only
    through the real CLI by the layout stream of `harness/src/bin/c20.rs`. -/
theorem path_to_ts_resolves (name : List Char) (h : ∃ p ∈ Gen.tsToJs, ∃ stem, name = stem ++ p.1) :
    name ∈ tsCandidates (pathToTs name) := by
  obtain ⟨p, hp, stem, hn, hr⟩ := pathToTsWith_spec Gen.tsToJs name h
  obtain ⟨hj, ht⟩ := table_ok p hp
  unfold pathToTs tsCandidates
  rw [hr, List.mem_flatMap]
  refine ⟨p.2, hj, ?_⟩
  rw [stripSuffix_append, List.mem_map]
  exact ⟨p.1, ht, hn.symm⟩

/-- a name with none of the extensions is left unchanged (the specifier then names the file itself) -/
theorem path_to_ts_other (name : List Char) (h : ∀ p ∈ Gen.tsToJs, stripSuffix name p.1 = none) :
    pathToTs name = name := by
  unfold pathToTs
  generalize Gen.tsToJs = tbl at h
  induction tbl with
  | nil => rfl
  | cons q rest ih =>
    obtain ⟨ts, js⟩ := q
    unfold pathToTsWith
    rw [h (ts, js) (by simp)]
    exact ih (fun p hp => h p (by simp [hp]))

example : pathToTs "schema.d.ts".toList = "schema.js".toList ∧ pathToTs "types.mts".toList = "types.mjs".toList := by decide

end NitroVerif.PathToTs
