import NitroVerif.Lemmas.Exports
/-!
# C14 — declared exports match what the bundler loader exports at runtime

Property theorems only. Model: `NitroVerif/Model/Exports.lean` (tied to the operation printers, the config parser and
the loader by the correspondence check `harness/src/bin/c14.rs`).

`c : Config` ranges over ALL configurations (every Boolean, every mode, arbitrary suffix strings, absent keys);
`F : File` over ALL import-resolved documents (any number of operations of any kind, named or anonymous, fragments,
imported fragments).  `dts c F` is the declaration file, `js c F` the JavaScript module printed from the same
document, `loaderJs c F` the module the loader prints (it does not tell imported fragments from local ones).
-/
namespace NitroVerif.Exports

/-! ## value exports -/

/-- Every name under which the declaration file exports a value is exported by the JavaScript module printed from the
    same document with the same configuration, in the same order, and the JavaScript module exports nothing else
    (`export type` statements are not value exports; the JavaScript module has none). -/
theorem C14_value_exports (c : Config) (F : File) : valueExports (dts c F) = exports (js c F) := by
  have key : ∀ (t : TypeOptions) (n i : Nat) (F : File),
      valueExports (printDefs t.base (typeVisitor t) n i F) = exports (printDefs t.base jsVisitor n i F) := by
    intro t n i F
    induction F generalizing i with
    | nil => rfl
    | cons d r ih =>
      cases d with
      | op k nm =>
        by_cases h : (t.base.defaultExportForOperation && n == 1) = true <;>
          cases hn : t.base.namedExportForOperation <;>
          simp [printDefs, valueExports, exports, ih, h, hn]
      | frag nm imp => cases imp <;> simp [printDefs, valueExports, exports, ih]
  exact key (TypeOptions.fromConfig c) _ 0 F

/-- The loader's module exports every value the declaration file declares (the property's `⊆`), in the same order.
    It may export more: fragments imported with `#import` are exported by the loader but not declared. -/
theorem C14_value_exports_loader (c : Config) (F : File) :
    (valueExports (dts c F)).Sublist (exports (loaderJs c F)) := by
  have h1 : valueExports (dts c F) = (refsFrom (BaseOptions.fromConfig c) (operationCount F) F).map Prod.fst := by
    rw [valueExports_eq_map_exportRefs]
    exact congrArg _ (exportRefs_printDefs_type (TypeOptions.fromConfig c) _ 0 F)
  have h2 : exports (loaderJs c F) =
      (refsFrom (BaseOptions.fromConfig c) (operationCount F) (F.map Def.asLocal)).map Prod.fst := by
    show exports (js c (F.map Def.asLocal)) = _
    rw [← C14_value_exports c (F.map Def.asLocal), valueExports_eq_map_exportRefs]
    have e : exportRefs (dts c (F.map Def.asLocal)) =
        refsFrom (BaseOptions.fromConfig c) (operationCount (F.map Def.asLocal)) (F.map Def.asLocal) :=
      exportRefs_printDefs_type (TypeOptions.fromConfig c) (operationCount (F.map Def.asLocal)) 0 (F.map Def.asLocal)
    rw [e, operationCount_map_asLocal]
  rw [h1, h2]
  exact (refsFrom_sublist_asLocal _ _ F).map _

/-- `⊆` as membership (the wording of the property) -/
theorem C14_value_exports_loader_mem (c : Config) (F : File) (e : Str) (h : e ∈ valueExports (dts c F)) :
    e ∈ exports (loaderJs c F) :=
  (C14_value_exports_loader c F).subset h

/-- With no `#import`ed fragment in the document the loader's exports are exactly the declared value exports. -/
theorem C14_value_exports_loader_eq (c : Config) (F : File) (h : ∀ d ∈ F, d.isImported = false) :
    valueExports (dts c F) = exports (loaderJs c F) := by
  rw [loaderJs, map_asLocal_of_no_import F h]; exact C14_value_exports c F

example : ∀ d ∈ [Def.op .query (some "q".toList), .frag "A".toList false], d.isImported = false := by decide

/-- The inclusion is strict as soon as a fragment is imported: the loader exports it, the declaration file does not. -/
theorem C14_loader_exports_imported_fragment :
    ∃ c F, "Frag".toList ∈ exports (loaderJs c F) ∧ "Frag".toList ∉ valueExports (dts c F) :=
  ⟨Config.parse {}, [.op .query (some "q".toList), .frag "Frag".toList true], by decide, by decide⟩

/-! ## default export -/

/-- Both files name the same local constant in their default export (or neither has one). -/
theorem C14_default_same (c : Config) (F : File) :
    defaultOf (dts c F) = defaultOf (js c F) ∧ defaultOf (dts c F) = defaultOf (loaderJs c F) := by
  have hd : defaults (dts c F) = defaultsFrom (BaseOptions.fromConfig c) (operationCount F) F :=
    defaults_printDefs_type (TypeOptions.fromConfig c) _ 0 F
  have hj : defaults (js c F) = defaultsFrom (BaseOptions.fromConfig c) (operationCount F) F :=
    defaults_printDefs_js _ _ 0 F
  have hl : defaults (loaderJs c F) = defaultsFrom (BaseOptions.fromConfig c) (operationCount F) F := by
    have := defaults_printDefs_js (BaseOptions.fromConfig c) (operationCount (F.map Def.asLocal)) 0 (F.map Def.asLocal)
    rw [operationCount_map_asLocal] at this
    simpa [loaderJs, js, printDocument, defaultsFrom] using this
  simp [defaultOf, hd, hj, hl]

/-- There is a default export exactly when `export.defaultExportForOperation` is on (the default) and the document has
    exactly one operation; it then names the constant of that single operation. -/
theorem C14_default_iff (c : Config) (F : File) (n : Str) :
    defaultOf (dts c F) = some n ↔
      c.defaultExportForOperation = true ∧
        ∃ k nm, ops F = [(k, nm)] ∧ n = (operationVariableName (BaseOptions.fromConfig c) k nm).operationVariableName := by
  have hd : defaults (dts c F) = defaultsFrom (BaseOptions.fromConfig c) (operationCount F) F :=
    defaults_printDefs_type (TypeOptions.fromConfig c) _ 0 F
  have hlen := ops_length F
  simp only [defaultOf, hd, defaultsFrom]
  constructor
  · intro h
    split at h
    · rename_i hc
      simp only [Bool.and_eq_true, beq_iff_eq] at hc
      rw [← hlen] at hc
      match hops : ops F, hc.2 with
      | [(k, nm)], _ =>
        rw [hops] at h
        simp at h
        exact ⟨hc.1, k, nm, rfl, h.symm⟩
    · simp at h
  · rintro ⟨hc, k, nm, hops, rfl⟩
    have : operationCount F = 1 := by rw [← hlen, hops]; rfl
    simp [this, hops, BaseOptions.fromConfig, hc]

/-- A module never has two default-export statements. -/
theorem C14_default_unique (c : Config) (F : File) :
    (defaults (dts c F)).length ≤ 1 ∧ (defaults (loaderJs c F)).length ≤ 1 := by
  have hd : defaults (dts c F) = defaultsFrom (BaseOptions.fromConfig c) (operationCount F) F :=
    defaults_printDefs_type (TypeOptions.fromConfig c) _ 0 F
  have hl : defaults (loaderJs c F) = defaultsFrom (BaseOptions.fromConfig c) (operationCount F) F := by
    have := defaults_printDefs_js (BaseOptions.fromConfig c) (operationCount (F.map Def.asLocal)) 0 (F.map Def.asLocal)
    rw [operationCount_map_asLocal] at this
    simpa [loaderJs, js, printDocument, defaultsFrom] using this
  have hlen := ops_length F
  rw [hd, hl]
  simp only [defaultsFrom]
  split
  · rename_i hc
    simp only [Bool.and_eq_true, beq_iff_eq] at hc
    simp [hlen, hc.2]
  · simp

/-! ## names -/

/-- `operation_variable_name` as a function of the configuration keys: the operation's name (empty for an anonymous
    operation), first character upper-cased unless `name.capitalizeOperationNames` is `false`, followed by the suffix
    configured for the operation's kind (defaults `Query` / `Mutation` / `Subscription`). -/
theorem C14_operation_variable_name (c : Config) (k : Kind) (nm : Option Str) :
    (operationVariableName (BaseOptions.fromConfig c) k nm).operationVariableName =
      (if c.capitalizeOperationNames.getD true then capitalize (nm.getD []) else nm.getD []) ++
        (match k with
          | .query => c.queryVariableSuffix.getD "Query".toList
          | .mutation => c.mutationVariableSuffix.getD "Mutation".toList
          | .subscription => c.subscriptionVariableSuffix.getD "Subscription".toList) := by
  cases k <;> cases nm <;> cases hcap : c.capitalizeOperationNames.getD true <;>
    simp [operationVariableName, BaseOptions.fromConfig, cloneInto, suffixOf, hcap, capitalize]

/-- The declaration file, the JavaScript module and the loader's module declare the same constants: the constant of
    the `i`-th definition is named `varName` of that definition (operation: `operation_variable_name`; fragment: its name
    followed by `name.fragmentVariableSuffix`), and holds the document printed from the `i`-th definition. -/
theorem C14_names (c : Config) (F : File) :
    consts (dts c F) = constsFrom (BaseOptions.fromConfig c) 0 F ∧
    consts (js c F) = constsFrom (BaseOptions.fromConfig c) 0 F ∧
    consts (loaderJs c F) = constsFrom (BaseOptions.fromConfig c) 0 F := by
  refine ⟨consts_printDefs_type (TypeOptions.fromConfig c) _ 0 F, consts_printDefs_js _ _ 0 F, ?_⟩
  have := consts_printDefs_js (BaseOptions.fromConfig c) (operationCount (F.map Def.asLocal)) 0 (F.map Def.asLocal)
  simpa [loaderJs, js, printDocument] using this

/-- `constsFrom` read by index: the constant recorded for index `i` is named after the `i`-th definition. -/
theorem C14_names_index (c : Config) (F : File) (i : Nat) (d : Def) (h : F[i]? = some d) :
    (varName (BaseOptions.fromConfig c) d, i) ∈ consts (dts c F) ∧
    (varName (BaseOptions.fromConfig c) d, i) ∈ consts (loaderJs c F) := by
  have := constsFrom_getElem (BaseOptions.fromConfig c) 0 F i d h
  obtain ⟨h1, _, h3⟩ := C14_names c F
  rw [h1, h3]; simpa using this

/-! ## the exported constant carries the document of the same definition -/

/-- What an export carries is decided identically in all three modules: scope lookup only depends on the declared
    constants, and these coincide. So every (exported name ↦ document) pair of the declaration file is one of the
    loader's module — whether or not names collide. -/
theorem C14_carried_subset (c : Config) (F : File) :
    carried (dts c F) = carried (js c F) ∧ ∀ p ∈ carried (dts c F), p ∈ carried (loaderJs c F) := by
  obtain ⟨h1, h2, h3⟩ := C14_names c F
  have r2 : resolve (dts c F) = resolve (js c F) := resolve_congr _ _ (h1.trans h2.symm)
  have r3 : resolve (dts c F) = resolve (loaderJs c F) := resolve_congr _ _ (h1.trans h3.symm)
  have e1 : exportRefs (dts c F) = refsFrom (BaseOptions.fromConfig c) (operationCount F) F :=
    exportRefs_printDefs_type (TypeOptions.fromConfig c) _ 0 F
  have e2 : exportRefs (js c F) = refsFrom (BaseOptions.fromConfig c) (operationCount F) F :=
    exportRefs_printDefs_js _ _ 0 F
  have e3 : exportRefs (loaderJs c F) = refsFrom (BaseOptions.fromConfig c) (operationCount F) (F.map Def.asLocal) := by
    have := exportRefs_printDefs_js (BaseOptions.fromConfig c) (operationCount (F.map Def.asLocal)) 0 (F.map Def.asLocal)
    rw [operationCount_map_asLocal] at this
    simpa [loaderJs, js, printDocument] using this
  refine ⟨by simp [carried, e1, e2, r2], ?_⟩
  intro p hp
  simp only [carried, List.mem_map] at hp ⊢
  obtain ⟨q, hq, rfl⟩ := hp
  refine ⟨q, ?_, by rw [r3]⟩
  rw [e3]; rw [e1] at hq
  exact (refsFrom_sublist_asLocal _ _ F).subset hq

/-
FULL STATEMENT (false of the code — see `C14_same_document_counterexample_*`):

  theorem C14_same_document (c : Config) (F : File) :
      ∀ e ∈ valueExports (dts c F), ∃ i d,
        (e, some i) ∈ carried (dts c F) ∧ (e, some i) ∈ carried (loaderJs c F) ∧
        F[i]? = some d ∧ (e = varName (BaseOptions.fromConfig c) d ∨
                          (e = defaultName ∧ isOp d = true ∧ operationCount F = 1))

  i.e. every declared value export resolves, in the loader's module, to exactly one constant, which holds the document
  of the definition the declaration was printed for.  It fails when two definitions of the file get the same constant
  name (both printers then declare `const N` twice: the JavaScript module has an early SyntaxError and exports nothing,
  and `N` is ambiguous).  The checker does not exclude this: `query a`/`query A` under capitalisation, or
  `query X` + `fragment XQuery` under the DEFAULT configuration.
-/

/-- Under the decidable side condition `NoCollision c F` (no two definitions get the same constant name): every value
    export declared in the declaration file resolves — in the declaration file, in the JavaScript module and in the
    loader's module — to the one constant holding the document of the same definition `F[i]`, which is the
    definition the export is named after (or, for `default`, the single operation of the file). -/
theorem C14_same_document_partial (c : Config) (F : File) (hnc : NoCollision c F) :
    ∀ e ∈ valueExports (dts c F), ∃ i d,
      (e, some i) ∈ carried (dts c F) ∧ (e, some i) ∈ carried (js c F) ∧ (e, some i) ∈ carried (loaderJs c F) ∧
      F[i]? = some d ∧
      (e = varName (BaseOptions.fromConfig c) d ∨ (e = defaultName ∧ isOp d = true ∧ operationCount F = 1)) := by
  intro e he
  obtain ⟨h1, _, _⟩ := C14_names c F
  have e1 : exportRefs (dts c F) = refsFrom (BaseOptions.fromConfig c) (operationCount F) F :=
    exportRefs_printDefs_type (TypeOptions.fromConfig c) _ 0 F
  rw [valueExports_eq_map_exportRefs, List.mem_map] at he
  obtain ⟨⟨e', l⟩, hmem, rfl⟩ := he
  have hmem' := hmem
  rw [e1] at hmem'
  obtain ⟨d, hd, hl, hcase⟩ := refsFrom_mem _ _ F e' l hmem'
  obtain ⟨i, hi⟩ := List.mem_iff_getElem?.mp hd
  have hc : (l, i) ∈ consts (dts c F) := by
    rw [h1, hl]; simpa using constsFrom_getElem (BaseOptions.fromConfig c) 0 F i d hi
  have hres : resolve (dts c F) l = some i :=
    resolve_of_nodup _ _ _ (by rw [h1]; exact hnc) hc
  have hcar : (e', some i) ∈ carried (dts c F) := by
    simp only [carried, List.mem_map]
    exact ⟨(e', l), hmem, by simp [hres]⟩
  obtain ⟨hjs, hld⟩ := C14_carried_subset c F
  refine ⟨i, d, hcar, hjs ▸ hcar, hld _ hcar, hi, ?_⟩
  rcases hcase with h | h
  · left; simpa [h] using hl
  · right; exact h

/-- non-vacuity: a file with two operations, a fragment and an imported fragment meets `NoCollision` under the
    default configuration and under named exports with unusual suffixes -/
example : NoCollision (Config.parse {})
    [.op .query (some "getUser".toList), .op .mutation (some "getUser".toList), .frag "User".toList false,
     .frag "Other".toList true] := by decide
example : NoCollision
    (Config.parse { defaultExportForOperation := some false, queryVariableSuffix := some [], fragmentVariableSuffix := some "_F".toList, capitalizeOperationNames := some false })
    [.op .query (some "a".toList), .op .query (some "A".toList), .frag "a".toList false] := by decide

/-- Counterexample to the full statement under the DEFAULT configuration: `query X {…}` and `fragment XQuery on …`
    in one file. Both `default` and `XQuery` are declared value exports, and neither resolves to a single constant in
    the loader's module (two `const XQuery`). The checker accepts the file (operation and fragment names are distinct). -/
theorem C14_same_document_counterexample_default_config :
    ∃ c F, c = Config.parse {} ∧ ¬ NoCollision c F ∧
      ∃ e ∈ valueExports (dts c F), (e, none) ∈ carried (loaderJs c F) ∧ ∀ p ∈ carried (loaderJs c F), p.1 = e → p.2 = none :=
  ⟨Config.parse {}, [.op .query (some "X".toList), .frag "XQuery".toList false], rfl, by decide,
    defaultName, by decide, by decide, by decide⟩

/-- Counterexample with two operations: `query a {…} query A {…}` with named exports; capitalisation maps both to
    `AQuery`. The checker accepts the file (the operation names differ). -/
theorem C14_same_document_counterexample_capitalize :
    ∃ c F, ¬ NoCollision c F ∧
      ∃ e ∈ valueExports (dts c F), (e, none) ∈ carried (loaderJs c F) ∧ ∀ p ∈ carried (loaderJs c F), p.1 = e → p.2 = none :=
  ⟨Config.parse { defaultExportForOperation := some false },
    [.op .query (some "a".toList), .op .query (some "A".toList)], by decide,
    "AQuery".toList, by decide, by decide, by decide⟩

/-! ## the declared names must be usable as bindings -/

/-
FULL STATEMENT (false of the code): every constant both printers declare has a name that can be a `const` binding
(`validBinding`).  An anonymous operation with an empty suffix gets the empty name (`const  = …`), and a definition
whose generated name is a reserved word (`fragment class on T {…}`, default configuration) gives `const class = …`;
both make the loader's module (and the declaration file) unparsable.
-/

/-- If every definition is named by a non-empty name, no declared constant has the empty name. -/
theorem C14_binding_nonempty_partial (c : Config) (F : File)
    (hnamed : ∀ d ∈ F, match d with | .op _ nm => ∃ s, nm = some s ∧ s ≠ [] | .frag s _ => s ≠ []) :
    ∀ p ∈ consts (loaderJs c F), p.1 ≠ [] := by
  have key : ∀ (o : BaseOptions) (F : File),
      (∀ d ∈ F, match d with | .op _ nm => ∃ s, nm = some s ∧ s ≠ [] | .frag s _ => s ≠ []) →
      ∀ k, ∀ p ∈ constsFrom o k F, p.1 ≠ [] := by
    intro o F
    induction F with
    | nil => intro _ k p hp; simp [constsFrom] at hp
    | cons d r ih =>
      intro hnamed k p hp
      simp only [constsFrom, List.mem_cons] at hp
      rcases hp with rfl | hp
      · have := hnamed d (by simp)
        cases d with
        | op kd nm =>
          obtain ⟨s, rfl, hs⟩ := this
          cases hcap : o.capitalizeOperationNames <;>
            simp [varName, operationVariableName, hcap, hs, capitalize_ne_nil]
        | frag s imp => simp [varName, this]
      · exact ih (fun d hd => hnamed d (by simp [hd])) (k + 1) p hp
  rw [(C14_names c F).2.2]
  exact key _ F hnamed 0

example : ∀ d ∈ [Def.op .query (some "q".toList), .frag "A".toList true],
    match d with | .op _ nm => ∃ s, nm = some s ∧ s ≠ [] | .frag s _ => s ≠ [] := by
  intro d hd
  simp only [List.mem_cons, List.not_mem_nil, or_false] at hd
  rcases hd with rfl | rfl
  · exact ⟨_, rfl, by decide⟩
  · decide

/-- Counterexample: an anonymous query with `name.queryVariableSuffix: ""` is declared and default-exported under the
    empty name. -/
theorem C14_binding_counterexample_empty :
    ∃ c F, NoCollision c F ∧ ∃ p ∈ consts (loaderJs c F), validBinding p.1 = false ∧ p.1 = [] :=
  ⟨Config.parse { queryVariableSuffix := some [] }, [.op .query none], by decide, ([], 0), by decide, by decide, rfl⟩

/-- Counterexample under the DEFAULT configuration: `fragment class on T {…}` is declared as `export const class`. -/
theorem C14_binding_counterexample_reserved :
    ∃ c F, c = Config.parse {} ∧ NoCollision c F ∧
      ∃ p ∈ consts (loaderJs c F), validBinding p.1 = false ∧ p.1 ∈ valueExports (dts c F) :=
  ⟨Config.parse {}, [.frag "class".toList false], rfl, by decide, ("class".toList, 0), by decide, by decide, by decide⟩

/-! ## mode → file name of the declaration file -/

/-- cli/generate.rs: the declaration file of `x.graphql` is `x.d.graphql.ts` (default mode), `x.graphql.d.ts` or, in
    standalone mode, the module `x.graphql.ts` that holds the values itself; only the standalone module carries
    values (`printValues`).  The three extension equations hold by `rfl` on `declExtension`, which restates
    `generate.rs` (compared with the real CLI on the CLI sample of the correspondence check).  That a constant is
    `declare`d exactly when it is neither exported nor given a value is how `typeVisitor` is DEFINED (compared by
    the correspondence check), not a conclusion of this theorem. -/
theorem C14_mode_extension (c : Config) :
    ((TypeOptions.fromConfig c).printValues = true ↔ c.mode = .standaloneTs4) ∧
    declExtension .withLoaderTs5 = "d.graphql.ts".toList ∧
    declExtension .withLoaderTs4 = "graphql.d.ts".toList ∧
    declExtension .standaloneTs4 = "graphql.ts".toList := by
  refine ⟨?_, rfl, rfl, rfl⟩
  cases hm : c.mode <;> simp [TypeOptions.fromConfig, hm]

end NitroVerif.Exports
