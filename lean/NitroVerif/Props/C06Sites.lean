import NitroVerif.Props.C06
import NitroVerif.Lemmas.PrintMapTokens
import NitroVerif.Lemmas.PrintMapOps
import NitroVerif.Lemmas.PrintMapRun
/-!
# C06 — the printers' call sites: which node goes with which generated text

Property theorems only. Model: `NitroVerif/Model/PrintMap.lean` — the calls the printers make on the `SourceMapWriter`
trait (`write` / `write_for(text, node position, node name)` / `indent` / `dedent`): the WHOLE sequence for the schema type
printer (`schemaOps`) and the resolver type printer without plugins (`resolverOps`), and for the two operation printers the
projection onto the `write_for` calls whose node position is not built in (`opTypeSites`, `opJsSites`; all their other
`write_for` calls pass `Pos::builtin()`, which `SourceWriter::write_for` treats as `write`). The model is tied to the code by
the K stream `sites:*` of `harness/src/bin/c06.rs` (a recording implementation of the trait, no hook).

What is proved, for ALL documents and configurations:
* exactness — the projection of the schema / resolver printers' call sequence onto the mapped calls is a closed form
  (`schemaSites`, `resolverSites`) that mentions nothing but tokens of the document;
* nothing is invented — every mapped call passes the position and the text of a token the AST records (keyword, definition
  name, field, argument, input field, enum value, union member, root type; operation name / definition, fragment definition);
* coverage — every type definition's NAME, every field, every input field (and, with `emitSchemaRuntime`, every enum value)
  has a mapped call at the position of its name token, with the name as node name and as text (the `__tmp_` local name for a
  renamed type); every named operation's three declarations are mapped to its name token;
* composition with the proved `SourceWriter` model — each such call ends up as a named segment pair in the final mapping log
  and in the decoded `mappings`, delimiting exactly the generated text.

False of the code, kept as kernel-checked witnesses: enum VALUES are not mapped at all without `emitSchemaRuntime`
(`schema_enum_value_unmapped_counterexample`); a FRAGMENT's name is mapped to the start of its definition (the `fragment`
keyword), not to its name token (`fragment_site_is_definition_start`, `fragment_site_not_name_token_counterexample`).

Second stage: the bodies of the two operation printers (selection-set types, Variables types, runtime JSON, export
statements) are modelled call by call as `opTypeOps` / `opJsOps`; the theorems about them are in `Props/C06Bodies.lean`
(projection = `opTypeSites` / `opJsSites`, nothing inside a type is mapped, text = the C01/C09/C12/C14 models' file,
`operation_names_have_segments_full` without the projection hypothesis of `operation_names_have_segments` below).

OPEN — carried by K/O only: plugins of the resolver printer (K `sites:resolvers` runs the printer with an empty plugin list;
the end-to-end O runs projects with the model plugin); that the positions recorded in the AST are token starts in the
source text (C07's parser model / the end-to-end O of `c06.rs`; violated after astral characters, open known finding
`e2e:original-column-counts-code-points`); the selection-set position of each operation is an INPUT of the model (`sps`: the
shared AST does not carry it, K passes the real AST's; for a missing entry the model uses the default position,
`ExecNode.selDefault`); `site_source_index_in_sources` is about the operation mapper of `FileMap` only (the schema-file
mapper `fileIndicesSchema` is compared by K, no theorem); that the CLI's mapper covers the file of every node of the document
it prints (`FilesInMapper`, the hypothesis of `printer_calls_do_not_panic`) is not derived from `file_remap_in_range` here;
the indentation width (OPEN block of `Props/C06Bodies.lean`).
-/
namespace NitroVerif.PrintMap
open NitroVerif.Gql NitroVerif.DeclCfg NitroVerif.SchemaDecls NitroVerif.SourceMap
open NitroVerif.SourceMapSpec (decodeMappings)

/-! ## schema type printer -/

/-- For every configuration and every type-system document on which the schema type printer succeeds: the `write_for`
    calls with a non-builtin position, in the order they are made, are EXACTLY
    the root type references of the `__nitrogql_schema` type (from the schema definition, else Query/Mutation/Subscription),
    then, namespace by namespace and definition by definition in document order, for each definition printed in that namespace
    the keyword node + the definition's name node + the body's nodes (field names of an object, kept-name members of a union,
    field names of an input object), then per definition the header again (and with `emitSchemaRuntime` the enum runtime:
    keyword, name, and each value twice). Nothing else is mapped. -/
theorem schema_sites_exact (c : Cfg) (doc : TsDoc) (ops : List POp) (h : schemaOps c doc = .ok ops) :
    mappedOps ops = schemaSites c doc :=
  schemaOps_mapped c doc ops h

/-- non-vacuity: a document on which the printer succeeds (and one on which it stops with `ScalarTypeNotProvided`) -/
example : (∃ ops, schemaOps {} [.typeDef { kind := .object, name := "Query", fields := [{ name := "a", ty := .named "Int" {} }] }] = .ok ops)
    ∧ schemaOps {} [.typeDef { kind := .scalar, name := "Date" }] = .error "Date" := by
  constructor
  · exact ⟨_, rfl⟩
  · rfl

/-- Positions are not invented: every `write_for` of the schema type printer whose position is not built in passes a
    node that has a name, and (position, name) is a token of the document — a definition keyword, a definition name, a
    field / input field / enum value name, a union member or a root type of the schema definition; the generated text is
    that name, its `__tmp_` local name, or (for a keyword) the TypeScript declaration keywords. -/
theorem schema_sites_not_invented (c : Cfg) (doc : TsDoc) (ops : List POp) (h : schemaOps c doc = .ok ops)
    (t : String) (p : Pos) (n : Option String) (hmem : .writeFor t p n ∈ ops) (hb : p.builtin = false) :
    ∃ s, n = some s ∧ TsToken doc p s ∧ SiteText t s := by
  have hm : POp.writeFor t p n ∈ mappedOps ops := mem_mappedOps.mpr ⟨hmem, by simp [POp.mapped, hb]⟩
  rw [schemaOps_mapped c doc ops h] at hm
  obtain ⟨t', p', s, e, _, htok, htext⟩ := schemaSites_tokens c doc _ hm
  cases e
  exact ⟨s, rfl, htok, htext⟩

/-- Every type definition of the document (whose tokens have real positions) has its declaration header mapped: a
    `write_for` of the declaration keywords at the position of the definition's keyword, and a `write_for` whose position
    is the position of the definition's NAME token, whose node name is the type's name and whose text is the name as the
    printer writes it (the name itself, or `__tmp_<name>` when a configured scalar type mentions the name). -/
theorem schema_type_name_site (c : Cfg) (doc : TsDoc) (ops : List POp) (h : schemaOps c doc = .ok ops)
    (td : TypeDef) (htd : .typeDef td ∈ doc) :
    (td.namePos.builtin = false →
      POp.writeFor (localName (bag (scalarTypes c doc)) td.name) td.namePos (some td.name) ∈ ops) ∧
    (td.pos.builtin = false →
      POp.writeFor (headerText td (localName (bag (scalarTypes c doc)) td.name)) td.pos (some (keywordOf td.kind)) ∈ ops) := by
  have key : ∀ op, op ∈ headerSites td ((Ctx.new c doc .operationOutput).local td.name) → op ∈ ops := by
    intro op hop
    have : op ∈ mappedOps ops := by
      rw [schemaOps_mapped c doc ops h]
      exact repr_mem_schemaSites c doc htd (List.mem_append_left _ hop)
    exact (mem_mappedOps.mp this).1
  constructor
  · intro hb
    exact key _ (List.mem_append_right _ (node_mem hb))
  · intro hb
    exact key _ (List.mem_append_left _ (node_mem hb))

/-- Every field of every object type has a `write_for` whose position is the position of the field's NAME token and
    whose text and node name are the field's name. (`isRawIdent`: the name is `[A-Za-z_][A-Za-z0-9_]*`, which every
    GraphQL name is; another key would be printed quoted, with plain `write`.) -/
theorem schema_field_site (c : Cfg) (doc : TsDoc) (ops : List POp) (h : schemaOps c doc = .ok ops)
    (td : TypeDef) (htd : .typeDef td ∈ doc) (hk : td.kind = .object) (f : FieldDef) (hf : f ∈ td.fields)
    (hraw : isRawIdent f.name = true) (hb : f.pos.builtin = false) :
    POp.writeFor f.name f.pos (some f.name) ∈ ops := by
  have : POp.writeFor f.name f.pos (some f.name) ∈ mappedOps ops := by
    rw [schemaOps_mapped c doc ops h]
    refine type_mem_schemaSites c doc .operationOutput (by simp [Target.all]) htd ?_
    have hp : printed (Ctx.new c doc .operationOutput) td = true := by simp [printed, hk, Ctx.new, Target.isInput, Target.isOutput]
    simp only [typeSites, hp, if_true]
    refine List.mem_append_right _ ?_
    simp only [bodySites, hk]
    exact List.mem_flatMap.mpr ⟨f, hf, keySites_mem hraw hb⟩
  exact (mem_mappedOps.mp this).1

/-- Every field of every input object type has a `write_for` whose position is the position of the field's NAME token
    and whose text and node name are the field's name. -/
theorem schema_input_field_site (c : Cfg) (doc : TsDoc) (ops : List POp) (h : schemaOps c doc = .ok ops)
    (td : TypeDef) (htd : .typeDef td ∈ doc) (hk : td.kind = .input) (f : InputValueDef) (hf : f ∈ td.inputs)
    (hraw : isRawIdent f.name = true) (hb : f.pos.builtin = false) :
    POp.writeFor f.name f.pos (some f.name) ∈ ops := by
  have : POp.writeFor f.name f.pos (some f.name) ∈ mappedOps ops := by
    rw [schemaOps_mapped c doc ops h]
    refine type_mem_schemaSites c doc .operationInput (by simp [Target.all]) htd ?_
    have hp : printed (Ctx.new c doc .operationInput) td = true := by simp [printed, hk, Ctx.new, Target.isOutput]
    simp only [typeSites, hp, if_true]
    refine List.mem_append_right _ ?_
    simp only [bodySites, hk]
    exact List.mem_flatMap.mpr ⟨f, hf, keySites_mem hraw hb⟩
  exact (mem_mappedOps.mp this).1

/-- With `emitSchemaRuntime`, every value of every enum type has a `write_for` at the position of the value's name
    token with the value's name as text and node name (the property key and the string content of the runtime object). -/
theorem schema_enum_value_site_runtime (c : Cfg) (doc : TsDoc) (ops : List POp) (h : schemaOps c doc = .ok ops)
    (hrt : c.emitSchemaRuntime = true)
    (td : TypeDef) (htd : .typeDef td ∈ doc) (hk : td.kind = .enum) (v : EnumValueDef) (hv : v ∈ td.values)
    (hb : v.pos.builtin = false) :
    POp.writeFor v.name v.pos (some v.name) ∈ ops := by
  have : POp.writeFor v.name v.pos (some v.name) ∈ mappedOps ops := by
    rw [schemaOps_mapped c doc ops h]
    refine repr_mem_schemaSites c doc htd ?_
    unfold reprSites
    refine List.mem_append_right _ ?_
    have : (td.kind == TypeKind.enum && (Ctx.new c doc .operationOutput).cfg.emitSchemaRuntime) = true := by
      simp [hk, Ctx.new, hrt, typeKind_beq]
    simp only [this, if_true]
    exact List.mem_append_right _ (List.mem_flatMap.mpr ⟨v, hv, List.mem_append_left _ (node_mem hb)⟩)
  exact (mem_mappedOps.mp this).1

/-- the hypotheses of the four coverage theorems are satisfiable together: an object with a field, an input object with a
    field and an enum with a value, all at real positions, printed with `emitSchemaRuntime` -/
example : ∃ ops, schemaOps { emitSchemaRuntime := true }
    [.typeDef { kind := .object, name := "Query", namePos := ⟨0, 5, 0, false⟩, pos := ⟨0, 0, 0, false⟩,
                fields := [{ name := "a", pos := ⟨0, 13, 0, false⟩, ty := .named "E" ⟨0, 16, 0, false⟩ }] },
     .typeDef { kind := .input, name := "I", namePos := ⟨1, 6, 0, false⟩, pos := ⟨1, 0, 0, false⟩,
                inputs := [{ name := "x", pos := ⟨1, 10, 0, false⟩, ty := .named "E" ⟨1, 13, 0, false⟩ }] },
     .typeDef { kind := .enum, name := "E", namePos := ⟨2, 5, 0, false⟩, pos := ⟨2, 0, 0, false⟩,
                values := [{ name := "A", pos := ⟨2, 9, 0, false⟩ }] }] = .ok ops
    ∧ isRawIdent "a" = true ∧ isRawIdent "x" = true :=
  ⟨_, rfl, by decide, by decide⟩

/-- FALSE of the code without `emitSchemaRuntime` (the default): "every enum value has a `write_for` at its name token".
    Witness `enum E { A }` (keyword at 0:0, name at 0:5, value at 0:9): the printer succeeds, and its mapped calls are the
    declaration header (keyword + name), five times over (four namespaces + the representative) — the value `A` is written
    as a string literal with plain `write`; no call carries position 0:9. -/
theorem schema_enum_value_unmapped_counterexample :
    let doc : TsDoc :=
      [.typeDef { kind := .enum, name := "E", namePos := ⟨0, 5, 0, false⟩, pos := ⟨0, 0, 0, false⟩,
                  values := [{ name := "A", pos := ⟨0, 9, 0, false⟩ }] }]
    ∃ ops, schemaOps {} doc = .ok ops ∧
      mappedOps ops = (List.replicate 5 [POp.writeFor "export type " ⟨0, 0, 0, false⟩ (some "enum"),
                                          POp.writeFor "E" ⟨0, 5, 0, false⟩ (some "E")]).flatten ∧
      ∀ t n, POp.writeFor t ⟨0, 9, 0, false⟩ n ∉ ops := by
  intro doc
  refine ⟨_, rfl, by decide, ?_⟩
  intro t n hmem
  have hm : POp.writeFor t ⟨0, 9, 0, false⟩ n ∈ mappedOps (match schemaOps {} doc with | .ok ops => ops | .error _ => []) :=
    mem_mappedOps.mpr ⟨hmem, rfl⟩
  have hlist : mappedOps (match schemaOps {} doc with | .ok ops => ops | .error _ => []) =
      (List.replicate 5 [POp.writeFor "export type " ⟨0, 0, 0, false⟩ (some "enum"),
                         POp.writeFor "E" ⟨0, 5, 0, false⟩ (some "E")]).flatten := by decide
  rw [hlist] at hm
  revert hm
  simp [List.replicate]

/-! ## resolver type printer (no plugins) -/

/-- For every type-system document: the `write_for` calls of the resolver type printer with a non-builtin position, in
    order, are EXACTLY: per non-input definition its name node followed by the references of its resolver output type
    (implementing objects of an interface through their definitions' name nodes, members of a union through the member
    tokens); then per definition its entry in `Resolvers<Context>` (key = definition name node; for an object, per field:
    the field name node, the parent reference = the definition's name node, the argument name nodes, the named type token
    of the field's type; for an interface / union the possible types); then per non-input definition its name node twice
    (key and value of `ResolverOutput`). -/
theorem resolver_sites_exact (doc : TsDoc) : mappedOps (resolverOps doc) = resolverSites doc :=
  resolverOps_mapped doc

/-- Positions are not invented by the resolver type printer either: every mapped call passes (position, name) of a token
    of the document, and the generated text is that name. -/
theorem resolver_sites_not_invented (doc : TsDoc) (t : String) (p : Pos) (n : Option String)
    (hmem : .writeFor t p n ∈ resolverOps doc) (hb : p.builtin = false) :
    ∃ s, n = some s ∧ TsToken doc p s ∧ t = s := by
  have hm : POp.writeFor t p n ∈ mappedOps (resolverOps doc) := mem_mappedOps.mpr ⟨hmem, by simp [POp.mapped, hb]⟩
  rw [resolverOps_mapped] at hm
  -- the resolver printer never renames: the text is the token
  have aux : ∀ op ∈ resolverSites doc, ∃ t p s, op = POp.writeFor t p (some s) ∧ TsToken doc p s ∧ t = s := by
    intro op hop
    obtain ⟨t', p', s, e, _, htok, _⟩ := resolverSites_tokens doc op hop
    subst e
    refine ⟨t', p', s, rfl, htok, ?_⟩
    -- every call of the closed form is `node x p x` or `keySites x p`
    have hall : ∀ op ∈ resolverSites doc, ∀ t p s, op = POp.writeFor t p (some s) → t = s := by
      intro op hop t p s e
      unfold resolverSites at hop
      simp only [List.mem_append, List.mem_flatMap, List.mem_filter] at hop
      have hn : ∀ {x : String} {q : Pos}, op ∈ node x q x → t = s := by
        intro x q hq
        obtain ⟨_, rfl⟩ := mem_node.mp hq
        cases e; rfl
      have hk : ∀ {x : String} {q : Pos}, op ∈ keySites x q → t = s := by
        intro x q hq
        unfold keySites at hq
        split at hq
        · exact hn hq
        · cases hq
      have hr : ∀ {l : List (Name × Pos)}, op ∈ refSites l → t = s := by
        intro l hq
        obtain ⟨m, _, hq⟩ := List.mem_flatMap.mp hq
        exact hn hq
      rcases hop with (⟨td, _, h⟩ | ⟨td, _, h⟩) | ⟨td, _, h⟩
      · unfold outputAliasSites at h
        rcases List.mem_append.mp h with h | h
        · exact hn h
        · split at h
          · exact hr h
          · exact hr h
          · cases h
      · unfold rootEntrySites at h
        split at h
        · rcases List.mem_append.mp h with h | h
          · exact hk h
          · obtain ⟨f, _, h⟩ := List.mem_flatMap.mp h
            unfold fieldResolverSites at h
            simp only [List.mem_append, List.mem_flatMap] at h
            rcases h with ((h | h) | ⟨a, _, h⟩) | h
            · exact hk h
            · exact hn h
            · exact hk h
            · exact hn h
        · rcases List.mem_append.mp h with h | h
          · exact hk h
          · exact hr h
        · rcases List.mem_append.mp h with h | h
          · exact hk h
          · exact hr h
        · cases h
      · rcases h with h | h
        · exact hk h
        · exact hn h
    exact hall _ hop t' p' s rfl
  obtain ⟨t', p', s, e, htok, ht⟩ := aux _ hm
  cases e
  exact ⟨s, rfl, htok, ht⟩

/-- Every type definition that can be a resolver output (every kind but input objects) has its alias `type <Name> = …`
    mapped: a `write_for` at the position of the definition's NAME token with the name as text and node name. -/
theorem resolver_type_name_site (doc : TsDoc) (td : TypeDef) (htd : .typeDef td ∈ doc) (hk : td.kind ≠ .input)
    (hb : td.namePos.builtin = false) :
    POp.writeFor td.name td.namePos (some td.name) ∈ resolverOps doc := by
  have : POp.writeFor td.name td.namePos (some td.name) ∈ mappedOps (resolverOps doc) := by
    rw [resolverOps_mapped]
    unfold resolverSites
    refine List.mem_append_left _ (List.mem_append_left _ ?_)
    refine List.mem_flatMap.mpr ⟨td, List.mem_filter.mpr ⟨mem_typeDefsOf.mpr htd, ?_⟩, ?_⟩
    · cases h : td.kind <;> first | rfl | exact absurd h hk
    · exact List.mem_append_left _ (node_mem hb)
  exact (mem_mappedOps.mp this).1

/-- Every field of every object type has its resolver entry mapped to the field's NAME token, and every argument of the
    field to the argument's name token. -/
theorem resolver_field_site (doc : TsDoc) (td : TypeDef) (htd : .typeDef td ∈ doc) (hk : td.kind = .object)
    (f : FieldDef) (hf : f ∈ td.fields) :
    (isRawIdent f.name = true → f.pos.builtin = false → POp.writeFor f.name f.pos (some f.name) ∈ resolverOps doc) ∧
    (∀ a ∈ f.args, isRawIdent a.name = true → a.pos.builtin = false →
      POp.writeFor a.name a.pos (some a.name) ∈ resolverOps doc) := by
  have key : ∀ op, op ∈ fieldResolverSites td f → op ∈ resolverOps doc := by
    intro op hop
    have : op ∈ mappedOps (resolverOps doc) := by
      rw [resolverOps_mapped]
      unfold resolverSites
      refine List.mem_append_left _ (List.mem_append_right _ ?_)
      refine List.mem_flatMap.mpr ⟨td, mem_typeDefsOf.mpr htd, ?_⟩
      simp only [rootEntrySites, hk]
      exact List.mem_append_right _ (List.mem_flatMap.mpr ⟨f, hf, hop⟩)
    exact (mem_mappedOps.mp this).1
  constructor
  · intro hraw hb
    refine key _ ?_
    unfold fieldResolverSites
    exact List.mem_append_left _ (List.mem_append_left _ (List.mem_append_left _ (keySites_mem hraw hb)))
  · intro a ha hraw hb
    refine key _ ?_
    unfold fieldResolverSites
    exact List.mem_append_left _ (List.mem_append_right _ (List.mem_flatMap.mpr ⟨a, ha, keySites_mem hraw hb⟩))

/-! ## operation printers (declaration file and JavaScript module): the mapped calls -/

/-- Nothing is invented by the operation type printer: every mapped call passes the name token of a named operation
    (with its name), the definition of an anonymous operation (no name), the definition of a fragment (with the
    fragment's name) or the selection set of an operation (no name). -/
theorem optype_sites_not_invented (o : OpOpts) (doc : Doc) (sps : List Pos) :
    ∀ op ∈ opTypeSites o doc sps, ∃ t p n, op = .writeFor t p n ∧ ExecNode doc sps p n :=
  opTypeSites_nodes o doc sps

/-- Every NAMED operation of the document has its three declarations mapped to its NAME token: the result type
    `<Name><resultSuffix>`, the variables type `<Name><variablesSuffix>` and the document constant
    `<Name><kind suffix>` are written by `write_for` at the position of the operation's name token with the operation's
    name as node name (`<Name>` = the name, capitalised unless configured otherwise). -/
theorem optype_operation_sites (o : OpOpts) (doc : Doc) (sps : List Pos) (op : OperationDef) (hop : .op op ∈ doc)
    (n : Name) (p : Pos) (hn : op.name = some (n, p)) :
    POp.writeFor (operationName o op ++ o.resultSuffix) p (some n) ∈ opTypeSites o doc sps ∧
    POp.writeFor (operationName o op ++ o.variablesSuffix) p (some n) ∈ opTypeSites o doc sps ∧
    POp.writeFor (operationVariableName o op) p (some n) ∈ opTypeSites o doc sps := by
  obtain ⟨sp, h⟩ := opTypeSites_operation o doc sps op hop
  have e : namePosOf op = (p, some n) := by simp [namePosOf, hn]
  refine ⟨h _ ?_, h _ ?_, h _ ?_⟩ <;> simp [opTypeOperationSites, e]

/-- non-vacuity: a named operation -/
example : (OperationDef.mk .query (some ("getIt", ⟨0, 6, 1, false⟩)) [] [] [] ⟨0, 0, 1, false⟩).name
    = some ("getIt", ⟨0, 6, 1, false⟩) := rfl

/-- Every fragment of the document (own or imported) has its type alias and its document constant mapped — to the
    position of the fragment DEFINITION (`FragmentDefinition::position()`, the `fragment` keyword), with the fragment's
    name as node name. See `fragment_site_not_name_token_counterexample`: this is not the name token. -/
theorem fragment_site_is_definition_start (o : OpOpts) (doc : Doc) (sps : List Pos) (f : FragmentDef)
    (hf : .frag f ∈ doc) :
    POp.writeFor (f.name ++ o.fragmentTypeSuffix) f.pos (some f.name) ∈ opTypeSites o doc sps ∧
    POp.writeFor (f.name ++ o.fragmentVariableSuffix) f.pos (some f.name) ∈ opTypeSites o doc sps ∧
    POp.writeFor (f.name ++ o.fragmentVariableSuffix) f.pos (some f.name) ∈ opJsSites o doc := by
  refine ⟨opTypeSites_fragment o doc sps f hf _ ?_, opTypeSites_fragment o doc sps f hf _ ?_, opJsSites_fragment o doc f hf⟩
    <;> simp [opTypeFragmentSites]

/-- FALSE of the code: "a fragment's name is mapped to its name token". Witness `fragment F on T { a }` (keyword at
    0:0, name at 0:9): all mapped calls of both operation printers for this document carry position 0:0 — the segment
    named `F` points at the `fragment` keyword and its range end at 0:0 + utf16("F") = 0:1, inside the keyword; no call
    carries the position of the name token. -/
theorem fragment_site_not_name_token_counterexample :
    let f : FragmentDef := { name := "F", namePos := ⟨0, 9, 0, false⟩, cond := "T", condPos := ⟨0, 14, 0, false⟩,
                             sel := [.field none "a" ⟨0, 18, 0, false⟩ [] [] none], pos := ⟨0, 0, 0, false⟩ }
    opTypeSites {} [.frag f] [] = List.replicate 3 (POp.writeFor "F" ⟨0, 0, 0, false⟩ (some "F")) ∧
    opJsSites {} [.frag f] = [POp.writeFor "F" ⟨0, 0, 0, false⟩ (some "F")] ∧
    (∀ t n, POp.writeFor t f.namePos n ∉ opTypeSites {} [.frag f] []) := by
  intro f
  refine ⟨by decide, by decide, ?_⟩
  intro t n h
  have : opTypeSites {} [.frag f] [] = List.replicate 3 (POp.writeFor "F" ⟨0, 0, 0, false⟩ (some "F")) := by decide
  rw [this] at h
  simp [List.replicate] at h
  have := h.2.1
  simp [f] at this

/-- The JavaScript module printer maps the document constant of every operation to the operation's name token (or, for
    an anonymous operation, to its definition, without a name), and passes nothing but nodes of the document. -/
theorem opjs_sites (o : OpOpts) (doc : Doc) :
    (∀ op, .op op ∈ doc →
      POp.writeFor (operationVariableName o op) (namePosOf op).1 (namePosOf op).2 ∈ opJsSites o doc) ∧
    (∀ x ∈ opJsSites o doc, ∃ t p n, x = .writeFor t p n ∧ ExecNode doc [] p n) :=
  ⟨fun op h => opJsSites_operation o doc op h, opJsSites_nodes o doc⟩

/-- FALSE of the code: "EXACTLY ONE `write_for` per name". A definition is declared once per namespace in which its kind
    is printed, once more as representative, and a root type once more in `__nitrogql_schema`. Witness
    `type Query { a: E }  input I { x: E }  enum E { A }` with the default configuration: the call for the name `Query`
    occurs 4 times, for `I` 3 times, for `E` 5 times, for the field `a` twice, for the input field `x` twice — each time
    with the same (text, position, name), so the generated file has that many segments into the one defining token. The
    exact multiset for every document is what `schema_sites_exact` gives. -/
theorem schema_name_sites_not_unique_witness :
    let doc : TsDoc :=
      [.typeDef { kind := .object, name := "Query", namePos := ⟨0, 5, 0, false⟩, pos := ⟨0, 0, 0, false⟩,
                  fields := [{ name := "a", pos := ⟨0, 13, 0, false⟩, ty := .named "E" ⟨0, 16, 0, false⟩ }] },
       .typeDef { kind := .input, name := "I", namePos := ⟨1, 6, 0, false⟩, pos := ⟨1, 0, 0, false⟩,
                  inputs := [{ name := "x", pos := ⟨1, 10, 0, false⟩, ty := .named "E" ⟨1, 13, 0, false⟩ }] },
       .typeDef { kind := .enum, name := "E", namePos := ⟨2, 5, 0, false⟩, pos := ⟨2, 0, 0, false⟩,
                  values := [{ name := "A", pos := ⟨2, 9, 0, false⟩ }] }]
    ∃ ops, schemaOps {} doc = .ok ops ∧
      ops.count (.writeFor "Query" ⟨0, 5, 0, false⟩ (some "Query")) = 4 ∧
      ops.count (.writeFor "I" ⟨1, 6, 0, false⟩ (some "I")) = 3 ∧
      ops.count (.writeFor "E" ⟨2, 5, 0, false⟩ (some "E")) = 5 ∧
      ops.count (.writeFor "a" ⟨0, 13, 0, false⟩ (some "a")) = 2 ∧
      ops.count (.writeFor "x" ⟨1, 10, 0, false⟩ (some "x")) = 2 := by
  intro doc
  exact ⟨_, rfl, by decide, by decide, by decide, by decide, by decide⟩

/-! ## composition with the model of `SourceWriter` -/

/-- The source index recorded for a mapped call of an operation file is an entry of `sources` that is the call's own
    file: with the file-index mapper the CLI installs for an operation document (`FileMap`, repaired), a position in a
    schema file, in the document's file or in a file one of its fragments is imported from gets an index that is not the
    `usize::MAX` marker and at which `sources` lists exactly that file. -/
theorem site_source_index_in_sources (nSchema nOps : Nat) (used : List Nat) (p : Pos) (fi : Nat)
    (h : fileIndexOf (some (fileIndicesOp nSchema nOps used)) p.file = some fi)
    (hf : p.file < nSchema + nOps) (hk : keptFile nSchema used p.file) (hsmall : 2 * nSchema + nOps < usizeMax) :
    fi ≠ usizeMax ∧ (sourceFiles (fileIndicesOp nSchema nOps used))[fi]? = some p.file := by
  obtain ⟨i, h1, h2, h3⟩ := file_remap_in_range nSchema nOps used p.file hf hk hsmall
  simp only [fileIndexOf] at h
  rw [h1] at h
  cases h
  exact ⟨h2, h3⟩

/-- non-vacuity: 2 schema files, the document is file 4 and imports a fragment from file 2; a position in file 2 -/
example : fileIndexOf (some (fileIndicesOp 2 3 [2, 4])) 2 = some 2 ∧ keptFile 2 [2, 4] 2 :=
  ⟨by decide, Or.inr (by decide)⟩


/-- ANY sequence of trait calls `ops` (run after any prefix `pre` of writer operations, e.g. the CLI's
    `set_file_index_mapper`) that contains a `write_for text node` with a non-builtin position, a name and a one-line text
    leaves a NAMED SEGMENT for it in the final writer state: the entries (g₁, file, node position, name index) and
    (g₂, file, node position + utf16(name)) next to each other in the mapping log and in the decoded `mappings`, with the
    generated text between g₁ and g₂ equal to `text` and the names table holding the node's name. -/
theorem named_site_segment (pol : Policy) (hp : pol.Sound) (pre : List Op) (ops : List POp) (st0 st : WState)
    (hpre : run pol WState.init pre = some st0) (h : run pol st0 (ops.map POp.toOp) = some st)
    (t : String) (p : Pos) (n : String)
    (hmem : POp.writeFor t p (some n) ∈ ops) (hb : p.builtin = false) (hnl : '\n' ∉ t.toList) :
    NamedSegment st st0.mapper t p n := by
  obtain ⟨fi, idx, l, c, lpre, lsuf, bpre, bsuf, h1, h2, h3, h4, h5, h6⟩ :=
    site_segment pol hp pre ops st0 st hpre h t p n hmem hb hnl
  refine ⟨fi, idx, l, c, lpre, lsuf, bpre, bsuf, h1, h2, h3, h4, h5, h6, ?_⟩
  have hrun : run pol WState.init (pre ++ ops.map POp.toOp) = some st := run_append_of pol _ _ _ _ _ hpre h
  obtain ⟨hmono, _⟩ := writer_segments_inside pol _ st hrun
  have hdec := writer_mappings_decode pol _ st hrun
  refine ⟨st.mapping.log.map fun e => (e.genLine, segOf e), ?_, ?_⟩
  · rw [hdec]
    simp [groupByLine, flatten_groupFrom st.mapping.log 0 [] hmono]
  · rw [h2]
    refine ⟨lpre.map fun e => (e.genLine, segOf e), lsuf.map fun e => (e.genLine, segOf e), ?_⟩
    simp

/-- the cache policy the code uses satisfies the hypothesis -/
example : Policy.Sound lruPolicy := lruPolicy_sound

/-- The only call of a printer that can panic inside `SourceWriter` is the file-index lookup `map[original_pos.file]`:
    from any writer state, a call sequence runs to completion when there is no file mapper, or when every mapped call's
    file is inside the mapper (what `FileMap` guarantees for the files of a generated document, `file_remap_in_range`). -/
theorem printer_calls_do_not_panic (pol : Policy) (hp : pol.Sound) (ops : List POp) (st0 : WState)
    (hfiles : FilesInMapper st0.mapper ops) : ∃ st, run pol st0 (ops.map POp.toOp) = some st :=
  run_total pol hp ops st0 hfiles

/-- the hypothesis is met without a mapper, and e.g. by a one-file mapper for positions in file 0 -/
example : FilesInMapper none [POp.writeFor "a" ⟨3, 4, 7, false⟩ (some "a")] ∧
    FilesInMapper (some [0]) [POp.writeFor "a" ⟨3, 4, 0, false⟩ (some "a")] := by
  constructor
  · intro m hm; cases hm
  · intro m hm t q n hmem _
    cases hm
    simp only [List.mem_cons, List.not_mem_nil, or_false] at hmem
    cases hmem
    decide

/-- END TO END for the schema declaration file: when the schema type printer's calls are run through the writer (after
    any prefix, e.g. the file-index mapper of the CLI), every type definition's name in the generated text — the text
    `<Name>` or `__tmp_<Name>` written by the declaration header — has a named segment whose original position is the
    position of the definition's NAME token, whose name is the type's name, and which delimits exactly that text; and
    so has every field of every object type and every field of every input object type (original position = the field's
    name token). -/
theorem schema_names_have_segments (pol : Policy) (hp : pol.Sound) (pre : List Op) (st0 st : WState)
    (c : Cfg) (doc : TsDoc) (ops : List POp) (hops : schemaOps c doc = .ok ops)
    (hpre : run pol WState.init pre = some st0) (h : run pol st0 (ops.map POp.toOp) = some st) :
    (∀ td, .typeDef td ∈ doc → td.namePos.builtin = false → '\n' ∉ td.name.toList →
      NamedSegment st st0.mapper (localName (bag (scalarTypes c doc)) td.name) td.namePos td.name) ∧
    (∀ td, .typeDef td ∈ doc → td.kind = .object → ∀ f ∈ td.fields, isRawIdent f.name = true → f.pos.builtin = false →
      '\n' ∉ f.name.toList → NamedSegment st st0.mapper f.name f.pos f.name) ∧
    (∀ td, .typeDef td ∈ doc → td.kind = .input → ∀ f ∈ td.inputs, isRawIdent f.name = true → f.pos.builtin = false →
      '\n' ∉ f.name.toList → NamedSegment st st0.mapper f.name f.pos f.name) := by
  refine ⟨?_, ?_, ?_⟩
  · intro td htd hb hnl
    exact named_site_segment pol hp pre ops st0 st hpre h _ _ _
      ((schema_type_name_site c doc ops hops td htd).1 hb) hb (localName_noNl _ _ hnl)
  · intro td htd hk f hf hraw hb hnl
    exact named_site_segment pol hp pre ops st0 st hpre h _ _ _
      (schema_field_site c doc ops hops td htd hk f hf hraw hb) hb hnl
  · intro td htd hk f hf hraw hb hnl
    exact named_site_segment pol hp pre ops st0 st hpre h _ _ _
      (schema_input_field_site c doc ops hops td htd hk f hf hraw hb) hb hnl

/-- non-vacuity of the run hypotheses: without a file mapper the writer never panics on a printer's calls, so the
    premises hold for every document on which the printer succeeds (here: an input object with a field) -/
example : ∃ ops st,
    schemaOps {}
      [.typeDef { kind := .input, name := "I", namePos := ⟨0, 6, 0, false⟩, pos := ⟨0, 0, 0, false⟩,
                  inputs := [{ name := "x", pos := ⟨0, 10, 0, false⟩, ty := .named "I" ⟨0, 13, 0, false⟩ }] }] = .ok ops ∧
    run lruPolicy WState.init [] = some WState.init ∧
    run lruPolicy WState.init (ops.map POp.toOp) = some st := by
  obtain ⟨st, h⟩ := run_total lruPolicy lruPolicy_sound
    (match schemaOps {}
      [.typeDef { kind := .input, name := "I", namePos := ⟨0, 6, 0, false⟩, pos := ⟨0, 0, 0, false⟩,
                  inputs := [{ name := "x", pos := ⟨0, 10, 0, false⟩, ty := .named "I" ⟨0, 13, 0, false⟩ }] }] with
     | .ok ops => ops | .error _ => []) WState.init (by intro m hm; cases hm)
  exact ⟨_, st, rfl, rfl, h⟩

/-- END TO END for the resolvers declaration file (no plugins): every non-input type definition's name and every object
    field's name in the generated text has a named segment whose original position is its name token. -/
theorem resolver_names_have_segments (pol : Policy) (hp : pol.Sound) (pre : List Op) (st0 st : WState) (doc : TsDoc)
    (hpre : run pol WState.init pre = some st0) (h : run pol st0 ((resolverOps doc).map POp.toOp) = some st) :
    (∀ td, .typeDef td ∈ doc → td.kind ≠ .input → td.namePos.builtin = false → '\n' ∉ td.name.toList →
      NamedSegment st st0.mapper td.name td.namePos td.name) ∧
    (∀ td, .typeDef td ∈ doc → td.kind = .object → ∀ f ∈ td.fields, isRawIdent f.name = true → f.pos.builtin = false →
      '\n' ∉ f.name.toList → NamedSegment st st0.mapper f.name f.pos f.name) := by
  refine ⟨?_, ?_⟩
  · intro td htd hk hb hnl
    exact named_site_segment pol hp pre _ st0 st hpre h _ _ _ (resolver_type_name_site doc td htd hk hb) hb hnl
  · intro td htd hk f hf hraw hb hnl
    exact named_site_segment pol hp pre _ st0 st hpre h _ _ _ ((resolver_field_site doc td htd hk f hf).1 hraw hb) hb hnl

/-- END TO END for an operation declaration file. Let `full` be ANY sequence of trait calls whose projection onto the
    mapped calls is the modelled one (what K `sites:optype` establishes for the real printer). Then every named operation
    has three named segments — result type, variables type, document constant — whose original position is the
    operation's NAME token and whose name is the operation's name, each delimiting exactly the generated identifier; and
    every fragment has named segments for its type alias and its constant whose original position is the start of the
    fragment DEFINITION and whose name is the fragment's name. -/
theorem operation_names_have_segments (pol : Policy) (hp : pol.Sound) (pre : List Op) (st0 st : WState)
    (o : OpOpts) (doc : Doc) (sps : List Pos) (full : List POp) (hproj : mappedOps full = opTypeSites o doc sps)
    (hpre : run pol WState.init pre = some st0) (h : run pol st0 (full.map POp.toOp) = some st) :
    (∀ op n p, .op op ∈ doc → op.name = some (n, p) →
      '\n' ∉ (operationName o op ++ o.resultSuffix).toList → '\n' ∉ (operationName o op ++ o.variablesSuffix).toList →
      '\n' ∉ (operationVariableName o op).toList →
      NamedSegment st st0.mapper (operationName o op ++ o.resultSuffix) p n ∧
      NamedSegment st st0.mapper (operationName o op ++ o.variablesSuffix) p n ∧
      NamedSegment st st0.mapper (operationVariableName o op) p n) ∧
    (∀ f, .frag f ∈ doc → '\n' ∉ (f.name ++ o.fragmentTypeSuffix).toList → '\n' ∉ (f.name ++ o.fragmentVariableSuffix).toList →
      NamedSegment st st0.mapper (f.name ++ o.fragmentTypeSuffix) f.pos f.name ∧
      NamedSegment st st0.mapper (f.name ++ o.fragmentVariableSuffix) f.pos f.name) := by
  have lift : ∀ t p n, POp.writeFor t p (some n) ∈ opTypeSites o doc sps →
      POp.writeFor t p (some n) ∈ full ∧ p.builtin = false := by
    intro t p n hm
    rw [← hproj] at hm
    obtain ⟨h1, h2⟩ := mem_mappedOps.mp hm
    exact ⟨h1, by simpa [POp.mapped] using h2⟩
  constructor
  · intro op n p hop hn h1 h2 h3
    obtain ⟨m1, m2, m3⟩ := optype_operation_sites o doc sps op hop n p hn
    exact ⟨named_site_segment pol hp pre full st0 st hpre h _ _ _ (lift _ _ _ m1).1 (lift _ _ _ m1).2 h1,
      named_site_segment pol hp pre full st0 st hpre h _ _ _ (lift _ _ _ m2).1 (lift _ _ _ m2).2 h2,
      named_site_segment pol hp pre full st0 st hpre h _ _ _ (lift _ _ _ m3).1 (lift _ _ _ m3).2 h3⟩
  · intro f hf h1 h2
    obtain ⟨m1, m2, _⟩ := fragment_site_is_definition_start o doc sps f hf
    exact ⟨named_site_segment pol hp pre full st0 st hpre h _ _ _ (lift _ _ _ m1).1 (lift _ _ _ m1).2 h1,
      named_site_segment pol hp pre full st0 st hpre h _ _ _ (lift _ _ _ m2).1 (lift _ _ _ m2).2 h2⟩

/-- the projection hypothesis is satisfiable: the modelled list itself is such a sequence when its positions are real -/
example : mappedOps (opTypeSites {} [.op { kind := .query, name := some ("q", ⟨0, 6, 1, false⟩), sel := [], pos := ⟨0, 0, 1, false⟩ }]
      [⟨0, 8, 1, false⟩]) =
    opTypeSites {} [.op { kind := .query, name := some ("q", ⟨0, 6, 1, false⟩), sel := [], pos := ⟨0, 0, 1, false⟩ }]
      [⟨0, 8, 1, false⟩] := by decide

end NitroVerif.PrintMap
