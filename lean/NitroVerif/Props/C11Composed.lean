import NitroVerif.Props.C11
import NitroVerif.Props.C17Concrete
/-!
# C11 composed with the declaration printers (C10) and their order-independence (C17)

`C11_perm` says the resolved document of a permuted source is a permutation of the resolved document. Here this is
carried through the printers: the schema declaration file and the resolvers declaration file generated from a
multi-file schema do not depend on the order of the source items (extension before or after its definition, which
file holds what) beyond the order of blocks / union members / record fields (`DeclFileEquiv`, `ResolversFileEquiv` of
`Lemmas/DeterminismConcrete{Decls,Resolvers}.lean`). The MEANING of every alias is literally the same
(`C10_from_sources_perm`, `Props/C10Composed.lean`).
-/
namespace NitroVerif.ExtResolve
open NitroVerif.Gql NitroVerif.ExtMerge NitroVerif.Determinism

/-- A successfully resolved document has at most one `schema { … }` definition (two originals are a
    `DuplicateOriginal`; extensions are merged away). -/
theorem C11_one_schema_definition (doc out : TsDoc) (h : resolve doc = .ok out) :
    (Schema.mk out).schemaDefs.length ≤ 1 := by
  have hnd : (schemaDefs doc).length ≤ 1 := ((C11_ok_iff doc).mp ⟨out, h⟩).1.1
  have hp : ((Schema.mk out).schemaDefs).Perm (Schema.mk (directiveDefs doc ++ refMerge doc)).schemaDefs :=
    (C11_merge doc out h).filterMap _
  rw [hp.length_eq]
  have h1 : ∀ l : TsDoc, (Schema.mk (directiveDefs l)).schemaDefs = [] := by
    intro l
    unfold Schema.schemaDefs directiveDefs
    induction l with
    | nil => rfl
    | cons it r ih => cases it <;> simp only [List.filterMap_cons] <;> exact ih
  have h2 : ∀ l : TsDoc, ((Schema.mk (l.filterMap (refItem? doc))).schemaDefs).length = (schemaDefs l).length := by
    intro l
    unfold Schema.schemaDefs schemaDefs
    induction l with
    | nil => rfl
    | cons it r ih =>
      cases it <;> simp only [List.filterMap_cons, refItem?, List.length_cons] <;> simp only at ih <;> omega
  unfold Schema.schemaDefs at h1 h2 ⊢
  rw [List.filterMap_append, h1, List.nil_append]
  unfold refMerge
  exact Nat.le_trans (Nat.le_of_eq (h2 doc)) hnd

/-- **The generated declaration files do not depend on the order of the source items.** Let `doc'` be any permutation
    of the raw schema items `doc` (definitions AND extensions, moved inside or across files) that keeps, per kind and
    name, the relative order of the extensions. If `doc` resolves to a document with pairwise distinct type names,
    then `doc'` resolves too, and for every configuration: the schema declaration file printed for `doc'` exists iff
    the one for `doc` does and the two are the same file up to the order of the per-definition blocks, the order of
    the members of interface unions and the order of the metadata fields (`DeclFileEquiv`); the resolvers files are the
    same up to the order of aliases, record fields and union members (`ResolversFileEquiv`). -/
theorem C11_decls_perm_from_sources (c : DeclCfg.Cfg) (doc doc' out : TsDoc) (hp : doc'.Perm doc)
    (hk : KeepsExtOrder doc' doc) (h : resolve doc = .ok out) (nd : NoDupTypeNames out) :
    ∃ out', resolve doc' = .ok out' ∧
      (∀ f, SchemaDecls.schemaFile c out = .ok f →
        ∃ f', SchemaDecls.schemaFile c out' = .ok f' ∧ DeterminismDecls.DeclFileEquiv f f') ∧
      (∀ e, SchemaDecls.schemaFile c out = .error e → ∃ e', SchemaDecls.schemaFile c out' = .error e') ∧
      DeterminismResolvers.ResolversFileEquiv (ResolverDecls.resolversFile c out) (ResolverDecls.resolversFile c out') := by
  obtain ⟨out', h'⟩ := ((C11_perm doc doc' hp hk).1).mpr ⟨out, h⟩
  have hperm : out.Perm out' := ((C11_perm doc doc' hp hk).2 out out' h h').symm
  obtain ⟨h1, h2⟩ := C17_decls_perm c hperm nd (C11_one_schema_definition doc out h)
  exact ⟨out', h', h1, h2, C17_resolvers_perm c hperm⟩

/-- the hypotheses are satisfiable: `sampleOk` (an `extend scalar S @d` BEFORE `scalar S`, a directive definition, a
    second scalar in another file) and its reverse -/
example : ∃ out, resolve sampleOk = .ok out ∧ NoDupTypeNames out ∧ sampleOk.reverse.Perm sampleOk ∧
    KeepsExtOrder sampleOk.reverse sampleOk :=
  ⟨_, rfl, by unfold NoDupTypeNames; decide, List.reverse_perm _, rfl, fun k n => by
    simp only [sampleOk, List.reverse_cons, List.reverse_nil, List.nil_append, List.cons_append, typeExts,
      List.filterMap_cons, List.filterMap_nil]⟩

end NitroVerif.ExtResolve
