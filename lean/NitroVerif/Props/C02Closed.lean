/-
C02 — second stage: the ⊇ direction of the refinement theorem with its hypotheses discharged (see `Props/C01Closed.lean`
for `hyp_of_schemaFile`, `resultTree_ok`, `accepted_document_passes_checks`).

`C02_end_to_end` (one selection set) and `C02_pipeline_end_to_end` (a checked schema, an accepted document): every value
without repeated record keys that THE MODEL'S emitted Result type admits — read with THE MODEL'S emitted schema declaration
file — is a `RefLocal` response.  The fuel hypothesis `FuelOk` of the first stage is replaced by an explicit bound on the
fuel of the executable specification (`eszL`, the expanded size), and `refLocal_fuel_monotone` shows that this fuel is an
artefact: more of it never removes a response.  `fuelOk_not_tight_witness`: the bound is sufficient, not necessary — it
can exceed the fuel `docSize D + 8` the driver of the O stream uses.
-/
import NitroVerif.Props.C02
import NitroVerif.Props.C01Closed
namespace NitroVerif.Props.C02
open NitroVerif.Gql NitroVerif.Ts NitroVerif.OpTypes NitroVerif.Exec NitroVerif.DeclCfg NitroVerif.SchemaDecls
open NitroVerif.OpTypes.Closed NitroVerif.Stages NitroVerif.CheckOp NitroVerif.Props

open NitroVerif.OpTypes.Ref in
/-- **`C02_end_to_end`** (one selection set).  Whenever the printer model returns a tree `T` for the selection set `ss` at a
    root type, every value without repeated record keys that THE MODEL'S EMITTED RESULT TYPE `toTs ns T` admits — closed
    against the declaration table of the operation file linked with THE MODEL'S EMITTED SCHEMA DECLARATION FILE, read with
    the real `__SelectionSet` hook — is a response of `RefLocal` (spec execution with the Boolean variables re-chosen per
    selection set) on a possible object type of the root.  No hypothesis about the declaration file is left; the fuel of
    the executable specification must cover the expanded size of the selection set (`eszL`, explicit and computable). -/
theorem C02_end_to_end {cfg : Cfg} {c : Exec.Ctx} {F : File} (hF : schemaFile cfg c.S.items = .ok F)
    (ok : DocOK cfg c.S.items) (K : CfgOk cfg c) (main : File) (m ns : String)
    (hflat : main.all (fun s => !s.isNamespace) = true) (himp : starImports main = [(m, ns)])
    {mfuel fuel Dn : Nat} {root : Name} {p : Pos} {ss : List Selection} {T : SelTree}
    (h : implTree c.S c.F mfuel fuel (.nonNull (.named root p)) ss = .ok T) (hC : ∀ d, Coh c d (Sb1 ss) root)
    (hfit : ss.all (fits c.F Dn) = true) (hfuel : eszL c.F Dn ss ≤ c.fuel) {v : J} (hv : JWf v)
    (hm : Mem (SelSem.envOf main m F) v (globalise (Decls.ofFiles main [(m, F)]) [] [] (toTs ns T))) :
    ∃ o ∈ c.S.possibleTypes root, RefLocal c o ss v :=
  C02_admits_only_local_executions_emitted (Decls.ofFiles main [(m, F)]) ns
    (C01.hyp_of_schemaFile hF ok K main m ns hflat himp) (typeNamesNodup_of_docOK ok) h hC
    ((fuelOk_iff c Dn ss).2 ⟨hfit, hfuel⟩) hv hm

/-- **The fuel of the executable specification is an artefact**: a `RefLocal` response stays one when the specification
    is run with more fuel (CollectFields returns the same groups). -/
theorem refLocal_fuel_monotone {c : Exec.Ctx} {f : Nat} (hle : c.fuel ≤ f) {o : Name} {ss : List Selection} {v : J}
    (h : RefLocal c o ss v) : RefLocal (withFuel c f) o ss v :=
  refLocal_withFuel hle h

/-- non-vacuity: the witness response with fuel 16, then with fuel 1000 -/
example : RefLocal (withFuel OpTypes.W.ctx 1000) "Query" W.selA (.obj [("a", .obj [("x", .num)])]) :=
  refLocal_fuel_monotone (c := OpTypes.W.ctx) (by decide) ⟨3, refLocalMem_sound _ 3 _ _ _ (by decide +kernel)⟩

set_option maxRecDepth 16384 in
open NitroVerif.OpTypes.Ref in
/-- non-vacuity of `C02_end_to_end`: the witness `W` (schema, default configuration, THE MODEL'S schema declaration file,
    `{ a { x } a { y @skip(if: $v) } }`): the hypotheses by `decide` / `rfl`; the value `{ a: { x: 1 } }`, which the emitted
    type admits, is a `RefLocal` response -/
example : ∃ T, implTree Closed.W.ctx.S Closed.W.ctx.F 16 16 (.nonNull (.named "Query" {})) W.selA = .ok T ∧
    ∃ o ∈ Closed.W.ctx.S.possibleTypes "Query", RefLocal Closed.W.ctx o W.selA (.obj [("a", W.respX)]) := by
  refine ⟨_, rfl, ?_⟩
  refine C02_end_to_end Closed.W.file_ok Closed.W.docOK Closed.W.cfgOk Closed.W.main "" "Schema" Closed.W.main_flat
    Closed.W.main_imp (mfuel := 16) (fuel := 16) (Dn := 4) (root := "Query") (p := {}) (ss := W.selA) rfl
    (C01.coherence_check_sufficient Closed.W.ctx 4 4 W.selA "Query" (by decide) (by decide))
    (by decide) (by decide) (by simp [JWf, JWfFields, W.respX]) ?_
  exact C01.C01_end_to_end Closed.W.file_ok Closed.W.docOK Closed.W.cfgOk Closed.W.main "" "Schema" Closed.W.main_flat
    Closed.W.main_imp (mfuel := 16) (fuel := 16) (root := "Query") (p := {}) (ss := W.selA) rfl
    (C01.coherence_check_sufficient Closed.W.ctx 4 4 W.selA "Query" (by decide) (by decide))
    (σ := sigmaOf [("v", true)]) (o := "Query") (by decide) ⟨3, C01.execMem_sound _ _ 3 _ _ _ (by decide +kernel)⟩

open NitroVerif.OpTypes.Ref in
/-- **`C02_pipeline_end_to_end`.** For every schema `S` with `schemaOkB` / `ifaceOkB` / `skipIncludeB`, configuration with
    C10's `DocOK` and `CfgOk`, every document that passes the operation check and satisfies FieldsInSetCanMerge
    (`noKeyClashB`), with wrappers not absurdly deep: for every definition, the model's printer — run with its own fuels —
    returns a tree `T`, and every value without repeated record keys that the declared type `toTs ns T` admits (read with
    the model's operation file linked with the model's schema declaration file) is a `RefLocal` response of the
    definition's selection set on a possible object type of its root — for EVERY fuel `f` of the executable specification
    that covers the expanded size of the selection set. -/
theorem C02_pipeline_end_to_end {cfg : Cfg} {S : Schema} {D : Doc} {F : File} (scalar : Name → J → Bool)
    (hS : schemaOkB S = true) (hI : ifaceOkB S = true) (hSI : skipIncludeB S = true)
    (hF : schemaFile cfg S.items = .ok F) (ok : DocOK cfg S.items) (K : CfgOk cfg (specCtx S D scalar 0))
    (h : checkOp S D = []) {Dc d : Nat} (hK : noKeyClashB S D Dc d = true)
    {Dn : Nat} (hfit : fitsDocB D Dn = true) (hG : (Dn + 1) * (fieldDepthBound S + 1) ≤ docSize D + 64)
    (o : Opts) (m : String) {x : ExecDef} (hx : x ∈ D) (hni : ∀ i, x ≠ .imp i) :
    ∃ T, resultTree S D x = some (.ok T) ∧
      ∀ (f : Nat), eszL (OpTypes.fragsOf D) Dn (selOfDef x) ≤ f → ∀ (v : J), JWf v →
        Mem (SelSem.envOf (opFileOf o m S D) m F) v
          (globalise (Decls.ofFiles (opFileOf o m S D) [(m, F)]) [] [] (toTs o.ns T)) →
        ∃ o' ∈ S.possibleTypes (rootNameOf S x), RefLocal (specCtx S D scalar f) o' (selOfDef x) v := by
  obtain ⟨T, hr, _, _⟩ := C01.C01_pipeline_end_to_end scalar 0 hS hI hSI hF ok K h hK hfit hG o m hx hni
  refine ⟨T, hr, ?_⟩
  intro f hf v hv hm
  obtain ⟨p, himpl⟩ := resultTree_implTree hr
  have hcoh := List.all_eq_true.1 hK x hx
  simp only [cohDefB, Bool.and_eq_true, List.all_eq_true] at hcoh
  have hC : ∀ d', Coh (specCtx S D scalar f) d' (Sb1 (selOfDef x)) (rootNameOf S x) :=
    coh_of_cohB (specCtx S D scalar f) Dc d (selOfDef x) (rootNameOf S x) hcoh.1 hcoh.2
  have Kf : CfgOk cfg (specCtx S D scalar f) := ⟨K.scalars, K.plain, K.notNull, K.inhabited⟩
  have hfits : (selOfDef x).all (fits (OpTypes.fragsOf D) Dn) = true := by
    rw [List.all_eq_true]
    intro s hs
    exact fitsS_fits Dn s (fitsDoc_of_check hfit x hx s (by rw [selOf_eq]; exact hs))
  exact C02_end_to_end (c := specCtx S D scalar f) hF ok Kf (opFileOf o m S D) m o.ns (opFileOf_flat o m S D)
    (opFileOf_imports o m S D) himpl hC hfits hf hv hm

open NitroVerif.OpTypes.Ref in
/-- **`fuelOk_driver_partial`** — `FuelOk` for the fuel the driver of the O stream gives the specification
    (`docSize D + 8`, Driver/C01.lean `specCtx`).  FULL STATEMENT (for every accepted document, no side condition): FALSE
    of the sufficient predicate `FuelOk` — `fuelOk_not_tight_witness` below.  Under the decidable side condition that the
    expanded size of the definition's selection set is within that fuel, it holds. -/
theorem fuelOk_driver_partial {S : Schema} {D : Doc} (scalar : Name → J → Bool) {Dn : Nat} (hfit : fitsDocB D Dn = true)
    {x : ExecDef} (hx : x ∈ D) (hsz : eszL (OpTypes.fragsOf D) Dn (selOfDef x) ≤ docSize D + 8) :
    FuelOk (specCtx S D scalar (docSize D + 8)) Dn (selOfDef x) :=
  ⟨fun s hs => fitsS_fits Dn s (fitsDoc_of_check hfit x hx s (by rw [selOf_eq]; exact hs)), hsz⟩

open NitroVerif.OpTypes.Ref in
/-- the side condition holds on the witness document (expanded size 6, fuel 14) -/
example : fitsDocB C01.wDoc 4 = true ∧ C01.wOp ∈ C01.wDoc ∧
    eszL (OpTypes.fragsOf C01.wDoc) 4 (selOfDef C01.wOp) ≤ docSize C01.wDoc + 8 :=
  ⟨by decide +kernel, List.mem_cons_self, by decide +kernel⟩

/-- `query Q { a { ...F }  b: a { ...F }  c: a { ...F }  d: a { ...F } }  fragment F on A { x  y  x1: x  y1: y }` -/
def spreadDoc : Doc := [
  .op { kind := .query, name := some ("Q", {}),
        sel := [.field none "a" {} [] [] (some [.spread "F" {} [] {}]),
                .field (some ("b", {})) "a" {} [] [] (some [.spread "F" {} [] {}]),
                .field (some ("c", {})) "a" {} [] [] (some [.spread "F" {} [] {}]),
                .field (some ("d", {})) "a" {} [] [] (some [.spread "F" {} [] {}])] },
  .frag { name := "F", cond := "A",
          sel := [.field none "x" {} [] [] none, .field none "y" {} [] [] none,
                  .field (some ("x1", {})) "x" {} [] [] none, .field (some ("y1", {})) "y" {} [] [] none] }]

open NitroVerif.OpTypes.Ref in
/-- **The fuel bound of `C02_pipeline_end_to_end` is sufficient, not tight.** `FuelOk` asks for the EXPANDED size of the
    selection set (the body of a fragment counted once per spread, sub-selections included), because it has to hold again
    for every merged sub-selection.  On a document that spreads one fragment four times the expanded size (24) exceeds the
    fuel `docSize D + 8 = 22` the driver of the O stream runs the specification with — so `FuelOk` is FALSE for the
    driver's context — although CollectFields itself succeeds there (it visits 4 selections).  The document passes every
    check of the pipeline theorem.  That `docSize D + 8` always suffices for `RefLocal` is not proved. -/
theorem fuelOk_not_tight_witness :
    checkOp Closed.W.S spreadDoc = [] ∧ noKeyClashB Closed.W.S spreadDoc 4 4 = true ∧ fitsDocB spreadDoc 4 = true ∧
    docSize spreadDoc + 8 = 22 ∧
    eszL (OpTypes.fragsOf spreadDoc) 4 (selOfDef spreadDoc.head!) = 24 ∧
    ¬ FuelOk (specCtx Closed.W.S spreadDoc (fun _ _ => true) (docSize spreadDoc + 8)) 4 (selOfDef spreadDoc.head!) ∧
    (collectFields (specCtx Closed.W.S spreadDoc (fun _ _ => true) (docSize spreadDoc + 8)) (sigmaOf []) "Query"
      (selOfDef spreadDoc.head!)).isSome = true := by
  refine ⟨by decide +kernel, by decide +kernel, by decide +kernel, by decide +kernel, by decide +kernel, ?_,
    by decide +kernel⟩
  rw [fuelOk_iff]
  decide +kernel

/-
OPEN — carried by K/O only: see the block at the end of `Props/C01Closed.lean`; for C02 in addition
  * the fuel of the executable specification: `C02_pipeline_end_to_end` holds for every fuel ≥ the expanded size `eszL`
    (which can be exponential in the size of the document); that the driver's `docSize D + 8` always suffices for
    `RefLocal` is not proved (`fuelOk_not_tight_witness` shows the sufficient condition `FuelOk` can fail there).  The O
    stream's sanity check (`execMem` on a sample of the enumerated values) would report a specification that rejects
    its own responses;
  * the value hypothesis `JWf` (`repeated_key_counterexample`).
-/

end NitroVerif.Props.C02
