import NitroVerif.Props.C16Tokens
import NitroVerif.Lemmas.GqlPrintLexFinal
/-!
# C16 (continued) — print ∘ parse = id at the CHARACTER level

Property theorems only. Specification added: `Spec/GqlLexer.lean` — the lexical grammar of GraphQL (§2.1: Ignored,
Punctuator, Name, IntValue / FloatValue with their lookahead restrictions, StringValue in context, comments).

11. `lex_written_text`       — for ANY printer-token sequence whose tokens are lexically what they claim and are each
                               followed by a character that ends them, lexing the text `JustWriter` writes (with its
                               indentation) gives exactly the lexical tokens the printer tokens stand for.
12. `printer_lexable_*`      — a walk over all printing functions: the printer only produces such sequences, whatever
                               the document is.
13. `C16_roundtrip_text_*`   — parse (lex (text (print A))) = A for executable and type-system documents.
14. `server_module_roundtrip_text` — all layers: cook the template literal of the `serverGraphqlOutput` module, lex, parse.
-/
namespace NitroVerif.C16
open NitroVerif.Gql NitroVerif.GqlPrint NitroVerif.GqlTokens NitroVerif.GqlString NitroVerif.JsTemplate NitroVerif.Cook
open NitroVerif.GqlLexer

/-! ## 11. lexing the written text -/

/-- For EVERY sequence of printer tokens in which punctuator tokens are punctuators and layout tokens are `Ignored`
    characters, every name / number / string token is followed by a character that ends it (`LexableK`), names are
    GraphQL Names and numbers GraphQL numbers (`dataOK`), and strings satisfy the side condition of `print_string`
    (`tokStrOK`): the character-level lexer of the specification, run on the text `JustWriter` writes for the sequence
    (indentation and continuation lines of block strings included), finds exactly the lexical tokens the printer
    tokens stand for. -/
theorem lex_written_text (ts : List Tok) (hl : LexableK none ts = true) (hd : ∀ t ∈ ts, dataOK t = true)
    (hs : ∀ t ∈ ts, tokStrOK t = true) : lexDocument (text ts) = some (ts.flatMap lex) :=
  lexDocument_text ts hl hd hs

example : LexableK none [.name "type", sp, .name "Q", sp, .p "{", nl, .ind, .str "d\ne", nl, .name "f", .p ":", sp,
      .name "Int", nl, .ded, .p "}", nl] = true ∧
    (∀ t ∈ [Tok.name "type", sp, .name "Q", sp, .p "{", nl, .ind, .str "d\ne", nl, .name "f", .p ":", sp,
      .name "Int", nl, .ded, .p "}", nl], dataOK t = true ∧ tokStrOK t = true) := by decide

/-- `LexableK` is necessary: two names without layout between them are one name for the lexer. -/
theorem lex_written_text_counterexample :
    lexDocument (text [.name "type", .name "Q"]) = some [.name "typeQ"] := by decide

/-! ## 12. the printer only produces lexable sequences -/

/-- For EVERY type-system document (no hypothesis): in what `TypeSystemDocument::print_graphql` writes, every
    punctuator and layout token is lexically valid and every name, number and string token is followed by a blank, a
    line feed, a comma or a punctuator. -/
theorem printer_lexable_ts (d : TsDoc) : LexableK none (printTsDoc d) = true := lx_tsDoc d none

/-- the same for `TypeSystemOrExtensionDocument::print_graphql` -/
theorem printer_lexable_tsext (d : TsDoc) : LexableK none (printTsExtDoc d) = true := lx_tsExtDoc d none

/-- the same for EVERY executable document without `#import` lines -/
theorem printer_lexable_doc (d : Doc) (h : noImports d = true) : LexableK none (printDoc d) = true := lx_doc d h none

/-- Valid names and numbers are also safe chunks for the template writer: the hypothesis of the template layer
    (`printer_chunks_safe_ts`, `server_template_cooks`) follows from "names are GraphQL Names, numbers are numbers". -/
theorem names_chunk_safe (ts : List Tok) (h : lexemesOK (ts.flatMap lex) = true) : ∀ t ∈ ts, t.nameOK = true :=
  fun t ht => nameOK_of_dataOK t (dataOK_of_lexemesOK ts h t ht)

example : lexemesOK ((printTsDoc sampleTs).flatMap lex) = true := by decide

/-! ## 13. parse ∘ lex ∘ print = id on texts -/

/-- For EVERY type-system document the grammar can produce, in which no union is without members, every string
    satisfies the side condition of `print_string`, and every name / number is a GraphQL Name / number (`lexemesOK`
    of the canonical token stream): lexing the printed TEXT with the specification's character-level lexer and parsing
    the tokens with the specification's parser gives the document back (positions erased). -/
theorem C16_roundtrip_text_ts (d : TsDoc) (hwf : wfTsDoc d = true) (hu : d.all itemUnionOK = true)
    (hs : strsOK (tsDocToks d) = true) (hn : lexemesOK (tsDocToks d) = true) :
    (lexDocument (text (printTsDoc d))).bind parseTsDocument = some (eraseTsDoc d) := by
  have htoks := toks_tsDoc d hu
  rw [lex_written_text _ (printer_lexable_ts d) (dataOK_of_lexemesOK _ (by rw [htoks]; exact hn))
    (tokStrOK_of_strsOK _ (by rw [htoks]; exact hs)), htoks]
  exact parse_tsDocument d hwf

/-- the same for `TypeSystemOrExtensionDocument::print_graphql` -/
theorem C16_roundtrip_text_tsext (d : TsDoc) (hwf : wfTsDoc d = true) (hu : d.all itemUnionOK = true)
    (hs : strsOK (tsDocToks d) = true) (hn : lexemesOK (tsDocToks d) = true) :
    (lexDocument (text (printTsExtDoc d))).bind parseTsDocument = some (eraseTsDoc d) := by
  have htoks := toks_tsExtDoc d hu
  rw [lex_written_text _ (printer_lexable_tsext d) (dataOK_of_lexemesOK _ (by rw [htoks]; exact hn))
    (tokStrOK_of_strsOK _ (by rw [htoks]; exact hs)), htoks]
  exact parse_tsDocument d hwf

example : wfTsDoc sampleTs = true ∧ sampleTs.all itemUnionOK = true ∧ strsOK (tsDocToks sampleTs) = true ∧
    lexemesOK (tsDocToks sampleTs) = true := by decide

/-- For EVERY executable document of operations and fragments the grammar can produce, with exact strings and valid
    names / numbers. -/
theorem C16_roundtrip_text_exec (d : Doc) (hwf : wfDoc d = true) (hs : strsOK (docToks d) = true)
    (hn : lexemesOK (docToks d) = true) :
    (lexDocument (text (printDoc d))).bind parseExecDocument = some (eraseDoc d) := by
  have hni : noImports d = true := by
    simp only [noImports, List.all_eq_true]
    intro x hx
    have := List.all_eq_true.mp hwf x hx
    cases x <;> simp_all [wfExecDef]
  have htoks := toks_doc d hni
  rw [lex_written_text _ (printer_lexable_doc d hni) (dataOK_of_lexemesOK _ (by rw [htoks]; exact hn))
    (tokStrOK_of_strsOK _ (by rw [htoks]; exact hs)), htoks]
  exact parse_execDocument d hwf

example : wfDoc sampleDoc = true ∧ strsOK (docToks sampleDoc) = true ∧ lexemesOK (docToks sampleDoc) = true := by decide

/-- `lexemesOK` is necessary: a type "named" `A B` is printed as two names, and a "number" `1x` is not a number. -/
theorem C16_roundtrip_text_counterexample :
    lexDocument (text (printTsDoc [.typeDef { kind := .scalar, name := "A B" }])) =
      some [.name "scalar", .name "A", .name "B"] ∧
    lexDocument (text (printValue (.int "1x" {}))) = none := by
  refine ⟨by decide, by decide⟩

/-- Printing is injective on such documents: two type-system documents with the same printed text are equal up to
    positions (nothing of the document is lost or blurred by the printer). -/
theorem print_text_injective_ts (d1 d2 : TsDoc)
    (hwf1 : wfTsDoc d1 = true) (hu1 : d1.all itemUnionOK = true) (hs1 : strsOK (tsDocToks d1) = true)
    (hn1 : lexemesOK (tsDocToks d1) = true)
    (hwf2 : wfTsDoc d2 = true) (hu2 : d2.all itemUnionOK = true) (hs2 : strsOK (tsDocToks d2) = true)
    (hn2 : lexemesOK (tsDocToks d2) = true)
    (e : text (printTsDoc d1) = text (printTsDoc d2)) : eraseTsDoc d1 = eraseTsDoc d2 := by
  have h1 := C16_roundtrip_text_ts d1 hwf1 hu1 hs1 hn1
  have h2 := C16_roundtrip_text_ts d2 hwf2 hu2 hs2 hn2
  rw [e, h2] at h1
  exact (Option.some.inj h1).symm

/-- the same for executable documents -/
theorem print_text_injective_exec (d1 d2 : Doc)
    (hwf1 : wfDoc d1 = true) (hs1 : strsOK (docToks d1) = true) (hn1 : lexemesOK (docToks d1) = true)
    (hwf2 : wfDoc d2 = true) (hs2 : strsOK (docToks d2) = true) (hn2 : lexemesOK (docToks d2) = true)
    (e : text (printDoc d1) = text (printDoc d2)) : eraseDoc d1 = eraseDoc d2 := by
  have h1 := C16_roundtrip_text_exec d1 hwf1 hs1 hn1
  have h2 := C16_roundtrip_text_exec d2 hwf2 hs2 hn2
  rw [e, h2] at h1
  exact (Option.some.inj h1).symm

/-! ## 14. all layers -/

/-- All layers together, for the `serverGraphqlOutput` module of EVERY checked document `d` that applies the two
    nitrogql-only directives where the checker allows, and whose stripped form `d' = serverDoc d …` is derivable from the
    grammar, has no member-less union, only strings for which `print_string` is exact, and only GraphQL Names / numbers:
    (1) the module text is the wrapper around the template literal of the printed `d'`;
    (2) evaluating the template literal (ECMAScript cooking) succeeds, and lexing its value with the GraphQL lexer
        and parsing the tokens with the GraphQL grammar gives `d'` — the checked schema without the stripped
        directives, positions erased. -/
theorem server_module_roundtrip_text (d : TsDoc) (modelPlugin : Bool) (h1 : OnlyOnScalars nitroName d)
    (h2 : modelPlugin = true → OnlyOnObjects modelName (Strip.stripDirective nitroName d))
    (hwf : wfTsDoc (serverDoc d modelPlugin) = true) (hu : (serverDoc d modelPlugin).all itemUnionOK = true)
    (hs : strsOK (tsDocToks (serverDoc d modelPlugin)) = true)
    (hn : lexemesOK (tsDocToks (serverDoc d modelPlugin)) = true) :
    serverGraphqlOutput d modelPlugin = serverModule (ops (printTsDoc (serverDoc d modelPlugin))) ∧
    ∃ v, cook ('\n' :: runOps true {} (ops (printTsDoc (serverDoc d modelPlugin)))) = some v ∧
      (lexDocument v).bind parseTsDocument = some (eraseTsDoc (serverDoc d modelPlugin)) := by
  have hnames : ∀ t ∈ printTsDoc (serverDoc d modelPlugin), t.nameOK = true :=
    names_chunk_safe _ (by rw [toks_tsDoc _ hu]; exact hn)
  obtain ⟨hmod, hcook, _⟩ := server_module_roundtrip_tokens d modelPlugin h1 h2 hnames hwf hu hs
  refine ⟨hmod, _, hcook, ?_⟩
  have h := C16_roundtrip_text_ts _ hwf hu hs hn
  have hskip : lexDocument ('\n' :: text (printTsDoc (serverDoc d modelPlugin))) =
      lexDocument (text (printTsDoc (serverDoc d modelPlugin))) := by
    simp [lexDocument, lexText, isIgnored]
  rw [hskip]
  exact h

example : wfTsDoc (serverDoc sampleChecked true) = true ∧ (serverDoc sampleChecked true).all itemUnionOK = true ∧
    strsOK (tsDocToks (serverDoc sampleChecked true)) = true ∧
    lexemesOK (tsDocToks (serverDoc sampleChecked true)) = true := by decide

/-
CONTINUED in `Props/C16Own.lean`: the composition over nitrogql's OWN parser (C07's PEG model) instead of the
specification's lexer and parser — `C16_roundtrip_own_parser_exec` / `_ts` / `_tsext`, `server_module_roundtrip_own`.

OPEN — carried by K/O only (never claimed as proved)
  * over the specification's lexer and parser (this file): the documents outside the hypotheses `wfDoc` / `wfTsDoc`,
    `itemUnionOK` (member-less union), `strsOK` (double quote in the quoted form; block-printed string with
    `BlockStringValue s ≠ s` — the open string findings) and `lexemesOK`; that a checked schema satisfies `OnlyOnScalars` /
    `OnlyOnObjects` (hypotheses of `server_module_roundtrip_text`);
  * over the model of nitrogql's own parser: the documents outside the side conditions of `Props/C16Own.lean` (block strings
    — the round trip is FALSE there for an indented description, `C16_roundtrip_own_parser_block_counterexample` —, `\u{…}`
    escapes, a double quote, a member-less union extension, …: see the OPEN block of `Props/C16.lean`);
  * the `#import` lines of executable documents (comments for GraphQL, read by nitrogql's own import syntax).
-/

end NitroVerif.C16
