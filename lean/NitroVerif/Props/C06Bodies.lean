import NitroVerif.Props.C06Sites
import NitroVerif.Lemmas.PrintMapBodyExports
import NitroVerif.Lemmas.PrintMapBodyIndent
/-!
# C06 — the bodies of the operation printers: the WHOLE call sequence

Property theorems only. Model: `opTypeOps` / `opJsOps` of `NitroVerif/Model/PrintMap.lean` — EVERY call
`print_types_for_operation_document` / `print_js_for_operation_document` make on the `SourceMapWriter` trait, in order: the
import lines, per operation the Result type (the selection-set type of `generate_selection_tree_type`, printed by
`print_type`), the Variables type, the document constant (with the runtime JSON in standalone mode) and the default export,
per fragment its type and constant. Tied to the code by the K streams `sites:optype:calls` / `sites:opjs:calls` of
`harness/src/bin/c06/sites.rs` (recording writer; call-by-call comparison, a panic of the printer = an error of the model).

What is proved, for ALL option values, schemas and documents:
* the two stages of the model agree — the projection of the whole sequence onto the mapped calls is the wave-3 list
  (`optype_full_projection`, `opjs_full_projection`);
* what the printer does inside a selection-set type or a Variables type: every `write_for` there (one per object key) passes a
  node built from the key text itself — `Pos::builtin()`, name = the key — so `SourceWriter` treats it as `write`: NO field key
  is mapped to the selected field's name / alias token (`selection_type_calls_unmapped`, `variables_type_calls_unmapped`,
  kernel-checked witness `selection_key_not_mapped_counterexample`);
* four models, one file — the concatenated text of the call sequence is the text of the statements C14's model
  (`Exports.printDocument` / `Exports.dts`) says the file has, each carrying the content the other models give it: the Result
  and fragment types of C01 (`OpTypes.toTs`), the Variables type of C09 (`VarTypes.varsTsL`), the runtime document of C12
  (`DocJson.toJson` of `FragClosure.runtimeDefs`) (`opfile_text_is_model`, `opfile_text_is_model_config`,
  `opjs_text_is_model`); the printer-level types are the C01 / C09 types up to the print→parse normal form, which does not
  change the text (`selection_type_is_c01_model`, `variables_type_is_c09_model`, `normal_form_keeps_text`,
  `result_type_is_declared_by_opDecls`);
* `operation_names_have_segments_full`, `opjs_names_have_segments` — the end-to-end clause of `Props/C06Sites.lean` as a
  statement about the full model: no hypothesis about an unknown call sequence is left.

* the generated FILE — run through the `SourceWriter` model, the buffer is that text up to the spaces at the beginning of
  lines, i.e. up to the indentation the writer inserts (`writer_buffer_is_call_text` for ANY call sequence,
  `opfile_buffer_is_model`, `opjs_buffer_is_model`).

OPEN — carried by K/O only: the exact amount of indentation on each line (two spaces per open object type: K compares the
`indent` / `dedent` calls one by one and the `ops` stream the writer's buffer; no theorem states the column); plugins of the
resolver printer; that AST positions are token starts (C07 / the end-to-end O; violated after astral characters, open known
finding `e2e:original-column-counts-code-points`); the selection-set positions `sps` are an input of the model; the layout
functions `layoutTy` / `RStmt.text` / `opHeaderText` that give "the text of the C01/C09/C12/C14 models" are definitions of this
property (`Lemmas/PrintMapBody*`), tied to the code chunk by chunk by K `sites:optype:calls` / `sites:opjs:calls`. See also the
OPEN blocks of `Props/C06.lean` and `Props/C06Sites.lean`.
-/
namespace NitroVerif.PrintMap
open NitroVerif.Gql NitroVerif.DeclCfg NitroVerif.SourceMap
open NitroVerif.Ts (Ty)

/-! ## the two stages of the model agree -/

/-- Whenever the operation type printer returns: of ALL its calls, the ones `SourceWriter` maps (a `write_for` with a
    non-builtin position) are exactly the mapped calls of the wave-3 list `opTypeSites`, in order — per operation the result
    type name, ` = ` (selection set), the variables type name, the constant's name, `: ` (selection set); per fragment its type
    name, constant name and type name again (once more with values). Nothing inside a selection-set type, a Variables type, a
    runtime document or an export statement is mapped. -/
theorem optype_full_projection (fo : FullOpts) (S : Schema) (D : Doc) (docFile : Nat) (sps : List Pos) (ops : List POp)
    (h : opTypeOps fo S D docFile sps = .ok ops) : mappedOps ops = mappedOps (opTypeSites fo.names D sps) :=
  opTypeOps_mapped h

/-- the same for the JavaScript module printer -/
theorem opjs_full_projection (fo : FullOpts) (D : Doc) (docFile : Nat) (ops : List POp)
    (h : opJsOps fo D docFile = .ok ops) : mappedOps ops = mappedOps (opJsSites fo.names D) :=
  opJsOps_mapped h

/-- Nothing is invented anywhere in the declaration file: EVERY `write_for` of the whole sequence whose position is not built
    in passes a node of the document — the name token of a named operation (with its name), the definition of an anonymous
    operation, the definition of a fragment (with the fragment's name) or an operation's selection set. -/
theorem optype_full_calls_not_invented (fo : FullOpts) (S : Schema) (D : Doc) (docFile : Nat) (sps : List Pos)
    (ops : List POp) (h : opTypeOps fo S D docFile sps = .ok ops) (t : String) (p : Pos) (n : Option String)
    (hmem : .writeFor t p n ∈ ops) (hb : p.builtin = false) : ExecNode D sps p n := by
  have hm : POp.writeFor t p n ∈ mappedOps ops := mem_mappedOps.mpr ⟨hmem, by simp [POp.mapped, hb]⟩
  rw [opTypeOps_mapped h] at hm
  obtain ⟨t', p', n', e, hn⟩ := opTypeSites_nodes fo.names D sps _ (mem_mappedOps.mp hm).1
  cases e
  exact hn

/-- The writer does not panic on the type printer's calls when the file-index mapper covers the files of the document's
    nodes (what `FileMap` guarantees, `file_remap_in_range`), or when there is no mapper: the whole sequence runs. -/
theorem optype_full_calls_run (pol : Policy) (hp : pol.Sound) (fo : FullOpts) (S : Schema) (D : Doc) (docFile : Nat)
    (sps : List Pos) (ops : List POp) (h : opTypeOps fo S D docFile sps = .ok ops) (st0 : WState)
    (hfiles : ∀ m, st0.mapper = some m → ∀ p n, ExecNode D sps p n → p.builtin = false → p.file < m.length) :
    ∃ st, run pol st0 (ops.map POp.toOp) = some st := by
  refine run_total pol hp ops st0 ?_
  intro m hm t q n hmem hb
  exact hfiles m hm q n (optype_full_calls_not_invented fo S D docFile sps ops h t q n hmem hb) hb

/-- the hypothesis holds without a mapper -/
example (D : Doc) (sps : List Pos) : ∀ m, WState.init.mapper = some m → ∀ p n, ExecNode D sps p n → p.builtin = false →
    p.file < m.length := by
  intro m hm; cases hm

/-- a schema, an operation `query q { x: a }` (name at 0:6, selection set at 0:8, alias at 0:10, field name at 0:13) -/
def exSchema : Schema :=
  ⟨[.typeDef { kind := .object, name := "Query", fields := [{ name := "a", ty := .named "Int" {} }] }]⟩
def exOp : OperationDef :=
  { kind := .query, name := some ("q", ⟨0, 6, 1, false⟩), pos := ⟨0, 0, 1, false⟩,
    sel := [.field (some ("x", ⟨0, 10, 1, false⟩)) "a" ⟨0, 13, 1, false⟩ [] [] none] }

/-- non-vacuity: the printer returns on this document (default options and standalone mode) -/
example : (∃ ops, opTypeOps {} exSchema [.op exOp] 1 [⟨0, 8, 1, false⟩] = .ok ops) ∧
    (∃ ops, opTypeOps { names := { printValues := true } } exSchema [.op exOp] 1 [⟨0, 8, 1, false⟩] = .ok ops) ∧
    (∃ ops, opJsOps {} [.op exOp] 1 = .ok ops) :=
  ⟨⟨_, rfl⟩, ⟨_, rfl⟩, ⟨_, rfl⟩⟩

/-! ## what the printer maps inside a type -/

/-- Inside the TypeScript type of ANY selection tree (`generate_selection_tree_type`, every namespace, nullable or not)
    every call of `print_type` is a plain `write`, `indent`, `dedent`, or a `write_for(key, ObjectKey)` whose node was built from
    the key text: position `Pos::builtin()`, name = the written text. `SourceWriter::write_for` treats such a call as `write`:
    the keys of `__SelectionSet` objects are NOT mapped to the selected fields. -/
theorem selection_type_calls_unmapped (ns : String) (T : OpTypes.SelTree) (nn : Bool) :
    (∀ t p n, POp.writeFor t p n ∈ printTy (treeTy ns T nn) → p = bi ∧ n = some t) ∧
    mappedOps (printTy (treeTy ns T nn)) = [] := by
  constructor
  · intro t p n hmem
    have := List.all_eq_true.mp (simple_calls _ (simple_treeTy ns T nn)) _ hmem
    simpa [POp.unmappedCall] using this
  · exact mappedOps_simple _ (simple_treeTy ns T nn)

/-- The same inside the Variables type (`get_type_for_variable_definitions`): the property keys are built from the variable
    names as strings; no call carries the position of a variable definition. -/
theorem variables_type_calls_unmapped (ns : String) (oi : Bool) (vars : List VarDef) :
    (∀ t p n, POp.writeFor t p n ∈ printTy (varsTy ns oi vars) → p = bi ∧ n = some t) ∧
    mappedOps (printTy (varsTy ns oi vars)) = [] := by
  constructor
  · intro t p n hmem
    have := List.all_eq_true.mp (simple_calls _ (simple_varsTy ns oi vars)) _ hmem
    simpa [POp.unmappedCall] using this
  · exact mappedOps_simple _ (simple_varsTy ns oi vars)

/-- FALSE of the code: "the key of a selected field in the Result type is mapped to the field's name / alias token".
    Witness `query q { x: a }` against `type Query { a: Int }` (alias `x` at 0:10, field name `a` at 0:13): the printer
    returns; the key is written by `write_for("x", node)` with `node.position() = Pos::builtin()`; the mapped calls are the five
    header calls of the operation, and no call carries 0:10 or 0:13. -/
theorem selection_key_not_mapped_counterexample :
    ∃ ops, opTypeOps {} exSchema [.op exOp] 1 [⟨0, 8, 1, false⟩] = .ok ops ∧
      POp.writeFor "x" bi (some "x") ∈ ops ∧
      mappedOps ops = opTypeSites {} [.op exOp] [⟨0, 8, 1, false⟩] ∧
      (∀ t n, POp.writeFor t ⟨0, 10, 1, false⟩ n ∉ ops) ∧ (∀ t n, POp.writeFor t ⟨0, 13, 1, false⟩ n ∉ ops) := by
  have hm : mappedOps (match opTypeOps {} exSchema [.op exOp] 1 [⟨0, 8, 1, false⟩] with | .ok ops => ops | .error _ => [])
      = opTypeSites {} [.op exOp] [⟨0, 8, 1, false⟩] := by decide +kernel
  refine ⟨_, rfl, by decide +kernel, hm, ?_, ?_⟩
  · intro t n hmem
    have h2 : POp.writeFor t ⟨0, 10, 1, false⟩ n ∈ mappedOps
        (match opTypeOps {} exSchema [.op exOp] 1 [⟨0, 8, 1, false⟩] with | .ok ops => ops | .error _ => []) :=
      mem_mappedOps.mpr ⟨hmem, rfl⟩
    rw [hm] at h2
    simp [opTypeSites, opTypeOperationSites, namePosOf, exOp] at h2
  · intro t n hmem
    have h2 : POp.writeFor t ⟨0, 13, 1, false⟩ n ∈ mappedOps
        (match opTypeOps {} exSchema [.op exOp] 1 [⟨0, 8, 1, false⟩] with | .ok ops => ops | .error _ => []) :=
      mem_mappedOps.mpr ⟨hmem, rfl⟩
    rw [hm] at h2
    simp [opTypeSites, opTypeOperationSites, namePosOf, exOp] at h2

/-! ## four models, one file -/

/-- The selection-set type the printer builds for a tree (`treeTy`, positions dropped by `erase`) IS the type of the C01 model:
    its print→parse normal form (`norm`: a union inside a union is spliced, as the text reads) equals `OpTypes.toTs`. -/
theorem selection_type_is_c01_model (ns : String) (T : OpTypes.SelTree) :
    norm (erase (treeTy ns T false)) = OpTypes.toTs ns T :=
  norm_erase_toTs ns T

/-- The Variables type the printer builds IS the type of the C09 model (`VarTypes.varsTsL` over `NS.__OperationInput.<name>`;
    with the default namespace: `VarTypes.varsTs`). -/
theorem variables_type_is_c09_model (ns : String) (oi : Bool) (vars : List VarDef) (c : Cfg) :
    norm (erase (varsTy ns oi vars)) = VarTypes.varsTsL (inRef ns) oi vars ∧
    norm (erase (varsTy VarTypes.schemaNs c.optionalInput vars)) = VarTypes.varsTs c vars :=
  ⟨norm_erase_varsTy ns oi vars, norm_erase_varsTy_default c vars⟩

/-- The normal form is only a different reading of the same text: `layoutTy (norm t) = layoutTy t` for every syntax tree, and
    for a type built from strings the concatenated text of `print_type`'s calls is that layout. -/
theorem normal_form_keeps_text :
    (∀ t : Ty, layoutTy (norm t) = layoutTy t) ∧
    (∀ t : TSTy, t.simple = true → rawText (printTy t) = layoutTy (norm (erase t))) :=
  ⟨layout_norm, rawText_printTy_norm⟩

/-- non-vacuity of `simple`: the types of the printer are of this kind -/
example (ns : String) (T : OpTypes.SelTree) (vars : List VarDef) :
    (treeTy ns T false).simple = true ∧ (varsTy ns true vars).simple = true :=
  ⟨simple_treeTy ns T false, simple_varsTy ns true vars⟩

/-- The type the declaration file gives a definition's Result / fragment type (`resultModelTy`) is the one C01's `opDecls`
    declares for it: for every definition of the document whose selection tree exists there is a declaration of `opDecls`
    carrying exactly that type. -/
theorem result_type_is_declared_by_opDecls (S : Schema) (o : OpTypes.Opts) (D : Doc) (x : ExecDef) (hx : x ∈ D)
    (T : OpTypes.SelTree) (h : OpTypes.resultTree S D x = some (.ok T)) :
    resultModelTy o.ns S D x = OpTypes.toTs o.ns T ∧ ∃ d ∈ OpTypes.opDecls S o D, d.ty = .ok (resultModelTy o.ns S D x) := by
  have e : resultModelTy o.ns S D x = OpTypes.toTs o.ns T := by simp [resultModelTy, h]
  refine ⟨e, ?_⟩
  rw [e]
  simp only [OpTypes.opDecls, List.mem_filterMap]
  cases x with
  | op op => exact ⟨_, ⟨.op op, hx, by simp only [h]; rfl⟩, rfl⟩
  | frag f => exact ⟨_, ⟨.frag f, hx, by simp only [h]; rfl⟩, rfl⟩
  | imp i => simp [OpTypes.resultTree] at h

/-- non-vacuity: the operation of the example has a selection tree -/
example : ∃ T, OpTypes.resultTree exSchema [.op exOp] (.op exOp) = some (.ok T) := ⟨_, rfl⟩

/-- THE OPERATION DECLARATION FILE. Whenever the type printer returns, with `stmts` = the statements of
    `typeStmts` (per operation: Result type = C01's `toTs` of its selection tree, Variables type = C09's `varsTsL`, constant
    `: TypedDocumentNode<R, V>` with C12's runtime document as value in standalone mode, default export; per fragment: type and
    constant):
    * the concatenated text of ALL calls of the printer is the two import lines followed by the text of these statements;
    * forgetting the contents, the statements are C14's module `Exports.printDocument` with the type visitor (names, `export` /
      `declare` keywords, which constant holds which definition, default export), for all option values.
    So the call-sequence model (C06), the export model (C14), the type models (C01, C09) and the runtime-document model (C12)
    describe one and the same file. -/
theorem opfile_text_is_model (fo : FullOpts) (S : Schema) (D : Doc) (docFile : Nat) (sps : List Pos) (ops : List POp)
    (h : opTypeOps fo S D docFile sps = .ok ops) :
    rawText ops = opHeaderText fo ++ stmtsText (typeStmts fo S D docFile (operationCount D) 0 D) ∧
    (typeStmts fo S D docFile (operationCount D) 0 D).map RStmt.skel
      = Exports.printDocument (baseOptions fo) (Exports.typeVisitor (typeOptions fo)) (exportsFile docFile D) :=
  ⟨opTypeOps_text h, typeStmts_skel fo S D docFile⟩

/-- The same with the options computed from a configuration (`from_config`): the statements are C14's `Exports.dts`. -/
theorem opfile_text_is_model_config (c : Exports.Config) (schemaSource : String) (optionalInput : Bool) (S : Schema) (D : Doc)
    (docFile : Nat) (sps : List Pos) (ops : List POp)
    (h : opTypeOps (FullOpts.ofConfig c schemaSource optionalInput) S D docFile sps = .ok ops) :
    rawText ops = opHeaderText (FullOpts.ofConfig c schemaSource optionalInput)
      ++ stmtsText (typeStmts (FullOpts.ofConfig c schemaSource optionalInput) S D docFile (operationCount D) 0 D) ∧
    (typeStmts (FullOpts.ofConfig c schemaSource optionalInput) S D docFile (operationCount D) 0 D).map RStmt.skel
      = Exports.dts c (exportsFile docFile D) :=
  ⟨opTypeOps_text h, typeStmts_skel_dts c schemaSource optionalInput S D docFile⟩

/-- non-vacuity: the default configuration on the example document -/
example : ∃ ops, opTypeOps (FullOpts.ofConfig (Exports.Config.parse {}) "./schema" true) exSchema [.op exOp] 1
    [⟨0, 8, 1, false⟩] = .ok ops := ⟨_, rfl⟩

/-- THE JAVASCRIPT MODULE: the concatenated text of all calls of the JavaScript printer is the text of the statements
    `[export ]const <name> = <runtime document>;` (+ the default export), and these statements are C14's module with the
    JavaScript visitor (`Exports.js` for the options of a configuration). -/
theorem opjs_text_is_model (fo : FullOpts) (D : Doc) (docFile : Nat) (ops : List POp) (h : opJsOps fo D docFile = .ok ops) :
    rawText ops = stmtsText (jsStmts fo D docFile (operationCount D) 0 D) ∧
    (jsStmts fo D docFile (operationCount D) 0 D).map RStmt.skel
      = Exports.printDocument (baseOptions fo) Exports.jsVisitor (exportsFile docFile D) ∧
    (∀ (c : Exports.Config) (ss : String) (oi : Bool), fo = FullOpts.ofConfig c ss oi →
      (jsStmts fo D docFile (operationCount D) 0 D).map RStmt.skel = Exports.js c (exportsFile docFile D)) := by
  refine ⟨opJsOps_text h, jsStmts_skel fo D docFile, ?_⟩
  intro c ss oi e
  subst e
  exact jsStmts_skel_js c ss oi D docFile

/-! ## the generated file -/

/-- For ANY sequence of trait calls, run on a `SourceWriter` whose buffer is still empty (a fresh writer, or one that only got
    its file-index mapper): the buffer at the end is the concatenated text of the calls, up to the spaces at the beginning of
    lines (`stripLead`) — the writer adds indentation at line starts and nothing else, and drops nothing. -/
theorem writer_buffer_is_call_text (pol : Policy) (ops : List POp) (st0 st : WState) (hb : st0.buf = [])
    (hp : st0.pending = false) (h : run pol st0 (ops.map POp.toOp) = some st) :
    stripLead true st.buf = stripLead true (rawText ops).toList :=
  run_buffer_text pol ops st0 st hb hp h

/-- the hypotheses hold for the initial writer state and after `set_file_index_mapper` -/
example : WState.init.buf = [] ∧ WState.init.pending = false ∧
    ∃ st0, run lruPolicy WState.init [.setMapper [0, 1]] = some st0 ∧ st0.buf = [] ∧ st0.pending = false :=
  ⟨rfl, rfl, _, rfl, rfl, rfl⟩

/-- THE GENERATED DECLARATION FILE: the buffer `SourceWriter` holds after the type printer ran is, up to indentation, the
    header followed by the statements of the C14 / C01 / C09 / C12 models (`opfile_text_is_model`). -/
theorem opfile_buffer_is_model (pol : Policy) (st0 st : WState) (fo : FullOpts) (S : Schema) (D : Doc) (docFile : Nat)
    (sps : List Pos) (ops : List POp) (hops : opTypeOps fo S D docFile sps = .ok ops)
    (hb : st0.buf = []) (hp : st0.pending = false) (h : run pol st0 (ops.map POp.toOp) = some st) :
    stripLead true st.buf
      = stripLead true (opHeaderText fo ++ stmtsText (typeStmts fo S D docFile (operationCount D) 0 D)).toList := by
  rw [run_buffer_text pol ops st0 st hb hp h, opTypeOps_text hops]

/-- THE GENERATED JAVASCRIPT MODULE: the same for the JavaScript printer. -/
theorem opjs_buffer_is_model (pol : Policy) (st0 st : WState) (fo : FullOpts) (D : Doc) (docFile : Nat)
    (ops : List POp) (hops : opJsOps fo D docFile = .ok ops)
    (hb : st0.buf = []) (hp : st0.pending = false) (h : run pol st0 (ops.map POp.toOp) = some st) :
    stripLead true st.buf = stripLead true (stmtsText (jsStmts fo D docFile (operationCount D) 0 D)).toList := by
  rw [run_buffer_text pol ops st0 st hb hp h, opJsOps_text hops]

/-! ## end to end, about the full model -/

/-- END TO END for an operation declaration file, as a statement about the FULL model: when ALL calls of the type printer are
    run through the writer (after any prefix, e.g. the CLI's file-index mapper), every named operation whose name token has a
    real position has three named segments — result type, variables type, document constant — whose original position is the
    operation's NAME token and whose name is the operation's name, each delimiting exactly the generated identifier; and every
    fragment (own or imported) has named segments for its type alias and its constant whose original position is the start of
    the fragment DEFINITION and whose name is the fragment's name. No hypothesis about an unknown call sequence is left. -/
theorem operation_names_have_segments_full (pol : Policy) (hp : pol.Sound) (pre : List Op) (st0 st : WState)
    (fo : FullOpts) (S : Schema) (D : Doc) (docFile : Nat) (sps : List Pos) (ops : List POp)
    (hops : opTypeOps fo S D docFile sps = .ok ops)
    (hpre : run pol WState.init pre = some st0) (h : run pol st0 (ops.map POp.toOp) = some st) :
    (∀ op n p, .op op ∈ D → op.name = some (n, p) → p.builtin = false →
      '\n' ∉ (operationName fo.names op ++ fo.names.resultSuffix).toList →
      '\n' ∉ (operationName fo.names op ++ fo.names.variablesSuffix).toList →
      '\n' ∉ (operationVariableName fo.names op).toList →
      NamedSegment st st0.mapper (operationName fo.names op ++ fo.names.resultSuffix) p n ∧
      NamedSegment st st0.mapper (operationName fo.names op ++ fo.names.variablesSuffix) p n ∧
      NamedSegment st st0.mapper (operationVariableName fo.names op) p n) ∧
    (∀ f, .frag f ∈ D → f.pos.builtin = false →
      '\n' ∉ (f.name ++ fo.names.fragmentTypeSuffix).toList → '\n' ∉ (f.name ++ fo.names.fragmentVariableSuffix).toList →
      NamedSegment st st0.mapper (f.name ++ fo.names.fragmentTypeSuffix) f.pos f.name ∧
      NamedSegment st st0.mapper (f.name ++ fo.names.fragmentVariableSuffix) f.pos f.name) := by
  constructor
  · intro op n p hop hn hb h1 h2 h3
    obtain ⟨m1, m2, m3⟩ := opTypeOps_operation hops op hop
    have e : namePosOf op = (p, some n) := by simp [namePosOf, hn]
    rw [e] at m1 m2 m3
    exact ⟨named_site_segment pol hp pre ops st0 st hpre h _ _ _ m1 hb h1,
      named_site_segment pol hp pre ops st0 st hpre h _ _ _ m2 hb h2,
      named_site_segment pol hp pre ops st0 st hpre h _ _ _ m3 hb h3⟩
  · intro f hf hb h1 h2
    obtain ⟨m1, m2⟩ := opTypeOps_fragment hops f hf
    exact ⟨named_site_segment pol hp pre ops st0 st hpre h _ _ _ m1 hb h1,
      named_site_segment pol hp pre ops st0 st hpre h _ _ _ m2 hb h2⟩

/-- non-vacuity of the hypotheses: the printer returns on the example, and without a file mapper the writer runs every call
    sequence to completion -/
example : ∃ ops st, opTypeOps {} exSchema [.op exOp] 1 [⟨0, 8, 1, false⟩] = .ok ops ∧
    run lruPolicy WState.init [] = some WState.init ∧ run lruPolicy WState.init (ops.map POp.toOp) = some st ∧
    exOp.name = some ("q", ⟨0, 6, 1, false⟩) := by
  obtain ⟨st, h⟩ := run_total lruPolicy lruPolicy_sound
    (match opTypeOps {} exSchema [.op exOp] 1 [⟨0, 8, 1, false⟩] with | .ok ops => ops | .error _ => [])
    WState.init (by intro m hm; cases hm)
  exact ⟨_, st, rfl, rfl, h, rfl⟩

/-- END TO END for the JavaScript module (the `.js` the loaders / standalone mode emit next to a map): every named operation's
    constant has a named segment whose original position is the operation's NAME token, and every fragment's constant one whose
    original position is the start of the fragment definition. -/
theorem opjs_names_have_segments (pol : Policy) (hp : pol.Sound) (pre : List Op) (st0 st : WState)
    (fo : FullOpts) (D : Doc) (docFile : Nat) (ops : List POp) (hops : opJsOps fo D docFile = .ok ops)
    (hpre : run pol WState.init pre = some st0) (h : run pol st0 (ops.map POp.toOp) = some st) :
    (∀ op n p, .op op ∈ D → op.name = some (n, p) → p.builtin = false →
      '\n' ∉ (operationVariableName fo.names op).toList →
      NamedSegment st st0.mapper (operationVariableName fo.names op) p n) ∧
    (∀ f, .frag f ∈ D → f.pos.builtin = false → '\n' ∉ (f.name ++ fo.names.fragmentVariableSuffix).toList →
      NamedSegment st st0.mapper (f.name ++ fo.names.fragmentVariableSuffix) f.pos f.name) := by
  obtain ⟨k1, k2⟩ := opJsDefsOps_members fo D docFile _ D ops hops
  constructor
  · intro op n p hop hn hb h1
    have m := k1 op hop
    have e : namePosOf op = (p, some n) := by simp [namePosOf, hn]
    rw [e] at m
    exact named_site_segment pol hp pre ops st0 st hpre h _ _ _ m hb h1
  · intro f hf hb h1
    exact named_site_segment pol hp pre ops st0 st hpre h _ _ _ (k2 f hf) hb h1

end NitroVerif.PrintMap
