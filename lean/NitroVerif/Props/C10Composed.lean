/-
C10 ∘ C11 — the declaration files, END TO END FROM THE SOURCE SCHEMA FILES.

`Props/C10Closed.lean` proves, for an already RESOLVED document, that every alias of the generated schema declaration
file denotes exactly `Ref`. `Props/C11.lean` proves that the extension resolver produces the reference merge. Here the
two are composed: the statements start from the list of SOURCE items (definitions and extensions of all kinds, in any
order, from any number of files — a multi-file schema is the concatenation of its files, `Pos.file` rides along) on
which the resolver model `ExtResolve.resolve` succeeds, and speak about the files the printer models emit for the
resolver's output `R`:

* every type DEFINED in the sources has its aliases, and they denote `Ref` over the specification-level merge
  `ExtMerge.refMerge src` (original ++ the components of its extensions in document order — no registries, no sorting);
  kind by kind the merged components are spelled out (`mergedFields`, `mergedValues`, `mergedMembers`, `mergedInputs`,
  `mergedImplements`, `mergedDirs` of `Lemmas/DeclsComposed.lean`);
* nothing is invented: every alias of the file stems from a source definition;
* the order of the source items is immaterial for the meaning of every alias, for permutations that keep the relative
  order of the extensions of each kind and name (`C10_from_sources_perm`, hypothesis `KeepsExtOrder`);
* the resolvers file has one resolver per field of every object type of the MERGED schema.

Side condition, as in `Props/C10Closed.lean`: `DocOK c R` (checked schema + the configuration conditions on scalar
texts) — a HYPOTHESIS here; which part of it the schema check discharges is `Props/C10ComposedChecked.lean`. Further
hypotheses: `kindFits` (in-namespace forms), `ResolversOK` (resolver `Args` / `Result`), arguments of defined scalar / enum /
input-object type (`C10_resolver_args_from_sources`), distinct type names (`C10_sources_print_ok_iff`), a `schema {…}`
definition among the sources (`C10_sources_schema_metadata`). OPEN — carried by K/O only: see the end of `Props/C10.lean`.
Proofs: `Lemmas/DeclsComposed.lean`, `Lemmas/DeclsComposedPerm.lean`.
-/
import NitroVerif.Props.C10Closed
import NitroVerif.Lemmas.DeclsComposedPerm
import NitroVerif.Lemmas.DeclsComposedPrint
namespace NitroVerif.Props.C10
open NitroVerif.Gql NitroVerif.Ts NitroVerif.DeclCfg NitroVerif.SchemaDecls NitroVerif.RefTypes
open NitroVerif.ExtMerge NitroVerif.ExtResolve NitroVerif.DeclsComposed

section sources
variable (c : Cfg) (src R : TsDoc) (F : File) (hres : resolve src = .ok R) (hF : schemaFile c R = .ok F)
  (ok : DocOK c R)

/-! ### the types of the resolved schema are the merged source definitions — nothing lost, nothing invented -/

include hres in
/-- NOTHING LOST, NOTHING INVENTED (types). The type definitions of the resolved document are exactly the type
    definitions of the sources, each merged with its same-kind same-name extensions (`refType`: the original's
    components followed by those of the extensions in document order): every source definition has its merged form in
    `R`, every definition of `R` is the merged form of a source definition, and there are as many as in the sources. -/
theorem C10_sources_types :
    (∀ td, TsItem.typeDef td ∈ src → refType src td ∈ typeDefsOf R) ∧
    (∀ td' ∈ typeDefsOf R, ∃ td, TsItem.typeDef td ∈ src ∧ td' = refType src td) ∧
    (typeDefsOf R).length = (typeDefsOf src).length := by
  refine ⟨fun td hm => refType_mem_resolved hres hm, fun td' h => (mem_typeDefsOf_resolved hres).mp h, ?_⟩
  rw [(typeDefsOf_resolved hres).length_eq, List.length_map]

include hres hF in
/-- NOTHING INVENTED (aliases). Every `type` statement of the schema declaration file emitted for the resolved
    document binds one of the three prelude names or the LOCAL name of a type DEFINED in the sources (an extension
    never creates an alias of its own). -/
theorem C10_sources_no_invented_alias (n : String) (hn : n ∈ Stmt.typeNamesList F) :
    n ∈ ["__nitrogql_schema", "__Beautify", "__SelectionSet"] ∨
      ∃ td, TsItem.typeDef td ∈ src ∧ n = localName (bag (scalarTypes c R)) td.name := by
  rcases schemaFile_names c R F hF n hn with h | ⟨td', hm, rfl⟩
  · exact Or.inl h
  · obtain ⟨td, htd, rfl⟩ := (mem_typeDefsOf_resolved hres).mp hm
    exact Or.inr ⟨td, htd, rfl⟩

include hres ok in
/-- the lookup the printers and `Ref` perform for a source-defined name returns the MERGED definition -/
theorem C10_sources_lookup (td : TypeDef) (hm : TsItem.typeDef td ∈ src) :
    (Schema.mk R).typeDef? td.name = some (refType src td) ∧
    (Schema.mk (refMerge src)).typeDef? td.name = some (refType src td) := by
  refine ⟨typeDef?_resolved hres ok.distinct hm, ?_⟩
  rw [typeDef?_perm (typeDefsOf_resolved_refMerge hres) ok.distinct]
  exact typeDef?_resolved hres ok.distinct hm

/-! ### every alias denotes `Ref` over the merged schema -/

include hres hF ok in
/-- **C10 FROM THE SOURCES.** Let `src` be any list of source items — definitions and extensions of all kinds, in any
    order, from any files — on which the extension resolver succeeds with `R`, and `F` the schema declaration file
    emitted for `R`. For every type `T` DEFINED in the sources and every target `t` whose direction fits `T`'s kind,
    the reference to `T` inside the namespace of `t` denotes EXACTLY `Ref_t(T)` taken over the specification-level
    merge `refMerge src`: each definition followed by the components of its extensions in document order
    (`ExtMerge.refMerge`, C11's reference — independent of the resolver's registries, passes and sorting). -/
theorem C10_from_sources (t : Target) (td : TypeDef) (hm : TsItem.typeDef td ∈ src)
    (hfit : kindFits td.kind t = true) (v : J) :
    Mem (Env.ofFile F) v (globalise (Decls.ofFile F) [t.name] [] ((Ctx.new c R t).leaf td.name))
      ↔ Ref c ⟨refMerge src⟩ t td.name v := by
  rw [Ref_resolved_eq c hres ok.distinct t]
  exact C10_alias_exact_closed c R F hF ok t (refType src td) (refType_mem_resolved hres hm) hfit v

include hres hF ok in
/-- the same through the qualified route `<namespace>.T` from the top level of the file (`T` = the schema name) -/
theorem C10_from_sources_qualified (t : Target) (td : TypeDef) (hm : TsItem.typeDef td ∈ src)
    (hfit : kindFits td.kind t = true) (v : J) :
    Mem (Env.ofFile F) v (globalise (Decls.ofFile F) [] [] (.qref [t.name, td.name]))
      ↔ Ref c ⟨refMerge src⟩ t td.name v := by
  rw [Ref_resolved_eq c hres ok.distinct t]
  exact C10_alias_exact_qualified c R F hF ok t (refType src td) (refType_mem_resolved hres hm) hfit v

include hres hF ok in
/-- the same for the file linked as a module `A` into a flat file, standard helper `Omit` interpreted — the form the O
    stream queries (`M.<ns>.T`) -/
theorem C10_from_sources_module (main : File) (m A : String) (hflat : main.all (fun s => !s.isNamespace) = true)
    (himp : starImports main = [(m, A)])
    (hno : ∀ p ∈ scalarTypes c R, ∀ t ∈ Target.all, (c.parseOf (p.2.getType t)).noOmit = true)
    (t : Target) (td : TypeDef) (hm : TsItem.typeDef td ∈ src) (hfit : kindFits td.kind t = true) (v : J) :
    Mem (Env.ofFiles main [(m, F)]).withStd v
        (globalise (Decls.ofFiles main [(m, F)]) [] [] (.qref [A, t.name, td.name]))
      ↔ Ref c ⟨refMerge src⟩ t td.name v := by
  rw [Ref_resolved_eq c hres ok.distinct t]
  exact C10_alias_exact_module_std c R F hF ok main m A hflat himp hno t (refType src td)
    (refType_mem_resolved hres hm) hfit v

include hres hF ok in
/-- the same for the top-level representative of `T` (bound under `T`'s local name): `Ref` for `__ResolverInput` if `T`
    is an input object, for `__OperationOutput` otherwise -/
theorem C10_from_sources_toplevel (td : TypeDef) (hm : TsItem.typeDef td ∈ src) (v : J) :
    Mem (Env.ofFile F) v (globalise (Decls.ofFile F) [] [] (.ref (localName (bag (scalarTypes c R)) td.name)))
      ↔ Ref c ⟨refMerge src⟩ (repTarget td) td.name v := by
  rw [Ref_resolved_eq c hres ok.distinct]
  exact C10_alias_exact_toplevel c R F hF ok (refType src td) (refType_mem_resolved hres hm) v

/-! ### when the file exists, and its first statement -/

include hres in
/-- **WHEN THE PRINTER SUCCEEDS, from the sources.** The schema declaration file exists (the printer's only failure is
    `ScalarTypeNotProvided`) iff every scalar DEFINED in the sources has a TypeScript type: a configuration entry or
    built-in mapping for its name, or a complete `@nitrogql_ts_type` directive on `scalar T` or on one of its
    `extend scalar T` items. -/
theorem C10_sources_print_ok_iff (hd : ((typeDefsOf R).map (·.name)).Nodup) :
    (∃ F, schemaFile c R = .ok F) ↔
      ∀ td, TsItem.typeDef td ∈ src → td.kind = .scalar →
        ((c.optionScalar? td.name).orElse
          (fun _ => directiveScalar? { td with dirs := mergedDirs src td })).isSome = true := by
  rw [schemaFile_ok_iff]
  constructor
  · intro h td htd hk
    have := h (refType src td) (refType_mem_resolved hres htd) hk
    rwa [show (refType src td).name = td.name from rfl, scalarType?_resolved c hres hd htd hk] at this
  · intro h td' htd' hk
    obtain ⟨td, htd, rfl⟩ := (mem_typeDefsOf_resolved hres).mp htd'
    rw [show (refType src td).name = td.name from rfl, scalarType?_resolved c hres hd htd hk]
    exact h td htd hk

include hres hF in
/-- **`extend schema`.** If the sources have a `schema {…}` definition, the first statement of the file is the metadata
    alias `__nitrogql_schema` listing the root operation types of the definition FOLLOWED BY those of every
    `extend schema {…}`, in document order. -/
theorem C10_sources_schema_metadata (s : SchemaDef) (hs : TsItem.schemaDef s ∈ src) :
    F.head? = some (.type true "__nitrogql_schema" []
      (.obj ((s.roots ++ (schemaExts src).flatMap (·.roots)).map fun (k, n, _) => (k.asStr, false, false, .ref n)))) := by
  rw [schemaFile_head hF, schemaMetadata_resolved hres hs]

/-! ### kind by kind, the merged components spelled out -/

include hres hF ok in
/-- OBJECT TYPES. The alias of an object type of the sources admits exactly the records with `__typename` = its name
    and one conforming value for EVERY field of `type T {…}` AND of every `extend type T {…}` (document order), no
    other key, none omitted. -/
theorem C10_from_sources_object (t : Target) (td : TypeDef) (hm : TsItem.typeDef td ∈ src) (hk : td.kind = .object)
    (ht : t.isOutput = true) (v : J) :
    Mem (Env.ofFile F) v (globalise (Decls.ofFile F) [t.name] [] ((Ctx.new c R t).leaf td.name)) ↔
      ∃ kvs, v = .obj kvs ∧
        RecordSpec (("__typename", false, fun x => x = .str td.name)
          :: (mergedFields src td).map fun f => (f.name, false, Conf (Ref c ⟨refMerge src⟩ t) f.ty)) kvs := by
  have h := C10_alias_exact_object_closed c R F hF ok t (refType src td) (refType_mem_resolved hres hm) hk ht v
  rw [refType_fields src td (Or.inl hk)] at h
  rw [Ref_resolved_eq c hres ok.distinct t]
  exact h

include hres hF ok in
/-- INPUT OBJECTS. Exactly the records with a conforming value for every input field of `input T {…}` and of every
    `extend input T {…}`, a field being omissible iff it is nullable and `allowUndefinedAsOptionalInput` is on. -/
theorem C10_from_sources_input (t : Target) (td : TypeDef) (hm : TsItem.typeDef td ∈ src) (hk : td.kind = .input)
    (ht : t.isInput = true) (v : J) :
    Mem (Env.ofFile F) v (globalise (Decls.ofFile F) [t.name] [] ((Ctx.new c R t).leaf td.name)) ↔
      ∃ kvs, v = .obj kvs ∧
        RecordSpec ((mergedInputs src td).map fun f =>
          (f.name, c.optionalInput && !f.ty.isNonNull, Conf (Ref c ⟨refMerge src⟩ t) f.ty)) kvs := by
  have h := C10_alias_exact_input_closed c R F hF ok t (refType src td) (refType_mem_resolved hres hm) hk ht v
  rw [refType_inputs src td hk] at h
  rw [Ref_resolved_eq c hres ok.distinct t]
  exact h

include hres hF ok in
/-- ENUMS. Exactly the string literals of the values of `enum T {…}` and of every `extend enum T {…}`. -/
theorem C10_from_sources_enum (t : Target) (td : TypeDef) (hm : TsItem.typeDef td ∈ src) (hk : td.kind = .enum)
    (v : J) :
    Mem (Env.ofFile F) v (globalise (Decls.ofFile F) [t.name] [] ((Ctx.new c R t).leaf td.name)) ↔
      ∃ x ∈ mergedValues src td, v = .str x.name := by
  have h := C10_alias_exact_closed c R F hF ok t (refType src td) (refType_mem_resolved hres hm)
    (by simp [refType_kind, hk, kindFits]) v
  rw [show (refType src td).name = td.name from rfl,
    Ref_enum c ⟨R⟩ t (typeDef?_resolved hres ok.distinct hm) hk, refType_values src td hk] at h
  exact h

include hres hF ok in
/-- UNIONS. Exactly the union of `Ref` over the members of `union T = …` and of every `extend union T = …`. -/
theorem C10_from_sources_union (t : Target) (td : TypeDef) (hm : TsItem.typeDef td ∈ src) (hk : td.kind = .union)
    (ht : t.isOutput = true) (v : J) :
    Mem (Env.ofFile F) v (globalise (Decls.ofFile F) [t.name] [] ((Ctx.new c R t).leaf td.name)) ↔
      ∃ m ∈ mergedMembers src td, Ref c ⟨refMerge src⟩ t m.1 v := by
  have h := C10_alias_exact_members_closed c R F hF ok t (refType src td) (refType_mem_resolved hres hm)
    (Or.inr hk) ht v
  rw [show (refType src td).name = td.name from rfl, possibleTypes_union_resolved hres ok.distinct hm hk] at h
  rw [Ref_resolved_eq c hres ok.distinct t, h]
  simp only [List.mem_map]
  constructor
  · rintro ⟨o, ⟨m, hmm, rfl⟩, hr⟩; exact ⟨m, hmm, hr⟩
  · rintro ⟨m, hmm, hr⟩; exact ⟨m.1, ⟨m, hmm, rfl⟩, hr⟩

include hres hF ok in
/-- INTERFACES. Exactly the union of `Ref` over the object types `O` of the sources that implement the interface —
    through the `implements` of `type O …` itself OR of an `extend type O implements …`. -/
theorem C10_from_sources_interface (t : Target) (td : TypeDef) (hm : TsItem.typeDef td ∈ src)
    (hk : td.kind = .interface) (ht : t.isOutput = true) (v : J) :
    Mem (Env.ofFile F) v (globalise (Decls.ofFile F) [t.name] [] ((Ctx.new c R t).leaf td.name)) ↔
      ∃ od, TsItem.typeDef od ∈ src ∧ od.kind = .object ∧ (∃ i ∈ mergedImplements src od, i.1 = td.name) ∧
        Ref c ⟨refMerge src⟩ t od.name v := by
  have h := C10_alias_exact_members_closed c R F hF ok t (refType src td) (refType_mem_resolved hres hm)
    (Or.inl hk) ht v
  rw [show (refType src td).name = td.name from rfl, possibleTypes_interface_resolved hres ok.distinct hm hk] at h
  rw [Ref_resolved_eq c hres ok.distinct t, h]
  constructor
  · rintro ⟨o, ho, hr⟩
    obtain ⟨od, hod, hko, rfl, hi⟩ := (mem_objectImplementers_resolved hres td.name o).mp ho
    exact ⟨od, hod, hko, hi, hr⟩
  · rintro ⟨od, hod, hko, hi, hr⟩
    exact ⟨od.name, (mem_objectImplementers_resolved hres td.name od.name).mpr ⟨od, hod, hko, rfl, hi⟩, hr⟩

include hres hF ok in
/-- SCALARS. Exactly the values of the TypeScript text configured for the target, read globally; the text is the
    configuration entry (or built-in mapping) of the scalar's name and, failing that, the `@nitrogql_ts_type`
    directive found among the directives of `scalar T` FOLLOWED BY those of every `extend scalar T`. -/
theorem C10_from_sources_scalar (t : Target) (td : TypeDef) (hm : TsItem.typeDef td ∈ src) (hk : td.kind = .scalar)
    (v : J) :
    Mem (Env.ofFile F) v (globalise (Decls.ofFile F) [t.name] [] ((Ctx.new c R t).leaf td.name)) ↔
      ∃ sc, (c.optionScalar? td.name).orElse (fun _ => directiveScalar? { td with dirs := mergedDirs src td }) = some sc ∧
        Mem Env.empty v (c.parseOf (sc.getType t)) := by
  have h := C10_alias_exact_scalar_closed c R F hF ok t (refType src td) (refType_mem_resolved hres hm) hk v
  rw [show (refType src td).name = td.name from rfl, scalarType?_resolved c hres ok.distinct hm hk] at h
  exact h

/-! ### the order of the source items is immaterial -/

include hres hF ok in
/-- **ORDER INDEPENDENCE (meaning).** Let `src'` be any permutation of the source items that keeps, per kind and name,
    the relative order of the extensions (an extension moved before its definition, definitions moved between files, …).
    Then `src'` resolves as well (`C11_perm`), the side condition holds of its resolved document too, and in the file
    emitted for it every alias of every source-defined type admits EXACTLY the same values as in `F`. -/
theorem C10_from_sources_perm (src' : TsDoc) (hp : src'.Perm src) (hk : KeepsExtOrder src' src) :
    ∃ R', resolve src' = .ok R' ∧ DocOK c R' ∧
      ∀ F', schemaFile c R' = .ok F' →
        ∀ (t : Target) (td : TypeDef), TsItem.typeDef td ∈ src → kindFits td.kind t = true → ∀ v,
          (Mem (Env.ofFile F') v (globalise (Decls.ofFile F') [t.name] [] ((Ctx.new c R' t).leaf td.name)) ↔
           Mem (Env.ofFile F) v (globalise (Decls.ofFile F) [t.name] [] ((Ctx.new c R t).leaf td.name))) := by
  obtain ⟨R', hres'⟩ := ((C11_perm src src' hp hk).1).mpr ⟨R, hres⟩
  have hperm : R'.Perm R := (C11_perm src src' hp hk).2 R R' hres hres'
  have ok' : DocOK c R' := docOK_perm (typeDefsOf_perm hperm.symm) ok
  refine ⟨R', hres', ok', fun F' hF' t td hm hfit v => ?_⟩
  rw [C10_from_sources c src R F hres hF ok t td hm hfit v,
    C10_from_sources c src' R' F' hres' hF' ok' t td (hp.mem_iff.mpr hm) hfit v,
    Ref_resolved_eq c hres ok.distinct t, Ref_resolved_eq c hres' ok'.distinct t]
  exact Ref_perm (typeDefsOf_perm hperm.symm) ok.distinct c t td.name v

/-! ### the resolvers file -/

include hres in
/-- **THE `Resolvers<Context>` RECORD FROM THE SOURCES.** In the resolvers declaration file emitted for the resolved
    document: (1) every object type `O` DEFINED in the sources has the entry `O: { f: __Resolver<O, Args, Context,
    Result>; … }` with one REQUIRED member per field of `type O {…}` AND of every `extend type O {…}`, in document
    order; (2) every union has `__resolveType` over its own members followed by those added by `extend union`, every
    interface over the object types implementing it (`C10_from_sources_interface` says which those are); (3) there is
    no other entry: each stems from an object, interface or union DEFINED in the sources. -/
theorem C10_resolvers_from_sources :
    (∀ od, TsItem.typeDef od ∈ src → od.kind = .object →
      let entry : Ty := .obj ((mergedFields src od).map fun f => (f.name, false, false,
          .app (.ref "__Resolver") [.ref od.name, ResolverDecls.argsType f.args, .ref "Context", tsOf .ref false f.ty]))
      (od.name, false, ResolverDecls.isEmptyObject entry, entry)
        ∈ rootFields (ResolverDecls.rootResolvers ⟨R⟩ (typeDefsOf R))) ∧
    (∀ td, TsItem.typeDef td ∈ src → td.kind = .union →
      (td.name, false, false, ResolverDecls.typeResolver ((mergedMembers src td).map (·.1)))
        ∈ rootFields (ResolverDecls.rootResolvers ⟨R⟩ (typeDefsOf R))) ∧
    (∀ td, TsItem.typeDef td ∈ src → td.kind = .interface →
      (td.name, false, false, ResolverDecls.typeResolver ((Schema.mk R).objectImplementers td.name))
        ∈ rootFields (ResolverDecls.rootResolvers ⟨R⟩ (typeDefsOf R))) ∧
    (∀ f ∈ rootFields (ResolverDecls.rootResolvers ⟨R⟩ (typeDefsOf R)), ∃ td, TsItem.typeDef td ∈ src ∧
      f.1 = td.name ∧ (td.kind = .object ∨ td.kind = .interface ∨ td.kind = .union)) := by
  obtain ⟨h1, h2, h3, h4⟩ := C10_resolvers_exact ⟨R⟩ (typeDefsOf R)
  refine ⟨?_, ?_, ?_, ?_⟩
  · intro od hod hk
    have := h1 (refType src od) (refType_mem_resolved hres hod) hk
    rw [refType_fields src od (Or.inl hk)] at this
    exact this
  · intro td htd hk
    have := h3 (refType src td) (refType_mem_resolved hres htd) hk
    rw [refType_members src td hk] at this
    exact this
  · intro td htd hk
    exact h2 (refType src td) (refType_mem_resolved hres htd) hk
  · intro f hf
    obtain ⟨td', hm, hn, hk⟩ := h4 f hf
    obtain ⟨td, htd, rfl⟩ := (mem_typeDefsOf_resolved hres).mp hm
    exact ⟨td, htd, hn, hk⟩

include hres hF ok in
/-- **RESOLVER RESULT, from the sources.** For every object type `O` DEFINED in the sources and every field `f` of the
    MERGED type (a field of `type O {…}` or of an `extend type O {…}`): in the resolvers file linked with the schema
    file (`Omit` interpreted), the `Result` type of `f`'s resolver admits exactly the resolver result reference over the
    specification-level merge. -/
theorem C10_resolver_result_from_sources (rok : ResolverDecls.ResolversOK c R) (od : TypeDef)
    (hod : TsItem.typeDef od ∈ src) (hk : od.kind = .object) (f : FieldDef) (hf : f ∈ mergedFields src od) (v : J) :
    Mem (Env.ofFiles (ResolverDecls.resolversFile c R) [(ResolverDecls.schemaSource, F)]).withStd v
      (globalise (Decls.ofFiles (ResolverDecls.resolversFile c R) [(ResolverDecls.schemaSource, F)]) [] []
        (tsOf .ref false f.ty))
      ↔ ∃ k, conf (refResolverOut c ⟨refMerge src⟩ k) f.ty v = true := by
  have hf' : f ∈ (refType src od).fields := by rw [refType_fields src od (Or.inl hk)]; exact hf
  obtain ⟨td', hm', hn', hk'⟩ := ok.fields (refType src od) (refType_mem_resolved hres hod) hk f hf'
  simp only [refResolverOut_resolved_eq c hres ok.distinct]
  exact C10_resolver_result_closed c R F hF ok rok f td' hm' hk' hn' v

include hres hF ok in
/-- **RESOLVER ARGUMENTS, from the sources.** For a field `f` of a merged object type whose arguments have defined
    scalar / enum / input-object types: the `Args` type of its resolver admits exactly `Ref_ResolverInput(args f)` over
    the specification-level merge (every argument a required key). -/
theorem C10_resolver_args_from_sources (rok : ResolverDecls.ResolversOK c R) (od : TypeDef)
    (_hod : TsItem.typeDef od ∈ src) (_hk : od.kind = .object) (f : FieldDef) (_hf : f ∈ mergedFields src od)
    (hargs : ∀ a ∈ f.args, ∃ td, TsItem.typeDef td ∈ src ∧ td.name = a.ty.unwrapped ∧
      kindFits td.kind .resolverInput = true) (v : J) :
    Mem (Env.ofFiles (ResolverDecls.resolversFile c R) [(ResolverDecls.schemaSource, F)]).withStd v
      (globalise (Decls.ofFiles (ResolverDecls.resolversFile c R) [(ResolverDecls.schemaSource, F)]) [] []
        (ResolverDecls.argsType f.args))
      ↔ ∃ n, refArgs c ⟨refMerge src⟩ n f.args v = true := by
  simp only [refArgs_resolved_eq c hres ok.distinct]
  refine C10_resolver_args_closed_std c R F hF ok rok f ?_ v
  intro a ha
  obtain ⟨td, htd, hn, hkf⟩ := hargs a ha
  exact ⟨refType src td, refType_mem_resolved hres htd, hn, hkf⟩

end sources

/-! ### the document the CLI resolves: the user's files followed by the built-ins

`crates/cli/src/main.rs` concatenates the schema files (`TypeSystemOrExtensionDocument::merge`), appends
`generate_builtins()` and `nitrogql_builtins()` (`CliSchema.builtins`: five scalars and five directive definitions, no
extension) and resolves THAT document. So `src = user ++ CliSchema.builtins` in the theorems above; the extensions of a
definition — hence its merged components — are those the user wrote, and the defined types are the user's plus the
five built-in scalars. -/

/-- the merged components over the document the CLI resolves are the merged components over the user's items -/
theorem C10_sources_cli_components (user : TsDoc) (td : TypeDef) :
    mergedFields (user ++ CliSchema.builtins) td = mergedFields user td ∧
    mergedImplements (user ++ CliSchema.builtins) td = mergedImplements user td ∧
    mergedMembers (user ++ CliSchema.builtins) td = mergedMembers user td ∧
    mergedValues (user ++ CliSchema.builtins) td = mergedValues user td ∧
    mergedInputs (user ++ CliSchema.builtins) td = mergedInputs user td ∧
    mergedDirs (user ++ CliSchema.builtins) td = mergedDirs user td :=
  ⟨mergedFields_cli user td, mergedImplements_cli user td, mergedMembers_cli user td, mergedValues_cli user td,
    mergedInputs_cli user td, mergedDirs_cli user td⟩

/-- the types defined in the document the CLI resolves: the user's definitions and the five built-in scalars -/
theorem C10_sources_cli_defs (user : TsDoc) (td : TypeDef) :
    TsItem.typeDef td ∈ user ++ CliSchema.builtins ↔
      TsItem.typeDef td ∈ user ∨
      ∃ n ∈ ["Int", "Float", "String", "Boolean", "ID"],
        td = { kind := .scalar, name := n, namePos := CliSchema.bp, pos := CliSchema.bp } :=
  mem_cli_defs user td

/-! ### non-vacuity: a two-file schema whose second file consists of extensions only

File 0 defines a scalar with a configured TypeScript type (`Date` ↦ `Date | string` / `string`; the text mentions the
identifier `Date`, so the schema type is renamed `__tmp_Date` in the file), an enum, two interfaces, three object
types, a union and an input object. File 1 has `extend type` (new fields, with arguments), `extend enum`,
`extend union`, `extend interface … implements`, `extend type … implements` and `extend input`. The extension file is
put FIRST (every extension precedes its definition). -/

def srcUserT : TypeDef :=
  { kind := .object, name := "User", implements := [("Node", {})], pos := ⟨4, 0, 0, false⟩,
    fields := [{ name := "id", ty := .nonNull (.named "ID" {}) }] }
def srcPostT : TypeDef :=
  { kind := .object, name := "Post", pos := ⟨5, 0, 0, false⟩,
    fields := [{ name := "id", ty := .nonNull (.named "ID" {}) }, { name := "title", ty := .named "String" {} }] }
def srcQueryT : TypeDef :=
  { kind := .object, name := "Query", pos := ⟨8, 0, 0, false⟩, fields := [{ name := "me", ty := .named "User" {} }] }
def srcColorT : TypeDef := { kind := .enum, name := "Color", values := [{ name := "RED" }], pos := ⟨1, 0, 0, false⟩ }
def srcNodeT : TypeDef :=
  { kind := .interface, name := "Node", pos := ⟨2, 0, 0, false⟩,
    fields := [{ name := "id", ty := .nonNull (.named "ID" {}) }] }
def srcEntityT : TypeDef :=
  { kind := .interface, name := "Entity", pos := ⟨3, 0, 0, false⟩,
    fields := [{ name := "id", ty := .nonNull (.named "ID" {}) }] }
def srcSearchT : TypeDef := { kind := .union, name := "SearchResult", members := [("User", {})], pos := ⟨6, 0, 0, false⟩ }
def srcFilterT : TypeDef :=
  { kind := .input, name := "Filter", inputs := [{ name := "q", ty := .named "String" {} }], pos := ⟨7, 0, 0, false⟩ }
def srcDateT : TypeDef := { kind := .scalar, name := "Date", pos := ⟨0, 0, 0, false⟩ }

/-- the field `search(filter: Filter, first: Int): [SearchResult!]!` that only `extend type Query` declares -/
def srcSearchF : FieldDef :=
  { name := "search", ty := .nonNull (.list (.nonNull (.named "SearchResult" {})) {}),
    args := [{ name := "filter", ty := .named "Filter" {} }, { name := "first", ty := .named "Int" {} }] }

/-- schema file 0: definitions -/
def srcFile0 : TsDoc :=
  [.typeDef srcDateT, .typeDef srcColorT, .typeDef srcNodeT, .typeDef srcEntityT, .typeDef srcUserT, .typeDef srcPostT,
   .typeDef srcSearchT, .typeDef srcFilterT, .typeDef srcQueryT]

/-- schema file 1: extensions only -/
def srcFile1 : TsDoc :=
  [.typeExt { kind := .object, name := "Query", pos := ⟨0, 0, 1, false⟩,
              fields := [srcSearchF, { name := "created", ty := .named "Date" {} },
                         { name := "color", ty := .named "Color" {} }] },
   .typeExt { kind := .enum, name := "Color", values := [{ name := "GREEN" }], pos := ⟨1, 0, 1, false⟩ },
   .typeExt { kind := .union, name := "SearchResult", members := [("Post", {})], pos := ⟨2, 0, 1, false⟩ },
   .typeExt { kind := .interface, name := "Entity", implements := [("Node", {})], pos := ⟨3, 0, 1, false⟩ },
   .typeExt { kind := .object, name := "Post", implements := [("Node", {}), ("Entity", {})], pos := ⟨4, 0, 1, false⟩ },
   .typeExt { kind := .input, name := "Filter", pos := ⟨5, 0, 1, false⟩,
              inputs := [{ name := "color", ty := .named "Color" {} }] }]

/-- what the CLI resolves: file 1, file 0, the built-ins -/
def srcAll : TsDoc := (srcFile1 ++ srcFile0) ++ CliSchema.builtins

def srcR : TsDoc := match resolve srcAll with | .ok R => R | .error _ => []
theorem srcR_ok : resolve srcAll = .ok srcR := rfl

def srcF : File := match schemaFile exCfg srcR with | .ok f => f | .error _ => []
theorem srcF_ok : schemaFile exCfg srcR = .ok srcF := rfl

theorem srcR_docOK : DocOK exCfg srcR where
  distinct := by decide +kernel
  names := by decide +kernel
  notPrelude := by decide +kernel
  fields := by decide +kernel
  inputs := by decide +kernel
  members := by decide +kernel
  bagOK := by decide +kernel
  parses := by decide +kernel

theorem srcR_resolversOK : ResolverDecls.ResolversOK exCfg srcR where
  noOmit := by decide +kernel
  names := by decide +kernel
  fieldNames := by decide +kernel

theorem srcQuery_fields : mergedFields srcAll srcQueryT =
    [{ name := "me", ty := .named "User" {} }, srcSearchF, { name := "created", ty := .named "Date" {} },
     { name := "color", ty := .named "Color" {} }] := rfl

/-- `extend type`: the alias of `Query` has the field of `type Query` followed by the three fields of the extension -/
example : mergedFields srcAll srcQueryT =
      [{ name := "me", ty := .named "User" {} }, srcSearchF, { name := "created", ty := .named "Date" {} },
       { name := "color", ty := .named "Color" {} }] ∧
    ∀ v, Mem (Env.ofFile srcF) v (globalise (Decls.ofFile srcF) [Target.operationOutput.name] []
        ((Ctx.new exCfg srcR .operationOutput).leaf "Query")) ↔
      ∃ kvs, v = .obj kvs ∧
        RecordSpec (("__typename", false, fun x => x = .str "Query")
          :: (mergedFields srcAll srcQueryT).map fun f =>
            (f.name, false, Conf (Ref exCfg ⟨refMerge srcAll⟩ .operationOutput) f.ty)) kvs :=
  ⟨rfl, C10_from_sources_object exCfg srcAll srcR srcF srcR_ok srcF_ok srcR_docOK .operationOutput srcQueryT
    (by simp [srcAll, srcFile0]) rfl rfl⟩

/-- `extend enum`: `Color` admits `"RED"` (definition) and `"GREEN"` (extension), nothing else -/
example : (mergedValues srcAll srcColorT).map (·.name) = ["RED", "GREEN"] ∧
    ∀ v, Mem (Env.ofFile srcF) v (globalise (Decls.ofFile srcF) [Target.operationInput.name] []
        ((Ctx.new exCfg srcR .operationInput).leaf "Color")) ↔ ∃ x ∈ mergedValues srcAll srcColorT, v = .str x.name :=
  ⟨rfl, C10_from_sources_enum exCfg srcAll srcR srcF srcR_ok srcF_ok srcR_docOK .operationInput srcColorT
    (by simp [srcAll, srcFile0]) rfl⟩

/-- `extend union`: `SearchResult` = `User` (definition) | `Post` (extension) -/
example : (mergedMembers srcAll srcSearchT).map (·.1) = ["User", "Post"] ∧
    ∀ v, Mem (Env.ofFile srcF) v (globalise (Decls.ofFile srcF) [Target.resolverOutput.name] []
        ((Ctx.new exCfg srcR .resolverOutput).leaf "SearchResult")) ↔
      ∃ m ∈ mergedMembers srcAll srcSearchT, Ref exCfg ⟨refMerge srcAll⟩ .resolverOutput m.1 v :=
  ⟨rfl, C10_from_sources_union exCfg srcAll srcR srcF srcR_ok srcF_ok srcR_docOK .resolverOutput srcSearchT
    (by simp [srcAll, srcFile0]) rfl rfl⟩

/-- `implements` of extensions: `Post` implements `Node` and `Entity` only through `extend type Post implements …`,
    `Entity` implements `Node` only through `extend interface Entity implements Node`; the alias of the interface
    `Node` is the union over `User` (own `implements`) and `Post` (extension) -/
example : mergedImplements srcAll srcPostT = [("Node", {}), ("Entity", {})] ∧
    mergedImplements srcAll srcEntityT = [("Node", {})] ∧
    ∀ v, Mem (Env.ofFile srcF) v (globalise (Decls.ofFile srcF) [Target.operationOutput.name] []
        ((Ctx.new exCfg srcR .operationOutput).leaf "Node")) ↔
      ∃ od, TsItem.typeDef od ∈ srcAll ∧ od.kind = .object ∧ (∃ i ∈ mergedImplements srcAll od, i.1 = "Node") ∧
        Ref exCfg ⟨refMerge srcAll⟩ .operationOutput od.name v :=
  ⟨rfl, rfl, C10_from_sources_interface exCfg srcAll srcR srcF srcR_ok srcF_ok srcR_docOK .operationOutput srcNodeT
    (by simp [srcAll, srcFile0]) rfl rfl⟩

/-- `extend input`: `Filter` has the field `q` (definition) and `color` (extension) -/
example : (mergedInputs srcAll srcFilterT).map (·.name) = ["q", "color"] ∧
    ∀ v, Mem (Env.ofFile srcF) v (globalise (Decls.ofFile srcF) [Target.resolverInput.name] []
        ((Ctx.new exCfg srcR .resolverInput).leaf "Filter")) ↔
      ∃ kvs, v = .obj kvs ∧
        RecordSpec ((mergedInputs srcAll srcFilterT).map fun f =>
          (f.name, exCfg.optionalInput && !f.ty.isNonNull, Conf (Ref exCfg ⟨refMerge srcAll⟩ .resolverInput) f.ty)) kvs :=
  ⟨rfl, C10_from_sources_input exCfg srcAll srcR srcF srcR_ok srcF_ok srcR_docOK .resolverInput srcFilterT
    (by simp [srcAll, srcFile0]) rfl rfl⟩

/-- the scalar with a configured type: `Date` is `Date | string` where it is sent … -/
example : ∀ v, Mem (Env.ofFile srcF) v (globalise (Decls.ofFile srcF) [Target.operationInput.name] []
        ((Ctx.new exCfg srcR .operationInput).leaf "Date")) ↔
      ∃ sc, (exCfg.optionScalar? "Date").orElse
          (fun _ => directiveScalar? { srcDateT with dirs := mergedDirs srcAll srcDateT }) = some sc ∧
        Mem Env.empty v (exCfg.parseOf (sc.getType .operationInput)) :=
  C10_from_sources_scalar exCfg srcAll srcR srcF srcR_ok srcF_ok srcR_docOK .operationInput srcDateT
    (by simp [srcAll, srcFile0]) rfl

/-- … the schema type `Date` being renamed in the file, because the configured text mentions the identifier `Date` -/
example : (Ctx.new exCfg srcR .operationInput).local "Date" = "__tmp_Date" := by decide +kernel

/-- a built-in scalar the CLI appended is a defined type like any other -/
example : ∀ v, Mem (Env.ofFile srcF) v (globalise (Decls.ofFile srcF) [] [] (.qref [Target.resolverOutput.name, "ID"]))
      ↔ Ref exCfg ⟨refMerge srcAll⟩ .resolverOutput "ID" v :=
  C10_from_sources_qualified exCfg srcAll srcR srcF srcR_ok srcF_ok srcR_docOK .resolverOutput
    { kind := .scalar, name := "ID", namePos := CliSchema.bp, pos := CliSchema.bp }
    (by simp [srcAll, CliSchema.builtins, CliSchema.bScalar]) rfl

/-- the same two files in the other order (definitions first): a permutation of the items that keeps the order of the
    extensions of every name -/
theorem srcSwapped_perm : ((srcFile0 ++ srcFile1) ++ CliSchema.builtins).Perm srcAll ∧
    KeepsExtOrder ((srcFile0 ++ srcFile1) ++ CliSchema.builtins) srcAll :=
  ⟨List.Perm.append_right _ List.perm_append_comm, rfl, fun k n => by
    simp only [srcAll, typeExts_append]
    have h0 : typeExts k n srcFile0 = [] := by
      simp [typeExts, srcFile0]
    rw [h0, List.append_nil, List.nil_append]⟩

/-- order independence, instantiated: the swapped project resolves, satisfies the side condition, and every alias of
    its file means what it means in `srcF` -/
example : ∃ R', resolve ((srcFile0 ++ srcFile1) ++ CliSchema.builtins) = .ok R' ∧ DocOK exCfg R' ∧
      ∀ F', schemaFile exCfg R' = .ok F' →
        ∀ (t : Target) (td : TypeDef), TsItem.typeDef td ∈ srcAll → kindFits td.kind t = true → ∀ v,
          (Mem (Env.ofFile F') v (globalise (Decls.ofFile F') [t.name] [] ((Ctx.new exCfg R' t).leaf td.name)) ↔
           Mem (Env.ofFile srcF) v (globalise (Decls.ofFile srcF) [t.name] [] ((Ctx.new exCfg srcR t).leaf td.name))) :=
  C10_from_sources_perm exCfg srcAll srcR srcF srcR_ok srcF_ok srcR_docOK _ srcSwapped_perm.1 srcSwapped_perm.2

/-- nothing lost / invented, instantiated: 9 user definitions + 5 built-in scalars, the 6 extensions are gone -/
example : (typeDefsOf srcR).length = 14 ∧ srcAll.length = 25 :=
  ⟨(C10_sources_types srcAll srcR srcR_ok).2.2.trans (by decide +kernel), by decide +kernel⟩

/-- the `Resolvers` record of the example: `Query` has one resolver per MERGED field (4), … -/
example := (C10_resolvers_from_sources srcAll srcR srcR_ok).1 srcQueryT (by simp [srcAll, srcFile0]) rfl

/-- the printer succeeds on the example because every scalar of the sources has a type (here: through the configuration
    and the built-in mappings) -/
example : ∀ td, TsItem.typeDef td ∈ srcAll → td.kind = .scalar →
    ((exCfg.optionScalar? td.name).orElse
      (fun _ => directiveScalar? { td with dirs := mergedDirs srcAll td })).isSome = true :=
  (C10_sources_print_ok_iff exCfg srcAll srcR srcR_ok srcR_docOK.distinct).mp ⟨srcF, srcF_ok⟩

/-- `extend schema` and `extend scalar … @nitrogql_ts_type`: a second small project in which the root operation types
    and the TypeScript type of a scalar come from extensions only -/
def src2 : TsDoc :=
  [.schemaExt { roots := [(.mutation, "M", {})] },
   .typeExt { kind := .scalar, name := "Money",
              dirs := [{ name := "nitrogql_ts_type",
                         args := [("resolverInput", {}, .str "bigint" {}), ("resolverOutput", {}, .str "bigint" {}),
                                  ("operationInput", {}, .str "string" {}), ("operationOutput", {}, .str "string" {})] }] },
   .schemaDef { roots := [(.query, "Q", {})] },
   .typeDef { kind := .scalar, name := "Money" },
   .typeDef { kind := .object, name := "Q", fields := [{ name := "price", ty := .named "Money" {} }] },
   .typeDef { kind := .object, name := "M", fields := [{ name := "pay", ty := .named "Money" {} }] }]
    ++ CliSchema.builtins

def src2R : TsDoc := match resolve src2 with | .ok R => R | .error _ => []
theorem src2R_ok : resolve src2 = .ok src2R := rfl
def src2F : File := match schemaFile {} src2R with | .ok f => f | .error _ => []
theorem src2F_ok : schemaFile {} src2R = .ok src2F := rfl

example : src2F.head? = some (.type true "__nitrogql_schema" []
    (.obj [("query", false, false, .ref "Q"), ("mutation", false, false, .ref "M")])) :=
  C10_sources_schema_metadata {} src2 src2R src2F src2R_ok src2F_ok { roots := [(.query, "Q", {})] } (by simp [src2])

/-- the scalar `Money` has no configuration entry: its type comes from the directive of `extend scalar Money` -/
example : (({} : Cfg).optionScalar? "Money").orElse
      (fun _ => directiveScalar? { ({ kind := .scalar, name := "Money" } : TypeDef) with
        dirs := mergedDirs src2 { kind := .scalar, name := "Money" } })
    = some (.separate "bigint" "bigint" "string" "string") := by decide +kernel

/-- the resolvers file: the field `search`, declared only by `extend type Query`, has its resolver; `Result` … -/
example : ∀ v, Mem (Env.ofFiles (ResolverDecls.resolversFile exCfg srcR) [(ResolverDecls.schemaSource, srcF)]).withStd v
      (globalise (Decls.ofFiles (ResolverDecls.resolversFile exCfg srcR) [(ResolverDecls.schemaSource, srcF)]) [] []
        (tsOf .ref false srcSearchF.ty))
      ↔ ∃ k, conf (refResolverOut exCfg ⟨refMerge srcAll⟩ k) srcSearchF.ty v = true :=
  C10_resolver_result_from_sources exCfg srcAll srcR srcF srcR_ok srcF_ok srcR_docOK srcR_resolversOK srcQueryT
    (by simp [srcAll, srcFile0]) rfl srcSearchF (by rw [srcQuery_fields]; simp)

/-- … and `Args` (`filter: Filter` — an input object that itself has an extension — and `first: Int`, a built-in) -/
example : ∀ v, Mem (Env.ofFiles (ResolverDecls.resolversFile exCfg srcR) [(ResolverDecls.schemaSource, srcF)]).withStd v
      (globalise (Decls.ofFiles (ResolverDecls.resolversFile exCfg srcR) [(ResolverDecls.schemaSource, srcF)]) [] []
        (ResolverDecls.argsType srcSearchF.args))
      ↔ ∃ n, refArgs exCfg ⟨refMerge srcAll⟩ n srcSearchF.args v = true :=
  C10_resolver_args_from_sources exCfg srcAll srcR srcF srcR_ok srcF_ok srcR_docOK srcR_resolversOK srcQueryT
    (by simp [srcAll, srcFile0]) rfl srcSearchF (by rw [srcQuery_fields]; simp)
    (by
      intro a ha
      simp only [srcSearchF, List.mem_cons, List.not_mem_nil, or_false] at ha
      rcases ha with rfl | rfl
      · exact ⟨srcFilterT, by simp [srcAll, srcFile0], rfl, rfl⟩
      · exact ⟨{ kind := .scalar, name := "Int", namePos := CliSchema.bp, pos := CliSchema.bp },
          by simp [srcAll, CliSchema.builtins, CliSchema.bScalar], rfl, rfl⟩)

end NitroVerif.Props.C10
