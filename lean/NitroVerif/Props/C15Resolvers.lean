import NitroVerif.Lemmas.RoutesResolvers
import NitroVerif.Lemmas.RoutesResolversSchemaFile
import NitroVerif.Lemmas.RoutesResolversMeta
import NitroVerif.Lemmas.RoutesResolversDocs
import NitroVerif.Lemmas.RoutesResolversRegroup
import NitroVerif.Props.C15Concrete
import NitroVerif.Props.C17Concrete
/-!
# C15 — the resolvers declaration file on the two routes

Property theorems only.  `Props/C15Concrete.lean` covers the operation checker, the operation types and the schema
declaration file; the remaining modelled artefact was the file written to `resolversOutput`
(`Model/ResolverDecls.lean` = `ResolverTypePrinter::print_document`, K-tied by C10).  On the SDL route it is given
`docSdl M = M ++ builtins`, on the JSON route `docJson M = type_system_to_ast (schema value read from the introspection
result)` (generate.rs).  Lemmas: `Lemmas/RoutesResolversOrder.lean` (the ORDER of the JSON route's definitions),
`Lemmas/RoutesResolvers.lean`.

* `C15_resolvers_field_eq`, `C15_resolvers_definition_eq` — per field / per definition the two routes print EQUAL types
  (not merely up to member order: interface implementers come in the same order on both routes).
* `C15_resolvers_definitions_order` — the definitions the JSON route prints, in order.
* `C15_resolvers_routes_eq` — BOTH FILES in closed form over the same per-definition pieces: the JSON route's file is the
  SDL route's with (i) a fixed block of `__*` aliases / `Resolvers` entries / `ResolverOutput` members inserted and
  (ii) the five built-in scalar aliases split into "referenced" (before the `__*` block) and "unreferenced" (after it).
* `C15_resolvers_routes_perm` — the summary "same entries up to order, plus the `__*` extras".
* `C15_resolvers_routes_agree` — composed with the reader.
* witnesses: the extras and the order difference are real; what the JSON route loses (deprecation, default value texts,
  directives) is not part of the file.

Second part — WHOLE-FILE facts of the schema declaration file (`Props/C15Concrete.lean` has the per-alias equalities):
* `C15_schemaFile_routes_eq` — both files in closed form over the same per-definition blocks: declaration order inside
  every namespace and among the representative aliases.
* `C15_schemaMetadata_routes` — the `__nitrogql_schema` metadata object: same keys and types, JSON route in the order
  query / mutation / subscription, SDL route in the written order; `…_duplicate_root_counterexample`.
* `C15_schemaDocs_routes_eq` — every JSDoc comment of the file (type-level and field-level), in text order: the JSON
  route's are the SDL route's without the `@deprecated` tags; equal when nothing is deprecated; witness.
-/
namespace NitroVerif.C15
open NitroVerif NitroVerif.Gql NitroVerif.SchemaIR NitroVerif.AstSchema NitroVerif.Bridge NitroVerif.ResolverDecls
open NitroVerif.IntrospectSpec

/-! ### per field, per definition -/

/-- **Same `__Resolver<Parent, Args, Context, Result>` per field.** For EVERY field definition `f` (no hypothesis): the
    resolver type printed for the JSON route's copy of `f` (`ast_to_type_system` then `type_system_to_ast`: positions,
    deprecation, directives and the default-value texts of arguments are gone) is the one printed for `f`: the same
    parent, the same readonly argument object (names, nullability and list structure of every argument, scalars through
    `Schema.__ResolverInput`), `Context`, the same result type. -/
theorem C15_resolvers_field_eq (parent : Name) (f : FieldDef) :
    fieldResolver parent (unconvField (convField f)) = fieldResolver parent f :=
  fieldResolver_roundtrip parent f

/-- **Same alias and same `Resolvers<Context>` entry per definition.** For every `M` with pairwise distinct type names
    and every type definition `td`: the type the SDL route prints for `td` — `Omit<Schema.__ResolverOutput.X,
    "__typename">` for an object, the union of the object implementers for an interface, the union of the members for a
    union, `Schema.__ResolverOutput.X` otherwise — EQUALS the one the JSON route prints for its twin, and so does the
    `Resolvers<Context>` entry (the record of field resolvers of an object; `{ __resolveType: __TypeResolver<A | B,
    Context, "A" | "B"> }` of an interface / union).  Equal, not only up to member order: interface implementers are
    listed in the same order on both routes. -/
theorem C15_resolvers_definition_eq (M : TsDoc) (hn : ((userTypes M).map (·.name)).Nodup) (td : TypeDef) :
    resolverOutputType ⟨docSdl M⟩ td = resolverOutputType ⟨docJson M⟩ (twin td) ∧
    resolverType ⟨docSdl M⟩ td = resolverType ⟨docJson M⟩ (twin td) :=
  ⟨resolverOutputType_routes M hn td, resolverType_routes M hn td⟩

example : ((userTypes exampleM).map (·.name)).Nodup := exampleM_valid.resolved.typeNames

/-! ### the order of the definitions -/

/-- **The definitions each route prints, in order.** For every valid `M` whose type names are not those of built-in
    scalars: the SDL route prints the definitions of `M` in the order of `M`, then `Int Float String Boolean ID`; the JSON
    route prints the twins of the definitions of `M` in the SAME order, then the built-in scalars that some definition
    of `M`, some directive definition or some `__*` type refers to (`refNames M`, same relative order — what a
    spec-conforming introspection result lists), then the eight `__*` definitions, then the other built-in scalars
    (`restNames M`, appended by the CLI). -/
theorem C15_resolvers_definitions_order (M : TsDoc) (h : ValidParsed M) (hb : UserNotBuiltin M) :
    SchemaDecls.typeDefsOf (docSdl M) = SchemaDecls.typeDefsOf M ++ builtinScalarNames.map scalarDefS ∧
    SchemaDecls.typeDefsOf (docJson M) =
      (SchemaDecls.typeDefsOf M).map twin ++ (refNames M).map scalarDefJ ++ introDefs ++ (restNames M).map scalarDefJ ∧
    (refNames M ++ restNames M).Perm builtinScalarNames :=
  ⟨typeDefsOf_docSdl_closed M, typeDefsOf_docJson_closed (orderOk_of_valid h hb), ref_rest_perm M⟩

/-- the hypotheses are satisfiable by `exampleM`; there `Float` is the one unreferenced built-in scalar (`String` and
    `Boolean` are always referenced: the `__*` types mention them) -/
example : ValidParsed exampleM ∧ UserNotBuiltin exampleM ∧
    refNames exampleM = ["Int", "String", "Boolean", "ID"] ∧ restNames exampleM = ["Float"] :=
  ⟨exampleM_valid, by decide, by decide, by decide⟩

/-! ### the two files -/

/-- **The resolvers file on the two routes, in closed form over the same pieces.** For every valid `M` (type names not
    those of built-in scalars) and every configuration, with
      `userAliases M`  = the `type X = …` aliases of the non-input definitions of `M`, as the SDL route prints them,
      `userEntries M`  = their `Resolvers<Context>` fields (objects, interfaces, unions), as the SDL route prints them,
      `userNames M`    = their names,
      `scalarAlias n`  = `type n = Schema.__ResolverOutput.n`,
      `introAliases` / `introEntries` / `introNames` = the aliases / fields / names of the eight `__*` definitions — fixed
        lists that do not depend on `M`:
    * SDL route:  header, `userAliases M`, the aliases of Int Float String Boolean ID,
                  `Resolvers<Context> = { userEntries M }`, `ResolverOutput` over `userNames M ++ [Int, …, ID]`;
    * JSON route: header, `userAliases M` (the same statements, same order), the aliases of the referenced built-in
                  scalars, `introAliases`, the aliases of the unreferenced ones,
                  `Resolvers<Context> = { userEntries M ++ introEntries }` (the same fields in the same order, then the
                  `__*` ones), `ResolverOutput` over `userNames M ++ refNames M ++ introNames ++ restNames M`.
    So: every `__Resolver<…>` of every field and every `__resolveType` union is literally the same; the only differences
    are the documented extras (the `__*` block) and the position of the built-in scalar aliases. -/
theorem C15_resolvers_routes_eq (c : DeclCfg.Cfg) (M : TsDoc) (h : ValidParsed M) (hb : UserNotBuiltin M) :
    resolversFile c (docSdl M) =
      assemble (userAliases M ++ builtinScalarNames.map scalarAlias) (userEntries M)
        (userNames M ++ builtinScalarNames) ∧
    resolversFile c (docJson M) =
      assemble (userAliases M ++ (refNames M).map scalarAlias ++ introAliases ++ (restNames M).map scalarAlias)
        (userEntries M ++ introEntries) (userNames M ++ refNames M ++ introNames ++ restNames M) ∧
    (refNames M ++ restNames M).Perm builtinScalarNames :=
  ⟨resolversFile_docSdl c M, resolversFile_docJson c (orderOk_of_valid h hb), ref_rest_perm M⟩

/-- **Summary: the same entries up to order, plus the `__*` extras.** With `aliases`, `names` the alias statements and
    `ResolverOutput` members of the SDL route's file and `aliases'`, `names'` those of the JSON route's: both files have
    the same header, the JSON route's `Resolvers<Context>` record is the SDL route's followed by `introEntries`,
    `aliases'` is a permutation of `aliases ++ introAliases` and `names'` of `names ++ introNames`. -/
theorem C15_resolvers_routes_perm (c : DeclCfg.Cfg) (M : TsDoc) (h : ValidParsed M) (hb : UserNotBuiltin M) :
    ∃ aliases aliases' names names',
      resolversFile c (docSdl M) = assemble aliases (userEntries M) names ∧
      resolversFile c (docJson M) = assemble aliases' (userEntries M ++ introEntries) names' ∧
      aliases'.Perm (aliases ++ introAliases) ∧ names'.Perm (names ++ introNames) := by
  obtain ⟨h1, h2, hp⟩ := C15_resolvers_routes_eq c M h hb
  refine ⟨_, _, _, _, h1, h2, ?_, ?_⟩
  · -- U ++ R ++ I ++ R'  ~  (U ++ B) ++ I
    have hB : ((refNames M).map scalarAlias ++ (restNames M).map scalarAlias).Perm (builtinScalarNames.map scalarAlias) := by
      rw [← List.map_append]; exact hp.map _
    calc userAliases M ++ (refNames M).map scalarAlias ++ introAliases ++ (restNames M).map scalarAlias
        = userAliases M ++ ((refNames M).map scalarAlias ++ (introAliases ++ (restNames M).map scalarAlias)) := by
          simp only [List.append_assoc]
      _ |>.Perm (userAliases M ++ ((refNames M).map scalarAlias ++ ((restNames M).map scalarAlias ++ introAliases))) :=
          List.Perm.append_left _ (List.Perm.append_left _ List.perm_append_comm)
      _ = userAliases M ++ (((refNames M).map scalarAlias ++ (restNames M).map scalarAlias) ++ introAliases) := by
          simp only [List.append_assoc]
      _ |>.Perm (userAliases M ++ (builtinScalarNames.map scalarAlias ++ introAliases)) :=
          List.Perm.append_left _ (List.Perm.append_right _ hB)
      _ = userAliases M ++ builtinScalarNames.map scalarAlias ++ introAliases := by simp only [List.append_assoc]
  · calc userNames M ++ refNames M ++ introNames ++ restNames M
        = userNames M ++ (refNames M ++ (introNames ++ restNames M)) := by simp only [List.append_assoc]
      _ |>.Perm (userNames M ++ (refNames M ++ (restNames M ++ introNames))) :=
          List.Perm.append_left _ (List.Perm.append_left _ List.perm_append_comm)
      _ = userNames M ++ ((refNames M ++ restNames M) ++ introNames) := by simp only [List.append_assoc]
      _ |>.Perm (userNames M ++ (builtinScalarNames ++ introNames)) :=
          List.Perm.append_left _ (List.Perm.append_right _ hp)
      _ = userNames M ++ builtinScalarNames ++ introNames := by simp only [List.append_assoc]

/-- **Composed with the reader.** For every valid `M`: reading the specification's introspection result of `M` the way
    the CLI does succeeds with a schema value `s`, and the resolvers file printed from `type_system_to_ast s` is the
    closed form above — the SDL route's entries, the `__*` block, the built-in scalars. -/
theorem C15_resolvers_routes_agree (c : DeclCfg.Cfg) (M : TsDoc) (h : ValidParsed M) (hb : UserNotBuiltin M) :
    ∃ s, CliSchema.routeJson (IntrospectSpec.introspectSpec M) = .ok s ∧
      resolversFile c (schemaToAst s) =
        assemble (userAliases M ++ (refNames M).map scalarAlias ++ introAliases ++ (restNames M).map scalarAlias)
          (userEntries M ++ introEntries) (userNames M ++ refNames M ++ introNames ++ restNames M) ∧
      resolversFile c (M ++ CliSchema.builtins) =
        assemble (userAliases M ++ builtinScalarNames.map scalarAlias) (userEntries M)
          (userNames M ++ builtinScalarNames) := by
  obtain ⟨q, hq⟩ := Option.isSome_iff_exists.mp h.resolved.query
  obtain ⟨h1, h2, _⟩ := C15_resolvers_routes_eq c M h hb
  exact ⟨Routes.jsonSide M, Routes.routeJson_spec M q hq, h2, h1⟩

/-! ### witnesses -/

/-- **The extras are real and are exactly the `__*` types**: the fixed block has eight aliases (`__Schema`, `__Type`,
    `__TypeKind`, `__Field`, `__InputValue`, `__EnumValue`, `__Directive`, `__DirectiveLocation`) and six
    `Resolvers<Context>` fields (the six object types among them — a user of `resolversOutput` with an introspection
    schema is asked for `__Schema` … resolvers); none of these names is on the SDL route of `exampleM`, whose files
    therefore differ. -/
theorem C15_resolvers_introspection_extras_witness :
    introNames = ["__Schema", "__Type", "__TypeKind", "__Field", "__InputValue", "__EnumValue", "__Directive",
      "__DirectiveLocation"] ∧
    introEntries.map (·.1) = ["__Schema", "__Type", "__Field", "__InputValue", "__EnumValue", "__Directive"] ∧
    (∀ n ∈ introNames, n ∉ userNames exampleM ++ builtinScalarNames) ∧
    resolversFile {} (docJson exampleM) ≠ resolversFile {} (docSdl exampleM) := by
  refine ⟨by decide, by decide, by decide, ?_⟩
  intro e
  have := congrArg List.length e
  revert this
  decide

/-- **The order difference is real**: on `exampleM` the SDL route lists the built-in scalar aliases as
    `Int Float String Boolean ID` after the user's, the JSON route as `Int String Boolean ID`, the `__*` block, `Float`. -/
theorem C15_resolvers_order_witness :
    (userNames exampleM ++ builtinScalarNames).drop (userNames exampleM).length
      = ["Int", "Float", "String", "Boolean", "ID"] ∧
    (userNames exampleM ++ refNames exampleM ++ introNames ++ restNames exampleM).drop (userNames exampleM).length
      = ["Int", "String", "Boolean", "ID"] ++ introNames ++ ["Float"] := by
  refine ⟨by decide, by decide⟩

/-- **What the JSON route loses is not in the file.** `type T { f(a: Int = 5): Int @deprecated(reason: "r") }`: the twin
    has no directive, no deprecation, and `null` instead of the default value `5` — and the same `Resolvers` entry. -/
theorem C15_resolvers_lost_metadata_witness :
    let f : FieldDef := {
      name := "f", ty := .named "Int" {},
      args := [{ name := "a", ty := .named "Int" {}, default := some (.int "5" {}) }],
      dirs := [{ name := "deprecated", args := [("reason", {}, .str "r" {})] }] }
    let td : TypeDef := { kind := .object, name := "T", fields := [f] }
    (twin td).fields.map (·.dirs) = [[]] ∧ td.fields.map (·.dirs.length) = [1] ∧
    (twin td).fields.map (fun g => g.args.map (·.default)) = [[some (.null { builtin := true })]] ∧
    resolverType ⟨[]⟩ (twin td) = resolverType ⟨[]⟩ td := by
  exact ⟨rfl, rfl, rfl, rfl⟩

/-! ## whole-file facts of the schema declaration file -/

open NitroVerif.DeterminismDecls (preludeWith nsStmt) in
/-- **The schema declaration file on the two routes, in closed form over the same blocks.** For every valid `M` and
    configuration within `DeclsOk` (`Props/C15Concrete.lean`) for which the SDL route produces the file: the JSON route
    produces it too, and with
      `userBlocks c M t`  = the blocks (JSDoc + alias + `export type {…}`) of the definitions of `M` in namespace `t`,
      `scalarBlock c M t n` = the block of the built-in scalar `n`, `userReps` / `scalarRep` = the representative aliases
        (all as the SDL route prints them),
      `introBlocks c M t` / `introReps c M` = the blocks of the eight `__*` definitions (JSON route only):
    * both files are: the prelude (with the route's metadata object, see `C15_schemaMetadata_routes`), the four
      namespaces `__OperationInput`, `__OperationOutput`, `__ResolverInput`, `__ResolverOutput` in this order, the
      representative aliases;
    * SDL route, in every namespace and among the representatives: the blocks of `M` in the order of `M`, then Int Float
      String Boolean ID;
    * JSON route: the SAME blocks of `M` in the same order, then the referenced built-in scalars, then the `__*` blocks,
      then the unreferenced built-in scalars.
    So the declaration order differs exactly by the position of the built-in scalars and the inserted `__*` blocks. -/
theorem C15_schemaFile_routes_eq (c : DeclCfg.Cfg) (M : TsDoc) (h : DeclsOk c M)
    (hok : okB (SchemaDecls.schemaFile c (docSdl M)) = true) :
    SchemaDecls.schemaFile c (docSdl M) =
      .ok (preludeWith (SchemaDecls.schemaMetadata (docSdl M)) ++ (DeclCfg.Target.all.map (sdlNs c M)).map nsStmt ++
        (userReps c M ++ builtinScalarNames.map (scalarRep c M)).flatten) ∧
    SchemaDecls.schemaFile c (docJson M) =
      .ok (preludeWith (SchemaDecls.schemaMetadata (docJson M)) ++ (DeclCfg.Target.all.map (jsonNs c M)).map nsStmt ++
        (userReps c M ++ (refNames M).map (scalarRep c M) ++ introReps c M ++ (restNames M).map (scalarRep c M)).flatten) ∧
    (∀ t, sdlNs c M t = (t.name, userBlocks c M t ++ builtinScalarNames.map (scalarBlock c M t))) ∧
    (∀ t, jsonNs c M t = (t.name, userBlocks c M t ++ (refNames M).map (scalarBlock c M t) ++ introBlocks c M t ++
      (restNames M).map (scalarBlock c M t))) := by
  obtain ⟨h1, h2⟩ := schemaFile_routes_closed h (allOk_of_okB c _ hok)
  exact ⟨h1, h2, fun _ => rfl, fun _ => rfl⟩

/-- the hypotheses are satisfiable: `exampleM` with a scalar mapping whose identifier clashes with a type name -/
example : DeclsOk { scalars := [("ID", .single "U | string")] } exampleM ∧
    okB (SchemaDecls.schemaFile { scalars := [("ID", .single "U | string")] } (docSdl exampleM)) = true :=
  ⟨⟨exampleM_valid, by decide, by decide⟩, by decide⟩

/-- **The `__nitrogql_schema` metadata object on the two routes.** For every `M`:
    * the JSON route writes `{ query: Q, mutation: M, subscription: S }` — the root types that are set, ALWAYS in this
      key order (`jsonMetaFields`: `type_system_to_ast` emits a schema definition from the schema value's three options);
    * the SDL route writes the entries of the `schema { … }` definition in the order written, or — without a schema
      definition — one entry per object type named `Query` / `Mutation` / `Subscription`, in the order of their
      definitions (`defaultField`);
    * for a valid `M` whose schema definition lists each operation kind at most once (`RootKindsDistinct`) the JSON
      route's fields are a permutation of the SDL route's: same keys, same types, only the key order may differ. -/
theorem C15_schemaMetadata_routes (M : TsDoc) (h : Routes.ValidResolved M) (hk : RootKindsDistinct M) :
    ∃ fs fs' : List Ts.Field,
      SchemaDecls.schemaMetadata (docSdl M) = .obj fs ∧
      SchemaDecls.schemaMetadata (docJson M) = .obj fs' ∧
      fs' = jsonMetaFields (IntrospectSpec.specRoots M) ∧
      fs = (match (IntrospectSpec.schemaDefs M).head? with
            | some d => d.roots.map fun x => metaField x.1 x.2.1
            | none => (SchemaDecls.typeDefsOf M).filterMap defaultField) ∧
      fs'.Perm fs := by
  refine ⟨_, _, ?_, schemaMetadata_docJson M, rfl, rfl, ?_⟩
  · rw [schemaMetadata_docSdl]
    cases (IntrospectSpec.schemaDefs M).head? <;> rfl
  · cases hs : IntrospectSpec.schemaDefs M with
    | nil =>
      simp only [List.head?_nil]
      rw [jsonMetaFields_default M hs]
      refine default_fields_perm _ ?_
      have := h.typeNames
      rwa [userTypes_eq_map, List.map_map,
        show ((fun t : ITypeDef => t.name) ∘ convTypeDef) = (fun t : TypeDef => t.name) from
          funext fun t => convTypeDef_name t] at this
    | cons d rest =>
      simp only [List.head?_cons]
      have hr : IntrospectSpec.specRoots M = setRoots {} d.roots := by simp [IntrospectSpec.specRoots, hs]
      rw [hr]
      exact jsonMetaFields_setRoots d.roots (hk d (by simp [hs]))

/-- the hypotheses hold of `exampleM` and of a document without schema definition whose `Mutation` comes first — there
    the key order really differs (`mutation, query` on the SDL route, `query, mutation` on the JSON route) -/
example :
    let M : TsDoc := [.typeDef { kind := .object, name := "Mutation", fields := [{ name := "x", ty := .named "Int" {} }] },
                      .typeDef { kind := .object, name := "Query", fields := [{ name := "y", ty := .named "Int" {} }] }]
    Routes.ValidResolved exampleM ∧ RootKindsDistinct exampleM ∧ Routes.ValidResolved M ∧ RootKindsDistinct M ∧
    SchemaDecls.schemaMetadata (docSdl M) =
      .obj [("mutation", false, false, .ref "Mutation"), ("query", false, false, .ref "Query")] ∧
    SchemaDecls.schemaMetadata (docJson M) =
      .obj [("query", false, false, .ref "Query"), ("mutation", false, false, .ref "Mutation")] := by
  exact ⟨exampleM_valid.resolved, by decide, ⟨by decide, by decide, by decide, by decide, by decide⟩, by decide,
    rfl, rfl⟩

/-- **`RootKindsDistinct` is needed, and the type-system checker does not enforce it** (`check_schema` looks at the
    directives of the schema definition only): for `schema { query: A query: B }  type A { x: Int }  type B { y: Int }`
    — `ValidParsed`, accepted by the checker model — the SDL route writes the key `query` twice
    (`{ query: A, query: B }`), the JSON route once (`{ query: B }`: the last entry wins in `ast_to_type_system`). -/
theorem C15_schemaMetadata_duplicate_root_counterexample :
    let M : TsDoc := [.schemaDef { roots := [(.query, "A", {}), (.query, "B", {})], pos := { line := 1, col := 1 } },
                      .typeDef { kind := .object, name := "A", fields := [{ name := "x", ty := .named "Int" {} }] },
                      .typeDef { kind := .object, name := "B", fields := [{ name := "y", ty := .named "Int" {} }] }]
    ValidParsed M ∧ ¬ RootKindsDistinct M ∧ CheckTs.checkSchema (M ++ CliSchema.builtins) = [] ∧
    SchemaDecls.schemaMetadata (docSdl M) =
      .obj [("query", false, false, .ref "A"), ("query", false, false, .ref "B")] ∧
    SchemaDecls.schemaMetadata (docJson M) = .obj [("query", false, false, .ref "B")] := by
  exact ⟨⟨⟨by decide, by decide, by decide, by decide, by decide⟩, by decide, by decide, by decide⟩, by decide,
    by decide, rfl, rfl⟩

/-- **Every JSDoc comment of the schema declaration file, in text order.** For every valid `M` (type names not those of
    built-in scalars; each operation kind at most once in the schema definition) and every configuration:
    `allDocs` — the comment of the metadata object's keys (the schema description), then, namespace by namespace, the
    type-level and field-level comments of every definition — is
    * on the SDL route: the metadata comments, then the comments of the definitions of `M` (`userDocs`);
    * on the JSON route: the SAME metadata comments, then the comments of the definitions of `M` WITHOUT their
      `@deprecated` tags (`userPlainDocs`: `type_system_to_ast` writes no directives) — descriptions of types, fields,
      input fields survive, in the same order; built-in scalars and `__*` types carry no comment on either route;
    * hence EQUAL when no field / input field of `M` is deprecated. -/
theorem C15_schemaDocs_routes_eq (c : DeclCfg.Cfg) (M : TsDoc) (h : ValidParsed M) (hb : UserNotBuiltin M)
    (hk : RootKindsDistinct M) :
    SchemaDecls.allDocs c (docSdl M) =
      SchemaDecls.metadataDocs (docSdl M) ++ DeclCfg.Target.all.flatMap (userDocs c M) ∧
    SchemaDecls.allDocs c (docJson M) =
      SchemaDecls.metadataDocs (docSdl M) ++ DeclCfg.Target.all.flatMap (userPlainDocs c M) ∧
    ((∀ td ∈ SchemaDecls.typeDefsOf M, noDeprecation td = true) →
      SchemaDecls.allDocs c (docJson M) = SchemaDecls.allDocs c (docSdl M)) := by
  have h1 := allDocs_docSdl c M
  have h2 : SchemaDecls.allDocs c (docJson M) =
      SchemaDecls.metadataDocs (docSdl M) ++ DeclCfg.Target.all.flatMap (userPlainDocs c M) := by
    rw [allDocs_docJson c (orderOk_of_valid h hb), metadataDocs_routes M hk]
  refine ⟨h1, h2, fun hnd => ?_⟩
  rw [h1, h2]
  congr 1
  exact flatMap_congr_mem fun t _ => userPlainDocs_eq c M t hnd

/-- the hypotheses hold of `exampleM`, whose only deprecation sits on an enum value (not part of `allDocs`) -/
example : ValidParsed exampleM ∧ UserNotBuiltin exampleM ∧ RootKindsDistinct exampleM ∧
    ∀ td ∈ SchemaDecls.typeDefsOf exampleM, noDeprecation td = true :=
  ⟨exampleM_valid, by decide, by decide, by decide⟩

/-- **The `@deprecated` tag IS lost on the JSON route** (exempt by the property's wording: JSDoc): with
    `type Query { "old" f: Int @deprecated(reason: "r") }` the SDL route's comments are the lines `old`, `@deprecated r` (normalised text) in
    each of the two output namespaces, the JSON route's just `old`. -/
theorem C15_schemaDocs_deprecation_witness :
    let f : FieldDef := {
      name := "f", desc := some "old", ty := .named "Int" {},
      dirs := [{ name := "deprecated", args := [("reason", {}, .str "r" {})] }] }
    let M : TsDoc := [.typeDef { kind := .object, name := "Query", fields := [f] }]
    ValidParsed M ∧ UserNotBuiltin M ∧ RootKindsDistinct M ∧
    SchemaDecls.allDocs {} (docSdl M) = ["old\n@deprecated r", "old\n@deprecated r"] ∧
    SchemaDecls.allDocs {} (docJson M) = ["old", "old"] := by
  refine ⟨⟨⟨by decide, by decide, by decide, by decide, by decide⟩, by decide, by decide, by decide⟩, by decide,
    by decide, by decide, by decide⟩

/-! ## the SDL route's document in the order the pipeline really produces -/

open NitroVerif.DeterminismResolvers NitroVerif.DeterminismDecls in
/-- **The order of the SDL route's document does not matter beyond order.** The theorems above take the SDL route's
    document as `M` followed by the built-ins; the real pipeline hands the printers a REGROUPING of it
    (`resolve_schema_extensions` emits the directive definitions, the schema definition and the type definitions kind by
    kind — a permutation, C11). For every valid `M` (type names not those of built-in scalars) and EVERY permutation `D` of
    `M ++ builtins`: the resolvers file printed from `D` is `ResolversFileEquiv` to the one printed from `M ++ builtins`
    (same aliases and `Resolvers` fields up to their order and the order of union members), and the schema declaration
    file is produced for `D` iff it is for `M ++ builtins`, the two being `DeclFileEquiv` (C17: blocks permuted, interface
    unions' members permuted, metadata fields permuted). So the closed forms above describe the real SDL-route files up to
    exactly these reorderings. -/
theorem C15_sdl_route_any_order (c : DeclCfg.Cfg) (M : TsDoc) (h : ValidParsed M) (hb : UserNotBuiltin M) (D : TsDoc)
    (hp : D.Perm (docSdl M)) :
    ResolversFileEquiv (resolversFile c (docSdl M)) (resolversFile c D) ∧
    (∀ f, SchemaDecls.schemaFile c (docSdl M) = .ok f →
      ∃ f', SchemaDecls.schemaFile c D = .ok f' ∧ DeclFileEquiv f f') ∧
    (∀ e, SchemaDecls.schemaFile c (docSdl M) = .error e → ∃ e', SchemaDecls.schemaFile c D = .error e') := by
  have nd := noDupTypeNames_docSdl (orderOk_of_valid h hb)
  have one := oneSchemaDef_docSdl h.resolved
  obtain ⟨h1, h2⟩ := Determinism.C17_decls_perm c hp.symm nd one
  exact ⟨Determinism.C17_resolvers_perm c hp.symm, h1, h2⟩

/-- the hypotheses are satisfiable: `exampleM ++ builtins` with its definitions reversed -/
example : ValidParsed exampleM ∧ UserNotBuiltin exampleM ∧ (docSdl exampleM).reverse.Perm (docSdl exampleM) :=
  ⟨exampleM_valid, by decide, List.reverse_perm _⟩

/-!
## OPEN — carried by K/O only

See the block at the end of `Props/C15.lean`.  For this module: that `ResolverDecls.resolversFile` /
`SchemaDecls.schemaFile` / `allDocs` are the real printers (K of C10 on SDL inputs, the two-route O stream);
argument-description JSDoc inside the resolvers file (outside the model); WHICH permutation `resolve_schema_extensions`
applies (C11 — `C15_sdl_route_any_order` covers every permutation); `C15_schemaMetadata_duplicate_root_counterexample` is
a statement about the MODELS (`CheckTs.checkSchema`, `SchemaDecls.schemaMetadata`) and has not been replayed on the real
CLI.  Hypotheses not discharged anywhere: `ValidParsed`, `UserNotBuiltin`, `DeclsOk`, `RootKindsDistinct`, and for
`C15_schemaFile_routes_eq` that the SDL route produces the file.
-/

end NitroVerif.C15
