import NitroVerif.Lemmas.Peg
import NitroVerif.Lemmas.Build
import NitroVerif.Model.Build
import NitroVerif.Spec.Lex
/-!
# C07 — parsing yields exactly the document the text denotes, with true positions

Property theorems only. Model: the GENERATED grammar (`Gen/Grammar.lean`, from grammar.pest) run by the PEG
interpreter `Model/Peg.lean`, the builders `Model/Build.lean` driven by the GENERATED patterns (`Gen/Parts.lean`);
reference string semantics `Spec/Lex.lean`. The model is tied to the code by the two translators and by K of
`harness/src/bin/c07.rs` (full ASTs with positions, error positions, panic sites).

What is proved here: positions (the line/column the builders report is an exact, invertible function of the offset
of the pair, and the text of a name/number node is the input slice at that position), the escape arms of string
decoding, terminal matching, and kernel-checked witnesses of the defects of DESIGN §9 t–v on the model.
What is NOT proved (see the OPEN block at the end): `∀ A τ, parse (render A τ) = A`; it is carried by K+O.
-/
namespace NitroVerif.C07
open NitroVerif.Peg NitroVerif.Build NitroVerif.Gen NitroVerif.Gen.Parts NitroVerif.Spec.Lex NitroVerif

/-! ### positions -/

/-- `posOf_inverse`: the (line, column) that pest reports for an offset determines the offset: looking the
    position up in the text again gives the offset back (for every offset up to and including the end). -/
theorem posOf_inverse (input : List Char) (off : Nat) (h : off ≤ input.length) :
    offsetOf input (lineCol input off) = some off := by
  have := (offsetOfFrom_lineColFrom input off 0 0 0 [] h (by simp) rfl).2
  simpa [offsetOf, lineCol] using this

example : lineCol "ab\ncd".toList 4 = (1, 1) ∧ offsetOf "ab\ncd".toList (1, 1) = some 4 := by decide +kernel

/-- `node_pos_true` for identifier nodes (names, aliases, type names, enum values, directive names, variables):
    the position the builder records for a pair is the 0-based line/column at which the pair's text starts in the
    input — looking it up gives the pair's start offset, and the input continues there with the node's text. -/
theorem node_pos_true (inp : List Char) (p : Pair) (h : p.start ≤ inp.length) :
    let (name, pos) := ident (Ctx.spec inp) p
    offsetOf inp (pos.line, pos.col) = some p.start ∧ name.toList <+: inp.drop p.start := by
  simp only [ident, toPos, asString, asStr, Ctx.spec]
  exact ⟨posOf_inverse inp p.start h, by simpa using slice_prefix inp p.start p.stop⟩

/-- the same for every node kind: `to_pos` of a pair is `lineCol` of its start, whatever the pair is -/
theorem pos_is_lineCol (inp : List Char) (p : Pair) :
    toPos (Ctx.spec inp) p = { line := (lineCol inp p.start).1, col := (lineCol inp p.start).2 } := rfl

/-- `names_verbatim`: an identifier is the input slice its pair spans, character for character -/
theorem names_verbatim (inp : List Char) (p : Pair) :
    (ident (Ctx.spec inp) p).1 = String.ofList (slice inp p.start p.stop) := rfl

/-- `numbers_verbatim`: an `IntValue` / `FloatValue` child of a `Value` pair becomes the literal text of its span,
    unchanged (no normalisation of sign, zeros, exponent) -/
theorem numbers_verbatim (inp : List Char) (fuel : Nat) (vs ve s e : Nat) (cs : List Pair) :
    buildValue (Ctx.spec inp) (fuel + 1) (.mk R.Value vs ve [.mk R.IntValue s e cs]) =
      .ok (.int (String.ofList (slice inp s e)) { line := (lineCol inp s).1, col := (lineCol inp s).2 }) ∧
    buildValue (Ctx.spec inp) (fuel + 1) (.mk R.Value vs ve [.mk R.FloatValue s e cs]) =
      .ok (.float (String.ofList (slice inp s e)) { line := (lineCol inp s).1, col := (lineCol inp s).2 }) := by
  constructor <;> rfl

/-- the compiled driver's O(1) tables are the definitions above: the position table and the array-backed text of
    `Ctx.ofInput` (what K runs) agree with `lineCol` / `slice` (what the theorems are about) at every offset of the
    input; the array-backed grammar table agrees with the list-backed one (`Peg.G.ofArray_look`). -/
theorem driver_tables_agree (inp : List Char) :
    (∀ o, o ≤ inp.length → (Ctx.ofInput inp).pos o = (Ctx.spec inp).pos o) ∧
    (∀ s e, (Ctx.ofInput inp).text s e = (Ctx.spec inp).text s e) ∧
    (∀ r, gArr.look r = gList.look r) :=
  ⟨ofInput_pos inp, ofInput_text inp, fun r => by
    unfold gArr gList
    exact G.ofArray_look _ _ _ r⟩

/-! ### terminals -/

/-- a string terminal consumes exactly its own characters (base case of `pair_span`) -/
theorem str_consumes_exactly (s rest r : List Char) (h : matchStr s rest = some r) : rest = s ++ r := by
  induction s generalizing rest with
  | nil => simp [matchStr] at h; simp [h]
  | cons c s ih =>
    cases rest with
    | nil => simp [matchStr] at h
    | cons d rest =>
      simp only [matchStr] at h
      split at h
      · rename_i hcd
        subst hcd
        simp [ih rest h]
      · cases h

/-! ### strings -/

/-- `string_decode`, escape arm: each two-character escape the reference writer produces is decoded back to the
    character it stands for (`"`, `\`, backspace, form feed, newline, carriage return, tab) -/
theorem string_decode_escape (c e : Char) (h : simpleEscape? c = some e) : escapedChar ['\\', e] = .ok c := by
  unfold simpleEscape? at h
  repeat' split at h
  all_goals first
    | (cases h; subst_vars; rfl)
    | cases h

/-- `string_decode`, `\u` arm: the code of any character decodes to that character (`char::from_u32` succeeds on
    every scalar value) -/
theorem string_decode_code (c : Char) : charFromU32 c.toNat = .ok c := by
  have hv : validScalar c.toNat = true := by
    have := c.valid
    simp only [validScalar, Bool.or_eq_true, decide_eq_true_eq, Bool.and_eq_true]
    rcases this with h | h
    · exact Or.inl h
    · exact Or.inr h
  simp [charFromU32, hv]

/-- `string_decode`, plain arm: a character that needs no escape is written as itself -/
theorem string_decode_plain (c : Char) (h : simpleEscape? c = none) : specEscapeChar c = [c] := by
  simp [specEscapeChar, h]

/-- Finding t (OPEN, known finding C07-block-string-raw): the model — like the code — returns a block string raw.
    For `query { a(s: """⏎  a⏎""") }` the builder yields `"\n  a\n"` where the spec's BlockStringValue is `"a"`. -/
theorem block_string_counterexample :
    let inp := "query { a(s: \"\"\"\n  a\n\"\"\") }".toList
    (match Peg.parse gList (defaultFuel inp) R.ExecutableDocument inp with
      | .pairs ps =>
        match (flatList ps).find? (fun p => p.rule = R.StringValue) with
        | some p => match stringValueChars (Ctx.spec inp) p with
          | .ok (cs, _) => some cs
          | .error _ => none
        | none => none
      | _ => none) = some ['\n', ' ', ' ', 'a', '\n'] ∧
    blockStringValue (blockRaw ['\n', ' ', ' ', 'a', '\n']) = ['a'] := by
  decide +kernel

/-- the reference algorithm also undoes the `\"""` escape, the builder does not -/
example : blockStringValue (blockRaw "\n    x \\\"\"\" y\n  ".toList) = "x \"\"\" y".toList := by decide +kernel

/-! ### the repaired defects u, v as facts about the regenerated model -/

def isOk {α} : Outcome α → Bool
  | .ok _ => true
  | _ => false

/-- Finding v repaired (fbd660b): the anonymous-query shorthand `{ a }` parses to one anonymous query whose
    position is the `{` and whose only selection is the field `a` at column 2. -/
theorem shorthand_parses :
    (match parseOp "{ a }".toList with
      | .ok [.op o] =>
        o.kind == .query && o.name.isNone && o.vars.isEmpty && o.dirs.isEmpty && o.pos == { line := 0, col := 0 } &&
          (match o.sel with
           | [.field none n np [] [] none] => n.toList == ['a'] && np == { line := 0, col := 2 }
           | _ => false)
      | _ => false) = true := by
  decide +kernel

/-- the body `COMMENT` had on the pinned tree (a final NEWLINE was required) -/
def pinnedComment : Expr :=
  .seq (.str ['#']) (.seq (.star (.str [' '])) (.seq (.not (.call R.ext_ImportStatementContent))
    (.seq (.star (.call R.CommentCharacter)) (.call R.NEWLINE))))

def pinnedGrammar : G :=
  { gList with look := fun r => if r = R.COMMENT then some (.silent, pinnedComment) else gList.look r }

/-- Finding u (repaired by 3af476c): with the pinned `COMMENT` rule, `{a} #x` (comment without final newline) is a
    syntax error reported at offset 5; with the regenerated grammar it parses. -/
theorem comment_eof_counterexample :
    (match Peg.parse pinnedGrammar 8192 R.ExecutableDocument "{a} #x".toList with
      | .error 5 => true
      | _ => false) = true ∧
    isOk (parseOp "{a} #x".toList) = true ∧ isOk (parseTs "scalar S #".toList) = true := by
  decide +kernel

/-- trivia independence on a witness: the same document with commas, comments, a BOM and line breaks between
    all tokens has the same structure -/
example :
    isOk (parseOp "﻿query,Q # c\n ( $v : Int = 1 ) @d { a ( x : [ 1 , \"s\" ] ) ... on T { b } }".toList) = true := by
  decide +kernel

/-
OPEN — carried by K/O only (stated, not proved):

theorem pair_span :
    callRule g fuel r at_ la tr ⟨off, input.drop off⟩ = (tr', .ok c' ps) →
      c'.rest = input.drop c'.pos ∧ off ≤ c'.pos ∧ c'.pos ≤ input.length ∧
      ∀ p ∈ allPairs ps, off ≤ p.start ∧ p.start ≤ p.stop ∧ p.stop ≤ c'.pos   -- and children inside the parent
  -- the cursor invariant of the interpreter; the induction over the four mutually recursive functions is not
  -- done (base case: `str_consumes_exactly`). K compares the text and the position of every node with the real
  -- parser on every text, O compares them with the renderer's recorded token starts.

theorem skip_exact : the implicit skip consumes exactly the maximal run of trivia
theorem string_decode : stringValueChars (parse ("\"" ++ specEscape s ++ "\"")) = s      -- composed over a whole string
  -- the three arms are proved above (`string_decode_escape`, `string_decode_code`, `string_decode_plain`); the
  -- composition needs the PEG run on an arbitrary string (O: hostile strings of every generated document).
theorem render_parse_type, render_parse_value, and the full statement
theorem parse_render : ∀ A τ, parseModel (render A τ) = A
  -- a verified-parser result beyond this budget. Established by K (model = code, 0 disagreements on every
  -- generated text, canonical and noisy) + O (code = A, structure and positions) in harness/src/bin/c07.rs.
-/

end NitroVerif.C07
