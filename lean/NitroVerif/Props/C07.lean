import NitroVerif.Lemmas.Peg
import NitroVerif.Lemmas.Build
import NitroVerif.Lemmas.SkipInv
import NitroVerif.Lemmas.TypeBuild
import NitroVerif.Lemmas.ParseString
import NitroVerif.Model.Build
import NitroVerif.Spec.Lex
/-!
# C07 — parsing yields exactly the document the text denotes, with true positions

Property theorems only. Model: the GENERATED grammar (`Gen/Grammar.lean`, from grammar.pest) run by the PEG
interpreter `Model/Peg.lean`, the builders `Model/Build.lean` driven by the GENERATED patterns (`Gen/Parts.lean`);
reference string semantics `Spec/Lex.lean`. The model is tied to the code by the two translators and by K of
`harness/src/bin/c07.rs` (full ASTs with positions, error positions, panic sites).

What is proved here: positions (the line/column the builders report is an exact, invertible function of the offset
of the pair, and the text of a name/number node is the input slice at that position), the escape arms of string
decoding, terminal matching, and kernel-checked witnesses of the defects of DESIGN §9 t–v on the model.
`∀ A τ, parse (render A τ) = A` itself is proved in `Props/C07Doc.lean` for executable documents (without `#import` lines)
and for type-system documents; what is NOT proved is listed in the OPEN block at the end and carried by K+O.
-/
namespace NitroVerif.C07
open NitroVerif.Peg NitroVerif.Build NitroVerif.Gen NitroVerif.Gen.Parts NitroVerif.Spec.Lex NitroVerif

/-! ### positions -/

/-- `posOf_inverse`: the (line, column) that pest reports for an offset determines the offset: looking the
    position up in the text again gives the offset back (for every offset up to and including the end). -/
theorem posOf_inverse (input : List Char) (off : Nat) (h : off ≤ input.length) :
    offsetOf input (lineCol input off) = some off := by
  have := (offsetOfFrom_lineColFrom input off 0 0 0 [] h (by simp) rfl).2
  simpa [offsetOf, lineCol] using this

example : lineCol "ab\ncd".toList 4 = (1, 1) ∧ offsetOf "ab\ncd".toList (1, 1) = some 4 := by decide +kernel

/-- `node_pos_true` for identifier nodes (names, aliases, type names, enum values, directive names, variables):
    the position the builder records for a pair is the 0-based line/column at which the pair's text starts in the
    input — looking it up gives the pair's start offset, and the input continues there with the node's text. -/
theorem node_pos_true (inp : List Char) (p : Pair) (h : p.start ≤ inp.length) :
    let (name, pos) := ident (Ctx.spec inp) p
    offsetOf inp (pos.line, pos.col) = some p.start ∧ name.toList <+: inp.drop p.start := by
  simp only [ident, toPos, asString, asStr, Ctx.spec]
  exact ⟨posOf_inverse inp p.start h, by simpa using slice_prefix inp p.start p.stop⟩

/-- the same for every node kind: `to_pos` of a pair is `lineCol` of its start, whatever the pair is -/
theorem pos_is_lineCol (inp : List Char) (p : Pair) :
    toPos (Ctx.spec inp) p = { line := (lineCol inp p.start).1, col := (lineCol inp p.start).2 } := rfl

/-- `names_verbatim`: an identifier is the input slice its pair spans, character for character -/
theorem names_verbatim (inp : List Char) (p : Pair) :
    (ident (Ctx.spec inp) p).1 = String.ofList (slice inp p.start p.stop) := rfl

/-- `numbers_verbatim`: an `IntValue` / `FloatValue` child of a `Value` pair becomes the literal text of its span,
    unchanged (no normalisation of sign, zeros, exponent) -/
theorem numbers_verbatim (inp : List Char) (fuel : Nat) (vs ve s e : Nat) (cs : List Pair) :
    buildValue (Ctx.spec inp) (fuel + 1) (.mk R.Value vs ve [.mk R.IntValue s e cs]) =
      .ok (.int (String.ofList (slice inp s e)) { line := (lineCol inp s).1, col := (lineCol inp s).2 }) ∧
    buildValue (Ctx.spec inp) (fuel + 1) (.mk R.Value vs ve [.mk R.FloatValue s e cs]) =
      .ok (.float (String.ofList (slice inp s e)) { line := (lineCol inp s).1, col := (lineCol inp s).2 }) := by
  constructor <;> rfl

/-- the compiled driver's O(1) tables are the definitions above: the position table and the array-backed text of
    `Ctx.ofInput` (what K runs) agree with `lineCol` / `slice` (what the theorems are about) at every offset of the
    input; the array-backed grammar table agrees with the list-backed one (`Peg.G.ofArray_look`). -/
theorem driver_tables_agree (inp : List Char) :
    (∀ o, o ≤ inp.length → (Ctx.ofInput inp).pos o = (Ctx.spec inp).pos o) ∧
    (∀ s e, (Ctx.ofInput inp).text s e = (Ctx.spec inp).text s e) ∧
    (∀ r, gArr.look r = gList.look r) :=
  ⟨ofInput_pos inp, ofInput_text inp, fun r => by
    unfold gArr gList
    exact G.ofArray_look _ _ _ r⟩

/-! ### terminals -/

/-- a string terminal consumes exactly its own characters (base case of `pair_span`) -/
theorem str_consumes_exactly (s rest r : List Char) (h : matchStr s rest = some r) : rest = s ++ r :=
  matchStr_eq h

/-! ### spans -/

/-- `pair_span`: for ANY grammar table, rule, atomicity, lookahead state and depth bound — a rule call that starts
    at an offset inside the input and succeeds ends at a consistent cursor (`rest = input.drop pos`, `pos ≤ |input|`)
    and the pairs it returns are well-formed spans (`SpanOk`): listed in input order without overlap, all inside
    [start offset, end offset], each with `start ≤ end` and with its children — recursively — inside it.
    Offsets are code points, so every span is on character boundaries by construction; the text of a pair is the
    slice `input[start, end)` (`Pair::as_str` = `Peg.slice`). -/
theorem pair_span (g : G) (fuel : Nat) (r : RuleId) (at_ : Atomicity) (la : Look) (tr : Tr) (input : List Char)
    (off : Nat) (hoff : off ≤ input.length) (tr' : Tr) (c' : Cur) (ps : List Pair)
    (h : callRule g fuel r at_ la tr ⟨off, input.drop off⟩ = (tr', .ok c' ps)) :
    c'.pos ≤ input.length ∧ c'.rest = input.drop c'.pos ∧ SpanOk off c'.pos ps := by
  obtain ⟨⟨h1, h2⟩, h3⟩ := (spanInv g input fuel).cr r at_ la tr ⟨off, input.drop off⟩ tr' c' ps ⟨hoff, rfl⟩ h
  exact ⟨h1, h2, h3⟩

/-- … in particular for the parser entry point: every pair of a parse result, at any depth, satisfies
    `start ≤ end ≤ |input|`, and the top-level pairs are well-formed spans of the whole input -/
theorem parse_pairs_in_bounds (g : G) (fuel : Nat) (r : RuleId) (input : List Char) (ps : List Pair)
    (h : Peg.parse g fuel r input = .pairs ps) :
    SpanOk 0 input.length ps ∧ ∀ p ∈ flatList ps, p.start ≤ p.stop ∧ p.stop ≤ input.length := by
  unfold Peg.parse runTr at h
  rcases hc : callRule g fuel r .nonAtomic .none {} ⟨0, input⟩ with ⟨tr, o⟩
  rw [hc] at h
  cases o with
  | ok c' ps' =>
    simp only [ParseResult.pairs.injEq] at h
    subst h
    obtain ⟨h1, _, h3⟩ := pair_span g fuel r .nonAtomic .none {} input 0 (Nat.zero_le _) tr c' ps' (by simpa using hc)
    have hw := h3.widen h1
    exact ⟨hw, fun p hp => (spanOk_flat_bounds hw p hp).2⟩
  | fail => simp at h
  | oof => simp at h

example : SpanOk 0 5 [.mk 48 0 5 [.mk 49 0 5 [.mk 51 0 5 [.mk 52 0 5 [.mk 53 2 3 []]]]]] :=
  .cons (Nat.le_refl _) (.cons (Nat.le_refl _) (.cons (Nat.le_refl _) (.cons (Nat.le_refl _)
    (.cons (by decide) (.nil (by decide)) (.nil (by decide))) (.nil (Nat.le_refl _))) (.nil (Nat.le_refl _)))
    (.nil (Nat.le_refl _))) (.nil (Nat.le_refl _))

/-! ### implicit skipping -/

/-- `skip_exact`: in a non-atomic context the implicit skip between sequence items / repetitions consumes exactly a
    maximal run of trivia: the cursor moves from `c` to `c'` by matches of WHITESPACE and COMMENT only
    (`TriviaRun`), and at `c'` neither WHITESPACE nor COMMENT matches (`FailsAt`) — for any grammar table that
    defines both rules, any lookahead state and depth bound. -/
theorem skip_exact (g : G) (w m : RuleId) (hw : g.ws = some w) (hm : g.cm = some m) (fuel : Nat) (la : Look)
    (tr : Tr) (c : Cur) (tr' : Tr) (c' : Cur) (ps : List Pair)
    (h : doSkip g fuel true .nonAtomic la tr c = (tr', .ok c' ps)) :
    TriviaRun g w m .nonAtomic la c c' ∧ FailsAt g (.call w) .nonAtomic la c' ∧ FailsAt g (.call m) .nonAtomic la c' := by
  cases fuel with
  | zero => simp [doSkip_zero] at h
  | succ fuel =>
    simp only [doSkip, and_self, if_true, G.skipExpr, hw, hm] at h
    exact skipExpr_exact g h

/-- … and in an atomic or compound-atomic context nothing is skipped -/
theorem skip_atomic_noop (g : G) (fuel : Nat) (sk : Bool) (at_ : Atomicity) (hat : at_ ≠ .nonAtomic) (la : Look)
    (tr : Tr) (c : Cur) : doSkip g (fuel + 1) sk at_ la tr c = (tr, .ok c []) := by
  simp [doSkip, hat]

example : gList.ws = some R.WHITESPACE ∧ gList.cm = some R.COMMENT := ⟨rfl, rfl⟩

/-! ### render ∘ parse for the `Type` sub-language -/

open NitroVerif.TypeParse in
/-- `render_parse_type`: for EVERY type the grammar can express (`WF`: valid names, no `!!`; any nesting depth, any
    names) — running the GENERATED grammar's `Type` rule (generic interpreter, the rule bodies read from
    `Gen.grammar` by `rfl`) on the canonical rendering of `t` and then the builder `build_type` gives `t` back, with
    every position equal to the line/column of the corresponding token; for every parser depth bound ≥ `Kty t` and
    builder depth bound ≥ `Dt t + 1`, both linear in the length of the text. -/
theorem render_parse_type (t : Gql.GType) (hwf : WF t) (fuel bfuel : Nat) (hf : Kty t ≤ fuel) (hb : Dt t + 1 ≤ bfuel) :
    ∃ pair, Peg.parse gList fuel R.«Type» (renderT t) = .pairs [pair] ∧
      buildType (Ctx.spec (renderT t)) bfuel pair = .ok (withPos (renderT t) 0 t) := by
  refine ⟨typePair t 0, parse_type_pairs t hwf fuel hf, ?_⟩
  obtain ⟨k, rfl⟩ : ∃ k, bfuel = Dt t + k + 1 := ⟨bfuel - (Dt t + 1), by omega⟩
  exact buildType_typePair (renderT t) t hwf 0 [] k (by simp)

open NitroVerif.TypeParse in
/-- … in the terms of the shared vocabulary: with the depth bounds the parser model actually uses
    (`defaultFuel`, `4·|input| + 64`), the text is `GType.render t` and the result equals `t` up to positions. -/
theorem render_parse_type_default (t : Gql.GType) (hwf : WF t) :
    let inp := t.render.toList
    ∃ pair t', Peg.parse gList (defaultFuel inp) R.«Type» inp = .pairs [pair] ∧
      buildType (Ctx.spec inp) (4 * inp.length + 64) pair = .ok t' ∧ t'.erasePos = t.erasePos := by
  simp only [render_toList]
  have h1 := kin_linear t
  have h2 := dt_linear t
  obtain ⟨pair, hp, hb⟩ := render_parse_type t hwf (defaultFuel (renderT t)) (4 * (renderT t).length + 64)
    (by simp only [Kty, defaultFuel]; omega) (by omega)
  exact ⟨pair, _, hp, hb, withPos_erase _ t 0⟩

open NitroVerif.TypeParse in
example : WF (.nonNull (.list (.nonNull (.named "Int" {})) {})) := by
  refine ⟨⟨?_, rfl⟩, rfl⟩
  show validName "Int".toList
  have : "Int".toList = ['I', 'n', 't'] := by decide
  rw [this]
  refine ⟨by decide, fun x hx => ?_⟩
  simp only [List.mem_cons, List.not_mem_nil, or_false] at hx
  rcases hx with rfl | rfl <;> decide

/-! ### strings -/

/-- `string_decode`, escape arm: each two-character escape the reference writer produces is decoded back to the
    character it stands for (`"`, `\`, backspace, form feed, newline, carriage return, tab) -/
theorem string_decode_escape (c e : Char) (h : simpleEscape? c = some e) : escapedChar ['\\', e] = .ok c := by
  unfold simpleEscape? at h
  repeat' split at h
  all_goals first
    | (cases h; subst_vars; rfl)
    | cases h

/-- `string_decode`, `\u` arm: the code of any character decodes to that character (`char::from_u32` succeeds on
    every scalar value) -/
theorem string_decode_code (c : Char) : charFromU32 c.toNat = .ok c := by
  have hv : validScalar c.toNat = true := by
    have := c.valid
    simp only [validScalar, Bool.or_eq_true, decide_eq_true_eq, Bool.and_eq_true]
    rcases this with h | h
    · exact Or.inl h
    · exact Or.inr h
  simp [charFromU32, hv]

/-- `string_decode`, plain arm: a character that needs no escape is written as itself -/
theorem string_decode_plain (c : Char) (h : simpleEscape? c = none) : specEscapeChar c = [c] := by
  simp [specEscapeChar, h]

open NitroVerif.StringParse in
/-- `string_decode`, composed over a whole literal, anywhere in an input: for EVERY list of characters `s`, if the input
    continues at offset `off` with the canonical literal `"` ++ specEscape s ++ `"` (and, for the empty string, the
    literal is not followed by a third `"`, which would open a block string), then the GENERATED grammar's `StringValue`
    rule (generic interpreter, any calling context, every depth bound ≥ |s| + 40) consumes exactly the literal and
    yields one `StringValue` pair, on which `build_string_value` returns exactly `s` and the line/column of the opening
    quote. (The PEG run over the string body is an induction on `s` through the interpreter's `e*` unfolding; the three
    arms are `string_decode_escape` / `string_decode_plain` above. `\uXXXX` escapes are not produced by `specEscape`.) -/
theorem string_decode_at (s : List Char) (inp : List Char) (off : Nat) (rest : List Char)
    (h : inp.drop off = '"' :: (specEscape s ++ ['"']) ++ rest) (hend : s = [] → ∀ d r, rest = d :: r → d ≠ '"')
    (at_ : Atomicity) (fuel : Nat) (hf : s.length + 40 ≤ fuel) :
    ∃ pair, Peg.run gList fuel R.StringValue inp off at_ = some (off + ((specEscape s).length + 2), [pair]) ∧
      stringValueChars (Ctx.spec inp) pair = .ok (s, { line := (lineCol inp off).1, col := (lineCol inp off).2 }) := by
  refine ⟨stringPair s off, ?_, stringValueChars_stringPair s off rest h⟩
  have hr := stringValue_runs s off rest (fun hs d r he hd => hend hs d r he hd) (at_ := at_)
  obtain ⟨tr', h'⟩ := hr {}
  have := h' fuel hf
  unfold Peg.run
  rw [h]
  simp only [quoted] at this
  rw [this]
  simp

/-- the hypotheses of `string_decode_at` are satisfiable -/
example : ("f(s: \"a\\n\")".toList).drop 5 = '"' :: (specEscape ['a', '\n'] ++ ['"']) ++ [')'] := by decide

open NitroVerif.StringParse in
/-- `string_decode`: for EVERY list of characters `s`, parsing the canonical literal `"` ++ specEscape s ++ `"` with
    the generated grammar's `StringValue` rule and building it gives `s` back — with the depth bound the parser model
    actually uses. Every `s` is covered: each character is either one of the seven that `specEscape` writes as a
    two-character escape, or it is none of `"`, `\`, LF, CR and is written as itself. -/
theorem string_decode (s : List Char) :
    let inp := '"' :: (specEscape s ++ ['"'])
    ∃ pair, Peg.parse gList (defaultFuel inp) R.StringValue inp = .pairs [pair] ∧
      stringValueChars (Ctx.spec inp) pair = .ok (s, { line := 0, col := 0 }) := by
  intro inp
  refine ⟨stringPair s 0, ?_, ?_⟩
  · have hr := stringValue_runs s 0 [] (fun _ d r he => by cases he) (at_ := .nonAtomic)
    obtain ⟨tr', h'⟩ := hr {}
    have := h' (defaultFuel inp) (by have := specEscape_length_ge s; simp [defaultFuel, inp]; omega)
    simp only [List.append_nil] at this
    simp [Peg.parse, runTr, inp, quoted] at this ⊢
    rw [this]
  · have := stringValueChars_stringPair (inp := inp) s 0 [] (by simp [inp, quoted])
    simpa [lineCol, lineColFrom] using this

example : specEscape ['a', '"', '\n', Char.ofNat 0x1F600] = ['a', '\\', '"', '\\', 'n', Char.ofNat 0x1F600] := by decide

/-- Finding t (OPEN, known finding C07-block-string-raw): the model — like the code — returns a block string raw.
    For `query { a(s: """⏎  a⏎""") }` the builder yields `"\n  a\n"` where the spec's BlockStringValue is `"a"`. -/
theorem block_string_counterexample :
    let inp := "query { a(s: \"\"\"\n  a\n\"\"\") }".toList
    (match Peg.parse gList (defaultFuel inp) R.ExecutableDocument inp with
      | .pairs ps =>
        match (flatList ps).find? (fun p => p.rule = R.StringValue) with
        | some p => match stringValueChars (Ctx.spec inp) p with
          | .ok (cs, _) => some cs
          | .error _ => none
        | none => none
      | _ => none) = some ['\n', ' ', ' ', 'a', '\n'] ∧
    blockStringValue (blockRaw ['\n', ' ', ' ', 'a', '\n']) = ['a'] := by
  decide +kernel

/-- the reference algorithm also undoes the `\"""` escape, the builder does not -/
example : blockStringValue (blockRaw "\n    x \\\"\"\" y\n  ".toList) = "x \"\"\" y".toList := by decide +kernel

/-! ### the repaired defects u, v as facts about the regenerated model -/

def isOk {α} : Outcome α → Bool
  | .ok _ => true
  | _ => false

/-- Finding v repaired (fbd660b): the anonymous-query shorthand `{ a }` parses to one anonymous query whose
    position is the `{` and whose only selection is the field `a` at column 2. -/
theorem shorthand_parses :
    (match parseOp "{ a }".toList with
      | .ok [.op o] =>
        o.kind == .query && o.name.isNone && o.vars.isEmpty && o.dirs.isEmpty && o.pos == { line := 0, col := 0 } &&
          (match o.sel with
           | [.field none n np [] [] none] => n.toList == ['a'] && np == { line := 0, col := 2 }
           | _ => false)
      | _ => false) = true := by
  decide +kernel

/-- the body `COMMENT` had on the pinned tree (a final NEWLINE was required) -/
def pinnedComment : Expr :=
  .seq (.str ['#']) (.seq (.star (.str [' '])) (.seq (.not (.call R.ext_ImportStatementContent))
    (.seq (.star (.call R.CommentCharacter)) (.call R.NEWLINE))))

def pinnedGrammar : G :=
  { gList with look := fun r => if r = R.COMMENT then some (.silent, pinnedComment) else gList.look r }

/-- Finding u (repaired by 3af476c): with the pinned `COMMENT` rule, `{a} #x` (comment without final newline) is a
    syntax error reported at offset 5; with the regenerated grammar it parses. -/
theorem comment_eof_counterexample :
    (match Peg.parse pinnedGrammar 8192 R.ExecutableDocument "{a} #x".toList with
      | .error 5 => true
      | _ => false) = true ∧
    isOk (parseOp "{a} #x".toList) = true ∧ isOk (parseTs "scalar S #".toList) = true := by
  decide +kernel

/-- trivia independence on a witness: the same document with commas, comments, a BOM and line breaks between
    all tokens has the same structure -/
example :
    isOk (parseOp "﻿query,Q # c\n ( $v : Int = 1 ) @d { a ( x : [ 1 , \"s\" ] ) ... on T { b } }".toList) = true := by
  decide +kernel

/-
PROVED since wave 3 (no longer open): `string_decode` / `string_decode_at` above (composed over a whole literal, every
`s`), and in `Props/C07Value.lean`: `render_parse_value` (+ `_at`, `_default`, `_canonical`) — the whole `Value`
sub-language, nested lists/objects, all scalar kinds — `render_parse_arguments` (`( name: value … )`) and
`render_parse_directives` (`@name(args) @name …`), all with ARBITRARY trivia (spaces, tabs, line terminators, commas, BOM
and `# …` comments) at every gap between tokens, true positions included.

OPEN — carried by K/O only (stated, not proved):

theorem render_parse_value with comments whose text begins (after spaces) with `import`, or a comment at the very end of
the input without a line terminator
  -- `Ws` (Lemmas/ParseComment.lean) covers every comment `# text ⏎` (LF, CR LF or CR) whose text does not begin with the
  -- letters `import`: for those the rule's negative lookahead `!ext_ImportStatementContent` would have to be followed
  -- through the whole `#import … from "…"` grammar. Whitespace, commas, BOM and all other comments are proved.
theorem string_decode for literals with `\uXXXX` / `\u{…}` escapes and for block strings
  -- `specEscape` never writes `\u` escapes (every character has a plain or two-character form), so `string_decode`
  -- covers every string VALUE but not every string LITERAL; block strings are returned raw (open finding t).
theorem parse_render : ∀ A τ, parseModel (render A τ) = A      -- the full document language
  -- PROVED (Props/C07Doc.lean) for both entry points, at the strength "every well-formed document, every trivia assignment":
  --  * EXECUTABLE documents without `#import` lines: `parse_render_operation_document` (+ `_erase`): for every non-empty list
  --    of well-formed operations / fragments, every trivia assignment and every choice of the `{ … }` shorthand,
  --    `parseOp (rDoc τ sh doc) = .ok (wpDoc …)` — the model of `parse_operation_document` (generated grammar, the model's own
  --    depth bounds, `validate_unicode_escapes`, builders) returns the document with the true position of every token; levels
  --    below it: `render_parse_selection`, `render_parse_selection_set`, `render_parse_type_trivia`,
  --    `render_parse_variable_definition`, `render_parse_executable_definition`.
  --  * TYPE-SYSTEM documents, ALL kinds of item: `parse_render_type_system_document` (+ `_erase`): for every non-empty list of
  --    well-formed SchemaDefinition / Scalar … InputObject TypeDefinition / DirectiveDefinition / SchemaExtension / Scalar …
  --    InputObject TypeExtension, with descriptions, directives, implements lists, field / argument / input-value / enum-value
  --    definitions, default values, root operation types, `repeatable`, directive locations:
  --    `parseTs (rTsDoc τ doc) = .ok (wpTsDoc …)`; every EARLIER alternative of the grammar's ordered choices
  --    (`TypeSystemDefinition | TypeSystemExtension`, `SchemaDefinition | TypeDefinition | DirectiveDefinition`, the six kinds,
  --    the 2–3 alternatives of each rule, the 19 literals of the two `DirectiveLocation` rules) is shown to fail; levels below
  --    it: `render_parse_input_value_definition`, `render_parse_field_definition`, `render_parse_enum_value_definition`,
  --    `render_parse_type_system_definition`.
  -- Explicit side conditions of those theorems (all decidable; `WFDef`, `WFTsItem`, `Ws`):
  --  - names are valid names; a fragment / spread name is not `on`; an enum value is none of `true false null`; selection
  --    sets are non-empty; values / types are the well-formed ones of the earlier levels;
  --  - every gap is `Ws` (so: no comment whose text begins with `import`, no unterminated comment at the very end of the input);
  --  - string literals AND descriptions are rendered with `specEscape` as ordinary strings (no `\u` escapes, no block
  --    strings — open finding t: returned raw);
  --  - the rendering never writes the optional leading `&` / `|` of `implements`, union members, directive locations;
  --  - where two tokens could run together the gap is made non-empty, and CONSERVATIVELY also: between two selections,
  --    between two items of a type-system document (even after `}`), between two entries of a `{ … }` / `( … )` body of a
  --    type-system definition;
  --  - emptiness conditions that mirror the GRAMMAR (the rule has no alternative otherwise): an object type definition has
  --    fields or directives (`type T` and `type T implements I` alone are rejected by grammar.pest, unlike the
  --    specification); a union type definition has members (grammar.pest demands `=`); a schema definition has root
  --    operation types; a schema extension directives or root operation types; an object / interface type extension
  --    interfaces, directives or fields; a union type extension members or directives; a directive definition at least one
  --    location, each one of the 19 words; enum / input-object definitions and extensions MAY have no body, scalar
  --    extensions no directives (the grammar accepts them);
  --  - one condition that is a limit of the proof, not of the grammar: the bare `interface I` / `extend interface I` (no
  --    interfaces, no directives, no fields) is excluded (`ImplementsInterfaces?` is shown to fail only on a token that does
  --    not begin with `i`);
  --  - `_erase` for type-system documents: every item carries only what its rendering shows (`NormalItem`: a type definition
  --    or extension only the components of its kind, an extension no description).
  -- NOT proved: `#import` lines (`ext_ImportStatement`) in executable documents: the implicit skip in front of one stops
  -- because `COMMENT`'s negative lookahead `!ext_ImportStatementContent` SUCCEEDS in matching the import — that needs the
  -- whole calculus (`RunsK`, the skip lemmas) under negative lookahead, which is only available for lookahead state
  -- `.none`; block strings and `\u` escapes in literals; the comments excluded by `Ws`. These remain established by K
  -- (model = code, 0 disagreements on every generated text, canonical and noisy) + O (code = A, structure and positions) in
  -- harness/src/bin/c07.rs.
-/

end NitroVerif.C07
