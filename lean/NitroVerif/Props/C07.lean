import NitroVerif.Lemmas.Peg
import NitroVerif.Lemmas.Build
import NitroVerif.Lemmas.SkipInv
import NitroVerif.Lemmas.TypeBuild
import NitroVerif.Lemmas.ParseString
import NitroVerif.Lemmas.ParseMoreBlock
import NitroVerif.Lemmas.ParseMoreStrSpec
import NitroVerif.Model.Build
import NitroVerif.Spec.Lex
/-!
# C07 — parsing yields exactly the document the text denotes, with true positions

Property theorems only. Model: the GENERATED grammar (`Gen/Grammar.lean`, from grammar.pest) run by the PEG
interpreter `Model/Peg.lean`, the builders `Model/Build.lean` driven by the GENERATED patterns (`Gen/Parts.lean`);
reference string semantics `Spec/Lex.lean`. The model is tied to the code by the two translators and by K of
`harness/src/bin/c07.rs` (full ASTs with positions, error positions, panic sites).

All theorems are about this MODEL (interpreter + translated grammar + builder model), none is about the pest library or the
Rust builders themselves.

What is proved here: positions (the line/column the builders report is an exact, invertible function of the offset
of the pair, and the text of a name/number node is the input slice at that position), the span invariant and the exactness of
the implicit skip for any grammar table (`pair_span`, `skip_exact`), terminal matching, `render_parse_type`, string literals as
EMBEDDED literals (`string_decode*` for the canonical `specEscape` form, `string_decode_general(_spec)` for every escape form,
`parse_render_block_string_raw` for block strings — returned raw, open finding t), and kernel-checked witnesses of the defects
of DESIGN §9 t–v and of the surrogate-pair defect (fff8e9c) on the model.
`∀ A τ, parse (render A τ) = A` itself is proved — under the explicit side conditions listed in the OPEN block at the end — in
`Props/C07Doc.lean` for executable documents (with `#import` statements) and for type-system documents (`Props/C07Lead.lean`:
with the optional leading separators written everywhere); what is NOT proved is listed in the OPEN block at the end and carried
by K+O.
-/
namespace NitroVerif.C07
open NitroVerif.Peg NitroVerif.Build NitroVerif.Gen NitroVerif.Gen.Parts NitroVerif.Spec.Lex NitroVerif

/-! ### positions -/

/-- `posOf_inverse`: the (line, column) that pest reports for an offset determines the offset: looking the
    position up in the text again gives the offset back (for every offset up to and including the end). -/
theorem posOf_inverse (input : List Char) (off : Nat) (h : off ≤ input.length) :
    offsetOf input (lineCol input off) = some off := by
  have := (offsetOfFrom_lineColFrom input off 0 0 0 [] h (by simp) rfl).2
  simpa [offsetOf, lineCol] using this

example : lineCol "ab\ncd".toList 4 = (1, 1) ∧ offsetOf "ab\ncd".toList (1, 1) = some 4 := by decide +kernel

/-- `node_pos_true` for identifier nodes (names, aliases, type names, enum values, directive names, variables):
    the position the builder records for a pair is the 0-based line/column at which the pair's text starts in the
    input — looking it up gives the pair's start offset, and the input continues there with the node's text. -/
theorem node_pos_true (inp : List Char) (p : Pair) (h : p.start ≤ inp.length) :
    let (name, pos) := ident (Ctx.spec inp) p
    offsetOf inp (pos.line, pos.col) = some p.start ∧ name.toList <+: inp.drop p.start := by
  simp only [ident, toPos, asString, asStr, Ctx.spec]
  exact ⟨posOf_inverse inp p.start h, by simpa using slice_prefix inp p.start p.stop⟩

/-- the same for every node kind: `to_pos` of a pair is `lineCol` of its start, whatever the pair is -/
theorem pos_is_lineCol (inp : List Char) (p : Pair) :
    toPos (Ctx.spec inp) p = { line := (lineCol inp p.start).1, col := (lineCol inp p.start).2 } := rfl

/-- `names_verbatim`: an identifier is the input slice its pair spans, character for character -/
theorem names_verbatim (inp : List Char) (p : Pair) :
    (ident (Ctx.spec inp) p).1 = String.ofList (slice inp p.start p.stop) := rfl

/-- `numbers_verbatim`: an `IntValue` / `FloatValue` child of a `Value` pair becomes the literal text of its span,
    unchanged (no normalisation of sign, zeros, exponent) -/
theorem numbers_verbatim (inp : List Char) (fuel : Nat) (vs ve s e : Nat) (cs : List Pair) :
    buildValue (Ctx.spec inp) (fuel + 1) (.mk R.Value vs ve [.mk R.IntValue s e cs]) =
      .ok (.int (String.ofList (slice inp s e)) { line := (lineCol inp s).1, col := (lineCol inp s).2 }) ∧
    buildValue (Ctx.spec inp) (fuel + 1) (.mk R.Value vs ve [.mk R.FloatValue s e cs]) =
      .ok (.float (String.ofList (slice inp s e)) { line := (lineCol inp s).1, col := (lineCol inp s).2 }) := by
  constructor <;> rfl

/-- the compiled driver's O(1) tables are the definitions above: the position table and the array-backed text of
    `Ctx.ofInput` (what K runs) agree with `lineCol` / `slice` (what the theorems are about) at every offset of the
    input; the array-backed grammar table agrees with the list-backed one (`Peg.G.ofArray_look`). -/
theorem driver_tables_agree (inp : List Char) :
    (∀ o, o ≤ inp.length → (Ctx.ofInput inp).pos o = (Ctx.spec inp).pos o) ∧
    (∀ s e, (Ctx.ofInput inp).text s e = (Ctx.spec inp).text s e) ∧
    (∀ r, gArr.look r = gList.look r) :=
  ⟨ofInput_pos inp, ofInput_text inp, fun r => by
    unfold gArr gList
    exact G.ofArray_look _ _ _ r⟩

/-! ### terminals -/

/-- a string terminal consumes exactly its own characters (base case of `pair_span`) -/
theorem str_consumes_exactly (s rest r : List Char) (h : matchStr s rest = some r) : rest = s ++ r :=
  matchStr_eq h

/-! ### spans -/

/-- `pair_span`: for ANY grammar table, rule, atomicity, lookahead state and depth bound — a rule call that starts
    at an offset inside the input and succeeds ends at a consistent cursor (`rest = input.drop pos`, `pos ≤ |input|`)
    and the pairs it returns are well-formed spans (`SpanOk`): listed in input order without overlap, all inside
    [start offset, end offset], each with `start ≤ end` and with its children — recursively — inside it.
    Offsets are code points, so every span is on character boundaries by construction; the text of a pair is the
    slice `input[start, end)` (`Pair::as_str` = `Peg.slice`). -/
theorem pair_span (g : G) (fuel : Nat) (r : RuleId) (at_ : Atomicity) (la : Look) (tr : Tr) (input : List Char)
    (off : Nat) (hoff : off ≤ input.length) (tr' : Tr) (c' : Cur) (ps : List Pair)
    (h : callRule g fuel r at_ la tr ⟨off, input.drop off⟩ = (tr', .ok c' ps)) :
    c'.pos ≤ input.length ∧ c'.rest = input.drop c'.pos ∧ SpanOk off c'.pos ps := by
  obtain ⟨⟨h1, h2⟩, h3⟩ := (spanInv g input fuel).cr r at_ la tr ⟨off, input.drop off⟩ tr' c' ps ⟨hoff, rfl⟩ h
  exact ⟨h1, h2, h3⟩

/-- … in particular for the parser entry point: every pair of a parse result, at any depth, satisfies
    `start ≤ end ≤ |input|`, and the top-level pairs are well-formed spans of the whole input -/
theorem parse_pairs_in_bounds (g : G) (fuel : Nat) (r : RuleId) (input : List Char) (ps : List Pair)
    (h : Peg.parse g fuel r input = .pairs ps) :
    SpanOk 0 input.length ps ∧ ∀ p ∈ flatList ps, p.start ≤ p.stop ∧ p.stop ≤ input.length := by
  unfold Peg.parse runTr at h
  rcases hc : callRule g fuel r .nonAtomic .none {} ⟨0, input⟩ with ⟨tr, o⟩
  rw [hc] at h
  cases o with
  | ok c' ps' =>
    simp only [ParseResult.pairs.injEq] at h
    subst h
    obtain ⟨h1, _, h3⟩ := pair_span g fuel r .nonAtomic .none {} input 0 (Nat.zero_le _) tr c' ps' (by simpa using hc)
    have hw := h3.widen h1
    exact ⟨hw, fun p hp => (spanOk_flat_bounds hw p hp).2⟩
  | fail => simp at h
  | oof => simp at h

example : SpanOk 0 5 [.mk 48 0 5 [.mk 49 0 5 [.mk 51 0 5 [.mk 52 0 5 [.mk 53 2 3 []]]]]] :=
  .cons (Nat.le_refl _) (.cons (Nat.le_refl _) (.cons (Nat.le_refl _) (.cons (Nat.le_refl _)
    (.cons (by decide) (.nil (by decide)) (.nil (by decide))) (.nil (Nat.le_refl _))) (.nil (Nat.le_refl _)))
    (.nil (Nat.le_refl _))) (.nil (Nat.le_refl _))

/-! ### implicit skipping -/

/-- `skip_exact`: in a non-atomic context the implicit skip between sequence items / repetitions consumes exactly a
    maximal run of trivia: the cursor moves from `c` to `c'` by matches of WHITESPACE and COMMENT only
    (`TriviaRun`), and at `c'` neither WHITESPACE nor COMMENT matches (`FailsAt`) — for any grammar table that
    defines both rules, any lookahead state and depth bound. -/
theorem skip_exact (g : G) (w m : RuleId) (hw : g.ws = some w) (hm : g.cm = some m) (fuel : Nat) (la : Look)
    (tr : Tr) (c : Cur) (tr' : Tr) (c' : Cur) (ps : List Pair)
    (h : doSkip g fuel true .nonAtomic la tr c = (tr', .ok c' ps)) :
    TriviaRun g w m .nonAtomic la c c' ∧ FailsAt g (.call w) .nonAtomic la c' ∧ FailsAt g (.call m) .nonAtomic la c' := by
  cases fuel with
  | zero => simp [doSkip_zero] at h
  | succ fuel =>
    simp only [doSkip, and_self, if_true, G.skipExpr, hw, hm] at h
    exact skipExpr_exact g h

/-- … and in an atomic or compound-atomic context nothing is skipped -/
theorem skip_atomic_noop (g : G) (fuel : Nat) (sk : Bool) (at_ : Atomicity) (hat : at_ ≠ .nonAtomic) (la : Look)
    (tr : Tr) (c : Cur) : doSkip g (fuel + 1) sk at_ la tr c = (tr, .ok c []) := by
  simp [doSkip, hat]

example : gList.ws = some R.WHITESPACE ∧ gList.cm = some R.COMMENT := ⟨rfl, rfl⟩

/-! ### render ∘ parse for the `Type` sub-language -/

open NitroVerif.TypeParse in
/-- `render_parse_type`: for EVERY type the grammar can express (`WF`: valid names, no `!!`; any nesting depth, any
    names) — running the GENERATED grammar's `Type` rule (generic interpreter, the rule bodies read from
    `Gen.grammar` by `rfl`) on the canonical rendering of `t` and then the builder `build_type` gives `t` back, with
    every position equal to the line/column of the corresponding token; for every parser depth bound ≥ `Kty t` and
    builder depth bound ≥ `Dt t + 1`, both linear in the length of the text. -/
theorem render_parse_type (t : Gql.GType) (hwf : WF t) (fuel bfuel : Nat) (hf : Kty t ≤ fuel) (hb : Dt t + 1 ≤ bfuel) :
    ∃ pair, Peg.parse gList fuel R.«Type» (renderT t) = .pairs [pair] ∧
      buildType (Ctx.spec (renderT t)) bfuel pair = .ok (withPos (renderT t) 0 t) := by
  refine ⟨typePair t 0, parse_type_pairs t hwf fuel hf, ?_⟩
  obtain ⟨k, rfl⟩ : ∃ k, bfuel = Dt t + k + 1 := ⟨bfuel - (Dt t + 1), by omega⟩
  exact buildType_typePair (renderT t) t hwf 0 [] k (by simp)

open NitroVerif.TypeParse in
/-- … in the terms of the shared vocabulary: with the depth bounds the parser model actually uses
    (`defaultFuel`, `4·|input| + 64`), the text is `GType.render t` and the result equals `t` up to positions. -/
theorem render_parse_type_default (t : Gql.GType) (hwf : WF t) :
    let inp := t.render.toList
    ∃ pair t', Peg.parse gList (defaultFuel inp) R.«Type» inp = .pairs [pair] ∧
      buildType (Ctx.spec inp) (4 * inp.length + 64) pair = .ok t' ∧ t'.erasePos = t.erasePos := by
  simp only [render_toList]
  have h1 := kin_linear t
  have h2 := dt_linear t
  obtain ⟨pair, hp, hb⟩ := render_parse_type t hwf (defaultFuel (renderT t)) (4 * (renderT t).length + 64)
    (by simp only [Kty, defaultFuel]; omega) (by omega)
  exact ⟨pair, _, hp, hb, withPos_erase _ t 0⟩

open NitroVerif.TypeParse in
example : WF (.nonNull (.list (.nonNull (.named "Int" {})) {})) := by
  refine ⟨⟨?_, rfl⟩, rfl⟩
  show validName "Int".toList
  have : "Int".toList = ['I', 'n', 't'] := by decide
  rw [this]
  refine ⟨by decide, fun x hx => ?_⟩
  simp only [List.mem_cons, List.not_mem_nil, or_false] at hx
  rcases hx with rfl | rfl <;> decide

/-! ### strings -/

/-- `string_decode`, escape arm: each two-character escape the reference writer produces is decoded back to the
    character it stands for (`"`, `\`, backspace, form feed, newline, carriage return, tab) -/
theorem string_decode_escape (c e : Char) (h : simpleEscape? c = some e) : escapedChar ['\\', e] = .ok c := by
  unfold simpleEscape? at h
  repeat' split at h
  all_goals first
    | (cases h; subst_vars; rfl)
    | cases h

/-- `string_decode`, `\u` arm: the code of any character decodes to that character (`char::from_u32` succeeds on
    every scalar value) -/
theorem string_decode_code (c : Char) : charFromU32 c.toNat = .ok c := by
  have hv : validScalar c.toNat = true := by
    have := c.valid
    simp only [validScalar, Bool.or_eq_true, decide_eq_true_eq, Bool.and_eq_true]
    rcases this with h | h
    · exact Or.inl h
    · exact Or.inr h
  simp [charFromU32, hv]

/-- `string_decode`, plain arm: a character that needs no escape is written as itself -/
theorem string_decode_plain (c : Char) (h : simpleEscape? c = none) : specEscapeChar c = [c] := by
  simp [specEscapeChar, h]

open NitroVerif.StringParse in
/-- `string_decode`, composed over a whole literal, anywhere in an input: for EVERY list of characters `s`, if the input
    continues at offset `off` with the canonical literal `"` ++ specEscape s ++ `"` (and, for the empty string, the
    literal is not followed by a third `"`, which would open a block string), then the GENERATED grammar's `StringValue`
    rule (generic interpreter, any calling context, every depth bound ≥ |s| + 40) consumes exactly the literal and
    yields one `StringValue` pair, on which `build_string_value` returns exactly `s` and the line/column of the opening
    quote. (The PEG run over the string body is an induction on `s` through the interpreter's `e*` unfolding; the three
    arms are `string_decode_escape` / `string_decode_plain` above. `\uXXXX` escapes are not produced by `specEscape`.) -/
theorem string_decode_at (s : List Char) (inp : List Char) (off : Nat) (rest : List Char)
    (h : inp.drop off = '"' :: (specEscape s ++ ['"']) ++ rest) (hend : s = [] → ∀ d r, rest = d :: r → d ≠ '"')
    (at_ : Atomicity) (fuel : Nat) (hf : s.length + 40 ≤ fuel) :
    ∃ pair, Peg.run gList fuel R.StringValue inp off at_ = some (off + ((specEscape s).length + 2), [pair]) ∧
      stringValueChars (Ctx.spec inp) pair = .ok (s, { line := (lineCol inp off).1, col := (lineCol inp off).2 }) := by
  refine ⟨stringPair s off, ?_, stringValueChars_stringPair s off rest h⟩
  have hr := stringValue_runs s off rest (fun hs d r he hd => hend hs d r he hd) (at_ := at_)
  obtain ⟨tr', h'⟩ := hr {}
  have := h' fuel hf
  unfold Peg.run
  rw [h]
  simp only [quoted] at this
  rw [this]
  simp

/-- the hypotheses of `string_decode_at` are satisfiable -/
example : ("f(s: \"a\\n\")".toList).drop 5 = '"' :: (specEscape ['a', '\n'] ++ ['"']) ++ [')'] := by decide

open NitroVerif.StringParse in
/-- `string_decode`: for EVERY list of characters `s`, parsing the canonical literal `"` ++ specEscape s ++ `"` with
    the generated grammar's `StringValue` rule and building it gives `s` back — with the depth bound the parser model
    actually uses. Every `s` is covered: each character is either one of the seven that `specEscape` writes as a
    two-character escape, or it is none of `"`, `\`, LF, CR and is written as itself. -/
theorem string_decode (s : List Char) :
    let inp := '"' :: (specEscape s ++ ['"'])
    ∃ pair, Peg.parse gList (defaultFuel inp) R.StringValue inp = .pairs [pair] ∧
      stringValueChars (Ctx.spec inp) pair = .ok (s, { line := 0, col := 0 }) := by
  intro inp
  refine ⟨stringPair s 0, ?_, ?_⟩
  · have hr := stringValue_runs s 0 [] (fun _ d r he => by cases he) (at_ := .nonAtomic)
    obtain ⟨tr', h'⟩ := hr {}
    have := h' (defaultFuel inp) (by have := specEscape_length_ge s; simp [defaultFuel, inp]; omega)
    simp only [List.append_nil] at this
    simp [Peg.parse, runTr, inp, quoted] at this ⊢
    rw [this]
  · have := stringValueChars_stringPair (inp := inp) s 0 [] (by simp [inp, quoted])
    simpa [lineCol, lineColFrom] using this

example : specEscape ['a', '"', '\n', Char.ofNat 0x1F600] = ['a', '\\', '"', '\\', 'n', Char.ofNat 0x1F600] := by decide

/-! ### ANY legal string literal (third stage): every escape form, block strings -/

open NitroVerif.StringParse in
/-- `string_decode_general`: for EVERY normal string literal the grammar admits — `"`, then one or more items, each one of
    the four alternatives of `StringCharacter` (`SItem`: a character other than `"` `\\` LF CR; `\\` + one of `" \\ / b f n r t`;
    `\\uXXXX` with four hexadecimal digits; `\\u{X…}` with one or more hexadecimal digits, any number of leading zeros), then
    `"` — embedded anywhere in an input: the GENERATED grammar's `StringValue` rule (generic interpreter, any calling context,
    depth bound linear in the text) consumes exactly the literal and yields one pair, on which
    * `build_string_value` (as repaired by fff8e9c) returns `decodeItems` of the items — a leading surrogate `\\uD800`–`\\uDBFF`
      immediately followed by a trailing surrogate `\\uDC00`–`\\uDFFF`, both written as `\\uXXXX`, is ONE supplementary character
      `0x10000 + ((lead − 0xD800) << 10) + (trail − 0xDC00)`; every other item is decoded on its own (`SItem.decode`: the
      character, the simple escape, `char::from_u32(u32::from_str_radix(digits, 16))`) — with the line/column of the
      opening quote;
    * `validate_unicode_escapes` (`firstBadEscape`, as repaired by fff8e9c) returns `scanItems`: the offset of a leading
      surrogate that is not immediately followed by a trailing one (another kind of character, `\\u{…}`, another lead, the
      end of the literal), of a trailing surrogate without lead, of a `\\u{…}` that denotes no scalar value — that is where
      the parser reports its syntax error — and nothing otherwise.
    (The empty literal `""` is `string_decode_at` with `s = []`; block strings: `parse_render_block_string_raw`.) -/
theorem string_decode_general (it : SItem) (its : List SItem) (hok : AllOk (it :: its)) (inp : List Char) (off : Nat)
    (rest : List Char) (h : inp.drop off = '"' :: (litText (it :: its) ++ '"' :: rest)) (at_ : Atomicity) (fuel : Nat)
    (hf : (litText (it :: its)).length + 60 ≤ fuel) :
    ∃ pair, Peg.run gList fuel R.StringValue inp off at_ = some (off + ((litText (it :: its)).length + 2), [pair]) ∧
      stringValueChars (Ctx.spec inp) pair =
        (decodeItems false (it :: its)).map (fun s => (s, { line := (lineCol inp off).1, col := (lineCol inp off).2 })) ∧
      firstBadEscape (Ctx.spec inp) [pair] = scanItems none (it :: its) (off + 1) := by
  refine ⟨litPair (it :: its) off, ?_, stringValueChars_litPair it its hok off rest h,
    firstBadEscape_litPair (it :: its) off rest h⟩
  obtain ⟨tr', h'⟩ := litValue_runs it its hok off rest (at_ := at_) {}
  have := h' fuel hf
  unfold Peg.run
  rw [h, this]

open NitroVerif.StringParse in
/-- `string_decode_general_spec` (since fix fff8e9c WITHOUT a side condition on surrogates): for every normal string literal
    the grammar admits whose unescaped characters are SourceCharacters, embedded anywhere in an input —
    `validate_unicode_escapes` accepts the literal IF AND ONLY IF the GraphQL specification assigns it a value
    (`GqlString.decodeStringLiteral`, spec §2.9.4, the reference written independently for C16: every `\\u` escape denotes a
    scalar value or is half of a well-formed surrogate pair), and then `build_string_value` returns exactly that value:
    `decode (parse literal) = specDecode literal`. -/
theorem string_decode_general_spec (it : SItem) (its : List SItem) (hok : AllOk (it :: its))
    (hsrc : ∀ c, SItem.plain c ∈ it :: its → GqlString.sourceChar c = true) (inp : List Char) (off : Nat) (rest : List Char)
    (h : inp.drop off = '"' :: (litText (it :: its) ++ '"' :: rest)) (at_ : Atomicity) (fuel : Nat)
    (hf : (litText (it :: its)).length + 60 ≤ fuel) :
    ∃ pair, Peg.run gList fuel R.StringValue inp off at_ = some (off + ((litText (it :: its)).length + 2), [pair]) ∧
      (firstBadEscape (Ctx.spec inp) [pair] = none ↔
        (GqlString.decodeStringLiteral ('"' :: (litText (it :: its) ++ ['"']))).isSome = true) ∧
      (firstBadEscape (Ctx.spec inp) [pair] = none → ∃ s,
        stringValueChars (Ctx.spec inp) pair = .ok (s, { line := (lineCol inp off).1, col := (lineCol inp off).2 }) ∧
        GqlString.decodeStringLiteral ('"' :: (litText (it :: its) ++ ['"'])) = some s) := by
  obtain ⟨pair, h1, h2, h3⟩ := string_decode_general it its hok inp off rest h at_ fuel hf
  obtain ⟨⟨a1, a2⟩, _⟩ := spec_items (it :: its) hok hsrc (off + 1)
  rw [decodeStringLiteral_lit_eq (it :: its) hok]
  refine ⟨pair, h1, ?_, ?_⟩ <;> rw [h3]
  rotate_left
  · intro hs
    obtain ⟨s, hd, hq⟩ := a1 hs
    exact ⟨s, by rw [h2, hd]; rfl, hq⟩
  refine ⟨fun hs => ?_, fun hs => ?_⟩
  · obtain ⟨s, _, hq⟩ := a1 hs
    rw [hq]; rfl
  · cases hsc : scanItems none (it :: its) (off + 1) with
    | none => rfl
    | some x =>
      rw [a2 (by rw [hsc]; simp)] at hs
      cases hs

open NitroVerif.StringParse in
/-- the hypotheses are satisfiable: `"a\\u0041\\u{1F600}\\/\\uD83D\\uDE00"` is such a literal, all four alternatives and a
    surrogate pair, value `aA😀/😀`; a lone lead is reported at its own offset -/
example : AllOk [.plain 'a', .u4 '0' '0' '4' '1', .ubrace ['1', 'F', '6', '0', '0'], .esc '/', .u4 'D' '8' '3' 'D', .u4 'D' 'E' '0' '0'] ∧
    litText [.plain 'a', .u4 '0' '0' '4' '1', .ubrace ['1', 'F', '6', '0', '0'], .esc '/', .u4 'D' '8' '3' 'D', .u4 'D' 'E' '0' '0'] =
      "a\\u0041\\u{1F600}\\/\\uD83D\\uDE00".toList ∧
    (decodeItems false [SItem.plain 'a', .u4 '0' '0' '4' '1', .ubrace ['1', 'F', '6', '0', '0'], .esc '/', .u4 'D' '8' '3' 'D',
      .u4 'D' 'E' '0' '0']).toOption = some ['a', 'A', Char.ofNat 0x1F600, '/', Char.ofNat 0x1F600] ∧
    scanItems none [SItem.plain 'a', .u4 'D' '8' '3' 'D', .plain 'b', .u4 'D' 'E' '0' '0'] 10 = some 11 := by
  refine ⟨?_, by decide, by decide, by decide⟩
  intro it hit
  simp only [List.mem_cons, List.not_mem_nil, or_false] at hit
  rcases hit with rfl | rfl | rfl | rfl | rfl | rfl <;> simp [SItem.Ok, escLetters] <;> decide

/-- BEFORE fix fff8e9c `string_decode_general_spec` did NOT extend to surrogate pairs: the specification reads
    `\\uD83D\\uDE00` (a leading and a trailing surrogate, both written as `\\uXXXX`) as the one character U+1F600, the parser —
    since the repair of the panic (668f535) — rejected the document with a syntax error at the first escape (line 0,
    column 14): witness on the PRE-REPAIR validation `firstBadEscapeOld` (kept in Model/Build.lean), kernel-checked. This is
    the statement that was found false in the third stage and led to the repair. -/
theorem string_decode_surrogate_pair_counterexample :
    GqlString.decodeStringLiteral "\"\\uD83D\\uDE00\"".toList = some [Char.ofNat 0x1F600] ∧
    rejectsOld R.ExecutableDocument "query { a(s: \"\\uD83D\\uDE00\") }".toList = some (0, 14) := by
  decide +kernel

/-- … and AFTER fix fff8e9c the model of `parse_operation_document` (validation and builder as repaired) returns the document
    whose string value is that one character; a lone lead, a reversed pair and a lead followed by `\\u{…}` stay syntax errors
    reported at the lead / at the trailing surrogate that has no lead. -/
theorem string_decode_surrogate_pair_repaired :
    (match parseOp "query { a(s: \"\\uD83D\\uDE00\") }".toList with
      | .ok [.op o] =>
        (match o.sel with
         | [.field none _ _ [(_, _, .str s sp)] [] none] => s.toList == [Char.ofNat 0x1F600] && sp == { line := 0, col := 13 }
         | _ => false)
      | _ => false) = true ∧
    (match parseOp "query { a(s: \"x\\uD83D\") }".toList with | .err 0 15 => true | _ => false) = true ∧
    (match parseOp "query { a(s: \"\\uDE00\\uD83D\") }".toList with | .err 0 14 => true | _ => false) = true ∧
    (match parseOp "query { a(s: \"\\uD83D\\u{DE00}\") }".toList with | .err 0 14 => true | _ => false) = true ∧
    (match parseOp "query { a(s: \"\\uD83D\") b(t: \"\\uDE00\") }".toList with | .err 0 14 => true | _ => false) = true := by
  decide +kernel

open NitroVerif.StringParse in
/-- `parse_render_block_string_raw` — what the model (like the code: open finding t) returns for a block string: for EVERY
    `body` that contains no `"""` other than as the tail of a `\"""` (`noBareTriple`, scanned left to right as the grammar's
    `BlockStringCharacter*` does) and whose last character is neither `"` nor `\` (`endsPlain`: either would be read together
    with the closing delimiter), wherever `"""` ++ body ++ `"""` occurs in an input (as a value or as a description), the
    GENERATED grammar's `StringValue` rule — `EmptyStringValue` and `NormalStringValue` are tried first and fail — consumes
    exactly that text and yields one pair, on which `build_string_value` returns EXACTLY `body`: the raw text between the
    delimiters, with the line/column of the opening delimiter; `validate_unicode_escapes` never objects (nothing inside a
    block string is an escape pair). So the value is the specification's `BlockStringValue` iff `body` is a fixed point of it
    (`block_string_value_spec_iff`). -/
theorem parse_render_block_string_raw (body : List Char) (h3 : noBareTriple body = true) (hend : endsPlain body = true)
    (inp : List Char) (off : Nat) (rest : List Char)
    (h : inp.drop off = ['"', '"', '"'] ++ (body ++ (['"', '"', '"'] ++ rest))) (at_ : Atomicity) (fuel : Nat)
    (hf : body.length + 30 ≤ fuel) :
    ∃ pair, Peg.run gList fuel R.StringValue inp off at_ = some (off + (body.length + 6), [pair]) ∧
      stringValueChars (Ctx.spec inp) pair = .ok (body, { line := (lineCol inp off).1, col := (lineCol inp off).2 }) ∧
      firstBadEscape (Ctx.spec inp) [pair] = none := by
  refine ⟨blockPair body.length off, ?_, stringValueChars_blockPair body off rest h, by
    simp [firstBadEscape, blockPair, flatList, flat, Pair.rule, R.StringValue, R.BlockStringValue,
      R.NormalStringValue]⟩
  obtain ⟨tr', h'⟩ := blockString_runs (blockBody_of body h3 hend) off rest (at_ := at_) {}
  have := h' fuel hf
  unfold Peg.run
  rw [h, this]

open NitroVerif.StringParse in
/-- the value returned for a block string is the specification's `BlockStringValue(rawValue)` exactly when the body is a
    fixed point of it (no common indentation, no blank first / last line, no `\"""`): finding t, characterised -/
theorem block_string_value_spec_iff (body : List Char) (h3 : noBareTriple body = true) (hend : endsPlain body = true)
    (inp : List Char) (off : Nat) (rest : List Char)
    (h : inp.drop off = ['"', '"', '"'] ++ (body ++ (['"', '"', '"'] ++ rest))) :
    ∃ pair, Peg.run gList (body.length + 30) R.StringValue inp off .nonAtomic = some (off + (body.length + 6), [pair]) ∧
      ((stringValueChars (Ctx.spec inp) pair).toOption.map Prod.fst = some (blockStringValue (blockRaw body)) ↔
        blockStringValue (blockRaw body) = body) := by
  obtain ⟨pair, h1, h2, _⟩ := parse_render_block_string_raw body h3 hend inp off rest h .nonAtomic _ (Nat.le_refl _)
  refine ⟨pair, h1, ?_⟩
  rw [h2]
  simp [Except.toOption, eq_comm]

open NitroVerif.StringParse in
/-- the hypotheses are satisfiable; a body with line breaks, a backslash, a lone quote inside, an escaped delimiter -/
example : noBareTriple "a \\n \" b\n  c \\\"\"\" d".toList = true ∧ endsPlain "a \\n \" b\n  c \\\"\"\" d".toList = true ∧
    noBareTriple "a\"\"\"b".toList = false ∧ endsPlain "a\\".toList = false := by decide

/-- Finding t (OPEN, known finding C07-block-string-raw): the model — like the code — returns a block string raw.
    For `query { a(s: """⏎  a⏎""") }` the builder yields `"\n  a\n"` where the spec's BlockStringValue is `"a"`. -/
theorem block_string_counterexample :
    let inp := "query { a(s: \"\"\"\n  a\n\"\"\") }".toList
    (match Peg.parse gList (defaultFuel inp) R.ExecutableDocument inp with
      | .pairs ps =>
        match (flatList ps).find? (fun p => p.rule = R.StringValue) with
        | some p => match stringValueChars (Ctx.spec inp) p with
          | .ok (cs, _) => some cs
          | .error _ => none
        | none => none
      | _ => none) = some ['\n', ' ', ' ', 'a', '\n'] ∧
    blockStringValue (blockRaw ['\n', ' ', ' ', 'a', '\n']) = ['a'] := by
  decide +kernel

/-- the reference algorithm also undoes the `\"""` escape, the builder does not -/
example : blockStringValue (blockRaw "\n    x \\\"\"\" y\n  ".toList) = "x \"\"\" y".toList := by decide +kernel

/-! ### the repaired defects u, v as facts about the regenerated model -/

def isOk {α} : Outcome α → Bool
  | .ok _ => true
  | _ => false

/-- Finding v repaired (fbd660b): the anonymous-query shorthand `{ a }` parses to one anonymous query whose
    position is the `{` and whose only selection is the field `a` at column 2. -/
theorem shorthand_parses :
    (match parseOp "{ a }".toList with
      | .ok [.op o] =>
        o.kind == .query && o.name.isNone && o.vars.isEmpty && o.dirs.isEmpty && o.pos == { line := 0, col := 0 } &&
          (match o.sel with
           | [.field none n np [] [] none] => n.toList == ['a'] && np == { line := 0, col := 2 }
           | _ => false)
      | _ => false) = true := by
  decide +kernel

/-- the body `COMMENT` had on the pinned tree (a final NEWLINE was required) -/
def pinnedComment : Expr :=
  .seq (.str ['#']) (.seq (.star (.str [' '])) (.seq (.not (.call R.ext_ImportStatementContent))
    (.seq (.star (.call R.CommentCharacter)) (.call R.NEWLINE))))

def pinnedGrammar : G :=
  { gList with look := fun r => if r = R.COMMENT then some (.silent, pinnedComment) else gList.look r }

/-- Finding u (repaired by 3af476c): with the pinned `COMMENT` rule, `{a} #x` (comment without final newline) is a
    syntax error reported at offset 5; with the regenerated grammar it parses. -/
theorem comment_eof_counterexample :
    (match Peg.parse pinnedGrammar 8192 R.ExecutableDocument "{a} #x".toList with
      | .error 5 => true
      | _ => false) = true ∧
    isOk (parseOp "{a} #x".toList) = true ∧ isOk (parseTs "scalar S #".toList) = true := by
  decide +kernel

/-- trivia independence on a witness: the same document with commas, comments, a BOM and line breaks between
    all tokens has the same structure -/
example :
    isOk (parseOp "﻿query,Q # c\n ( $v : Int = 1 ) @d { a ( x : [ 1 , \"s\" ] ) ... on T { b } }".toList) = true := by
  decide +kernel

/-
PROVED since wave 3 (no longer open): `string_decode` / `string_decode_at` above (composed over a whole literal, every
`s`), and in `Props/C07Value.lean`: `render_parse_value` (+ `_at`, `_default`, `_canonical`) — the whole `Value`
sub-language, nested lists/objects, all scalar kinds — `render_parse_arguments` (`( name: value … )`) and
`render_parse_directives` (`@name(args) @name …`), all with ARBITRARY trivia (spaces, tabs, line terminators, commas, BOM
and `# …` comments) at every gap between tokens, true positions included; `Props/C07Doc.lean`: whole documents.

PROVED in the third stage (this file, `Props/C07Doc.lean`, `Props/C07Lead.lean`; lemmas `Lemmas/ParseMore*.lean`):
  * lookahead transparency of the interpreter, for ANY grammar (`Lemmas/ParseMoreLook.lean`: `noPairs`, `fuelMono`,
    `lookShape`; `RunsL.look`, `FailsL.look`, …): success / failure and the end cursor of an evaluation do not depend on the
    lookahead state or the trace, a non-"out of depth" result is stable under a larger depth bound, no pairs under lookahead —
    so every forward lemma proved outside lookahead holds under any lookahead state;
  * `#import` statements: `render_parse_import_statement` (the statement parses to the import definition with true positions;
    the implicit skip STOPS in front of it because `COMMENT`'s negative lookahead finds the statement) and
    `parse_render_operation_document_full` (+ `_erase`): executable documents with operations, fragments AND import statements
    in any order, and optionally a final comment that is not terminated by a line break (repaired grammar);
  * comments whose text begins with `import`: `Ws` (the trivia every theorem of C07 quantifies over) now contains every
    comment `# text ⏎` whose text is VISIBLY not the beginning of an import statement (`NotImportHead`,
    Lemmas/ParseComment.lean): it does not begin with `import`, or `import` is followed by a name character (`#important`),
    or after `import` and blanks comes a character that starts neither a name, nor `*`, nor a nested comment
    (`# import: see below`, `#import "x"`, `# import 2 files`) — ALL theorems of C07Value / C07Doc / C07Lead hold for them;
  * every escape form of normal string literals: `string_decode_general` (any list of items `plain | \x | \uXXXX | \u{X…}`:
    the pair tree, what `build_string_value` returns — surrogate pairs combined —, which escape `validate_unicode_escapes`
    reports) and `string_decode_general_spec` (for literals whose unescaped characters are SourceCharacters — hypothesis
    `hsrc` —: the validation accepts iff the spec's StringValue semantics `GqlString.decodeStringLiteral literal` is defined,
    and then the value is that); both for NON-EMPTY literals of `AllOk` items, the empty literal is `string_decode_at`;
  * block strings: `parse_render_block_string_raw` (for every body the grammar reads to its end the parsed value is EXACTLY the
    raw text between the delimiters — open finding t characterised by a theorem) and `block_string_value_spec_iff`;
    both literal forms in the two contexts where the grammar has strings — as a `Value` (through `build_value`) and as a
    `Description` — `render_parse_string_value_general`, `render_parse_block_string_value_raw` (`Props/C07Value.lean`);
  * the optional leading `&` / `|`: `parse_render_type_system_document_lead` (+ `_erase`, `Props/C07Lead.lean`);
  * the bare `interface I` / `extend interface I`: `parse_render_type_system_document_full` (+ `_erase`): the former limit of
    the proof is gone — `ImplementsInterfaces?` is shown to fail on the WORD that follows (never `implements`: every item
    begins with a description or one of nine keywords), also in front of `interface …` / `input …`;
  * a final comment without line terminator: `skip_over_final_comment` (the implicit skip runs over arbitrary trivia and the
    final `#text` to the end of the input), used by `parse_render_operation_document_full`.

FOUND FALSE in the third stage, REPAIRED in the code (fix fff8e9c), now PROVED:
  theorem string_decode_spec_all : ∀ literal s, GqlString.decodeStringLiteral literal = some s → decode (parse literal) = s
  was false of the model and of the code: `"\uD83D\uDE00"` denotes U+1F600 by the specification (§2.9.4, a leading and a
  trailing surrogate written as two `\uXXXX` escapes), the parser rejected the document with a syntax error at the first
  escape (`string_decode_surrogate_pair_counterexample`: the witness on the PRE-REPAIR validation `firstBadEscapeOld`).
  fff8e9c made `validate_unicode_escapes` accept a lead immediately followed by a trail inside one literal and
  `build_string_value` combine them; Model/Build.lean mirrors it (`decodeChars`, `scanEscapes`; K 0 disagreements incl. error
  positions), and `string_decode_general_spec` now holds WITHOUT a side condition on surrogates: the validation accepts a
  literal iff the specification assigns it a value, and then the builder returns that value
  (`string_decode_surrogate_pair_repaired` is the kernel-checked witness on the repaired model).

OPEN — carried by K/O only (stated, not proved):

theorem parse_render with string literals OTHER than the `specEscape` form INSIDE whole documents
  -- `string_decode_general` and `parse_render_block_string_raw` are proved for a literal embedded ANYWHERE in an input (so they
  -- apply to every string value and every description of every document), but they are not COMPOSED with the document
  -- chain: the renderings `renderV` / `rDoc` / `rTsDoc` of `parse_render_*_document*` write every string value and every
  -- description (and the path of an import statement) as `"` ++ specEscape s ++ `"`. A document theorem over renderings
  -- that choose an arbitrary legal literal per string would need the chain re-proved over a rendering with a literal-form
  -- parameter. Block strings inside documents additionally are returned raw (open finding t).
theorem parse_render with a comment `# import …` that is not an import statement for a reason NOT visible in its line
  -- e.g. `#import A` / `#import A from` followed by a line break: whether this is a comment depends on the following lines
  -- (`ext_ImportStatementContent` skips line breaks: `#import A⏎from "x"` IS an import statement). `NotImportHead` covers
  -- the reasons visible up to the first import target; comments of the forms `#import Name…` / `#import *…` / `#import #…` /
  -- `#import` + blanks + end of line are carried by K/O.
theorem parse_render_type_system_document with a final comment that is not terminated by a line break
  -- proved for executable documents (`parse_render_operation_document_full`, `eof`); for type-system documents the last
  -- token of the last item varies with the item kind and the chain states "a token follows" (`Tok`), carried by K/O
  -- (`comment_eof_counterexample` is the kernel-checked witness `scalar S #`).
theorem parse_render_type_system_document with the leading `&` / `|` written in SOME lists of a document and not in others,
  or written (`_lead`) in a document that contains the bare `interface I` / `extend interface I`
  -- `parse_render_type_system_document(_full)` never writes the optional separator, `…_lead` writes it in every non-empty
  -- list and still has the old condition `WFTsItem`; a per-list choice would need the chain re-proved with that parameter.
theorem parse_render for texts with an EMPTY gap where the renderings force a space although the grammar needs none
  -- between two selections, between two items of a type-system document (even after `}`), between two entries of a
  -- `{ … }` / `( … )` body of a type-system definition, after `import` and after every import target that is a name.
theorem parse_render : ∀ A τ, parseModel (render A τ) = A      -- the full document language
  -- OPEN only in this unrestricted form (the cases above, and `A` / `τ` outside the side conditions below).
  -- PROVED (Props/C07Doc.lean, Props/C07Lead.lean) for both entry points, at the strength "every well-formed document, every
  -- trivia assignment" — of the MODEL (`parseOp` / `parseTs`: generated grammar + interpreter + builder model), not of pest:
  --  * EXECUTABLE documents: `parse_render_operation_document_full` (+ `_erase`): for every non-empty list of well-formed
  --    operations / fragments / `#import` statements, every trivia assignment, every choice of the `{ … }` shorthand, every
  --    number of spaces after the `#` of an import statement, optionally a final unterminated comment,
  --    `parseOp (rDocF …) = .ok (wpDocF …)` — the model of `parse_operation_document` (generated grammar, the model's own
  --    depth bounds, `validate_unicode_escapes`, builders) returns the document with the true position of every token;
  --    (`parse_render_operation_document` is the special case without import statements / final comment); levels below it:
  --    `render_parse_selection`, `render_parse_selection_set`, `render_parse_type_trivia`,
  --    `render_parse_variable_definition`, `render_parse_executable_definition`, `render_parse_import_statement`.
  --  * TYPE-SYSTEM documents, ALL kinds of item: `parse_render_type_system_document_full` (+ `_erase`; `…_document` is the
  --    special case without bare interface forms; `_lead` with the optional leading `&` / `|` written everywhere): for
  --    every non-empty list of well-formed SchemaDefinition / Scalar …
  --    InputObject TypeDefinition / DirectiveDefinition / SchemaExtension / Scalar … InputObject TypeExtension, with
  --    descriptions, directives, implements lists, field / argument / input-value / enum-value definitions, default values,
  --    root operation types, `repeatable`, directive locations: `parseTs (rTsDoc τ doc) = .ok (wpTsDoc …)`; every EARLIER
  --    alternative of the grammar's ordered choices (`TypeSystemDefinition | TypeSystemExtension`,
  --    `SchemaDefinition | TypeDefinition | DirectiveDefinition`, the six kinds, the 2–3 alternatives of each rule, the 19
  --    literals of the two `DirectiveLocation` rules) is shown to fail; levels below it:
  --    `render_parse_input_value_definition`, `render_parse_field_definition`, `render_parse_enum_value_definition`,
  --    `render_parse_type_system_definition`.
  -- Explicit side conditions of those theorems (all decidable; `WFDefF`, `WFTsItemF`, `Ws`):
  --  - names are valid names; a fragment / spread name is not `on`, an import target not `from`; an enum value is none of
  --    `true false null`; selection sets are non-empty; an import statement has at least one target; values / types are the
  --    well-formed ones of the earlier levels;
  --  - every gap is `Ws` (whitespace, commas, BOM, comments that are visibly not import statements — see above; the final
  --    unterminated comment of an executable document is the separate parameter `eof`);
  --  - string literals, descriptions and import paths are rendered with `specEscape` as ordinary strings (see above);
  --  - the leading `&` / `|` of `implements`, union members, directive locations is written either nowhere
  --    (`parse_render_type_system_document`) or everywhere (`…_lead`), not mixed within one document;
  --  - where two tokens could run together the gap is made non-empty, and CONSERVATIVELY also: between two selections,
  --    between two items of a type-system document (even after `}`), between two entries of a `{ … }` / `( … )` body of a
  --    type-system definition, after `import` and after every import target that is a name;
  --  - emptiness conditions that mirror the GRAMMAR (the rule has no alternative otherwise): an object type definition has
  --    fields or directives (`type T` and `type T implements I` alone are rejected by grammar.pest, unlike the
  --    specification); a union type definition has members (grammar.pest demands `=`); a schema definition has root
  --    operation types; a schema extension directives or root operation types; an object / interface type extension
  --    interfaces, directives or fields; a union type extension members or directives; a directive definition at least one
  --    location, each one of the 19 words; enum / input-object definitions and extensions MAY have no body, scalar
  --    extensions no directives (the grammar accepts them);
  --  - (the bare `interface I` / `extend interface I` is no longer excluded: `parse_render_type_system_document_full`; only the
  --    `_lead` variant still has the old condition `WFTsItem`);
  --  - `_erase` for type-system documents: every item carries only what its rendering shows (`NormalItem`: a type definition
  --    or extension only the components of its kind, an extension no description).
  -- These remaining cases stay established by K (model = code, 0 disagreements on every generated text, canonical and
  -- noisy) + O (code = A, structure and positions) in harness/src/bin/c07.rs.
-/

end NitroVerif.C07
