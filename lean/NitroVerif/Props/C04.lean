import NitroVerif.Lemmas.CheckOpCompleteHeader
import NitroVerif.Lemmas.CheckOpCompleteInt
/-!
# C04 — `check` raises no diagnostic on spec-valid operation documents

Property theorems only. Model and reference validator as for C03 (`Model/CheckOp.lean`, `Spec/Valid.lean`).
Proved here, for all schemas and documents: completeness of every part of the checker model — the main loop's
header diagnostics, variable definitions, fragment targets, directives at every location, `check_value` (all
values, by structural induction), arguments and field lookup, the selection-set walk through fields, inline
fragments and (by fuel, with fuel adequacy) fragment spreads, the subscription root count, the direct walk of
fragment definitions — and their assembly `C04_no_false_alarm_partial`: `checkOp S D = []` for every spec-valid
document against a valid schema, under three decidable side conditions. The statement without the side conditions
is FALSE of the model; each side condition is shown necessary by a concrete witness
(`C04_no_false_alarm_counterexample_*`). Helper lemmas: `Lemmas/CheckOpComplete*.lean`.
-/
namespace NitroVerif.CheckOp
open NitroVerif.Gql NitroVerif.CheckCommon NitroVerif.Valid

/-- the hypothesis is satisfiable by a non-trivial document (operation with a variable, nested selection,
    fragment spread) and the model accepts that document -/
example : SpecValid ⟨[
    .typeDef { kind := .scalar, name := "Int" }, .typeDef { kind := .scalar, name := "String" },
    .typeDef { kind := .object, name := "Query",
               fields := [{ name := "a", ty := .named "Int" {} },
                          { name := "f", args := [{ name := "x", ty := .nonNull (.named "Int" {}) }], ty := .named "Query" {} }] }]⟩
    [.op { kind := .query, name := some ("Q", {}), vars := [{ name := "v", ty := .nonNull (.named "Int" {}) }],
           sel := [.field none "a" {} [] [] none,
                   .field none "f" {} [("x", {}, .var "v" {})] [] (some [.field none "a" {} [] [] none, .spread "F" {} [] {}])] },
     .frag { name := "F", cond := "Query", sel := [.field none "a" {} [] [] none] }] := by decide

/-- C04, document level: on a spec-valid document the main loop of `check_operation_document` raises neither
    `DuplicateOperationName`, `UnNamedOperationMustBeSingle` nor `DuplicateFragmentName` — for every
    definition `d` of the document, with `pre` the definitions before it, the header diagnostics are empty. -/
theorem C04_no_false_alarm_document_level (S : Schema) (D : Doc) (hv : SpecValid S D) :
    ∀ pre d post, D = pre ++ d :: post → defHeader (opsOf D).length pre d = [] := by
  have hall : ∀ r ∈ ruleTable ++ extraRuleTable, r.2 S D = true := by
    unfold SpecValid specValidB at hv
    exact List.all_eq_true.mp hv
  have h1 : rule_5_2_1_1 S D = true := hall ("5.2.1.1", rule_5_2_1_1) (by simp [ruleTable])
  have h2 : rule_5_2_2_1 S D = true := hall ("5.2.2.1", rule_5_2_2_1) (by simp [ruleTable])
  have h3 : rule_5_5_1_1 S D = true := hall ("5.5.1.1", rule_5_5_1_1) (by simp [ruleTable])
  intro pre d post hD
  have hops : nodupB (opNamesOf D) = true := by simpa [rule_5_2_1_1, opNames, opNamesOf, ops_eq] using h1
  have hfr : nodupB (fragNamesOf D) = true := by simpa [rule_5_5_1_1, fragNamesOf, frags_eq] using h3
  cases d with
  | imp i => rfl
  | frag f =>
    rw [hD, fragNamesOf_append, fragNamesOf_cons] at hfr
    have hnot := nodupB_append_cons _ _ hfr
    have : pre.any (fragHasName f.name) = false := by
      cases hc : pre.any (fragHasName f.name) with
      | false => rfl
      | true => exact absurd ((any_fragHasName _ _).mp hc) hnot
    simp [defHeader, this]
  | op o =>
    cases hn : o.name with
    | some np =>
      obtain ⟨n, p⟩ := np
      rw [hD, opNamesOf_append, opNamesOf_cons] at hops
      simp only [hn, List.cons_append, List.nil_append] at hops
      have hnot := nodupB_append_cons _ _ hops
      have : pre.any (opHasName n) = false := by
        cases hc : pre.any (opHasName n) with
        | false => rfl
        | true => exact absurd ((any_opHasName _ _).mp hc) hnot
      simp [defHeader, hn, this]
    | none =>
      have hmem : o ∈ Valid.ops D := by
        simp only [Valid.ops, List.mem_filterMap]
        exact ⟨.op o, by rw [hD]; simp, rfl⟩
      have hany : (Valid.ops D).any (·.name.isNone) = true :=
        List.any_eq_true.mpr ⟨o, hmem, by simp [hn]⟩
      have hlen : (opsOf D).length = 1 := by
        unfold rule_5_2_2_1 at h2
        rw [hany] at h2
        simpa [ops_eq] using h2
      simp [defHeader, hn, hlen]

/-- C04, variable definitions: on a spec-valid document `check_variables_definition` raises no
    `DuplicatedVariableName`, `UnknownType` or `NoOutputType` — what it reports for an operation is exactly what
    the checks of the variables' directives and default values report. -/
theorem C04_no_false_alarm_variable_definitions (S : Schema) (D : Doc) (hv : SpecValid S D) :
    ∀ o ∈ opsOf D, checkVariablesAux S [] o.vars = o.vars.flatMap (varDefRest S) := by
  have hall : ∀ r ∈ ruleTable ++ extraRuleTable, r.2 S D = true := by
    unfold SpecValid specValidB at hv
    exact List.all_eq_true.mp hv
  have h1 : rule_5_8_1 S D = true := hall ("5.8.1", rule_5_8_1) (by simp [ruleTable])
  have h2 : rule_5_8_2 S D = true := hall ("5.8.2", rule_5_8_2) (by simp [ruleTable])
  intro o ho
  rw [← ops_eq] at ho
  apply checkVariablesAux_rest
  · intro x hx; cases hx
  · exact List.all_eq_true.mp h1 o ho
  · intro v hvm
    have := List.all_eq_true.mp (List.all_eq_true.mp h2 o ho) v hvm
    unfold isInputType?
    cases hk : S.kindOf? v.ty.unwrapped with
    | none => simp [hk] at this
    | some k => simp [hk] at this ⊢; exact this

/-- C04, fragment targets: on a spec-valid document `check_fragment_definition` raises neither `UnknownType` nor
    `InvalidFragmentTarget` — the type condition of every fragment definition is found and is composite. -/
theorem C04_no_false_alarm_fragment_targets (S : Schema) (D : Doc) (hv : SpecValid S D) :
    ∀ f ∈ fragsOf D, ∃ t, S.typeDef? f.cond = some t ∧ (directFields t).isSome = true := by
  have hall : ∀ r ∈ ruleTable ++ extraRuleTable, r.2 S D = true := by
    unfold SpecValid specValidB at hv
    exact List.all_eq_true.mp hv
  have h1 : rule_5_5_1_2 S D = true := hall ("5.5.1.2", rule_5_5_1_2) (by simp [ruleTable])
  have h2 : rule_5_5_1_3 S D = true := hall ("5.5.1.3", rule_5_5_1_3) (by simp [ruleTable])
  intro f hf
  have hc : f.cond ∈ typeConditions S D := by
    simp only [typeConditions, List.mem_append, List.mem_map]
    exact Or.inl ⟨f, by rw [frags_eq]; exact hf, rfl⟩
  have e1 := List.all_eq_true.mp h1 _ hc
  have e2 := List.all_eq_true.mp h2 _ hc
  cases ht : S.typeDef? f.cond with
  | none => simp [ht] at e1
  | some t =>
    refine ⟨t, rfl, isComposite_directFields ?_⟩
    simpa [Schema.kindOf?, ht] using e2

/-! ### witnesses used by the non-vacuity examples of the theorems below -/

/-- the five built-in scalars, `@skip`-like directive `@when(if: Boolean!)`, an input object, an enum, a union,
    `Query` and `Subscription` -/
def c04Schema : Schema := ⟨[
  .typeDef { kind := .scalar, name := "Int" }, .typeDef { kind := .scalar, name := "Float" },
  .typeDef { kind := .scalar, name := "String" }, .typeDef { kind := .scalar, name := "Boolean" },
  .typeDef { kind := .scalar, name := "ID" },
  .directiveDef { name := "when", args := [{ name := "if", ty := .nonNull (.named "Boolean" {}) }],
                  locations := ["FIELD", "FRAGMENT_SPREAD", "INLINE_FRAGMENT"] },
  .typeDef { kind := .enum, name := "Color", values := [{ name := "RED" }, { name := "GREEN" }] },
  .typeDef { kind := .input, name := "Filter",
             inputs := [{ name := "color", ty := .named "Color" {} },
                        { name := "ids", ty := .list (.nonNull (.named "ID" {})) {} }] },
  .typeDef { kind := .object, name := "A", fields := [{ name := "x", ty := .named "Int" {} }] },
  .typeDef { kind := .union, name := "U", members := [("A", {}), ("Query", {})] },
  .typeDef { kind := .object, name := "Query",
             fields := [{ name := "a", ty := .named "Int" {} },
                        { name := "u", ty := .named "U" {} },
                        { name := "f", args := [{ name := "x", ty := .nonNull (.named "Int" {}) },
                                                { name := "w", ty := .named "Filter" {} }],
                          ty := .named "Query" {} }] },
  .typeDef { kind := .object, name := "Subscription", fields := [{ name := "tick", ty := .named "Int" {} }] }]⟩

/-- `query Q($v: Int!, $b: Boolean! = true, $c: Color) { a @when(if: $b)  f(x: $v, w: {color: $c, ids: [1, "z"]}) { a ...F }
      u { ... on A { x } } }   subscription S { ...T }   fragment F on Query { a u { __typename } }
    fragment T on Subscription { tick }` -/
def c04Doc : Doc := [
  .op { kind := .query, name := some ("Q", {}),
        vars := [{ name := "v", ty := .nonNull (.named "Int" {}) },
                 { name := "b", ty := .nonNull (.named "Boolean" {}), default := some (.bool true {}) },
                 { name := "c", ty := .named "Color" {} }],
        sel := [.field none "a" {} [] [{ name := "when", args := [("if", {}, .var "b" {})] }] none,
                .field none "f" {} [("x", {}, .var "v" {}),
                                    ("w", {}, .obj [("color", {}, .var "c" {}),
                                                    ("ids", {}, .list [.int "1" {}, .str "z" {}] {})] {})] []
                  (some [.field none "a" {} [] [] none, .spread "F" {} [] {}]),
                .field none "u" {} [] [] (some [.inline (some ("A", {})) [] [.field none "x" {} [] [] none] {}])] },
  .op { kind := .subscription, name := some ("S", {}), sel := [.spread "T" {} [] {}] },
  .frag { name := "F", cond := "Query",
          sel := [.field none "a" {} [] [] none,
                  .field none "u" {} [] [] (some [.field none "__typename" {} [] [] none])] },
  .frag { name := "T", cond := "Subscription", sel := [.field none "tick" {} [] [] none] }]

/-- the hypotheses of the theorems below are satisfiable by a non-trivial schema and document (variables with and
    without defaults, a directive with a variable argument, an input-object literal with a nested list, an enum
    variable, named and inline fragments, a union, a subscription through a fragment) -/
example : SchemaValid c04Schema ∧ SpecValid c04Schema c04Doc ∧ noEmptyUnionB c04Schema = true ∧
    rootsDefinedB c04Schema c04Doc = true ∧ constVarDefsB c04Doc = true := by decide +kernel

/-! ### 1. directives -/

/-- C04, directives: on a spec-valid document `check_directives` reports nothing at any location — for every
    directive list in the scope of an operation (the operation, its variable definitions, and the fields, fragment
    spreads, inline fragments and fragment definitions it reaches) checked with the operation's variables; and for
    every directive list of the document checked without variables in scope, nothing but `UnknownVariable`
    (the `without_variable_checks` mode of fragment definitions): no `UnknownDirective`,
    `DirectiveLocationNotAllowed`, `RepeatedDirective`, nor any diagnostic about the directives' arguments. -/
theorem C04_directives_complete (S : Schema) (D : Doc) (hS : SchemaValid S) (hv : SpecValid S D) :
    (∀ o ∈ opsOf D, ∀ site ∈ opDirSites S D o, checkDirectives S (some o.vars) site.2 site.1 = []) ∧
    (∀ site ∈ dirSites S D, withoutVariableChecks (checkDirectives S none site.2 site.1) = []) := by
  have R := rules_of_valid hv
  refine ⟨?_, ?_⟩
  · intro o ho site hs
    apply quiet_none_iff.mp
    apply dirSite_quiet hS R (opDirSites_sub R ho site hs)
    -- the variable usages in the directives' arguments are those of the operation's scope (5.8.3, 5.8.5)
    have hu : UsesOK S allowNone (some o.vars) (fieldArgSites S (opCtxs S D o) ++ dirArgSites S (opDirSites S D o)) := by
      intro tv htv u hu
      have hmem : u ∈ opVarUses S D o := by
        simp only [opVarUses, List.mem_flatMap]; exact ⟨tv, htv, hu⟩
      have ho' : o ∈ Valid.ops D := by rw [ops_eq]; exact ho
      have h3 := List.all_eq_true.mp (List.all_eq_true.mp R.r8_3 o ho') u hmem
      have h5 := List.all_eq_true.mp (List.all_eq_true.mp R.r8_5 o ho') u hmem
      cases hf : o.vars.find? (·.name == u.name) with
      | none =>
        exfalso
        obtain ⟨v, hv', hvn⟩ := List.any_eq_true.mp h3
        rw [List.find?_eq_none] at hf
        exact hf v hv' hvn
      | some vd =>
        simp only [hf] at h5
        unfold UseQuiet
        rw [varCheck_of_allowed hf h5]
        exact quiet_nil
    apply usesOK_mono _ hu
    intro s hs'
    exact List.mem_append_right _ (dirArgSites_mono (fun x hx => by simp at hx; subst hx; exact hs) s hs')
  · intro site hs
    exact quiet_uv_iff.mpr (dirSite_quiet hS R hs (usesOK_uv S _))

example : ∃ o ∈ opsOf c04Doc, ∃ site ∈ opDirSites c04Schema c04Doc o, site.2 ≠ [] := by decide

/-! ### 2. values and variable usages -/

/-- C04, values: `check_value` accepts every value the specification's input coercion accepts. For every value `v`
    (nested lists and input objects at any depth) expected at a position of type `t` whose named type is an input
    type of a valid schema: if the specification's value rules 5.6.1 – 5.6.4 find no issue in `v`
    (`valueIssues S v t = []`) and every variable usage inside `v` is accepted, `check_value` reports nothing. -/
theorem C04_values_complete (S : Schema) (hS : SchemaValid S) (vars : Option (List VarDef)) (v : Value) (t : GType)
    (ld : Bool) (ht : ∃ td, S.typeDef? t.unwrapped = some td ∧ Schema.isInputKind td.kind = true)
    (hvi : valueIssues S v t = [])
    (hu : ∀ u ∈ varUses S v t ld, varCheck vars u.name u.pos u.locTy u.locDefault = []) :
    checkValue S vars v t ld = [] := by
  apply quiet_none_iff.mp
  apply checkValue_complete' (schemaValid_uniqueArgs hS) (schemaFacts_of_valid hS).inputTy ht hvi
  intro u huu
  unfold UseQuiet
  rw [hu u huu]; exact quiet_nil

example : (∃ td, c04Schema.typeDef? (GType.named "Filter" {}).unwrapped = some td ∧ Schema.isInputKind td.kind = true) ∧
    valueIssues c04Schema (.obj [("color", {}, .enum "RED" {}), ("ids", {}, .list [.int "1" {}, .str "z" {}] {})] {})
      (.named "Filter" {}) = [] := by decide

/-- C04, numeric boundaries (fix e3584a3 made the `Int` arm of `is_value_compatible_type_def` stricter — it must not have
    become stricter than the specification): against a valid schema `check_value` accepts an integer literal
    * at every position whose innermost named type is `Int` when its text denotes an integer in `[-2^31, 2^31)`
      (`-2147483648`, `2147483647`, `-0` included), and
    * at every position whose innermost named type is `Float` or `ID`, whatever its size (§3.5.2, §3.5.5).
    The position may be a list type at any depth (a single value is coerced to a list of one item). -/
theorem C04_int_literal_complete (S : Schema) (hS : SchemaValid S) (vars : Option (List VarDef)) (s : String) (p : Pos)
    (t : GType) (ld : Bool)
    (h : (t.unwrapped = "Int" ∧ ∃ i : Int, SpecInt.intValue? s.toList = some i ∧ -2147483648 ≤ i ∧ i ≤ 2147483647) ∨
         t.unwrapped = "Float" ∨ t.unwrapped = "ID") :
    checkValue S vars (.int s p) t ld = [] := by
  have hn : t.unwrapped ∈ ["Int", "Float", "String", "Boolean", "ID"] := by
    rcases h with ⟨hn, _⟩ | hn | hn <;> simp [hn]
  obtain ⟨td, ht, hk⟩ := builtin_scalar_defined hS hn
  apply C04_values_complete S hS vars (.int s p) t ld ⟨td, ht, by simp [hk, Schema.isInputKind]⟩
  · apply int_valueIssues_nil hS
    rcases h with ⟨hn, hi⟩ | hn | hn
    · exact Or.inl ⟨hn, by rw [← IntLit.intLiteralFitsI32_eq]; exact (IntLit.intLiteralFitsI32_iff s).mpr hi⟩
    · exact Or.inr (Or.inl hn)
    · exact Or.inr (Or.inr hn)
  · intro u hu; simp [varUses] at hu

/-- non-vacuity: `2147483647` / `-2147483648` / `-0` at `[Int!]`, a 20-digit integer at `Float` and `ID` (the hypotheses
    hold); one step beyond the boundary the hypothesis fails and so does the check -/
example : SchemaValid c04Schema ∧
    (∀ s ∈ ["2147483647", "-2147483648", "-0"], ∃ i : Int, SpecInt.intValue? s.toList = some i ∧ -2147483648 ≤ i ∧ i ≤ 2147483647) ∧
    (∀ s ∈ ["2147483648", "-2147483649"], SpecInt.intTextInRange s = false ∧
      checkValue c04Schema none (.int s {}) (.list (.nonNull (.named "Int" {})) {}) false ≠ []) := by
  refine ⟨by decide, ?_, by decide +kernel⟩
  intro s hs
  simp only [List.mem_cons, List.not_mem_nil, or_false] at hs
  rcases hs with rfl | rfl | rfl
  · exact ⟨2147483647, by decide +kernel, by decide, by decide⟩
  · exact ⟨-2147483648, by decide +kernel, by decide, by decide⟩
  · exact ⟨0, by decide +kernel, by decide, by decide⟩

/-- C04, variable usages (5.8.5, with the default-value exceptions): a usage of a defined variable that the
    specification's `IsVariableUsageAllowed` allows is accepted by the variable case of `check_value_at`. -/
theorem C04_variable_usage_complete (vars : List VarDef) (u : VarUse) (vd : VarDef)
    (hf : vars.find? (·.name == u.name) = some vd) (h : usageAllowed vd u = true) :
    varCheck (some vars) u.name u.pos u.locTy u.locDefault = [] :=
  varCheck_of_allowed hf h

example : ([{ name := "b", ty := .named "Boolean" {}, default := some (.bool true {}) }] : List VarDef).find?
      (·.name == (⟨"b", {}, .nonNull (.named "Boolean" {}), false⟩ : VarUse).name)
        = some { name := "b", ty := .named "Boolean" {}, default := some (.bool true {}) } ∧
    usageAllowed { name := "b", ty := .named "Boolean" {}, default := some (.bool true {}) }
      ⟨"b", {}, .nonNull (.named "Boolean" {}), false⟩ = true := ⟨rfl, rfl⟩

/-! ### 3. arguments and field lookup -/

/-- C04, arguments (5.4.1, 5.4.2, 5.4.2.1 and the values): on a spec-valid document `check_arguments` reports
    nothing for any argument list in the scope of an operation (fields and directives, also inside the fragments the
    operation reaches) checked with the operation's variables; and for every argument list of the document checked
    without variables in scope, nothing but `UnknownVariable`. -/
theorem C04_arguments_complete (S : Schema) (D : Doc) (hS : SchemaValid S) (hv : SpecValid S D) :
    (∀ o ∈ opsOf D, ∀ site ∈ fieldArgSites S (opCtxs S D o) ++ dirArgSites S (opDirSites S D o), ∀ pos,
      checkArguments S (some o.vars) pos site.args site.defs = []) ∧
    (∀ site ∈ argSites S D, ∀ pos, withoutVariableChecks (checkArguments S none pos site.args site.defs) = []) := by
  have R := rules_of_valid hv
  refine ⟨?_, ?_⟩
  · intro o ho site hs pos
    apply quiet_none_iff.mp
    have hmem := opArgSites_sub R ho site hs
    apply argSite_quiet hS R hmem (argSites_args_nodup hS R site hmem) _ pos
    intro tv htv u hu
    have hmem' : u ∈ opVarUses S D o := by
      simp only [opVarUses, List.mem_flatMap]; exact ⟨tv, typedValuesOf_of_mem hs htv, hu⟩
    have ho' : o ∈ Valid.ops D := by rw [ops_eq]; exact ho
    have h3 := List.all_eq_true.mp (List.all_eq_true.mp R.r8_3 o ho') u hmem'
    have h5 := List.all_eq_true.mp (List.all_eq_true.mp R.r8_5 o ho') u hmem'
    cases hf : o.vars.find? (·.name == u.name) with
    | none =>
      exfalso
      obtain ⟨v, hv', hvn⟩ := List.any_eq_true.mp h3
      rw [List.find?_eq_none] at hf
      exact hf v hv' hvn
    | some vd =>
      simp only [hf] at h5
      unfold UseQuiet
      rw [varCheck_of_allowed hf h5]
      exact quiet_nil
  · intro site hs pos
    exact quiet_uv_iff.mpr (argSite_quiet hS R hs (argSites_args_nodup hS R site hs) (usesOK_uv S _) pos)

example : ∃ o ∈ opsOf c04Doc, ∃ site ∈ fieldArgSites c04Schema (opCtxs c04Schema c04Doc o), site.args.length = 2 := by
  decide

/-- C04, field lookup (5.3.1, 5.3.3): on a spec-valid document every field selected anywhere with the type `t` in
    scope is found among `direct_fields_of_output_type(t)` (no `FieldNotFound`), its type is defined (no
    `TypeSystemError`), and it has a sub-selection exactly when its type is composite (no `MustSpecifySelectionSet`,
    no `SelectionOnInvalidType`). -/
theorem C04_field_lookup_complete (S : Schema) (D : Doc) (hS : SchemaValid S) (hv : SpecValid S D) :
    ∀ t al name namePos args dirs sel, (some t, Selection.field al name namePos args dirs sel) ∈ allSels (allCtxs S D) →
      ∀ root fields, S.typeDef? t = some root → directFields root = some fields →
        ∃ fd, fields.find? (·.name == name) = some fd ∧ ∃ ft, S.typeDef? fd.ty.unwrapped = some ft ∧
          sel.isSome = (directFields ft).isSome := by
  intro t al name namePos args dirs sel hps root fields hroot hdf
  obtain ⟨fd, hfd, hrest⟩ := field_lookup_ok hS (rules_of_valid hv) hps
  exact ⟨fd, by rw [← fieldDef?_eq_find (schemaValid_noReserved hS) hroot hdf]; exact hfd, hrest⟩

/-! ### 4. the selection-set walk, with fuel adequacy -/

/-- C04, the walk: on a spec-valid document (valid schema without empty unions) the walk `check_selection_set` of
    every operation — through fields, inline fragments and, by fuel, fragment spreads, with the operation's
    variables in scope — reports nothing. In particular the fuel is adequate: by 5.5.2.1 and 5.5.2.2 a spread
    fragment is defined and never on the stack, every push makes the number of fragments not on the stack strictly
    smaller, and the initial fuel exceeds that number, so neither the stack check nor the "fuel exhausted" branch
    (both `RecursingFragmentSpread`) is ever taken. -/
theorem C04_walk_complete (S : Schema) (D : Doc) (hS : SchemaValid S) (hNE : noEmptyUnionB S = true)
    (hv : SpecValid S D) :
    ∀ o ∈ opsOf D, ∀ root, S.typeDef? (S.rootName o.kind) = some root →
      checkSelectionSet S (spreadHandler S D (fuelFor D)) [] (some o.vars) root o.sel o.pos = [] :=
  fun _ ho _ hroot => op_walk_complete hS hNE (rules_of_valid hv) ho hroot

/-! ### 5. subscription root count, variable definitions, fragment definitions -/

/-- C04, subscriptions (5.2.3.1): on a spec-valid document `selection_set_has_more_than_one_fields` is false for
    every subscription — the response keys it collects (through inline fragments and fragment spreads) are among
    those of the specification's `CollectFields`, of which there is exactly one. -/
theorem C04_subscription_complete (S : Schema) (D : Doc) (hv : SpecValid S D) :
    ∀ o ∈ opsOf D, o.kind = .subscription → hasMoreThanOneField D o.sel = false := by
  intro o ho hk
  have R := rules_of_valid hv
  have ho' : o ∈ Valid.ops D := by rw [ops_eq]; exact ho
  have h231 := List.all_eq_true.mp R.r2_3_1 o ho'
  have hne : (o.kind != OpKind.subscription) = false := by rw [hk]; rfl
  simp only [hne, Bool.false_or, beq_iff_eq] at h231
  have hnd : nodupB (fragNamesOf D) = true := by
    simpa [rule_5_5_1_1, fragNamesOf, frags_eq] using R.r5_1_1
  -- every spread inside a fragment definition is defined (5.5.2.1)
  have hSD : SpreadsDefined D := by
    intro f hf n hn
    obtain ⟨p, np, ds, ps, hmem⟩ := spread_in_allSels S n _ f.sel (Nat.le_refl _) hn (some f.cond)
    have hmem' : (p, Selection.spread n np ds ps) ∈ allSels (allCtxs S D) := by
      apply allSels_mono (ctxsOfDef_sub (d := .frag f) (frag_mem_doc hf))
      simpa [ctxsOfDef, ctxsOfRoot] using hmem
    have := List.all_eq_true.mp R.r5_2_1 _ hmem'
    simp only [frag?_eq_fragMap hnd] at this
    cases hm : fragMap D n with
    | none => simp [hm] at this
    | some g =>
      obtain ⟨hgm, hgn⟩ := fragMap_mem hm
      rw [← hgn]; exact List.mem_map.mpr ⟨g, hgm, rfl⟩
  exact hasMoreThanOneField_false hnd hSD h231

example : ∃ o ∈ opsOf c04Doc, o.kind = .subscription := by decide

/-- C04, variable definitions: on a spec-valid document whose variable definitions are constant (no variable inside
    a default value or inside a directive of a variable definition — the grammar's `Value[Const]`,
    `Directives[Const]`), `check_variables_definition` reports nothing: names, types, directives and default
    values. -/
theorem C04_variable_definitions_complete (S : Schema) (D : Doc) (hS : SchemaValid S) (hNE : noEmptyUnionB S = true)
    (hv : SpecValid S D) (hconst : constVarDefsB D = true) :
    ∀ o ∈ opsOf D, checkVariablesAux S [] o.vars = [] :=
  fun _ ho => checkVariablesAux_complete hS hNE (rules_of_valid hv) ho hconst

/-- C04, fragment definitions: on a spec-valid document `check_fragment_definition` reports nothing, whether or not
    `fragments_used_by_operations` contains the fragment — in particular the direct walk of a fragment no operation
    spreads (its own name on the stack, no variables in scope, `UnknownVariable` filtered) is silent. -/
theorem C04_fragment_definitions_complete (S : Schema) (D : Doc) (hS : SchemaValid S) (hNE : noEmptyUnionB S = true)
    (hv : SpecValid S D) :
    ∀ f ∈ fragsOf D, ∀ used, checkFragmentDefinition S D used f = [] :=
  fun _ hf used => checkFragmentDefinition_complete hS hNE (rules_of_valid hv) hf used

/-! ### 6. the whole checker -/

/-- C04, every definition: under the three side conditions the body of every definition (`check_operation` /
    `check_fragment_definition`) reports nothing. -/
theorem C04_no_false_alarm_bodies (S : Schema) (D : Doc) (hS : SchemaValid S) (hv : SpecValid S D)
    (hNE : noEmptyUnionB S = true) (hroots : rootsDefinedB S D = true) (hconst : constVarDefsB D = true) :
    ∀ d ∈ D, defBody S D d = [] :=
  defBody_complete hS hNE (rules_of_valid hv) hroots hconst

/-- **C04 (partial: three decidable side conditions).** `check` raises no diagnostic on a spec-valid document:
    for every valid schema `S` and every document `D` valid under the specification, `checkOp S D = []` — provided
    (a) no union type of the schema is empty, (b) the schema has a root type for the kind of every operation of the
    document, (c) default values and directives of variable definitions contain no variables. Each of (a), (b), (c)
    is necessary (`C04_no_false_alarm_counterexample_*` below): `SchemaValid` / `SpecValid` as transcribed do not
    imply them, and the checker is (rightly) stricter. -/
theorem C04_no_false_alarm_partial (S : Schema) (D : Doc) (hS : SchemaValid S) (hv : SpecValid S D)
    (hNE : noEmptyUnionB S = true) (hroots : rootsDefinedB S D = true) (hconst : constVarDefsB D = true) :
    checkOp S D = [] :=
  checkOp_nil_of (C04_no_false_alarm_document_level S D hv) (C04_no_false_alarm_bodies S D hS hv hNE hroots hconst)

/-- **C04, from the implemented rules alone.** The checker is silent on every document that satisfies the 25 rules
    nitrogql implements (`ImplementedRules`) — the four further rules of `SpecValid` (5.2.3.1b no introspection root
    field in a subscription, 5.3.2 field merging, 5.5.1.4 fragments must be used, 5.8.4 variables must be used) are
    not needed; same three side conditions. Together with C03 this characterises acceptance exactly
    (`Props/C04Exact.lean`). -/
theorem C04_no_false_alarm_implemented_rules (S : Schema) (D : Doc) (hS : SchemaValid S)
    (h : ∀ r ∈ ImplementedRules, Holds r S D)
    (hNE : noEmptyUnionB S = true) (hroots : rootsDefinedB S D = true) (hconst : constVarDefsB D = true) :
    checkOp S D = [] :=
  checkOp_nil_of_implemented hS h hNE hroots hconst

/-- a spec-valid document satisfies the implemented rules, so the hypothesis above is satisfiable by the witness -/
example (S : Schema) (D : Doc) (hv : SpecValid S D) : ∀ r ∈ ImplementedRules, Holds r S D := by
  intro r _ f hf
  unfold SpecValid specValidB at hv
  exact List.all_eq_true.mp hv (r, f) hf

/-- the model accepts the witness document (as the theorem says) -/
example : checkOp c04Schema c04Doc = [] := by decide

/-! ### the statement without side conditions is false of the model -/

def cexScalars : List TsItem := [
  .typeDef { kind := .scalar, name := "Int" }, .typeDef { kind := .scalar, name := "Float" },
  .typeDef { kind := .scalar, name := "String" }, .typeDef { kind := .scalar, name := "Boolean" },
  .typeDef { kind := .scalar, name := "ID" }]

/-- `union U =` (no members; the nitrogql grammar and schema check accept it), `type Query { u: U }` -/
def cexSchemaEmptyUnion : Schema := ⟨cexScalars ++ [
  .typeDef { kind := .union, name := "U" },
  .typeDef { kind := .object, name := "Query", fields := [{ name := "u", ty := .named "U" {} }] }]⟩
/-- `{ u { ... on U { __typename } } }` -/
def cexDocEmptyUnion : Doc := [
  .op { kind := .query,
        sel := [.field none "u" {} [] [] (some [.inline (some ("U", {})) [] [.field none "__typename" {} [] [] none] {}])] }]

/-- (a) is necessary: narrowing an EMPTY union to itself is accepted by the reference validator ("a type always
    overlaps itself") but reported by the checker (`FragmentConditionNeverMatches`: no common member). -/
theorem C04_no_false_alarm_counterexample_empty_union :
    SchemaValid cexSchemaEmptyUnion ∧ SpecValid cexSchemaEmptyUnion cexDocEmptyUnion ∧
    rootsDefinedB cexSchemaEmptyUnion cexDocEmptyUnion = true ∧ constVarDefsB cexDocEmptyUnion = true ∧
    checkOp cexSchemaEmptyUnion cexDocEmptyUnion = [(ErrKind.FragmentConditionNeverMatches, {})] := by decide

/-- `schema { query: Query }  type Query { a: Int }  type Mutation { a: Int }` -/
def cexSchemaNoRoot : Schema := ⟨cexScalars ++ [
  .schemaDef { roots := [(.query, "Query", {})] },
  .typeDef { kind := .object, name := "Query", fields := [{ name := "a", ty := .named "Int" {} }] },
  .typeDef { kind := .object, name := "Mutation", fields := [{ name := "a", ty := .named "Int" {} }] }]⟩
/-- `mutation { a }` -/
def cexDocNoRoot : Doc := [.op { kind := .mutation, sel := [.field none "a" {} [] [] none] }]

/-- (b) is necessary: an explicit `schema { query: Query }` declares no mutation root; the reference validator
    (October 2021 rules: no "operation type existence" rule, root type names defaulted) validates `mutation { a }`
    against the type named `Mutation`, the checker reports `NoRootType`. -/
theorem C04_no_false_alarm_counterexample_no_root :
    SchemaValid cexSchemaNoRoot ∧ SpecValid cexSchemaNoRoot cexDocNoRoot ∧
    noEmptyUnionB cexSchemaNoRoot = true ∧ constVarDefsB cexDocNoRoot = true ∧
    checkOp cexSchemaNoRoot cexDocNoRoot = [(ErrKind.NoRootType, {})] := by decide

/-- `type Query { f(x: Int): Int }` -/
def cexSchemaConst : Schema := ⟨cexScalars ++ [
  .typeDef { kind := .object, name := "Query",
             fields := [{ name := "f", args := [{ name := "x", ty := .named "Int" {} }], ty := .named "Int" {} }] }]⟩
/-- `query ($a: Int = $a) { f(x: $a) }` -/
def cexDocConst : Doc := [
  .op { kind := .query, vars := [{ name := "a", ty := .named "Int" {}, default := some (.var "a" {}) }],
        sel := [.field none "f" {} [("x", {}, .var "a" {})] [] none] }]

/-- (c) is necessary: a variable as a default value is excluded by the grammar (`Value[Const]`), not by a validation
    rule, and the abstract syntax (like the nitrogql parser) admits it; the checker reports `UnknownVariable`. -/
theorem C04_no_false_alarm_counterexample_nonconst_default :
    SchemaValid cexSchemaConst ∧ SpecValid cexSchemaConst cexDocConst ∧
    noEmptyUnionB cexSchemaConst = true ∧ rootsDefinedB cexSchemaConst cexDocConst = true ∧
    checkOp cexSchemaConst cexDocConst = [(ErrKind.UnknownVariable, {})] := by decide

/-- the unconditional statement `SchemaValid S → SpecValid S D → checkOp S D = []` is false of the model -/
theorem C04_no_false_alarm_unconditional_false :
    ¬ ∀ (S : Schema) (D : Doc), SchemaValid S → SpecValid S D → checkOp S D = [] := by
  intro h
  have h1 := C04_no_false_alarm_counterexample_no_root
  have := h cexSchemaNoRoot cexDocNoRoot h1.1 h1.2.1
  rw [h1.2.2.2.2] at this
  cases this

/-
Status of the original statement

  theorem C04_no_false_alarm : SchemaValid S → SpecValid S D → checkOp S D = []

It is FALSE of the model as stated (`C04_no_false_alarm_unconditional_false`). What is proved, for all schemas and
documents, is `C04_no_false_alarm_partial` (and `C04_no_false_alarm_implemented_rules`; with C03,
`C04_C03_exact` in Props/C04Exact.lean, which additionally assumes `Doc.NonEmptySelections D`): the same conclusion
under the decidable side conditions (a) `noEmptyUnionB S`, (b) `rootsDefinedB S D`, (c) `constVarDefsB D`, each shown
necessary by a witness. Apart from these side conditions no part of the completeness direction of the MODEL is left
to K/O: every component of `checkOp` has its completeness theorem above (`checkValue` never meets an output-kind type:
`SchemaValid` makes argument and input-field types input types, 5.8.2 the variable types — `C04_values_complete`).

OPEN — carried by K/O only (not by proof):
* the model is the Rust code (K), `Model/IntLit.lean` = Rust's `str::parse::<i32>` included;
* (a): schemas accepted by the real schema check need not satisfy it (`union U =` is accepted by grammar and
  `check_union`), so it is an assumption on the schema (design-notes/C04.md);
* (b): an assumption on schema + document (the October-2021 rules transcribed in `SpecValid` have no "operation
  type existence" rule); the real checker's `NoRootType` on inputs violating it is taken as intended;
* (c): the nitrogql parser does NOT enforce it (it parses `query ($a: Int = $a)`); the real checker's
  `UnknownVariable` on such documents is taken as intended;
* `SpecValid` is the trusted transcription; its 5.3.2 member is a sufficient check, stronger than the specification;
* `#import` resolution and the `nitrogql check` command are not modelled (import stream and CLI leg of K/O; the open
  finding `O:cli:import-file-not-found@dotdot-globs` of known-findings.txt lives there).
-/

end NitroVerif.CheckOp
