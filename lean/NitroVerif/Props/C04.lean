import NitroVerif.Lemmas.CheckOp
/-!
# C04 — `check` raises no diagnostic on spec-valid operation documents

Property theorems only. Model and reference validator as for C03 (`Model/CheckOp.lean`, `Spec/Valid.lean`).
Proved here: the document-level part of completeness (the duplicate-name and lone-anonymous diagnostics of
the main loop of `check_operation_document` are never raised on a spec-valid document). The full statement
is kept in the OPEN block at the end and is carried by the K and O streams of `harness/src/bin/c04.rs`.
-/
namespace NitroVerif.CheckOp
open NitroVerif.Gql NitroVerif.CheckCommon NitroVerif.Valid

/-- the hypothesis is satisfiable by a non-trivial document (operation with a variable, nested selection,
    fragment spread) and the model accepts that document -/
example : SpecValid ⟨[
    .typeDef { kind := .scalar, name := "Int" }, .typeDef { kind := .scalar, name := "String" },
    .typeDef { kind := .object, name := "Query",
               fields := [{ name := "a", ty := .named "Int" {} },
                          { name := "f", args := [{ name := "x", ty := .nonNull (.named "Int" {}) }], ty := .named "Query" {} }] }]⟩
    [.op { kind := .query, name := some ("Q", {}), vars := [{ name := "v", ty := .nonNull (.named "Int" {}) }],
           sel := [.field none "a" {} [] [] none,
                   .field none "f" {} [("x", {}, .var "v" {})] [] (some [.field none "a" {} [] [] none, .spread "F" {} [] {}])] },
     .frag { name := "F", cond := "Query", sel := [.field none "a" {} [] [] none] }] := by decide

/-- C04, document level: on a spec-valid document the main loop of `check_operation_document` raises neither
    `DuplicateOperationName`, `UnNamedOperationMustBeSingle` nor `DuplicateFragmentName` — for every
    definition `d` of the document, with `pre` the definitions before it, the header diagnostics are empty. -/
theorem C04_no_false_alarm_document_level (S : Schema) (D : Doc) (hv : SpecValid S D) :
    ∀ pre d post, D = pre ++ d :: post → defHeader (opsOf D).length pre d = [] := by
  have hall : ∀ r ∈ ruleTable ++ extraRuleTable, r.2 S D = true := by
    unfold SpecValid specValidB at hv
    exact List.all_eq_true.mp hv
  have h1 : rule_5_2_1_1 S D = true := hall ("5.2.1.1", rule_5_2_1_1) (by simp [ruleTable])
  have h2 : rule_5_2_2_1 S D = true := hall ("5.2.2.1", rule_5_2_2_1) (by simp [ruleTable])
  have h3 : rule_5_5_1_1 S D = true := hall ("5.5.1.1", rule_5_5_1_1) (by simp [ruleTable])
  intro pre d post hD
  have hops : nodupB (opNamesOf D) = true := by simpa [rule_5_2_1_1, opNames, opNamesOf, ops_eq] using h1
  have hfr : nodupB (fragNamesOf D) = true := by simpa [rule_5_5_1_1, fragNamesOf, frags_eq] using h3
  cases d with
  | imp i => rfl
  | frag f =>
    rw [hD, fragNamesOf_append, fragNamesOf_cons] at hfr
    have hnot := nodupB_append_cons _ _ hfr
    have : pre.any (fragHasName f.name) = false := by
      cases hc : pre.any (fragHasName f.name) with
      | false => rfl
      | true => exact absurd ((any_fragHasName _ _).mp hc) hnot
    simp [defHeader, this]
  | op o =>
    cases hn : o.name with
    | some np =>
      obtain ⟨n, p⟩ := np
      rw [hD, opNamesOf_append, opNamesOf_cons] at hops
      simp only [hn, List.cons_append, List.nil_append] at hops
      have hnot := nodupB_append_cons _ _ hops
      have : pre.any (opHasName n) = false := by
        cases hc : pre.any (opHasName n) with
        | false => rfl
        | true => exact absurd ((any_opHasName _ _).mp hc) hnot
      simp [defHeader, hn, this]
    | none =>
      have hmem : o ∈ Valid.ops D := by
        simp only [Valid.ops, List.mem_filterMap]
        exact ⟨.op o, by rw [hD]; simp, rfl⟩
      have hany : (Valid.ops D).any (·.name.isNone) = true :=
        List.any_eq_true.mpr ⟨o, hmem, by simp [hn]⟩
      have hlen : (opsOf D).length = 1 := by
        unfold rule_5_2_2_1 at h2
        rw [hany] at h2
        simpa [ops_eq] using h2
      simp [defHeader, hn, hlen]

/-
OPEN — carried by K/O only (stated, not proved):

theorem C04_no_false_alarm : SchemaValid S → SpecValid S D → checkOp S D = []

Remaining obligations: for every definition, `defBody S D d = []` — i.e. completeness of `checkOperation`
(directives, variable definitions and their defaults, the subscription root count, and the walk
`checkSelectionSet` through fields, inline fragments and — by fuel — fragment spreads, including the adequacy of
the fuel: on a spec-valid document the stack check fires before the fuel runs out) and of
`checkFragmentDefinition` (the direct walk of fragments no operation spreads). The implementation is stricter
than the specification in one place that the generators do not exercise and `SpecValid` does not exclude:
`check_type_compatibility` compares named types by name only (as the spec does), but `checkValue` rejects every
literal for an output-kind type, which `SchemaValid` rules out for argument types.
-/

end NitroVerif.CheckOp
