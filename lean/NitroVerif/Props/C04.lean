import NitroVerif.Lemmas.CheckOpComplete
/-!
# C04 — `check` raises no diagnostic on spec-valid operation documents

Property theorems only. Model and reference validator as for C03 (`Model/CheckOp.lean`, `Spec/Valid.lean`).
Proved here: the document-level part of completeness (the duplicate-name and lone-anonymous diagnostics of
the main loop of `check_operation_document` are never raised on a spec-valid document). The full statement
is kept in the OPEN block at the end and is carried by the K and O streams of `harness/src/bin/c04.rs`.
-/
namespace NitroVerif.CheckOp
open NitroVerif.Gql NitroVerif.CheckCommon NitroVerif.Valid

/-- the hypothesis is satisfiable by a non-trivial document (operation with a variable, nested selection,
    fragment spread) and the model accepts that document -/
example : SpecValid ⟨[
    .typeDef { kind := .scalar, name := "Int" }, .typeDef { kind := .scalar, name := "String" },
    .typeDef { kind := .object, name := "Query",
               fields := [{ name := "a", ty := .named "Int" {} },
                          { name := "f", args := [{ name := "x", ty := .nonNull (.named "Int" {}) }], ty := .named "Query" {} }] }]⟩
    [.op { kind := .query, name := some ("Q", {}), vars := [{ name := "v", ty := .nonNull (.named "Int" {}) }],
           sel := [.field none "a" {} [] [] none,
                   .field none "f" {} [("x", {}, .var "v" {})] [] (some [.field none "a" {} [] [] none, .spread "F" {} [] {}])] },
     .frag { name := "F", cond := "Query", sel := [.field none "a" {} [] [] none] }] := by decide

/-- C04, document level: on a spec-valid document the main loop of `check_operation_document` raises neither
    `DuplicateOperationName`, `UnNamedOperationMustBeSingle` nor `DuplicateFragmentName` — for every
    definition `d` of the document, with `pre` the definitions before it, the header diagnostics are empty. -/
theorem C04_no_false_alarm_document_level (S : Schema) (D : Doc) (hv : SpecValid S D) :
    ∀ pre d post, D = pre ++ d :: post → defHeader (opsOf D).length pre d = [] := by
  have hall : ∀ r ∈ ruleTable ++ extraRuleTable, r.2 S D = true := by
    unfold SpecValid specValidB at hv
    exact List.all_eq_true.mp hv
  have h1 : rule_5_2_1_1 S D = true := hall ("5.2.1.1", rule_5_2_1_1) (by simp [ruleTable])
  have h2 : rule_5_2_2_1 S D = true := hall ("5.2.2.1", rule_5_2_2_1) (by simp [ruleTable])
  have h3 : rule_5_5_1_1 S D = true := hall ("5.5.1.1", rule_5_5_1_1) (by simp [ruleTable])
  intro pre d post hD
  have hops : nodupB (opNamesOf D) = true := by simpa [rule_5_2_1_1, opNames, opNamesOf, ops_eq] using h1
  have hfr : nodupB (fragNamesOf D) = true := by simpa [rule_5_5_1_1, fragNamesOf, frags_eq] using h3
  cases d with
  | imp i => rfl
  | frag f =>
    rw [hD, fragNamesOf_append, fragNamesOf_cons] at hfr
    have hnot := nodupB_append_cons _ _ hfr
    have : pre.any (fragHasName f.name) = false := by
      cases hc : pre.any (fragHasName f.name) with
      | false => rfl
      | true => exact absurd ((any_fragHasName _ _).mp hc) hnot
    simp [defHeader, this]
  | op o =>
    cases hn : o.name with
    | some np =>
      obtain ⟨n, p⟩ := np
      rw [hD, opNamesOf_append, opNamesOf_cons] at hops
      simp only [hn, List.cons_append, List.nil_append] at hops
      have hnot := nodupB_append_cons _ _ hops
      have : pre.any (opHasName n) = false := by
        cases hc : pre.any (opHasName n) with
        | false => rfl
        | true => exact absurd ((any_opHasName _ _).mp hc) hnot
      simp [defHeader, hn, this]
    | none =>
      have hmem : o ∈ Valid.ops D := by
        simp only [Valid.ops, List.mem_filterMap]
        exact ⟨.op o, by rw [hD]; simp, rfl⟩
      have hany : (Valid.ops D).any (·.name.isNone) = true :=
        List.any_eq_true.mpr ⟨o, hmem, by simp [hn]⟩
      have hlen : (opsOf D).length = 1 := by
        unfold rule_5_2_2_1 at h2
        rw [hany] at h2
        simpa [ops_eq] using h2
      simp [defHeader, hn, hlen]

/-- C04, variable definitions: on a spec-valid document `check_variables_definition` raises no
    `DuplicatedVariableName`, `UnknownType` or `NoOutputType` — what it reports for an operation is exactly what
    the checks of the variables' directives and default values report. -/
theorem C04_no_false_alarm_variable_definitions (S : Schema) (D : Doc) (hv : SpecValid S D) :
    ∀ o ∈ opsOf D, checkVariablesAux S [] o.vars = o.vars.flatMap (varDefRest S) := by
  have hall : ∀ r ∈ ruleTable ++ extraRuleTable, r.2 S D = true := by
    unfold SpecValid specValidB at hv
    exact List.all_eq_true.mp hv
  have h1 : rule_5_8_1 S D = true := hall ("5.8.1", rule_5_8_1) (by simp [ruleTable])
  have h2 : rule_5_8_2 S D = true := hall ("5.8.2", rule_5_8_2) (by simp [ruleTable])
  intro o ho
  rw [← ops_eq] at ho
  apply checkVariablesAux_rest
  · intro x hx; cases hx
  · exact List.all_eq_true.mp h1 o ho
  · intro v hvm
    have := List.all_eq_true.mp (List.all_eq_true.mp h2 o ho) v hvm
    unfold isInputType?
    cases hk : S.kindOf? v.ty.unwrapped with
    | none => simp [hk] at this
    | some k => simp [hk] at this ⊢; exact this

/-- C04, fragment targets: on a spec-valid document `check_fragment_definition` raises neither `UnknownType` nor
    `InvalidFragmentTarget` — the type condition of every fragment definition is found and is composite. -/
theorem C04_no_false_alarm_fragment_targets (S : Schema) (D : Doc) (hv : SpecValid S D) :
    ∀ f ∈ fragsOf D, ∃ t, S.typeDef? f.cond = some t ∧ (directFields t).isSome = true := by
  have hall : ∀ r ∈ ruleTable ++ extraRuleTable, r.2 S D = true := by
    unfold SpecValid specValidB at hv
    exact List.all_eq_true.mp hv
  have h1 : rule_5_5_1_2 S D = true := hall ("5.5.1.2", rule_5_5_1_2) (by simp [ruleTable])
  have h2 : rule_5_5_1_3 S D = true := hall ("5.5.1.3", rule_5_5_1_3) (by simp [ruleTable])
  intro f hf
  have hc : f.cond ∈ typeConditions S D := by
    simp only [typeConditions, List.mem_append, List.mem_map]
    exact Or.inl ⟨f, by rw [frags_eq]; exact hf, rfl⟩
  have e1 := List.all_eq_true.mp h1 _ hc
  have e2 := List.all_eq_true.mp h2 _ hc
  cases ht : S.typeDef? f.cond with
  | none => simp [ht] at e1
  | some t =>
    refine ⟨t, rfl, isComposite_directFields ?_⟩
    simpa [Schema.kindOf?, ht] using e2

/-
OPEN — carried by K/O only (stated, not proved):

theorem C04_no_false_alarm : SchemaValid S → SpecValid S D → checkOp S D = []

Proved so far: the header diagnostics of the main loop (`C04_no_false_alarm_document_level`), the duplicate-name /
type diagnostics of `check_variables_definition` (`C04_no_false_alarm_variable_definitions`) and the target diagnostics
of `check_fragment_definition` (`C04_no_false_alarm_fragment_targets`).
Remaining obligations: for every definition, `defBody S D d = []` — i.e. completeness of `checkOperation`
(directives, variable definitions' directives and defaults, the subscription root count, and the walk
`checkSelectionSet` through fields, inline fragments and — by fuel — fragment spreads, including the adequacy of
the fuel: on a spec-valid document the stack check fires before the fuel runs out) and of
`checkFragmentDefinition` (the direct walk of fragments no operation spreads). The implementation is stricter
than the specification in one place that the generators do not exercise and `SpecValid` does not exclude:
`check_type_compatibility` compares named types by name only (as the spec does), but `checkValue` rejects every
literal for an output-kind type, which `SchemaValid` rules out for argument types.
-/

end NitroVerif.CheckOp
