/-
C10 — schema and resolver declaration files describe exactly the schema.

Theorems about the models `Model/SchemaDecls.lean`, `Model/ResolverDecls.lean`, `Model/JsDoc.lean`,
`Model/DeclCfg.lean` (tied to the Rust printers by the K stream of `harness/src/bin/c10.rs`), under the
TypeScript-subset semantics `Ts/Sem.lean` + `Lemmas/TsSem.lean` (`Mem`; trusted base).
-/
import NitroVerif.Model.SchemaDecls
import NitroVerif.Model.ResolverDecls
import NitroVerif.Spec.RefTypes
import NitroVerif.Lemmas.TsSem
import NitroVerif.Lemmas.TsSemSound
import NitroVerif.Lemmas.JsDoc
import NitroVerif.Lemmas.DeclsResolve
import NitroVerif.Lemmas.SchemaDeclsResolve
import NitroVerif.Lemmas.DeclsClosedBodies
namespace NitroVerif.Props.C10
open NitroVerif.ResolverDecls
open NitroVerif.Gql NitroVerif.Ts NitroVerif.DeclCfg NitroVerif.SchemaDecls NitroVerif.RefTypes

variable {e : Env}

/-- The membership procedure the O streams evaluate (`ts.mem`, `ts.table`) is sound for the relation the theorems
    are stated in: if it accepts `v` for the type `t` written in namespace `scope`, then `v` is a member. -/
theorem membership_procedure_sound (scope : Scope) (n : Nat) (v : J) (t : Ty)
    (h : memFuel e scope n v t = true) : Mem e v (globalise e.decls scope [] t) :=
  memFuel_sound scope n v t h

/-! ### the wrapper lemma

(The proofs of this section and of the per-kind exactness statements live in `Lemmas/DeclsClosedBodies.lean`, where the
closed-form lemmas can use them.) -/

/-- non-null part: a value belongs to the TypeScript type emitted for the non-null part of a GraphQL type
    position iff it has the list / element structure of that position (all nesting depths). -/
theorem ts_core_conf (leaf : Name → Ty) (ro : Bool) (ty : GType) :
    ∀ v, Mem e v (tsCore leaf ro ty) ↔ ConfCore (fun n x => Mem e x (leaf n)) ty v :=
  mem_tsCore_iff leaf ro ty

/-- THE WRAPPER LEMMA. For every GraphQL type position (any nesting of `[…]` and `!`), the values of the emitted
    TypeScript type `get_ts_type_of_type(ty)` are exactly: `null` iff the position is nullable, otherwise arrays
    of conforming elements / the named type's values — whatever the named types denote (`leaf`), for mutable and
    readonly arrays alike. -/
theorem ts_conf (leaf : Name → Ty) (ro : Bool) (ty : GType) (v : J) :
    Mem e v (tsOf leaf ro ty) ↔ Conf (fun n x => Mem e x (leaf n)) ty v :=
  mem_tsOf_iff leaf ro ty v


/-! ### alias exactness, per kind

The alias bodies refer to other schema types through a leaf function `L` (the model uses `Ctx.leaf`: a reference
to the type's LOCAL name). Exactness of a body is proved for EVERY interpretation of those references: if the
reference to each named type `n` denotes the set `R n` (hypothesis `hL`), then the body of an enum / object / input
object / interface / union alias denotes exactly what the statement says, with `R` at the leaves. The closed forms
below (`C10_alias_exact_closed` …) discharge `hL` on the generated file itself. -/

/-- `ts_union` / the printed form of `TSType::Union`: membership is membership in some member. -/
theorem tsUnion_mem (ts : List Ty) (v : J) : Mem e v (tsUnion ts) ↔ ∃ t ∈ ts, Mem e v t :=
  mem_tsUnion_iff ts v

/-- ENUMS: the alias of an enum type admits exactly the string literals of its values. -/
theorem C10_alias_exact_enum (td : TypeDef) (v : J) :
    Mem e v (enumBody td) ↔ ∃ x ∈ td.values, v = .str x.name :=
  mem_enumBody_iff td v

/-- INTERFACES and UNIONS: the alias admits exactly the union of what the references to the listed possible
    object types admit (`names` = `interface_implementers` resp. the union's members). -/
theorem C10_alias_exact_members (L : Name → Ty) (R : Name → J → Prop) (hL : ∀ n v, Mem e v (L n) ↔ R n v)
    (names : List Name) (v : J) :
    Mem e v (membersBodyL L names) ↔ ∃ n ∈ names, R n v :=
  mem_membersBodyL_iff L R hL names v

theorem leaf_ext (L : Name → Ty) (R : Name → J → Prop) (hL : ∀ n v, Mem e v (L n) ↔ R n v) :
    (fun n x => Mem e x (L n)) = R :=
  leaf_ext_iff L R hL

/-- OBJECTS: the alias admits exactly the records with `__typename` = the type's name and, for EVERY field, a
    value conforming wrapper-exactly to the field's type; no other key; no field may be omitted. -/
theorem C10_alias_exact_object (L : Name → Ty) (R : Name → J → Prop) (hL : ∀ n v, Mem e v (L n) ↔ R n v)
    (td : TypeDef) (v : J) :
    Mem e v (objectBodyL L td) ↔
      ∃ kvs, v = .obj kvs ∧
        RecordSpec (("__typename", false, fun x => x = .str td.name)
          :: td.fields.map fun f => (f.name, false, Conf R f.ty)) kvs :=
  mem_objectBodyL_iff L R hL td v

/-- a possibly-optional input position: (optional and omitted) or a member of the emitted type ⇔
    (optional and omitted) or conforming -/
theorem optField_exact (L : Name → Ty) (R : Name → J → Prop) (hL : ∀ n v, Mem e v (L n) ↔ R n v)
    (ro o : Bool) (ty : GType) (ho : o = true → ty.isNonNull = false) (x : J) :
    (¬ (o = true ∧ x = .absent) → Mem e x (optFieldTy L ro o ty)) ↔ ((o = true ∧ x = .absent) ∨ Conf R ty x) :=
  mem_optField_iff L R hL ro o ty ho x

theorem inputField_exact (L : Name → Ty) (R : Name → J → Prop) (hL : ∀ n v, Mem e v (L n) ↔ R n v)
    (opt : Bool) (f : InputValueDef) (x : J) :
    (¬ ((inputFieldL L opt f).2.2.1 = true ∧ x = .absent) → Mem e x (inputFieldL L opt f).2.2.2) ↔
      (((opt && !f.ty.isNonNull) = true ∧ x = .absent) ∨ Conf R f.ty x) :=
  mem_inputField_iff L R hL opt f x

/-- INPUT OBJECTS: the alias admits exactly the records with a conforming value for every field, where a field
    may be omitted iff its type is nullable AND `allowUndefinedAsOptionalInput` is on; no other key. -/
theorem C10_alias_exact_input (L : Name → Ty) (R : Name → J → Prop) (hL : ∀ n v, Mem e v (L n) ↔ R n v)
    (opt : Bool) (td : TypeDef) (v : J) :
    Mem e v (inputBodyL L opt td) ↔
      ∃ kvs, v = .obj kvs ∧
        RecordSpec (td.inputs.map fun f => (f.name, opt && !f.ty.isNonNull, Conf R f.ty)) kvs :=
  mem_inputBodyL_iff L R hL opt td v

example : ∃ v, Mem Env.empty v (inputBodyL (fun n => .ref n) true
    { kind := .input, name := "In", inputs := [{ name := "x", ty := .list (.named "Int" {}) {} }] }) :=
  ⟨.obj [], (C10_alias_exact_input (e := Env.empty) (fun n => .ref n) (fun n v => v = .atom n)
      (fun _ _ => mem_unresolved_ref_iff) true _ _).2 ⟨[], rfl, by simp [RecordSpec, J.get, GType.isNonNull]⟩⟩

/-- SCALARS: the alias body of a scalar is the configured TypeScript text for the namespace's target
    (`ScalarTypeConfig::get_type`), whichever way it was supplied (config, built-in, directive). -/
theorem C10_alias_exact_scalar (x : Ctx) (td : TypeDef) (sc : ScalarCfg) (hk : td.kind = .scalar)
    (hs : x.scalarTypes.find? (·.1 == td.name) = some (td.name, sc)) :
    body x td = .ok (some (x.cfg.parseOf (sc.getType x.target))) := by
  simp [body, hk, hs]

/-! ### name clash avoidance -/

/-- FULL STATEMENT (false of the code in one corner — see `C10_rename_counterexample`; a second corner, shown on the model
    only, is `C10_namespace_capture_counterexample` in `Props/C10Closed.lean`):
      every identifier of every scalar TypeScript text resolves GLOBALLY in every namespace, and every generated
      reference to schema type U resolves to U's declaration.
    What makes it false: the fresh names `__tmp_<Name>` are not checked against the bag of identifiers, so a scalar
    text that itself mentions `__tmp_Foo` (next to `Foo`) is captured by the renamed declaration of `Foo`.
    PROVED PART (side condition: no identifier of a scalar text starts with `__tmp_`): the local name of a schema
    type is never an identifier of a scalar text, so no scalar-text identifier is bound by a generated declaration. -/
theorem C10_rename_sound_partial (bagIds : List String) (hbag : ∀ id ∈ bagIds, hasTmpPrefix id = false)
    (n : Name) : ¬ (localName bagIds n ∈ bagIds) := by
  unfold localName
  by_cases h : bagIds.contains n = true
  · simp only [h, if_true]
    intro hm
    have := hbag _ hm
    simp [hasTmpPrefix, String.toList_append] at this
  · simp only [h]
    intro hm
    exact h (List.contains_iff_mem.2 hm) |>.elim

example : ∀ id ∈ ["Date", "string", "Foo"], hasTmpPrefix id = false := by decide

/-- the corner in which the full statement fails: text `Foo | __tmp_Foo` and a schema type `Foo` —
    the local name chosen for `Foo` is an identifier of the scalar text -/
theorem C10_rename_counterexample :
    localName (bag [("S", .single "Foo | __tmp_Foo")]) "Foo" ∈ bag [("S", .single "Foo | __tmp_Foo")] := by
  decide

/-- distinct schema types get distinct local names, provided no schema type name starts with `__tmp_`
    (GraphQL reserves names beginning with `__`; the schema check rejects them) -/
theorem localName_injective (bagIds : List String) (a b : Name)
    (ha : hasTmpPrefix a = false) (hb : hasTmpPrefix b = false)
    (h : localName bagIds a = localName bagIds b) : a = b := by
  unfold localName at h
  split at h <;> split at h
  · have := congrArg String.toList h
    simp only [String.toList_append, List.append_cancel_left_eq] at this
    exact String.toList_inj.1 this
  · exfalso; rw [← h] at hb; simp [hasTmpPrefix, String.toList_append] at hb
  · exfalso; rw [h] at ha; simp [hasTmpPrefix, String.toList_append] at ha
  · exact h

/-! ### closed form on the generated file: identifiers of scalar texts are global -/

theorem names_exportType (sn ln : String) (ty : Ty) (n : String)
    (h : n ∈ Stmt.typeNamesList (exportType sn ln ty)) : n = ln := by
  unfold exportType at h
  split at h <;> simpa [Stmt.typeNamesList, Stmt.typeNames] using h

theorem names_exportRepresentative (sn ln : String) (t : Target) (n : String)
    (h : n ∈ Stmt.typeNamesList (exportRepresentative sn ln t)) : n = ln := by
  unfold exportRepresentative at h
  split at h <;> simpa [Stmt.typeNamesList, Stmt.typeNames] using h

theorem names_descStmts (d : Option String) : Stmt.typeNamesList (descStmts d) = [] := by
  cases d <;> simp [descStmts, Stmt.typeNamesList, Stmt.typeNames]

theorem names_printType (x : Ctx) (td : TypeDef) (ss : List Stmt) (h : printType x td = .ok ss) (n : String)
    (hn : n ∈ Stmt.typeNamesList ss) : n = x.local td.name := by
  unfold printType at h
  split at h
  · cases h
  · cases h; simp [Stmt.typeNamesList] at hn
  · cases h
    rw [typeNamesList_append, names_descStmts] at hn
    exact names_exportType _ _ _ _ (by simpa using hn)

theorem names_namespaceBody (x : Ctx) : ∀ (tds : List TypeDef) (ss : List Stmt), namespaceBody x tds = .ok ss →
    ∀ n, n ∈ Stmt.typeNamesList ss → ∃ td ∈ tds, n = x.local td.name := by
  intro tds
  induction tds with
  | nil => intro ss h n hn; simp [namespaceBody] at h; subst h; simp [Stmt.typeNamesList] at hn
  | cons td rest ih =>
    intro ss h n hn
    simp only [namespaceBody] at h
    split at h
    · cases h
    · rename_i s1 h1
      split at h
      · cases h
      · rename_i r hr
        cases h
        rw [typeNamesList_append, List.mem_append] at hn
        rcases hn with hn | hn
        · exact ⟨td, List.mem_cons_self, names_printType x td s1 h1 n hn⟩
        · obtain ⟨td', htd', e⟩ := ih r hr n hn
          exact ⟨td', List.mem_cons_of_mem _ htd', e⟩

theorem names_namespaces (c : Cfg) (doc : TsDoc) : ∀ (ts : List Target) (ss : List Stmt),
    namespaces c doc ts = .ok ss → ∀ n, n ∈ Stmt.typeNamesList ss →
      ∃ td ∈ typeDefsOf doc, n = localName (bag (scalarTypes c doc)) td.name := by
  intro ts
  induction ts with
  | nil => intro ss h n hn; simp [namespaces] at h; subst h; simp [Stmt.typeNamesList] at hn
  | cons t rest ih =>
    intro ss h n hn
    simp only [namespaces] at h
    split at h
    · cases h
    · rename_i body hb
      split at h
      · cases h
      · rename_i r hr
        cases h
        simp only [Stmt.typeNamesList, Stmt.typeNames, List.mem_append] at hn
        rcases hn with hn | hn
        · exact names_namespaceBody _ _ _ hb n hn
        · exact ih r hr n hn

/-- Every `type` statement of the generated schema declaration file binds one of the three prelude names or the
    LOCAL name of a schema type. -/
theorem schemaFile_names (c : Cfg) (doc : TsDoc) (F : File) (hF : schemaFile c doc = .ok F) (n : String)
    (hn : n ∈ Stmt.typeNamesList F) :
    n ∈ ["__nitrogql_schema", "__Beautify", "__SelectionSet"] ∨
      ∃ td ∈ typeDefsOf doc, n = localName (bag (scalarTypes c doc)) td.name := by
  unfold schemaFile at hF
  split at hF
  · cases hF
  · rename_i ns hns
    cases hF
    simp only [typeNamesList_append, List.mem_append] at hn
    rcases hn with (hn | hn) | hn
    · left; simpa [prelude, Stmt.typeNamesList, Stmt.typeNames] using hn
    · right; exact names_namespaces c doc _ ns hns n hn
    · right
      obtain ⟨td, htd, h⟩ := typeNamesList_flatMap _ _ n hn
      refine ⟨td, htd, ?_⟩
      unfold representative at h
      simp only [typeNamesList_append, List.mem_append] at h
      rcases h with h | h
      · exact names_exportRepresentative _ _ _ _ h
      · split at h <;> simp [Stmt.typeNamesList, Stmt.typeNames] at h

/-- CLOSED FORM, first half of rename soundness, on the generated file itself: in the schema declaration file the
    model emits for ANY configuration and document, an identifier of a configured scalar TypeScript text is bound by
    NO declaration — from every namespace it resolves to nothing, i.e. it keeps its global TypeScript meaning and
    (in the semantics) denotes exactly its own atom. Side conditions: no scalar-text identifier starts with `__tmp_`
    (otherwise false: `C10_rename_counterexample`, open finding) and it is not one of the three prelude helper names. -/
theorem C10_scalar_idents_global (c : Cfg) (doc : TsDoc) (F : File) (hF : schemaFile c doc = .ok F)
    (hbag : ∀ i ∈ bag (scalarTypes c doc), hasTmpPrefix i = false)
    (id : String) (hid : id ∈ bag (scalarTypes c doc))
    (hpre : id ∉ ["__nitrogql_schema", "__Beautify", "__SelectionSet"]) (scope : Scope) (v : J) :
    (Decls.ofFile F).resolveRef scope id = none ∧
    (Mem (Env.ofFile F) v (globalise (Decls.ofFile F) scope [] (.ref id)) ↔ v = .atom id) := by
  have hnone : (Decls.ofFile F).resolveRef scope id = none := by
    apply resolveRef_none_of_unbound
    intro hn
    rcases schemaFile_names c doc F hF id hn with h | ⟨td, _, h⟩
    · exact hpre h
    · exact C10_rename_sound_partial _ hbag td.name (h ▸ hid)
  refine ⟨hnone, ?_⟩
  simp only [globalise, List.contains_nil, Bool.false_eq_true, if_false, hnone]
  exact mem_unresolved_ref_iff

/-- CLOSED FORM, second half of rename soundness, on the generated file itself: in the schema declaration file the
    model emits, inside the namespace of target `t` the LOCAL name of a schema type `td` that is printed for that
    target resolves to exactly the alias emitted for `td` in that namespace (its body is `td`'s body for `t`), and the
    generated reference `Ctx.leaf td.name` becomes the absolute reference to it. Hypotheses (guaranteed by the schema
    check): type names are distinct and none starts with `__tmp_`. -/
theorem C10_type_refs_resolve (c : Cfg) (doc : TsDoc) (F : File) (hF : schemaFile c doc = .ok F)
    (t : Target) (td : TypeDef) (ty : Ty) (hm : td ∈ typeDefsOf doc)
    (hb : body (Ctx.new c doc t) td = .ok (some ty))
    (hdistinct : ∀ a ∈ typeDefsOf doc, a.name = td.name → a = td)
    (hnames : ∀ a ∈ typeDefsOf doc, hasTmpPrefix a.name = false) :
    (Decls.ofFile F).findLocal [t.name] ((Ctx.new c doc t).local td.name)
      = some ⟨[t.name], (Ctx.new c doc t).local td.name, td.name == (Ctx.new c doc t).local td.name, [], ty⟩ ∧
    (Decls.ofFile F).resolveRef [t.name] ((Ctx.new c doc t).local td.name)
      = some ⟨[t.name], (Ctx.new c doc t).local td.name, td.name == (Ctx.new c doc t).local td.name, [], ty⟩ ∧
    globalise (Decls.ofFile F) [t.name] [] ((Ctx.new c doc t).leaf td.name)
      = Ty.abs [t.name] ((Ctx.new c doc t).local td.name) := by
  have hinj : ∀ a ∈ typeDefsOf doc,
      (Ctx.new c doc t).local a.name = (Ctx.new c doc t).local td.name → a = td := by
    intro a ha e
    exact hdistinct a ha (localName_injective _ _ _ (hnames a ha) (hnames td hm) e)
  have hfl : (Decls.ofFile F).findLocal [t.name] ((Ctx.new c doc t).local td.name)
      = some ⟨[t.name], (Ctx.new c doc t).local td.name, td.name == (Ctx.new c doc t).local td.name, [], ty⟩ := by
    unfold schemaFile at hF
    split at hF
    · cases hF
    · rename_i ns hns
      cases hF
      have hfind := find_namespaces c doc t td ty hb hm hinj Target.all ns hns (by cases t <;> simp [Target.all])
      simp only [Decls.findLocal, ofFile_types, declsList_append, List.find?_append]
      have hpre : (Stmt.declsList [] (prelude doc)).find?
          (fun x => x.scope == [t.name] && x.name == (Ctx.new c doc t).local td.name) = none := by
        simp [prelude, Stmt.declsList, Stmt.decls]
      have hns' : (Stmt.declsList [] ns).find?
          (fun x => x.scope == [t.name] && x.name == (Ctx.new c doc t).local td.name)
          = some ⟨[t.name], (Ctx.new c doc t).local td.name, td.name == (Ctx.new c doc t).local td.name, [], ty⟩ := hfind
      rw [hpre, hns']
      rfl
  have hres : (Decls.ofFile F).resolveRef [t.name] ((Ctx.new c doc t).local td.name)
      = some ⟨[t.name], (Ctx.new c doc t).local td.name, td.name == (Ctx.new c doc t).local td.name, [], ty⟩ := by
    simp [Decls.resolveRef, Decls.resolveRefAux, hfl]
  refine ⟨hfl, hres, ?_⟩
  simp only [Ctx.leaf, globalise, List.contains_nil, Bool.false_eq_true, if_false, hres, Ty.abs]

/-- END-TO-END for ENUMS on the generated file: inside the namespace of any target, the generated reference to an enum
    type of the document denotes exactly the string literals of its values (name resolution through the namespace,
    local renaming and the alias body included). -/
theorem C10_alias_exact_enum_closed (c : Cfg) (doc : TsDoc) (F : File) (hF : schemaFile c doc = .ok F)
    (t : Target) (td : TypeDef) (hm : td ∈ typeDefsOf doc) (hk : td.kind = .enum)
    (hdistinct : ∀ a ∈ typeDefsOf doc, a.name = td.name → a = td)
    (hnames : ∀ a ∈ typeDefsOf doc, hasTmpPrefix a.name = false) (v : J) :
    Mem (Env.ofFile F) v (globalise (Decls.ofFile F) [t.name] [] ((Ctx.new c doc t).leaf td.name))
      ↔ ∃ x ∈ td.values, v = .str x.name := by
  have hb : body (Ctx.new c doc t) td = .ok (some (enumBody td)) := by simp [body, hk]
  obtain ⟨hfl, _, hg⟩ := C10_type_refs_resolve c doc F hF t td _ hm hb hdistinct hnames
  have hglob : globalise (Decls.ofFile F) [t.name] [] (enumBody td) = enumBody td := by
    have hl : ∀ l : List EnumValueDef, globaliseList (Decls.ofFile F) [t.name] []
        (l.map fun v => Ty.strLit v.name) = l.map fun v => Ty.strLit v.name := by
      intro l; induction l with
      | nil => simp [globaliseList]
      | cons a r ih => simp [globaliseList, globalise, ih]
    have hu : ∀ ts : List Ty, globalise (Decls.ofFile F) [t.name] [] (tsUnion ts)
        = tsUnion (globaliseList (Decls.ofFile F) [t.name] [] ts) := by
      intro ts
      match ts with
      | [] => simp [tsUnion, globalise, globaliseList]
      | [a] => simp [tsUnion, globaliseList]
      | a :: b :: r => simp [tsUnion, globalise, globaliseList]
    rw [enumBody, hu, hl]
  have hbody : (Env.ofFile F).decls.body? ([t.name] ++ [(Ctx.new c doc t).local td.name]) = some ([], enumBody td) := by
    simp [Decls.body?, Env.ofFile, hfl, hglob]
  rw [hg, Ty.abs, mem_alias_iff hbody]
  exact C10_alias_exact_enum td v

/-! ### the resolvers declaration -/

def rootFields : Ty → List Field
  | .obj fs => fs
  | _ => []

/-- RESOLVERS. In the `Resolvers<Context>` record:
    (1) every object type `O` of the document has the entry `O: { f: __Resolver<O, Args, Context, Result>; … }` with one
        REQUIRED member per field `f`, where `Args` is the readonly record of `f`'s arguments typed through
        `Schema.__ResolverInput.*` and `Result` is `f`'s type through the file's local aliases — both built by the same
        `get_ts_type_of_type` wrapper construction as the schema declarations (so `ts_conf` applies to them);
    (2) every interface / union has the entry `{ __resolveType: __TypeResolver<P1 | … | Pn, Context, "P1" | … | "Pn"> }`
        over exactly `interface_implementers` resp. the union's members;
    (3) there is no other entry: every entry stems from an object, interface or union definition. -/
theorem C10_resolvers_exact (s : Schema) (tds : List TypeDef) :
    (∀ td ∈ tds, td.kind = .object →
      (td.name, false, isEmptyObject (.obj (td.fields.map fun f => (f.name, false, false, fieldResolver td.name f))),
        Ty.obj (td.fields.map fun f => (f.name, false, false,
          .app (.ref "__Resolver") [.ref td.name, argsType f.args, .ref "Context", tsOf .ref false f.ty])))
        ∈ rootFields (rootResolvers s tds)) ∧
    (∀ td ∈ tds, td.kind = .interface →
      (td.name, false, false, typeResolver (s.objectImplementers td.name)) ∈ rootFields (rootResolvers s tds)) ∧
    (∀ td ∈ tds, td.kind = .union →
      (td.name, false, false, typeResolver (td.members.map (·.1))) ∈ rootFields (rootResolvers s tds)) ∧
    (∀ f ∈ rootFields (rootResolvers s tds), ∃ td ∈ tds, f.1 = td.name ∧
      (td.kind = .object ∨ td.kind = .interface ∨ td.kind = .union)) := by
  refine ⟨?_, ?_, ?_, ?_⟩
  · intro td htd hk
    simp only [rootResolvers, rootFields, List.mem_filterMap]
    exact ⟨td, htd, by simp [resolverType, hk, fieldResolver]⟩
  · intro td htd hk
    simp only [rootResolvers, rootFields, List.mem_filterMap]
    exact ⟨td, htd, by simp [resolverType, hk, typeResolver, isEmptyObject]⟩
  · intro td htd hk
    simp only [rootResolvers, rootFields, List.mem_filterMap]
    exact ⟨td, htd, by simp [resolverType, hk, typeResolver, isEmptyObject]⟩
  · intro f hf
    simp only [rootResolvers, rootFields, List.mem_filterMap] at hf
    obtain ⟨td, htd, h⟩ := hf
    refine ⟨td, htd, ?_⟩
    cases hk : td.kind <;> simp [resolverType, hk] at h <;> simp [← h]

/-- the result type of a field resolver denotes the field's GraphQL type wrapper-exactly over the file's aliases,
    and an argument's type does so over `Schema.__ResolverInput.*` (instances of the wrapper lemma) -/
theorem resolver_result_conf (f : FieldDef) (v : J) :
    Mem e v (tsOf .ref false f.ty) ↔ Conf (fun n x => Mem e x (.ref n)) f.ty v :=
  ts_conf _ _ _ _

theorem resolver_arg_conf (a : InputValueDef) (v : J) :
    Mem e v (tsOf (fun n => .qref [ResolverDecls.schemaNs, Target.resolverInput.name, n]) false a.ty) ↔
      Conf (fun n x => Mem e x (.qref [ResolverDecls.schemaNs, Target.resolverInput.name, n])) a.ty v :=
  ts_conf _ _ _ _

/-! ### JSDoc and quoting -/

/-- Whatever the description contains, the text the printer writes between the opening `/**` and the closing
    `*/` of a JSDoc comment contains no `*/` (every `*/` of the description is written `*\/`), so the comment
    ends where the printer ends it and the rest of the file is lexed as intended. -/
theorem jsdoc_wellformed (d : List Char) : JsDoc.hasClose ('*' :: JsDoc.commentBody d) = false := by
  have hp : (fun l : List Char => [' ', '*', ' '] ++ l ++ ['\n']) = JsDoc.piece := by
    funext l; simp [JsDoc.piece]
  have hl : ∀ l ∈ JsDoc.docLinesC d, JsDoc.hasClose l = false := by
    intro l hl
    obtain ⟨l0, _, rfl⟩ := List.mem_map.1 hl
    exact JsDoc.hasClose_escape l0
  have := JsDoc.hasClose_pieces (JsDoc.docLinesC d) [' '] hl (by decide) (by decide)
  simp only [JsDoc.commentBody, hp]
  show JsDoc.hasClose ('*' :: '\n' :: (List.flatMap JsDoc.piece (JsDoc.docLinesC d) ++ [' '])) = false
  simp [JsDoc.hasClose, JsDoc.startsSlash, this]

/-- before the repair the statement was false: the body written for the description `*/` contained `*/` -/
theorem jsdoc_unescaped_counterexample :
    JsDoc.hasClose ('\n' :: ((JsDoc.lines (JsDoc.dedent ['*', '/'])).flatMap fun l => [' ', '*', ' '] ++ l ++ ['\n'])
      ++ [' ']) = true := by decide

/-- A key printed WITHOUT quotes (`is_raw_ident`) consists of ASCII letters, digits and `_` only and does not start
    with a digit — it is a TypeScript identifier name and contains nothing that would need escaping. Every other
    key is printed between double quotes. GraphQL names are always of the first kind (next theorem). -/
theorem key_quoting_sound (key : String) (h : isRawIdent key = true) :
    ∃ c r, key.toList = c :: r ∧ (c.isAlpha = true ∨ c = '_') ∧ ∀ d ∈ r, d.isAlphanum = true ∨ d = '_' := by
  unfold isRawIdent at h
  split at h
  · cases h
  · rename_i c r heq
    refine ⟨c, r, heq, ?_, ?_⟩
    · simp only [Bool.and_eq_true, Bool.or_eq_true, beq_iff_eq] at h; exact h.1
    · intro d hd
      simp only [Bool.and_eq_true, Bool.or_eq_true, beq_iff_eq, List.all_eq_true] at h
      exact h.2 d hd

/-- GraphQL `Name`s (`[_A-Za-z][_0-9A-Za-z]*`, the only keys and string-literal contents the schema printers
    emit: field, argument, type and enum value names) are raw identifiers, hence are printed verbatim and
    need no escape either as a key or inside `"…"`. -/
def isGraphQLName (s : String) : Bool :=
  match s.toList with
  | [] => false
  | c :: r => (c.isAlpha || c == '_') && r.all fun d => d.isAlpha || d.isDigit || d == '_'

theorem string_literal_sound (s : String) (h : isGraphQLName s = true) :
    isRawIdent s = true ∧ ∀ d ∈ s.toList, d ≠ '"' ∧ d ≠ '\\' ∧ d ≠ '\n' := by
  unfold isGraphQLName at h
  unfold isRawIdent
  split at h
  · cases h
  · rename_i c r heq
    rw [heq]
    simp only [Bool.and_eq_true, Bool.or_eq_true, beq_iff_eq, List.all_eq_true] at h
    refine ⟨?_, ?_⟩
    · simp only [Bool.and_eq_true, Bool.or_eq_true, beq_iff_eq, List.all_eq_true, Char.isAlphanum]
      exact ⟨h.1, fun d hd => by rcases h.2 d hd with (h | h) | h <;> simp [h]⟩
    · have key : ∀ d : Char, (d.isAlpha = true ∨ d.isDigit = true ∨ d = '_') → d ≠ '"' ∧ d ≠ '\\' ∧ d ≠ '\n' := by
        intro d hd
        refine ⟨?_, ?_, ?_⟩ <;> (rintro rfl; revert hd; decide)
      intro d hd
      rcases List.mem_cons.1 hd with rfl | hd
      · exact key _ (by rcases h.1 with h | h; exact Or.inl h; exact Or.inr (Or.inr h))
      · exact key _ (by rcases h.2 d hd with (h | h) | h; exact Or.inl h; exact Or.inr (Or.inl h); exact Or.inr (Or.inr h))


/-! ### OPEN — carried by K/O only

PROVED since (in `Props/C10Closed.lean`, proofs in `Lemmas/DeclsClosed*.lean`): `C10_alias_exact` in CLOSED form on the
generated file itself for ALL kinds (`C10_alias_exact_closed`, per kind `…_scalar_closed` / `…_object_closed` /
`…_input_closed` / `…_members_closed`, enums as before), the qualified route `<ns>.T` (`C10_alias_exact_qualified`), the
top-level representative (`C10_alias_exact_toplevel`), the file linked as a module `M.<ns>.T` / `M.T` — the forms the O
stream queries (`C10_alias_exact_module`, `_std`, `C10_alias_exact_module_toplevel`); and completeness of `memG`
(`membership_procedure_complete` / `_exact`). Their hypothesis `DocOK` = checked schema + the side condition on scalar
texts below.

PROVED since (second stage, `Props/C10Composed.lean` + `Props/C10ComposedChecked.lean`, proofs in
`Lemmas/DeclsComposed*.lean`): the same END TO END FROM THE SOURCE SCHEMA FILES — for every list of source items
(definitions and extensions of all kinds, any order / files) that `ExtResolve.resolve` accepts, every alias of the file
printed for the resolved document denotes `Ref` over C11's specification-level merge `refMerge src`
(`C10_from_sources`, per kind `…_object/_input/_enum/_union/_interface/_scalar` with the merged components explicit,
`C10_sources_types` / `_no_invented_alias`: nothing lost or invented, `C10_sources_print_ok_iff`,
`C10_sources_schema_metadata`, `C10_from_sources_perm`: the order of the source items is immaterial as long as the
extensions of each kind and name keep their relative order (`KeepsExtOrder`); the resolvers file:
`C10_resolvers_from_sources`, `C10_resolver_result_from_sources`, `C10_resolver_args_from_sources`); and the SCHEMA part of
`DocOK` is discharged by the schema check (`DocOK_of_checked`, `C10_from_sources_checked`,
`C10_resolvers_from_sources_checked`): what remains of `DocOK` is exactly the configuration part `CfgOK` below.

Still open (hypotheses no theorem discharges, and what only K/O carry):
* every theorem here is about the printer MODELS (`Model/SchemaDecls`, `ResolverDecls`, `DeclCfg`, `JsDoc`) and the
  hand-written semantics `Ts/Sem.lean`; that the models agree with the Rust printers is the K stream only, and `resolve` /
  `checkSchema` in the composed theorems are the C11 / C05 models.
* the side condition on configured scalar texts (`DocOK.bagOK` = `CfgOK.bagOK`): no identifier of a text starts with
  `__tmp_` (`C10_rename_counterexample`, open finding `findings/C10-fresh-name-captured.json`, seen on the real code) or is
  one of the printer's own seven identifiers (`__nitrogql_schema`, `__Beautify`, `__SelectionSet`, the four namespace
  names — second corner, `C10_namespace_capture_counterexample`: text `__OperationOutput.Foo`; kernel-checked on the MODEL,
  not replayed on the real code). Without it the full statement is false; the corners are contrived (the user's text has
  to mention generated identifiers).
* `DocOK.parses` = `CfgOK.parses`: the parse of a scalar text is supplied by the harness (`tsparse::parse_type`; no
  TypeScript parser in Lean); that it mentions only identifiers of the text and no internal `abs` node is assumed (K
  compares the trees).
* the SCHEMA part of `DocOK` is a plain hypothesis in `Props/C10Closed.lean` and `Props/C10Composed.lean`; only
  `Props/C10ComposedChecked.lean` derives it (from `checkSchema R = []`, for user items without built-in positions ++ the
  CLI's built-ins). That the items are what the schema files say (the parser) is assumed throughout.
* `kindFits`: the aliases are characterised only for kinds that fit the direction of the target; the top-level
  representative only for `repTarget`.
* the RESOLVERS file (closed forms PROVED since in `Props/C10Closed.lean`: `C10_resolver_args_closed` / `_std`: `Args` =
  `Ref_ResolverInput(args f)`; `C10_resolver_result_closed`: `Result` = the resolver result reference, `Omit<…,
  "__typename">` through `stdHook` included). Open there: (i) `ResolversOK` is only partly derived from the schema check
  (`ResolversOK_of_checked`, `C10_cli_resolversOK`): "no type named `Omit`", "only `type` / `interface` definitions carry
  fields" and "no scalar text applies `Omit<…>`" remain hypotheses, also of `C10_resolvers_from_sources_checked`;
  (ii) `Args` / `Result` are read at the TOP LEVEL of the resolvers file, and that `Resolvers[O][f]` is
  `__Resolver<O, Args, Context, Result>` with these `Args` / `Result` is the separate STRUCTURAL theorem
  `C10_resolvers_exact` / `C10_resolvers_from_sources`: the two are not joined under the binder of `Resolvers<Context>`,
  and schema types named like the file's other identifiers (`Context`, `Resolvers`, `ResolverOutput`, `Schema`,
  `GraphQLResolveInfo`) are not excluded by `ResolversOK`; (iii) the generic helper types `__Resolver` / `__TypeResolver`
  themselves (function types, kept as raw text) have no meaning in the value semantics.
* the model-plugin transforms of the resolvers file ("minus plugin-excluded") are not modelled and not exercised: the
  harness calls the printer with an empty plugin list.
-/

end NitroVerif.Props.C10
